// C18 — reference counts and evaluation statistics equal what the model contains.
// Three sub-checks: count (count.BuildCallMap / `coca count`), evaluate
// (evaluate.Analyser.Analysis on generated Java projects / `coca analysis` + `coca evaluate`),
// concept (concept.ConceptAnalyser.Analysis / `coca concept`).
package c18

import (
	"encoding/json"
	"fmt"
	"os"
	"path/filepath"
	"regexp"
	"sort"
	"strconv"
	"strings"
	"testing"

	"github.com/antlr/antlr4/runtime/Go/antlr/v4"
	parser "github.com/modernizing/coca/languages/java"
	"github.com/modernizing/coca/pkg/application/analysis/javaapp"
	"github.com/modernizing/coca/pkg/application/call/stop_words/languages"
	"github.com/modernizing/coca/pkg/application/concept"
	"github.com/modernizing/coca/pkg/application/count"
	"github.com/modernizing/coca/pkg/application/evaluate"
	"github.com/modernizing/coca/pkg/application/evaluate/evaluator"
	"github.com/modernizing/coca/pkg/domain/core_domain"
	"github.com/modernizing/coca/pkg/infrastructure/ast/ast_java"
	"github.com/modernizing/coca/pkg/infrastructure/ast/ast_java/java_identify"
	"github.com/modernizing/coca/pkg/infrastructure/constants"
	"github.com/modernizing/coca/pkg/infrastructure/string_helper"
	"pgregory.net/rapid"

	"verif/internal/cli"
	"verif/internal/mgen"
	"verif/internal/pbt"
)

// ---- shared helpers ------------------------------------------------------------------------

// quiet runs f with os.Stdout pointing at the null device (the passes print one line per file).
func quiet(f func()) {
	null, err := os.OpenFile(os.DevNull, os.O_WRONLY, 0)
	if err != nil {
		f()
		return
	}
	saved := os.Stdout
	os.Stdout = null
	defer func() {
		os.Stdout = saved
		null.Close()
	}()
	f()
}

// tableRows returns the body rows of a tablewriter table ("| a | b |" lines after the
// separator line), cells trimmed.
func tableRows(out string) [][]string {
	var rows [][]string
	body := false
	for _, line := range strings.Split(out, "\n") {
		line = strings.TrimSpace(line)
		if !strings.HasPrefix(line, "|") {
			continue
		}
		if strings.HasPrefix(line, "|-") {
			body = true
			continue
		}
		if !body {
			continue
		}
		cells := strings.Split(strings.Trim(line, "|"), "|")
		for i := range cells {
			cells[i] = strings.TrimSpace(cells[i])
		}
		rows = append(rows, cells)
	}
	return rows
}

// tableText keeps the table lines of a command's stdout (drops e.g. the elapsed-time line).
func tableText(out string) string {
	var keep []string
	for _, line := range strings.Split(out, "\n") {
		if strings.HasPrefix(strings.TrimSpace(line), "|") {
			keep = append(keep, line)
		}
	}
	return strings.Join(keep, "\n")
}

// ---- (a) reference counts --------------------------------------------------------------------

type CountCase struct {
	Model mgen.Model `json:"model"`
	Cli   bool       `json:"cli"`
}

func genCount(t *rapid.T) CountCase {
	m := genCountModel(t)
	// raise multiplicities: repeat some recorded calls (same site list, 0-5 copies in total)
	for ci := range m.Classes {
		for mi := range m.Classes[ci].Methods {
			calls := m.Classes[ci].Methods[mi].Calls
			if len(calls) == 0 {
				continue
			}
			extra := rapid.IntRange(0, 3).Draw(t, "repeat")
			for k := 0; k < extra; k++ {
				calls = append(calls, calls[rapid.IntRange(0, len(calls)-1).Draw(t, "which")])
			}
			m.Classes[ci].Methods[mi].Calls = calls
		}
	}
	k := rapid.IntRange(0, 49).Draw(t, "cli") // mid-range values: rapid favours the ends of a range
	return CountCase{Model: m, Cli: k == 31 || k == 17}
}

func checkCount(c CountCase) pbt.Verdict {
	declared := map[string]bool{}
	for _, m := range c.Model.Methods() {
		declared[m] = true
	}
	want := map[string]int{}
	sites, resolving := 0, 0
	perCaller := map[string]map[string]bool{}
	for _, cl := range c.Model.Classes {
		for _, m := range cl.Methods {
			for _, call := range m.Calls {
				sites++
				name := call.Full()
				if call.Node != "" && call.Func != "" && declared[name] {
					want[name]++
					resolving++
					caller := cl.Full() + "." + m.Name
					if perCaller[name] == nil {
						perCaller[name] = map[string]bool{}
					}
					perCaller[name][caller] = true
				}
			}
		}
	}
	deps := c.Model.ToCoca()
	var got map[string]int
	if p := pbt.Call(func() { got = count.BuildCallMap(deps) }); p != "" {
		return pbt.Fail("BuildCallMap panicked: %s", p)
	}
	var keys []string
	for k := range got {
		keys = append(keys, k)
	}
	sort.Strings(keys)
	sum := 0
	for _, k := range keys {
		if !declared[k] {
			return pbt.Fail("count map has %q = %d, which is not a declared method", k, got[k])
		}
		if want[k] == 0 {
			return pbt.Fail("count map lists %q = %d although no call site resolves to it", k, got[k])
		}
		if got[k] != want[k] {
			return pbt.Fail("count of %q is %d, the model has %d call sites resolving to it", k, got[k], want[k])
		}
		sum += got[k]
	}
	for _, k := range mgen.SortedCopy(c.Model.Methods()) {
		if want[k] > 0 && got[k] == 0 {
			return pbt.Fail("count map lacks %q, called at %d sites", k, want[k])
		}
	}
	if sum != resolving {
		return pbt.Fail("counts sum to %d, the model has %d resolving call sites", sum, resolving)
	}
	// a second count over the same model, and the listing order the command uses
	var again map[string]int
	if p := pbt.Call(func() { again = count.BuildCallMap(deps) }); p != "" {
		return pbt.Fail("second BuildCallMap on the same model panicked: %s", p)
	}
	if a, b := showCounts(again), showCounts(got); a != b {
		return pbt.Fail("second BuildCallMap on the same model gives %s, the first gave %s", a, b)
	}
	var first string
	for i := 0; i < 3; i++ {
		var listed string_helper.PairList
		if p := pbt.Call(func() { listed = string_helper.SortWord(got) }); p != "" {
			return pbt.Fail("SortWord panicked: %s", p)
		}
		var cells []string
		rest := map[string]int{}
		for k, n := range got {
			rest[k] = n
		}
		for _, pr := range listed {
			if n, ok := rest[pr.Key]; !ok || n != pr.Value {
				return pbt.Fail("the sorted listing has %s=%d, which is not an entry of the count map %s (or is listed twice)", pr.Key, pr.Value, showCounts(got))
			}
			delete(rest, pr.Key)
			cells = append(cells, fmt.Sprintf("%s=%d", pr.Key, pr.Value))
		}
		if len(rest) > 0 {
			return pbt.Fail("the sorted listing lacks %d of the %d counted methods", len(rest), len(got))
		}
		if text := strings.Join(cells, " "); i == 0 {
			first = text
		} else if text != first {
			return pbt.Fail("the %d counts are listed in different orders when the same map is sorted again", len(got))
		}
	}
	v := pbt.Verdict{}
	multi, repeatedByOne, uncalled, unresolved := false, false, false, sites > resolving
	for k, n := range want {
		if n >= 2 {
			multi = true
		}
		if n > len(perCaller[k]) {
			repeatedByOne = true
		}
	}
	for k := range declared {
		if want[k] == 0 {
			uncalled = true
		}
	}
	v.NonTrivial = multi && unresolved
	if multi {
		v.Classes = append(v.Classes, "count>=2")
	}
	if repeatedByOne {
		v.Classes = append(v.Classes, "one_caller_calls_twice")
	}
	if uncalled {
		v.Classes = append(v.Classes, "never_called_method")
	}
	if unresolved {
		v.Classes = append(v.Classes, "unresolved_call_sites")
	}
	if len(want) >= 3 {
		v.Classes = append(v.Classes, "called_methods>=3")
	}
	simple := map[string]bool{}
	for _, cl := range c.Model.Classes {
		if simple[cl.Name] {
			v.Classes = append(v.Classes, "class_name_in_two_packages")
			break
		}
		simple[cl.Name] = true
	}
	nearMiss, tie := false, false
	for _, cl := range c.Model.Classes {
		for _, m := range cl.Methods {
			for _, call := range m.Calls {
				if declared[call.Full()] || call.Func == "" {
					continue
				}
				for d := range declared {
					if strings.HasSuffix(d, "."+call.Node+"."+call.Func) || strings.HasSuffix(call.Full(), d) || strings.HasSuffix(d, call.Full()) {
						nearMiss = true
					}
				}
			}
		}
	}
	if nearMiss {
		v.Classes = append(v.Classes, "unresolved_site_differs_from_a_method_in_package_only")
	}
	byCount := map[int]int{}
	for _, n := range want {
		byCount[n]++
		if byCount[n] == 2 {
			tie = true
		}
	}
	if tie {
		v.Classes = append(v.Classes, "two_methods_with_equal_counts")
	}
	if c.Cli {
		v.Classes = append(v.Classes, "cli")
		if msg := countCLI(deps, want); msg != "" {
			return pbt.Fail("%s", msg)
		}
	}
	var lines []string
	for k, n := range want {
		lines = append(lines, fmt.Sprintf("%s=%d", k, n))
	}
	sort.Strings(lines)
	v.Canon = fmt.Sprintf("count|%v|%d|%v", lines, sites, c.Cli)
	return v
}

func showCounts(m map[string]int) string {
	var cells []string
	for k, n := range m {
		cells = append(cells, fmt.Sprintf("%s=%d", k, n))
	}
	sort.Strings(cells)
	return "[" + strings.Join(cells, " ") + "]"
}

func countCLI(deps []core_domain.CodeDataStruct, want map[string]int) string {
	dir := cli.Scratch("c18-count-")
	defer os.RemoveAll(dir)
	raw, _ := json.Marshal(deps)
	cli.WriteTree(dir, map[string]string{"deps.json": string(raw)})
	var outs []string
	for i := 0; i < 2; i++ {
		res, err := cli.Run("coca", dir, nil, "count", "-d", "deps.json")
		if err != nil {
			panic("cannot run coca: " + err.Error())
		}
		if res.ExitCode != 0 || res.TimedOut {
			return fmt.Sprintf("`coca count` run %d exited with %d (timed out: %v)\n%s", i+1, res.ExitCode, res.TimedOut, res.Stderr)
		}
		outs = append(outs, tableText(res.Stdout))
	}
	if outs[0] != outs[1] {
		// no output in the message: it differs from run to run, and rapid can only shrink a
		// case whose verdict text is stable
		return fmt.Sprintf("`coca count` listed the %d counts differently on two runs over the same deps.json", len(want))
	}
	seen := map[string]bool{}
	for _, row := range tableRows(outs[0]) {
		if len(row) != 2 {
			return fmt.Sprintf("`coca count`: cannot read table row %v\n%s", row, outs[0])
		}
		n, err := strconv.Atoi(row[0])
		if err != nil {
			return fmt.Sprintf("`coca count`: count cell %q is not a number\n%s", row[0], outs[0])
		}
		if seen[row[1]] {
			return fmt.Sprintf("`coca count` lists %q twice\n%s", row[1], outs[0])
		}
		seen[row[1]] = true
		if want[row[1]] != n {
			return fmt.Sprintf("`coca count` prints %d for %q, the model has %d resolving call sites\n%s", n, row[1], want[row[1]], outs[0])
		}
	}
	for k := range want {
		if !seen[k] {
			return fmt.Sprintf("`coca count` does not list %q (%d call sites)\n%s", k, want[k], outs[0])
		}
	}
	return ""
}

// ---- (b) evaluation summary on generated Java projects ---------------------------------------

type JParam struct {
	Type string `json:"type"`
	Name string `json:"name"`
	Ann  string `json:"ann,omitempty"` // annotation of the parameter (not of the method)
}

// JReturn is one return site: inside `if (Cond) { return Expr; }` when Cond != "", the
// closing return of the body otherwise.
type JStmt struct {
	Kind string `json:"kind"`           // "ifreturn", "ifelse", "filler", "forreturn", "whilereturn", "tryreturn", "switchreturn", "lambda"
	Cond string `json:"cond,omitempty"` // condition text; for a lambda: the form of its body ("block", "ifblock", "expr")
	Expr string `json:"expr,omitempty"` // expression kind of the (first) return; for a lambda: of the lambda's (first) return
	Else string `json:"else,omitempty"` // expression kind of the else-branch return (ifelse); for a lambda: of its closing return (ifblock)
	Text string `json:"text,omitempty"` // filler statement text (%d = number of the statement); for a lambda: how its parameter is written ("", "s", "(String s)")
	Bare bool   `json:"bare,omitempty"` // no braces around the return
}

type JMethod struct {
	Name     string   `json:"name"`
	Mods     []string `json:"mods"` // modifiers and at most one annotation ("@Nullable"), in source order
	OwnLine  bool     `json:"ownLine,omitempty"`
	Ret      string   `json:"ret"`
	Params   []JParam `json:"params,omitempty"`
	Stmts    []JStmt  `json:"stmts,omitempty"`
	Last     string   `json:"last,omitempty"` // expression kind of the closing return ("" = none, "bare" = `return;`)
	Abstract bool     `json:"abstract,omitempty"`
	Generic  bool     `json:"generic,omitempty"` // `<T>` between the modifiers and the return type
	Before   []string `json:"before,omitempty"`  // other members written before the method (fields, initialiser blocks)
}

type JClass struct {
	Layout  string    `json:"layout"` // "" or "src/main/java/"
	Pkg     string    `json:"pkg"`
	Name    string    `json:"name"`
	Mods    []string  `json:"mods"`
	Methods []JMethod `json:"methods"`
	After   []string  `json:"after,omitempty"` // other members written after the last method
}

type EvalCase struct {
	Classes []JClass `json:"classes"`
	Cli     bool     `json:"cli"`
}

var (
	baseNames   = []string{"Account", "Order", "Invoice", "Customer", "Report", "Ledger", "Parser", "Cart", "String", "Date"}
	suffixes    = []string{"", "", "", "Helper", "Manager", "Util", "Utils", "Service", "ServiceImpl"}
	// the word Util/Utils/Service also in front of and inside the name, not only at its end
	prefixes = []string{"", "", "", "", "", "", "Util", "Utils", "Service"}
	tails    = []string{"", "", "", "", "Helper", "Impl"}
	mNames      = []string{"load", "save", "findUser", "getName", "setName", "compute", "resolve", "parseInput", "toText", "isReady", "build", "apply", "handle", "fetchAll", "lookup", "getValue"}
	javaPkgs    = []string{"com.acme", "com.acme.core", "com.acme.web", "org.demo", "app", "com.acme.util", "org.demo.service.utils"}
	nullKinds   = map[string]bool{"null": true, "condNullThen": true, "condNullElse": true}
	refExprs    = []string{"lit", "field", "lit2", "condPlain", "null", "condNullThen", "condNullElse", "null"}
	// expressions that mention null without being able to return it (feature return_mentions_null)
	refMentions  = []string{"nullGuard", "nullText", "nullIdent", "nullArgCmp"}
	boolMentions = []string{"eqNull", "neNull"}
	intMentions  = []string{"nullCount"}
	conds       = []string{"flag", "count > 0", "value == null", "value != null", "count == 0 && flag"}
	fillers     = []string{"count = count + 2;", "count++;", "value = \"w\";", "flag = !flag;"}
	annotations = []string{"@Nullable", "@CheckForNull", "@Nullable", "@CheckForNull", "@Deprecated", "@SuppressWarnings(\"unchecked\")",
		// names that only resemble the two nullability annotations, and the marker form with parentheses
		"@NonNull", "@NotNullable", "@NullableDecl", "@Nullable()"}
	// the two annotations written with their package (feature qualified_nullable_annotation)
	qualifiedAnnotations = []string{"@javax.annotation.Nullable", "@javax.annotation.CheckForNull"}
	nullAnnotations      = map[string]bool{"@Nullable": true, "@CheckForNull": true, "@Nullable()": true, "@javax.annotation.Nullable": true, "@javax.annotation.CheckForNull": true}
	// members other than methods, written between the methods; %d is replaced by a number unique in the class
	otherMembers = []string{"private int extra%d;", "@Nullable private String extra%d;", "@CheckForNull private static Object extra%d;", "private static int extra%d = 0;",
		"static { count = %d; }", "private String extra%d = null;", "{ value = null; }", "private static final String extra%d = \"null\";"}
	loopKinds = []string{"forreturn", "whilereturn", "tryreturn", "switchreturn"}
	// statements that handle the null literal without returning it, and an annotated local
	// variable; %d is replaced by the number of the statement (local names stay unique)
	nullFillers = []string{"value = null;", "Object tmp%d = null;", "@Nullable Object tmp%d = value;", "if (value == null) { value = \"w\"; }"}
	// Members that hold a lambda: the returns of a lambda are not returns of any method of the
	// class. LAMBDA / TYPE are replaced by the text and the functional-interface type of the
	// lambda, %d by a number unique in the class.
	lambdaHolders = []string{"private TYPE extra%d = LAMBDA;", "private static final TYPE extra%d = LAMBDA;", "@Nullable private TYPE extra%d = LAMBDA;",
		"{ TYPE local = LAMBDA; }", "static { TYPE local = LAMBDA; count = %d; }"}
	lambdaForms  = []string{"block", "block", "ifblock", "expr"}
	lambdaParams = []string{"", "", "s", "(String s)"}
)

// lambdaSrc gives the functional-interface type and the text of a lambda whose body has the
// given form and whose parameter is written as param: `() -> { return E; }`,
// `s -> { if (flag) { return E; } return E2; }`, `(String s) -> E`.
func lambdaSrc(form, param, expr, other string) (typ, text string) {
	typ, head := "java.util.function.Supplier<String>", "()"
	if param != "" {
		typ, head = "java.util.function.Function<String, String>", param
	}
	switch form {
	case "block":
		return typ, head + " -> { " + returnText(expr) + " }"
	case "ifblock":
		return typ, head + " -> { if (flag) { " + returnText(expr) + " } " + returnText(other) + " }"
	case "expr":
		return typ, head + " -> " + exprText(expr)
	}
	panic("unknown lambda form " + form)
}

// lambdaGen draws a lambda returning a String: form, parameter style and the expression kinds of
// its returns (all kinds a String method can return, null included).
func lambdaGen(t *rapid.T) JStmt {
	s := JStmt{Kind: "lambda", Cond: rapid.SampledFrom(lambdaForms).Draw(t, "lambdaForm"), Text: rapid.SampledFrom(lambdaParams).Draw(t, "lambdaParam")}
	s.Expr = retExpr(t, "String")
	if s.Cond == "ifblock" {
		s.Else = retExpr(t, "String")
	}
	return s
}

// lambdaReturnsNull: the lambda (not the method or class around it) can return the null literal.
func lambdaReturnsNull(s JStmt) bool { return nullKinds[s.Expr] || nullKinds[s.Else] }

// memberGen draws one member that is not a method: a field or an initialiser block from
// otherMembers (low draws), or a field / initialiser block holding a lambda.
var memberGen = rapid.Custom(func(t *rapid.T) string {
	k := rapid.IntRange(0, len(otherMembers)+len(lambdaHolders)-1).Draw(t, "member")
	if k < len(otherMembers) {
		return otherMembers[k]
	}
	typ, text := lambdaText(lambdaGen(t))
	return strings.NewReplacer("TYPE", typ, "LAMBDA", text).Replace(lambdaHolders[k-len(otherMembers)])
})

func lambdaText(s JStmt) (string, string) { return lambdaSrc(s.Cond, s.Text, s.Expr, s.Else) }

// memberHasLambda / memberLambdaReturnsNull classify the text of a member (evidence labels only).
func memberHasLambda(text string) bool { return strings.Contains(text, " -> ") }

func memberLambdaReturnsNull(text string) bool {
	i := strings.Index(text, " -> ")
	if i < 0 {
		return false
	}
	for k := range nullKinds {
		if e := exprText(k); strings.Contains(text[i:], "return "+e+";") || strings.HasPrefix(text[i:], " -> "+e+";") {
			return true
		}
	}
	return false
}

func permute(t *rapid.T, in []string, label string) []string {
	out := append([]string{}, in...)
	// Fisher-Yates with drawn indices; all-zero draws keep the conventional order
	for i := 0; i < len(out)-1; i++ {
		j := i + rapid.IntRange(0, len(out)-1-i).Draw(t, label)
		out[i], out[j] = out[j], out[i]
	}
	return out
}

// Generators are built from rapid.Custom / rapid.SliceOfN so that the shrinker can delete
// whole classes, methods, statements and parameters; flags are "on" for high draws so that
// shrinking moves towards the plain variant.
func stmtGen(ret string) *rapid.Generator[JStmt] {
	return rapid.Custom(func(t *rapid.T) JStmt {
		k := rapid.IntRange(0, 7).Draw(t, "stmt")
		if k < 2 {
			return JStmt{Kind: "filler", Text: rapid.SampledFrom(fillers).Draw(t, "filler")}
		}
		if k == 6 {
			// the null literal in a statement that is not a return; an annotated local variable
			return JStmt{Kind: "filler", Text: rapid.SampledFrom(nullFillers).Draw(t, "nullFiller")}
		}
		if k == 7 {
			// a local variable initialised with a lambda: the lambda's returns are not the method's
			s := lambdaGen(t)
			if lambdaReturnsNull(s) && pbt.Excluded("lambda_in_method_returns_null") {
				s.Expr, s.Else = "lit", ""
				if s.Cond == "ifblock" {
					s.Else = "field"
				}
			}
			return s
		}
		if k == 5 {
			// a return inside a loop, a catch clause or a switch group: still "on some path"
			return JStmt{Kind: rapid.SampledFrom(loopKinds).Draw(t, "nesting"), Cond: rapid.SampledFrom(conds).Draw(t, "cond"), Expr: retExpr(t, ret)}
		}
		return JStmt{Kind: "ifreturn", Cond: rapid.SampledFrom(conds).Draw(t, "cond"), Expr: retExpr(t, ret),
			Bare: rapid.IntRange(0, 3).Draw(t, "bareIf") == 3}
	})
}

var paramGen = rapid.Custom(func(t *rapid.T) JParam {
	p := JParam{Type: rapid.SampledFrom([]string{"String", "int", "boolean", "Object"}).Draw(t, "ptype")}
	if (p.Type == "String" || p.Type == "Object") && rapid.IntRange(0, 5).Draw(t, "annotatedParam") == 5 {
		// annotates the parameter, not the method
		p.Ann = rapid.SampledFrom([]string{"@Nullable", "@CheckForNull"}).Draw(t, "paramAnnotation")
	}
	return p
})

func methodGen(abstractClass bool) *rapid.Generator[JMethod] {
	return rapid.Custom(func(t *rapid.T) JMethod {
		m := JMethod{Name: rapid.SampledFrom(mNames).Draw(t, "mname")}
		m.Ret = rapid.SampledFrom([]string{"String", "String", "String", "Object", "void", "int", "boolean"}).Draw(t, "ret")
		var mods []string
		access := rapid.SampledFrom([]string{"public", "public", "private", "protected", ""}).Draw(t, "access")
		if abstractClass && rapid.IntRange(0, 3).Draw(t, "abstract") == 3 {
			m.Abstract = true
			if access == "private" {
				access = "protected"
			}
			if access != "" {
				mods = append(mods, access)
			}
			mods = append(mods, "abstract")
		} else {
			if access != "" {
				mods = append(mods, access)
			}
			for _, x := range []string{"static", "final", "synchronized"} {
				if rapid.IntRange(0, 2).Draw(t, x) == 2 {
					mods = append(mods, x)
				}
			}
		}
		mods = permute(t, mods, "perm")
		ref := m.Ret == "String" || m.Ret == "Object"
		if rapid.IntRange(0, 2).Draw(t, "annotated") == 2 {
			pool := annotations
			if !pbt.Excluded("qualified_nullable_annotation") {
				pool = append(append([]string{}, annotations...), qualifiedAnnotations...)
			}
			a := rapid.SampledFrom(pool).Draw(t, "annotation")
			if !ref && nullAnnotations[a] {
				a = "@Deprecated"
			}
			pos := 0
			if rapid.IntRange(0, 2).Draw(t, "annotationElsewhere") == 2 {
				pos = rapid.IntRange(0, len(mods)).Draw(t, "annotationPos")
			}
			mods = append(mods[:pos], append([]string{a}, mods[pos:]...)...)
			if nullAnnotations[a] && rapid.IntRange(0, 2).Draw(t, "bothNullAnnotations") == 2 {
				// both nullability annotations on one method: it is still listed once
				other := "@CheckForNull"
				if strings.HasSuffix(a, "CheckForNull") {
					other = "@Nullable"
				}
				mods = append(mods[:pos+1], append([]string{other}, mods[pos+1:]...)...)
			}
			m.OwnLine = pos == 0 && rapid.Bool().Draw(t, "ownLine")
		}
		m.Mods = mods
		if rapid.IntRange(0, 5).Draw(t, "generic") == 5 && !pbt.Excluded("generic_method") {
			m.Generic = true
		}
		maxParams := rapid.SampledFrom([]int{0, 1, 1, 2, 2, 5}).Draw(t, "maxParams")
		m.Params = rapid.SliceOfN(paramGen, 0, maxParams).Draw(t, "params")
		for i := range m.Params {
			m.Params[i].Name = fmt.Sprintf("p%d", i)
		}
		if m.Abstract {
			return m
		}
		m.Stmts = rapid.SliceOfN(stmtGen(m.Ret), 0, 3).Draw(t, "stmts")
		switch {
		case m.Ret == "void":
			if rapid.IntRange(0, 4).Draw(t, "bareReturn") == 4 {
				m.Last = "bare"
			}
		case rapid.IntRange(0, 4).Draw(t, "endsWithIfElse") == 4:
			// both branches return: nothing may follow (it would be unreachable)
			m.Stmts = append(m.Stmts, JStmt{Kind: "ifelse", Cond: rapid.SampledFrom(conds).Draw(t, "cond"), Expr: retExpr(t, m.Ret), Else: retExpr(t, m.Ret)})
		default:
			m.Last = retExpr(t, m.Ret)
		}
		return m
	})
}

func retExpr(t *rapid.T, ret string) string {
	mention := func(pool, mentions []string) []string {
		if pbt.Excluded("return_mentions_null") {
			return pool
		}
		return append(append([]string{}, pool...), mentions...)
	}
	switch ret {
	case "String", "Object":
		return rapid.SampledFrom(mention(refExprs, refMentions)).Draw(t, "expr")
	case "int":
		return rapid.SampledFrom(mention([]string{"zero", "count"}, intMentions)).Draw(t, "expr")
	case "boolean":
		return rapid.SampledFrom(mention([]string{"flag", "true"}, boolMentions)).Draw(t, "expr")
	}
	return "bare"
}

func classGen(layout string) *rapid.Generator[JClass] {
	return rapid.Custom(func(t *rapid.T) JClass {
		cl := JClass{Layout: layout, Pkg: rapid.SampledFrom(javaPkgs).Draw(t, "pkg")}
		cl.Name = rapid.SampledFrom(baseNames).Draw(t, "base") + rapid.SampledFrom(suffixes).Draw(t, "suffix")
		cl.Name = rapid.SampledFrom(prefixes).Draw(t, "prefix") + cl.Name + rapid.SampledFrom(tails).Draw(t, "tail")
		abstract := rapid.IntRange(0, 3).Draw(t, "abstractClass") == 3
		var mods []string
		if rapid.IntRange(0, 4).Draw(t, "packagePrivateClass") < 4 {
			mods = append(mods, "public")
		}
		if abstract {
			mods = append(mods, "abstract")
		} else if rapid.IntRange(0, 4).Draw(t, "finalClass") == 4 {
			mods = append(mods, "final")
		}
		cl.Mods = permute(t, mods, "classPerm")
		cl.Methods = rapid.SliceOfN(methodGen(abstract), 0, 5).Draw(t, "methods")
		used := map[string]bool{}
		for j := range cl.Methods {
			if used[cl.Methods[j].Name] {
				cl.Methods[j].Name = fmt.Sprintf("%s%c", cl.Methods[j].Name, 'A'+j)
			}
			used[cl.Methods[j].Name] = true
		}
		// fields and initialiser blocks between the methods
		extra := 0
		number := func(texts []string) []string {
			var out []string
			for _, text := range texts {
				extra++
				out = append(out, strings.ReplaceAll(text, "%d", fmt.Sprint(extra)))
			}
			return out
		}
		for j := range cl.Methods {
			cl.Methods[j].Before = number(rapid.SliceOfN(memberGen, 0, 2).Draw(t, "membersBefore"))
		}
		// ... and after the last method (the only members of a class without methods)
		cl.After = number(rapid.SliceOfN(memberGen, 0, 2).Draw(t, "membersAfter"))
		return cl
	})
}

func genEval(t *rapid.T) EvalCase {
	var c EvalCase
	layout := rapid.SampledFrom([]string{"", "src/main/java/"}).Draw(t, "layout")
	seen := map[string]bool{}
	for _, cl := range rapid.SliceOfN(classGen(layout), 1, 4).Draw(t, "classes") {
		if !seen[cl.Pkg+"."+cl.Name] {
			seen[cl.Pkg+"."+cl.Name] = true
			c.Classes = append(c.Classes, cl)
		}
	}
	// the same class (simple name, methods) once more in another package
	if rapid.IntRange(0, 3).Draw(t, "twin") == 3 {
		twin := c.Classes[rapid.IntRange(0, len(c.Classes)-1).Draw(t, "twinOf")]
		twin.Pkg = rapid.SampledFrom(javaPkgs).Draw(t, "twinPkg")
		if !seen[twin.Pkg+"."+twin.Name] {
			seen[twin.Pkg+"."+twin.Name] = true
			c.Classes = append(c.Classes, twin)
		}
	}
	c.Cli = rapid.IntRange(0, 9).Draw(t, "cli") == 9
	return c
}

func exprText(kind string) string {
	switch kind {
	case "null":
		return "null"
	case "lit":
		return `"x"`
	case "lit2":
		return `"none"`
	case "field":
		return "value"
	case "condPlain":
		return `flag ? "a" : "b"`
	case "condNullThen":
		return `flag ? null : "x"`
	case "condNullElse":
		return `count > 0 ? value : null`
	case "zero":
		return "0"
	case "count":
		return "count"
	case "flag":
		return "flag"
	case "true":
		return "true"
	case "nullGuard":
		return `value != null ? value : "d"`
	case "nullText":
		return `"null"`
	case "nullIdent":
		return "nullable"
	case "nullArgCmp":
		return "String.valueOf(value == null)"
	case "eqNull":
		return "value == null"
	case "neNull":
		return "value != null && flag"
	case "nullCount":
		return "value == null ? 0 : count"
	}
	panic("unknown expression kind " + kind)
}

func returnText(kind string) string {
	if kind == "bare" {
		return "return;"
	}
	return "return " + exprText(kind) + ";"
}

func (cl JClass) path() string {
	return cl.Layout + strings.ReplaceAll(cl.Pkg, ".", "/") + "/" + cl.Name + ".java"
}

func (cl JClass) render() string {
	var b strings.Builder
	fmt.Fprintf(&b, "package %s;\n\n", cl.Pkg)
	imports := map[string]bool{}
	need := func(text string) {
		for _, a := range []string{"Nullable", "CheckForNull"} {
			if strings.HasPrefix(text, "@"+a+" ") || text == "@"+a || text == "@"+a+"()" {
				imports["javax.annotation."+a] = true
			}
		}
	}
	for _, m := range cl.Methods {
		for _, x := range m.Mods {
			need(x)
		}
		for _, x := range m.Before {
			need(x)
		}
		for _, p := range m.Params {
			need(p.Ann)
		}
		for _, st := range m.Stmts {
			need(st.Text)
		}
	}
	for _, x := range cl.After {
		need(x)
	}
	var imps []string
	for k := range imports {
		imps = append(imps, k)
	}
	sort.Strings(imps)
	for _, k := range imps {
		fmt.Fprintf(&b, "import %s;\n", k)
	}
	if len(imps) > 0 {
		b.WriteString("\n")
	}
	if len(cl.Mods) > 0 {
		b.WriteString(strings.Join(cl.Mods, " ") + " ")
	}
	fmt.Fprintf(&b, "class %s {\n", cl.Name)
	b.WriteString("    private static String value = \"v\";\n    private static boolean flag;\n    private static int count;\n    private static String nullable = \"n\";\n")
	for _, m := range cl.Methods {
		for _, x := range m.Before {
			b.WriteString("\n    " + x + "\n")
		}
		b.WriteString("\n    ")
		mods := m.Mods
		if m.OwnLine && len(mods) > 0 && strings.HasPrefix(mods[0], "@") {
			b.WriteString(mods[0] + "\n    ")
			mods = mods[1:]
		}
		if len(mods) > 0 {
			b.WriteString(strings.Join(mods, " ") + " ")
		}
		var ps []string
		for _, p := range m.Params {
			if p.Ann != "" {
				ps = append(ps, p.Ann+" "+p.Type+" "+p.Name)
			} else {
				ps = append(ps, p.Type+" "+p.Name)
			}
		}
		if m.Generic {
			b.WriteString("<T> ")
		}
		fmt.Fprintf(&b, "%s %s(%s)", m.Ret, m.Name, strings.Join(ps, ", "))
		if m.Abstract {
			b.WriteString(";\n")
			continue
		}
		b.WriteString(" {\n")
		for si, s := range m.Stmts {
			switch s.Kind {
			case "filler":
				b.WriteString("        " + strings.ReplaceAll(s.Text, "%d", fmt.Sprint(si)) + "\n")
			case "lambda":
				typ, text := lambdaText(s)
				fmt.Fprintf(&b, "        %s fn%d = %s;\n", typ, si, text)
			case "ifreturn":
				if s.Bare {
					fmt.Fprintf(&b, "        if (%s) %s\n", s.Cond, returnText(s.Expr))
				} else {
					fmt.Fprintf(&b, "        if (%s) {\n            %s\n        }\n", s.Cond, returnText(s.Expr))
				}
			case "ifelse":
				fmt.Fprintf(&b, "        if (%s) {\n            %s\n        } else {\n            %s\n        }\n", s.Cond, returnText(s.Expr), returnText(s.Else))
			case "forreturn":
				fmt.Fprintf(&b, "        for (int i = 0; i < count; i++) {\n            if (%s) {\n                %s\n            }\n        }\n", s.Cond, returnText(s.Expr))
			case "whilereturn":
				fmt.Fprintf(&b, "        while (count > 3) {\n            count--;\n            if (%s) %s\n        }\n", s.Cond, returnText(s.Expr))
			case "tryreturn":
				fmt.Fprintf(&b, "        try {\n            count = count / 2;\n        } catch (RuntimeException e) {\n            %s\n        }\n", returnText(s.Expr))
			case "switchreturn":
				fmt.Fprintf(&b, "        switch (count) {\n        case 1:\n            %s\n        default:\n            break;\n        }\n", returnText(s.Expr))
			default:
				panic("unknown statement kind " + s.Kind)
			}
		}
		if m.Last != "" {
			b.WriteString("        " + returnText(m.Last) + "\n")
		}
		b.WriteString("    }\n")
	}
	for _, x := range cl.After {
		b.WriteString("\n    " + x + "\n")
	}
	b.WriteString("}\n")
	return b.String()
}

// ---- syntax validation with the shipped parser ------------------------------------------------

type errListener struct {
	*antlr.DefaultErrorListener
	errs []string
}

func (l *errListener) SyntaxError(_ antlr.Recognizer, _ interface{}, line, column int, msg string, _ antlr.RecognitionException) {
	l.errs = append(l.errs, fmt.Sprintf("%d:%d %s", line, column, msg))
}

func syntaxErrors(text string) []string {
	l := &errListener{DefaultErrorListener: antlr.NewDefaultErrorListener()}
	lexer := parser.NewJavaLexer(antlr.NewInputStream(text))
	lexer.RemoveErrorListeners()
	lexer.AddErrorListener(l)
	p := parser.NewJavaParser(antlr.NewCommonTokenStream(lexer, 0))
	p.RemoveErrorListeners()
	p.AddErrorListener(l)
	p.CompilationUnit()
	return l.errs
}

// ---- the evaluate check -----------------------------------------------------------------------

type evalWant struct {
	classes, methods, static, utils int
	nullable                        map[string]bool
}

var utilWord = regexp.MustCompile(`Utils?($|[A-Z])`)

func expectEval(c EvalCase) evalWant {
	w := evalWant{nullable: map[string]bool{}}
	for _, cl := range c.Classes {
		w.classes++
		if utilWord.MatchString(cl.Name) {
			w.utils++
		}
		for _, m := range cl.Methods {
			w.methods++
			isNull := false
			for _, x := range m.Mods {
				if x == "static" {
					w.static++
				}
				if nullAnnotations[x] {
					isNull = true
				}
			}
			for _, s := range m.Stmts {
				// fillers do not return; the returns of a lambda are not returns of the method
				if s.Kind != "filler" && s.Kind != "lambda" && (nullKinds[s.Expr] || nullKinds[s.Else]) {
					isNull = true
				}
			}
			if nullKinds[m.Last] {
				isNull = true
			}
			if isNull {
				w.nullable[cl.Pkg+"."+cl.Name+"."+m.Name] = true
			}
		}
	}
	return w
}

func resetJava() {
	ast_java.VerifResetAstJava()
	java_identify.VerifResetJavaIdentify()
	evaluator.VerifResetEvaluator()
}

func checkEval(c EvalCase) pbt.Verdict {
	files := map[string]string{}
	for _, cl := range c.Classes {
		text := cl.render()
		if errs := syntaxErrors(text); len(errs) > 0 {
			panic(fmt.Sprintf("GENERATOR BUG: the shipped Java parser rejects a generated file: %v\n%s", errs, text))
		}
		files["proj/"+cl.path()] = text
	}
	dir := cli.Scratch("c18-eval-")
	defer os.RemoveAll(dir)
	cli.WriteTree(dir, files)
	if len(files) == 0 {
		_ = os.MkdirAll(filepath.Join(dir, "proj"), 0755)
	}
	want := expectEval(c)
	resetJava()
	var result evaluator.EvaluateModel
	var nodesKept, identsKept []core_domain.CodeDataStruct
	if p := pbt.Call(func() {
		quiet(func() {
			src := filepath.Join(dir, "proj")
			idApp := javaapp.NewJavaIdentifierApp()
			idents := idApp.AnalysisPath(src)
			fullApp := javaapp.NewJavaFullApp()
			nodes := fullApp.AnalysisPath(src, idents)
			nodesKept, identsKept = nodes, idents
			result = evaluate.NewEvaluateAnalyser().Analysis(nodes, idents)
		})
	}); p != "" {
		return pbt.Fail("analysis + evaluation panicked: %s\n%s", p, dump(files))
	}
	if msg := compareEval("Analyser.Analysis", want, result.Summary.ClassCount, result.Summary.MethodCount, result.Summary.StaticMethodCount, result.Summary.UtilsCount); msg != "" {
		return pbt.Fail("%s\n%s", msg, dump(files))
	}
	seen := map[string]bool{}
	for _, it := range mgen.SortedCopy(result.Nullable.Items) {
		if seen[it] {
			return pbt.Fail("Nullable.Items lists %q twice\n%s", it, dump(files))
		}
		seen[it] = true
		if !want.nullable[it] {
			return pbt.Fail("Nullable.Items lists %q, which neither returns the null literal nor is annotated @Nullable/@CheckForNull\n%s", it, dump(files))
		}
	}
	for _, it := range sortedSet(want.nullable) {
		if !seen[it] {
			return pbt.Fail("Nullable.Items lacks %q (returns null on some path or is annotated); listed: %v\n%s", it, mgen.SortedCopy(result.Nullable.Items), dump(files))
		}
	}
	// the same evaluation once more on the same parsed lists: nothing may have been used up,
	// accumulated or rewritten by the first one
	var again evaluator.EvaluateModel
	if p := pbt.Call(func() { again = evaluate.NewEvaluateAnalyser().Analysis(nodesKept, identsKept) }); p != "" {
		return pbt.Fail("second evaluation of the same lists panicked: %s\n%s", p, dump(files))
	}
	if msg := compareEval("second Analyser.Analysis on the same lists", want, again.Summary.ClassCount, again.Summary.MethodCount, again.Summary.StaticMethodCount, again.Summary.UtilsCount); msg != "" {
		return pbt.Fail("%s\n%s", msg, dump(files))
	}
	if a, b := strings.Join(mgen.SortedCopy(again.Nullable.Items), " "), strings.Join(mgen.SortedCopy(result.Nullable.Items), " "); a != b {
		return pbt.Fail("second Analyser.Analysis on the same lists: Nullable.Items [%s], the first evaluation gave [%s]\n%s", a, b, dump(files))
	}
	if c.Cli {
		if msg := evalCLI(dir, want); msg != "" {
			return pbt.Fail("%s\n%s", msg, dump(files))
		}
	}
	return classifyEval(c, want)
}

func compareEval(what string, w evalWant, classes, methods, static, utils int) string {
	switch {
	case classes != w.classes:
		return fmt.Sprintf("%s: ClassCount %d, the sources declare %d classes", what, classes, w.classes)
	case methods != w.methods:
		return fmt.Sprintf("%s: MethodCount %d, the sources declare %d methods", what, methods, w.methods)
	case static != w.static:
		return fmt.Sprintf("%s: StaticMethodCount %d, the sources declare %d static methods", what, static, w.static)
	case utils != w.utils:
		return fmt.Sprintf("%s: UtilsCount %d, the sources declare %d utility classes", what, utils, w.utils)
	}
	return ""
}

func sortedSet(m map[string]bool) []string {
	var out []string
	for k := range m {
		out = append(out, k)
	}
	sort.Strings(out)
	return out
}

func dump(files map[string]string) string {
	var names []string
	for k := range files {
		names = append(names, k)
	}
	sort.Strings(names)
	var b strings.Builder
	for _, k := range names {
		fmt.Fprintf(&b, "--- %s\n%s", k, files[k])
	}
	return b.String()
}

// evalCLI runs `coca analysis -p proj` and `coca evaluate` in dir and reads the stdout table.
func evalCLI(dir string, w evalWant) string {
	res, err := cli.Run("coca", dir, nil, "analysis", "-p", "proj")
	if err != nil {
		panic("cannot run coca: " + err.Error())
	}
	if res.ExitCode != 0 || res.TimedOut {
		return fmt.Sprintf("`coca analysis -p proj` exited with %d\n%s", res.ExitCode, res.Stderr)
	}
	res, err = cli.Run("coca", dir, nil, "evaluate")
	if err != nil {
		panic("cannot run coca: " + err.Error())
	}
	if res.ExitCode != 0 || res.TimedOut {
		return fmt.Sprintf("`coca evaluate` exited with %d\n%s%s", res.ExitCode, res.Stdout, res.Stderr)
	}
	got := map[string][2]int{}
	for _, row := range tableRows(res.Stdout) {
		if len(row) < 4 {
			continue
		}
		a, errA := strconv.Atoi(row[1])
		b, errB := strconv.Atoi(row[3])
		if errA == nil && errB == nil {
			got[row[0]] = [2]int{a, b}
		}
	}
	for _, x := range []struct {
		row        string
		count, tot int
	}{{"Nullable / Return Null", len(w.nullable), w.methods}, {"Utils", w.utils, w.classes}, {"Static Method", w.static, w.methods}} {
		g, ok := got[x.row]
		if !ok {
			return fmt.Sprintf("`coca evaluate`: no row %q in the table\n%s", x.row, tableText(res.Stdout))
		}
		if g[0] != x.count || g[1] != x.tot {
			return fmt.Sprintf("`coca evaluate`: row %q shows count %d of %d, the sources give %d of %d\n%s", x.row, g[0], g[1], x.count, x.tot, tableText(res.Stdout))
		}
	}
	return ""
}

func memberLabels(set map[string]bool, text string) {
	if !memberHasLambda(text) {
		return
	}
	set["lambda_in_field_or_initialiser"] = true
	if strings.Contains(text, "{ java.util.function") {
		set["lambda_in_initialiser_block"] = true
	}
	if memberLambdaReturnsNull(text) {
		set["lambda_member_returns_null"] = true
	}
	if !strings.Contains(text, "return") {
		set["expression_lambda"] = true
	}
}

func classifyEval(c EvalCase, w evalWant) pbt.Verdict {
	v := pbt.Verdict{}
	set := map[string]bool{}
	simple := map[string]int{}
	for _, cl := range c.Classes {
		simple[cl.Name]++
		if simple[cl.Name] == 2 {
			set["class_name_in_two_packages"] = true
		}
		if strings.Contains(cl.Name, "Util") && !strings.HasSuffix(cl.Name, "Util") && !strings.HasSuffix(cl.Name, "Utils") {
			set["util_not_at_end_of_name"] = true
		}
		if strings.Contains(cl.Name, "Util") {
			set["util_class"] = true
		} else if strings.Contains(cl.Pkg, "util") {
			set["plain_class_in_a_util_package"] = true
		}
		if strings.Contains(cl.Name, "Service") {
			set["service_class"] = true
		}
		for _, m := range cl.Methods {
			var plain []string
			annPos := -1
			for i, x := range m.Mods {
				if strings.HasPrefix(x, "@") {
					annPos = i
					if nullAnnotations[x] {
						set["nullable_annotation"] = true
						if i > 0 {
							set["nullable_annotation_not_first"] = true
						}
						if strings.Contains(x, ".") {
							set["nullable_annotation_with_package"] = true
						}
						if m.Generic {
							set["nullable_annotation_on_generic_method"] = true
						}
					} else {
						set["other_annotation"] = true
						if strings.Contains(x, "Null") {
							set["annotation_resembling_nullable"] = true
						}
					}
				} else {
					plain = append(plain, x)
				}
			}
			_ = annPos
			for i, x := range plain {
				if x == "static" {
					set["static_method"] = true
					if m.Generic {
						set["static_generic_method"] = true
					}
					if i < len(plain)-1 {
						set["static_not_last_modifier"] = true
						v.NonTrivial = true
					}
				}
			}
			if len(plain) >= 3 {
				set["modifiers>=3"] = true
			}
			if m.Abstract {
				set["abstract_method"] = true
			}
			// return sites in order
			var sites []string
			for _, s := range m.Stmts {
				if s.Kind == "ifreturn" {
					sites = append(sites, s.Expr)
				}
				if strings.HasSuffix(s.Kind, "return") && s.Kind != "ifreturn" {
					sites = append(sites, s.Expr)
					if nullKinds[s.Expr] {
						set["return_null_in_loop_catch_switch"] = true
					}
				}
				if s.Kind == "ifelse" {
					sites = append(sites, s.Expr, s.Else)
				}
			}
			if m.Last != "" && m.Last != "bare" {
				sites = append(sites, m.Last)
			}
			hasMention, hasNullSite, nullAnn := false, false, false
			for _, k := range sites {
				switch k {
				case "nullGuard", "nullText", "nullIdent", "nullArgCmp", "eqNull", "neNull", "nullCount":
					hasMention = true
				}
				hasNullSite = hasNullSite || nullKinds[k]
			}
			for _, x := range m.Mods {
				nullAnn = nullAnn || nullAnnotations[x]
			}
			if hasMention {
				set["return_mentions_null"] = true
				if !hasNullSite && !nullAnn {
					set["not_nullable_although_null_is_mentioned"] = true
				}
			}
			for _, p := range m.Params {
				if p.Ann != "" {
					set["annotated_parameter"] = true
				}
			}
			for _, x := range m.Before {
				set["members_between_methods"] = true
				if strings.HasPrefix(x, "@") {
					set["annotated_field_before_method"] = true
				}
				memberLabels(set, x)
				if memberLambdaReturnsNull(x) && !w.nullable[cl.Pkg+"."+cl.Name+"."+m.Name] {
					set["null_returning_lambda_member_before_a_method_that_is_not_nullable"] = true
				}
			}
			for _, s := range m.Stmts {
				switch {
				case s.Kind == "lambda":
					set["lambda_in_method_body"] = true
					if s.Cond == "expr" {
						set["expression_lambda"] = true
					}
					if lambdaReturnsNull(s) {
						set["lambda_in_method_returns_null"] = true
						if !w.nullable[cl.Pkg+"."+cl.Name+"."+m.Name] {
							set["not_nullable_although_a_lambda_in_it_returns_null"] = true
						}
					}
				case s.Kind == "filler" && strings.HasPrefix(s.Text, "@"):
					set["annotated_local_variable"] = true
				case s.Kind == "filler" && strings.Contains(s.Text, "null"):
					set["null_literal_in_non_return_statement"] = true
				}
			}
			if m.Generic {
				set["generic_method"] = true
			}
			for i, k := range sites {
				if !nullKinds[k] {
					continue
				}
				if k == "null" {
					set["return_null_literal"] = true
				} else {
					set["null_in_conditional_expression"] = true
				}
				if i < len(sites)-1 {
					later := false
					for _, k2 := range sites[i+1:] {
						if !nullKinds[k2] {
							later = true
						}
					}
					if later {
						set["return_null_then_other_return"] = true
						v.NonTrivial = true
					}
				}
				if i == len(sites)-1 && len(sites) > 1 {
					set["return_null_last_of_several"] = true
				}
			}
			if len(m.Params) >= 4 {
				set["params>=4"] = true
			}
		}
	}
	for _, cl := range c.Classes {
		for _, x := range cl.After {
			set["members_after_last_method"] = true
			if len(cl.Methods) == 0 {
				set["members_in_class_without_methods"] = true
			}
			memberLabels(set, x)
		}
	}
	if len(c.Classes) >= 2 {
		set["classes>=2"] = true
	}
	if c.Cli {
		set["cli"] = true
	}
	v.Classes = sortedSet(set)
	return v
}

// ---- (c) concept words -----------------------------------------------------------------------

type ConceptCase struct {
	Classes [][][]string `json:"classes"` // class -> method -> words of its camelCase name
	Cli     bool         `json:"cli"`
}

var plainWord = regexp.MustCompile(`^[a-z]{2,12}$`)

// Other shapes of a word inside a camel-case name: capitalised as the first word of the name
// (PascalCase, "LoadUser"), or an acronym in capitals ("parseXMLFile", "getURL"). Two acronyms
// never touch (where one ends and the next begins would be anybody's guess).
var (
	capitalWord = regexp.MustCompile(`^[A-Z][a-z]{1,11}$`)
	acronymWord = regexp.MustCompile(`^[A-Z]{2,5}$`)
	acronyms    = []string{"XML", "URL", "ID", "HTTP", "JSON", "SQL", "IO", "API", "DTO", "BY", "GET", "ALL"}
)

// wordsOK says whether the words of one method name are inside the domain of the check.
func wordsOK(words []string) bool {
	for i, w := range words {
		switch {
		case plainWord.MatchString(w):
		case i == 0 && capitalWord.MatchString(w):
		case acronymWord.MatchString(w):
			if i > 0 && acronymWord.MatchString(words[i-1]) {
				return false
			}
		default:
			return false
		}
	}
	return len(words) > 0
}

var domainWords = []string{"user", "order", "account", "invoice", "price", "customer", "payment", "report", "token", "session", "ledger", "cargo", "voyage", "route", "stock", "basket", "tax", "refund", "owner", "branch"}

func stopWordLists() (all map[string]bool, english, tech []string) {
	all = map[string]bool{}
	for _, w := range languages.ENGLISH_STOP_WORDS {
		all[w] = true
		if plainWord.MatchString(w) {
			english = append(english, w)
		}
	}
	for _, w := range constants.TechStopWords {
		all[w] = true
		if plainWord.MatchString(w) {
			tech = append(tech, w)
		}
	}
	return
}

func camel(words []string) string {
	var b strings.Builder
	for i, w := range words {
		if i == 0 || w == "" {
			b.WriteString(w)
		} else {
			b.WriteString(strings.ToUpper(w[:1]) + w[1:])
		}
	}
	return b.String()
}

func genConcept(t *rapid.T) ConceptCase {
	_, english, tech := stopWordLists()
	word := rapid.Custom(func(t *rapid.T) string {
		switch k := rapid.IntRange(0, 9).Draw(t, "wordKind"); {
		case k < 5:
			return rapid.SampledFrom(domainWords).Draw(t, "domainWord")
		case k < 8:
			return rapid.SampledFrom(tech).Draw(t, "techStopWord")
		default:
			return rapid.SampledFrom(english).Draw(t, "englishStopWord")
		}
	})
	method := rapid.Custom(func(t *rapid.T) []string {
		words := rapid.SliceOfN(word, 1, 5).Draw(t, "words")
		switch rapid.IntRange(0, 7).Draw(t, "nameShape") {
		case 6: // PascalCase
			words[0] = strings.ToUpper(words[0][:1]) + words[0][1:]
		case 7: // one word is an acronym in capitals
			i := rapid.IntRange(0, len(words)-1).Draw(t, "acronymAt")
			words[i] = rapid.SampledFrom(acronyms).Draw(t, "acronym")
		}
		return words
	})
	class := rapid.SliceOfN(method, 0, 5)
	classes := rapid.SliceOfN(class, 1, 4).Draw(t, "classes")
	// the same method name once more, in the same or in another class
	var all [][]string
	for _, cl := range classes {
		all = append(all, cl...)
	}
	if len(all) > 0 {
		for k := rapid.IntRange(0, 2).Draw(t, "repeatedNames"); k > 0; k-- {
			src := rapid.SampledFrom(all).Draw(t, "repeatedName")
			ci := rapid.IntRange(0, len(classes)-1).Draw(t, "repeatedIn")
			classes[ci] = append(classes[ci], append([]string{}, src...))
		}
	}
	return ConceptCase{Classes: classes, Cli: rapid.IntRange(0, 49).Draw(t, "cli") == 31}
}

func checkConcept(c ConceptCase) pbt.Verdict {
	stop, _, _ := stopWordLists()
	concept.VerifResetConcept()
	var deps []core_domain.CodeDataStruct
	want, total, stopped := 0, 0, 0
	distinct := map[string]int{}
	nameCount := map[string]int{}
	repeatedName, pascal, acronym := false, false, false
	for i, methods := range c.Classes {
		ds := core_domain.CodeDataStruct{NodeName: fmt.Sprintf("C%d", i), Package: "app", Type: "Class"}
		for _, words := range methods {
			if !wordsOK(words) {
				return pbt.Verdict{Skip: true}
			}
			full := camel(words)
			if nameCount[full]++; nameCount[full] == 2 {
				repeatedName = true
			}
			for wi, w := range words {
				if wi == 0 && capitalWord.MatchString(w) {
					pascal = true
				}
				if acronymWord.MatchString(w) {
					acronym = true
				}
				w = strings.ToLower(w)
				total++
				if stop[w] {
					stopped++
				} else {
					want++
					distinct[w]++
				}
			}
			ds.Functions = append(ds.Functions, core_domain.CodeFunction{Name: camel(words), ReturnType: "void"})
		}
		deps = append(deps, ds)
	}
	var got string_helper.PairList
	if p := pbt.Call(func() { got = concept.NewConceptAnalyser().Analysis(&deps) }); p != "" {
		return pbt.Fail("ConceptAnalyser.Analysis panicked: %s", p)
	}
	sum := 0
	for _, p := range got {
		sum += p.Value
	}
	if sum != want {
		return pbt.Fail("concept counts sum to %d, the method names hold %d words that are not stop words (of %d words); report: %v; names: %v", sum, want, total, got, names(deps))
	}
	v := pbt.Verdict{NonTrivial: stopped > 0 && want > 0}
	repeated := false
	for _, n := range distinct {
		if n >= 2 {
			repeated = true
		}
	}
	if stopped > 0 {
		v.Classes = append(v.Classes, "has_stop_words")
	}
	if want > 0 {
		v.Classes = append(v.Classes, "has_non_stop_words")
	}
	if repeated {
		v.Classes = append(v.Classes, "word_counted>=2")
	}
	if want == 0 {
		v.Classes = append(v.Classes, "only_stop_words_or_empty")
	}
	if repeatedName {
		v.Classes = append(v.Classes, "method_name_occurs_twice")
	}
	if pascal {
		v.Classes = append(v.Classes, "name_starts_with_capital")
	}
	if acronym {
		v.Classes = append(v.Classes, "name_with_acronym")
	}
	if c.Cli {
		v.Classes = append(v.Classes, "cli")
		dir := cli.Scratch("c18-concept-")
		defer os.RemoveAll(dir)
		raw, _ := json.Marshal(deps)
		cli.WriteTree(dir, map[string]string{"deps.json": string(raw)})
		res, err := cli.Run("coca", dir, nil, "concept", "-d", "deps.json")
		if err != nil {
			panic("cannot run coca: " + err.Error())
		}
		if res.ExitCode != 0 || res.TimedOut {
			return pbt.Fail("`coca concept` exited with %d\n%s", res.ExitCode, res.Stderr)
		}
		cs := 0
		for _, row := range tableRows(res.Stdout) {
			if len(row) != 2 {
				return pbt.Fail("`coca concept`: cannot read table row %v\n%s", row, res.Stdout)
			}
			n, err := strconv.Atoi(row[1])
			if err != nil {
				return pbt.Fail("`coca concept`: count cell %q is not a number\n%s", row[1], res.Stdout)
			}
			cs += n
		}
		if cs != want {
			return pbt.Fail("`coca concept` counts sum to %d, the method names hold %d words that are not stop words; names: %v\n%s", cs, want, names(deps), tableText(res.Stdout))
		}
	}
	return v
}

func names(deps []core_domain.CodeDataStruct) []string {
	var out []string
	for _, d := range deps {
		for _, f := range d.Functions {
			out = append(out, f.Name)
		}
	}
	return out
}

func init() {
	pbt.SetProperty("C18")
	pbt.Describe("count: rapid-generated code models (own generator: 1-5 classes whose simple names are their own or drawn from a small pool so that one name recurs in several packages; packages a, b, a.b, ab, bc, x.a ... that are suffixes/prefixes of each other; methods m, m0, m1, m10, run (no overloads), optional constructor; 0-5 calls per method to a declared method, to a pooled method name on a declared class (declared there or only on a namesake), to a declared method's class and name under another package, to external classes named like project ones, with an empty receiver, with a receiver without package, in constructor form; recorded calls repeated 0-3 times to raise multiplicities); oracle: per declared method the number of call sites whose full name equals it, absent when 0, sum == resolving sites; a second BuildCallMap over the same model gives the same map; string_helper.SortWord (the order `coca count` lists) applied three times to the map lists every entry once and in the same order each time; about 1 case in 40 also runs `coca count` twice on the same deps.json (identical stdout, table rows == reference). evaluate: generated Java projects (1-4 classes, one per file, flat or src/main/java layout, packages incl. com.acme.util / org.demo.service.utils; class names with the word Util, Utils, Service in front, in the middle, at the end or absent; a class may occur once more, methods included, in another package; no constructors, no interfaces; 0-5 methods with modifiers in drawn permutations of subsets of {public|private|protected, static, final, synchronized} or {public|protected, abstract} in abstract classes; 1 method in 6 generic (`<T>` between modifiers and return type); an optional annotation before or between the modifiers: @Nullable, @CheckForNull, both, @Nullable(), @javax.annotation.Nullable / @javax.annotation.CheckForNull, or one that is not a nullability annotation (@Deprecated, @SuppressWarnings, @NonNull, @NotNullable, @NullableDecl); parameters that carry @Nullable/@CheckForNull themselves; fields (annotated, static, initialised with null or \"null\") and initialiser blocks between the methods, after the last method and in classes without methods; among those members fields (plain, static final, @Nullable) and instance / static initialiser blocks that hold a lambda `() -> ...`, `s -> ...`, `(String s) -> ...` with a block body `{ return E; }`, `{ if (flag) { return E; } return E2; }` or an expression body, E drawn from everything a String method may return, null included: a lambda is not a method, so its returns make no method nullable, in particular not the method declared next; bodies of 0-3 statements (filler, statements that use the null literal without returning it: `value = null;`, `Object tmp = null;`, `if (value == null) {...}`, a local variable annotated @Nullable; a local variable initialised with a lambda of the same forms, whose returns are not the method's; if-return with or without braces, a return inside a for / while loop, a catch clause or a switch group, if-else-return) and a closing return whose expressions are null, literals, a field, conditional expressions with or without a null branch, and expressions that mention null without being able to return it (value == null, value != null ? value : \"d\", \"null\", a variable named nullable, String.valueOf(value == null), value == null ? 0 : count)), every file validated with the shipped ANTLR parser; analysed with JavaIdentifierApp + JavaFullApp + evaluate.Analyser as `coca analysis`/`coca evaluate` do; oracle from the description: ClassCount, MethodCount, StaticMethodCount (modifier set contains static), UtilsCount (by class name), Nullable.Items as a duplicate-free set; a second Analyser.Analysis on the same two lists gives the same numbers and the same set; 1 case in 10 also runs the two CLI commands and reads the stdout table. overloads: one class of 2-6 methods named from a pool of three names (same-named methods get parameter lists of different lengths), analysed twice, with its methods in the drawn order and in a drawn permutation of it; oracle: class / method / static counts as above (every overload is a method); a path none of whose overloads is nullable is absent from Nullable.Items, a path with k >= 1 nullable overloads is listed once or k times, and both orders give the same list as a multiset. concept: 1-4 classes x 0-5 methods named by 1-5 words (domain words, the tool's tech stop words, the tool's English stop words) in camelCase, 1 name in 8 PascalCase, 1 in 8 with one word replaced by an acronym in capitals (XML, URL, ID, BY ...), up to two method names repeated in the same or another class; oracle: sum of reported counts == number of words whose lower-case form is not in ENGLISH_STOP_WORDS u TechStopWords; 1 case in 50 through `coca concept`. Non-trivial: count = a method with >= 2 resolving sites and an unresolved site; evaluate = a static method whose static is not the last modifier or a return of null followed by a non-null return; overloads = two nullable overloads with another nullable method written between them in one of the two orders, and the order changed; concept = stop words and non-stop words both present.",
		"evaluate: a null literal never occurs inside a returned expression other than as the returned value, a branch of a returned conditional expression, or an operand of == / != (e.g. not as a method argument: the repository's own fixture counts `return opt.orElse(null)` as returning null, the statement does not say); classes named with the word Util/Utils are the utility classes, whatever their package; in the evaluate sub-check method names are unique within a class; overloads are the subject of the overloads sub-check, which asserts only what both readings of 'each listed once' share (whether two nullable overloads are one entry or two is not settled by the statement)",
		"evaluate: a method returns null when one of its own return statements does: a return inside a lambda leaves the lambda (Java semantics), so neither a lambda in a field / initialiser block nor one in a method body makes a method nullable; anonymous and nested classes are not generated (whether their methods and the classes themselves are counted is not settled by the statement)",
		"evaluate: only the 'Type Count' and 'Level Total' columns of the `coca evaluate` table are compared (the percentage column of the Static Method row is computed from the utility-class count: observed, outside the statement); coca_reporter/evaluate.json is not read because it is written empty whenever a standard deviation is NaN",
		"evaluate: generator feature switches (pbt.Excluded): return_mentions_null, generic_method, qualified_nullable_annotation, lambda_in_method_returns_null",
		"concept: lower-case words are 2-12 letters (single-letter words are merged by the camel-case splitter), acronyms 2-5 capitals and never adjacent to another acronym, no digits or underscores: for those shapes the words of a name are not in doubt",
		"count: no overloads and no class-level (field) calls in the models: the statement does not say how they count")
	pbt.Register("count", 2000, 12000, genCount, checkCount)
	pbt.Register("evaluate", 300, 2000, genEval, checkEval)
	pbt.Register("concept", 1500, 8000, genConcept, checkConcept)
}

func TestProp(t *testing.T)   { pbt.Main(t) }
func TestReplay(t *testing.T) { pbt.Replay(t) }
