// C18 — reference counts and evaluation statistics equal what the model contains.
// Three sub-checks: count (count.BuildCallMap / `coca count`), evaluate
// (evaluate.Analyser.Analysis on generated Java projects / `coca analysis` + `coca evaluate`),
// concept (concept.ConceptAnalyser.Analysis / `coca concept`).
package c18

import (
	"encoding/json"
	"fmt"
	"os"
	"path/filepath"
	"regexp"
	"sort"
	"strconv"
	"strings"
	"testing"

	"github.com/antlr/antlr4/runtime/Go/antlr/v4"
	parser "github.com/modernizing/coca/languages/java"
	"github.com/modernizing/coca/pkg/application/analysis/javaapp"
	"github.com/modernizing/coca/pkg/application/call/stop_words/languages"
	"github.com/modernizing/coca/pkg/application/concept"
	"github.com/modernizing/coca/pkg/application/count"
	"github.com/modernizing/coca/pkg/application/evaluate"
	"github.com/modernizing/coca/pkg/application/evaluate/evaluator"
	"github.com/modernizing/coca/pkg/domain/core_domain"
	"github.com/modernizing/coca/pkg/infrastructure/ast/ast_java"
	"github.com/modernizing/coca/pkg/infrastructure/ast/ast_java/java_identify"
	"github.com/modernizing/coca/pkg/infrastructure/constants"
	"github.com/modernizing/coca/pkg/infrastructure/string_helper"
	"pgregory.net/rapid"

	"verif/internal/cli"
	"verif/internal/mgen"
	"verif/internal/pbt"
)

// ---- shared helpers ------------------------------------------------------------------------

// quiet runs f with os.Stdout pointing at the null device (the passes print one line per file).
func quiet(f func()) {
	null, err := os.OpenFile(os.DevNull, os.O_WRONLY, 0)
	if err != nil {
		f()
		return
	}
	saved := os.Stdout
	os.Stdout = null
	defer func() {
		os.Stdout = saved
		null.Close()
	}()
	f()
}

// tableRows returns the body rows of a tablewriter table ("| a | b |" lines after the
// separator line), cells trimmed.
func tableRows(out string) [][]string {
	var rows [][]string
	body := false
	for _, line := range strings.Split(out, "\n") {
		line = strings.TrimSpace(line)
		if !strings.HasPrefix(line, "|") {
			continue
		}
		if strings.HasPrefix(line, "|-") {
			body = true
			continue
		}
		if !body {
			continue
		}
		cells := strings.Split(strings.Trim(line, "|"), "|")
		for i := range cells {
			cells[i] = strings.TrimSpace(cells[i])
		}
		rows = append(rows, cells)
	}
	return rows
}

// tableText keeps the table lines of a command's stdout (drops e.g. the elapsed-time line).
func tableText(out string) string {
	var keep []string
	for _, line := range strings.Split(out, "\n") {
		if strings.HasPrefix(strings.TrimSpace(line), "|") {
			keep = append(keep, line)
		}
	}
	return strings.Join(keep, "\n")
}

// ---- (a) reference counts --------------------------------------------------------------------

type CountCase struct {
	Model   mgen.Model `json:"model"`
	Cli     bool       `json:"cli"`
	CliForm int        `json:"cliForm,omitempty"` // spelling of the option: 0 `-d f`, 1 `--dependence f`, 2 `--dependence=f`
	Prev    bool       `json:"prev,omitempty"`    // another model (one that declares every method this one calls) is counted first in the same process
}

func genCount(t *rapid.T) CountCase {
	m := genCountModel(t)
	// raise multiplicities: repeat some recorded calls (same site list, 0-5 copies in total)
	for ci := range m.Classes {
		for mi := range m.Classes[ci].Methods {
			calls := m.Classes[ci].Methods[mi].Calls
			if len(calls) == 0 {
				continue
			}
			extra := rapid.IntRange(0, 3).Draw(t, "repeat")
			for k := 0; k < extra; k++ {
				calls = append(calls, calls[rapid.IntRange(0, len(calls)-1).Draw(t, "which")])
			}
			m.Classes[ci].Methods[mi].Calls = calls
		}
	}
	k := rapid.IntRange(0, 49).Draw(t, "cli") // mid-range values: rapid favours the ends of a range
	c := CountCase{Model: m, Cli: k == 31 || k == 17}
	if c.Cli {
		c.CliForm = rapid.IntRange(0, 2).Draw(t, "cliForm")
	}
	c.Prev = rapid.IntRange(0, 2).Draw(t, "prev") == 2
	return c
}

func checkCount(c CountCase) pbt.Verdict {
	declared := map[string]bool{}
	for _, m := range c.Model.Methods() {
		declared[m] = true
	}
	want := map[string]int{}
	sites, resolving := 0, 0
	perCaller := map[string]map[string]bool{}
	for _, cl := range c.Model.Classes {
		for _, m := range cl.Methods {
			for _, call := range m.Calls {
				sites++
				name := call.Full()
				if call.Node != "" && call.Func != "" && declared[name] {
					want[name]++
					resolving++
					caller := cl.Full() + "." + m.Name
					if perCaller[name] == nil {
						perCaller[name] = map[string]bool{}
					}
					perCaller[name][caller] = true
				}
			}
		}
	}
	deps := c.Model.ToCoca()
	if c.Prev {
		// the second result must not depend on the first: a model in which everything this one
		// calls is declared (and called) is counted first
		other := closureModel(c.Model).ToCoca()
		if p := pbt.Call(func() { count.BuildCallMap(other) }); p != "" {
			return pbt.Fail("BuildCallMap panicked on the model counted first: %s", p)
		}
	}
	var got map[string]int
	if p := pbt.Call(func() { got = count.BuildCallMap(deps) }); p != "" {
		return pbt.Fail("BuildCallMap panicked: %s", p)
	}
	var keys []string
	for k := range got {
		keys = append(keys, k)
	}
	sort.Strings(keys)
	sum := 0
	for _, k := range keys {
		if !declared[k] {
			return pbt.Fail("count map has %q = %d, which is not a declared method", k, got[k])
		}
		if want[k] == 0 {
			return pbt.Fail("count map lists %q = %d although no call site resolves to it", k, got[k])
		}
		if got[k] != want[k] {
			return pbt.Fail("count of %q is %d, the model has %d call sites resolving to it", k, got[k], want[k])
		}
		sum += got[k]
	}
	for _, k := range mgen.SortedCopy(c.Model.Methods()) {
		if want[k] > 0 && got[k] == 0 {
			return pbt.Fail("count map lacks %q, called at %d sites", k, want[k])
		}
	}
	if sum != resolving {
		return pbt.Fail("counts sum to %d, the model has %d resolving call sites", sum, resolving)
	}
	// a second count over the same model, and the listing order the command uses
	var again map[string]int
	if p := pbt.Call(func() { again = count.BuildCallMap(deps) }); p != "" {
		return pbt.Fail("second BuildCallMap on the same model panicked: %s", p)
	}
	if a, b := showCounts(again), showCounts(got); a != b {
		return pbt.Fail("second BuildCallMap on the same model gives %s, the first gave %s", a, b)
	}
	var first string
	for i := 0; i < 3; i++ {
		var listed string_helper.PairList
		if p := pbt.Call(func() { listed = string_helper.SortWord(got) }); p != "" {
			return pbt.Fail("SortWord panicked: %s", p)
		}
		var cells []string
		rest := map[string]int{}
		for k, n := range got {
			rest[k] = n
		}
		for _, pr := range listed {
			if n, ok := rest[pr.Key]; !ok || n != pr.Value {
				return pbt.Fail("the sorted listing has %s=%d, which is not an entry of the count map %s (or is listed twice)", pr.Key, pr.Value, showCounts(got))
			}
			delete(rest, pr.Key)
			cells = append(cells, fmt.Sprintf("%s=%d", pr.Key, pr.Value))
		}
		if len(rest) > 0 {
			return pbt.Fail("the sorted listing lacks %d of the %d counted methods", len(rest), len(got))
		}
		if text := strings.Join(cells, " "); i == 0 {
			first = text
		} else if text != first {
			return pbt.Fail("the %d counts are listed in different orders when the same map is sorted again", len(got))
		}
	}
	v := pbt.Verdict{}
	multi, repeatedByOne, uncalled, unresolved := false, false, false, sites > resolving
	for k, n := range want {
		if n >= 2 {
			multi = true
		}
		if n > len(perCaller[k]) {
			repeatedByOne = true
		}
	}
	for k := range declared {
		if want[k] == 0 {
			uncalled = true
		}
	}
	v.NonTrivial = multi && unresolved
	if multi {
		v.Classes = append(v.Classes, "count>=2")
	}
	if repeatedByOne {
		v.Classes = append(v.Classes, "one_caller_calls_twice")
	}
	if uncalled {
		v.Classes = append(v.Classes, "never_called_method")
	}
	if unresolved {
		v.Classes = append(v.Classes, "unresolved_call_sites")
	}
	if len(want) >= 3 {
		v.Classes = append(v.Classes, "called_methods>=3")
	}
	if len(want) > 16 {
		v.Classes = append(v.Classes, "called_methods>16")
	}
	if len(want) > 64 {
		v.Classes = append(v.Classes, "called_methods>64")
	}
	if len(declared) > 64 {
		v.Classes = append(v.Classes, "declared_methods>64")
	}
	v.Classes = append(v.Classes, countNameLabels(c.Model, want)...)
	if c.Prev {
		v.Classes = append(v.Classes, "counted_after_another_model")
	}
	if c.Cli && c.CliForm > 0 {
		v.Classes = append(v.Classes, "cli_long_option")
	}
	simple := map[string]bool{}
	for _, cl := range c.Model.Classes {
		if simple[cl.Name] {
			v.Classes = append(v.Classes, "class_name_in_two_packages")
			break
		}
		simple[cl.Name] = true
	}
	nearMiss, tie := false, false
	for _, cl := range c.Model.Classes {
		for _, m := range cl.Methods {
			for _, call := range m.Calls {
				if declared[call.Full()] || call.Func == "" {
					continue
				}
				for d := range declared {
					if strings.HasSuffix(d, "."+call.Node+"."+call.Func) || strings.HasSuffix(call.Full(), d) || strings.HasSuffix(d, call.Full()) {
						nearMiss = true
					}
				}
			}
		}
	}
	if nearMiss {
		v.Classes = append(v.Classes, "unresolved_site_differs_from_a_method_in_package_only")
	}
	byCount := map[int]int{}
	for _, n := range want {
		byCount[n]++
		if byCount[n] == 2 {
			tie = true
		}
	}
	if tie {
		v.Classes = append(v.Classes, "two_methods_with_equal_counts")
	}
	if c.Cli {
		v.Classes = append(v.Classes, "cli")
		if msg := countCLI(deps, want, c.CliForm); msg != "" {
			return pbt.Fail("%s", msg)
		}
	}
	var lines []string
	for k, n := range want {
		lines = append(lines, fmt.Sprintf("%s=%d", k, n))
	}
	sort.Strings(lines)
	v.Canon = fmt.Sprintf("count|%v|%d|%v|%v", lines, sites, c.Cli, c.Prev)
	return v
}

func showCounts(m map[string]int) string {
	var cells []string
	for k, n := range m {
		cells = append(cells, fmt.Sprintf("%s=%d", k, n))
	}
	sort.Strings(cells)
	return "[" + strings.Join(cells, " ") + "]"
}

func countCLI(deps []core_domain.CodeDataStruct, want map[string]int, form int) string {
	args := [][]string{{"count", "-d", "deps.json"}, {"count", "--dependence", "deps.json"}, {"count", "--dependence=deps.json"}}[form%3]
	dir := cli.Scratch("c18-count-")
	defer os.RemoveAll(dir)
	raw, _ := json.Marshal(deps)
	cli.WriteTree(dir, map[string]string{"deps.json": string(raw)})
	var outs []string
	for i := 0; i < 2; i++ {
		res, err := cli.Run("coca", dir, nil, args...)
		if err != nil {
			panic("cannot run coca: " + err.Error())
		}
		if res.ExitCode != 0 || res.TimedOut {
			return fmt.Sprintf("`coca count` run %d exited with %d (timed out: %v)\n%s", i+1, res.ExitCode, res.TimedOut, res.Stderr)
		}
		outs = append(outs, tableText(res.Stdout))
	}
	if outs[0] != outs[1] {
		// no output in the message: it differs from run to run, and rapid can only shrink a
		// case whose verdict text is stable
		return fmt.Sprintf("`coca count` listed the %d counts differently on two runs over the same deps.json", len(want))
	}
	seen := map[string]bool{}
	for _, row := range tableRows(outs[0]) {
		if len(row) != 2 {
			return fmt.Sprintf("`coca count`: cannot read table row %v\n%s", row, outs[0])
		}
		n, err := strconv.Atoi(row[0])
		if err != nil {
			return fmt.Sprintf("`coca count`: count cell %q is not a number\n%s", row[0], outs[0])
		}
		if seen[row[1]] {
			return fmt.Sprintf("`coca count` lists %q twice\n%s", row[1], outs[0])
		}
		seen[row[1]] = true
		if want[row[1]] != n {
			return fmt.Sprintf("`coca count` prints %d for %q, the model has %d resolving call sites\n%s", n, row[1], want[row[1]], outs[0])
		}
	}
	for k := range want {
		if !seen[k] {
			return fmt.Sprintf("`coca count` does not list %q (%d call sites)\n%s", k, want[k], outs[0])
		}
	}
	return ""
}

// ---- (b) evaluation summary on generated Java projects ---------------------------------------

type JParam struct {
	Type string `json:"type"`
	Name string `json:"name"`
	Ann  string `json:"ann,omitempty"` // annotation of the parameter (not of the method)
}

// JReturn is one return site: inside `if (Cond) { return Expr; }` when Cond != "", the
// closing return of the body otherwise.
type JStmt struct {
	Kind string `json:"kind"`           // "ifreturn", "ifelse", "filler", "forreturn", "whilereturn", "tryreturn", "switchreturn", "lambda"
	Cond string `json:"cond,omitempty"` // condition text; for a lambda: the form of its body ("block", "ifblock", "expr")
	Expr string `json:"expr,omitempty"` // expression kind of the (first) return; for a lambda: of the lambda's (first) return
	Else string `json:"else,omitempty"` // expression kind of the else-branch return (ifelse); for a lambda: of its closing return (ifblock)
	Text string `json:"text,omitempty"` // filler statement text (%d = number of the statement); for a lambda: how its parameter is written ("", "s", "(String s)")
	Bare bool   `json:"bare,omitempty"` // no braces around the return
}

type JMethod struct {
	Name     string   `json:"name"`
	Mods     []string `json:"mods"` // modifiers and at most one annotation ("@Nullable"), in source order
	OwnLine  bool     `json:"ownLine,omitempty"`
	Ret      string   `json:"ret"`
	Params   []JParam `json:"params,omitempty"`
	Stmts    []JStmt  `json:"stmts,omitempty"`
	Last     string   `json:"last,omitempty"` // expression kind of the closing return ("" = none, "bare" = `return;`)
	Abstract bool     `json:"abstract,omitempty"`
	Generic  bool     `json:"generic,omitempty"` // `<T>` between the modifiers and the return type
	Before   []string `json:"before,omitempty"`  // other members written before the method (fields, initialiser blocks)
	Doc      string   `json:"doc,omitempty"`     // comment written on the lines before the method (ignored when Joined)
	Inline   string   `json:"inline,omitempty"`  // block comment written between the modifiers and the return type
	Split    int      `json:"split,omitempty"`   // header layout: 0 one line, 1 one token per line, 2 runs of blanks and tabs, blanks inside the brackets
	Joined   bool     `json:"joined,omitempty"`  // the method starts on the line on which the member before it ends
}

type JClass struct {
	Layout  string    `json:"layout"` // "" or "src/main/java/"
	Pkg     string    `json:"pkg"`
	Name    string    `json:"name"`
	Mods    []string  `json:"mods"`
	Methods []JMethod `json:"methods"`
	After   []string  `json:"after,omitempty"` // other members written after the last method
	// widened header and layout (all plain when zero)
	Anns       []string `json:"anns,omitempty"`       // annotations of the class, each on its own line
	TypeParams string   `json:"typeParams,omitempty"` // "<T>"
	Extends    string   `json:"extends,omitempty"`
	Implements []string `json:"implements,omitempty"`
	Imports    []string `json:"imports,omitempty"`   // further import lines (text after `import `, without the semicolon)
	AnnImport  string   `json:"annImport,omitempty"` // how @Nullable / @CheckForNull are imported: "" javax by name, "wildcard", "other" (another library), "none"
	Head       string   `json:"head,omitempty"`      // text before the package declaration (comments, blank lines)
	Tail       string   `json:"tail,omitempty"`      // text after the closing brace
	Crlf       bool     `json:"crlf,omitempty"`
	Tabs       bool     `json:"tabs,omitempty"`
	NoEOL      bool     `json:"noEol,omitempty"` // no line terminator at the end of the file
}

type EvalCase struct {
	Classes []JClass `json:"classes"`
	Cli     bool     `json:"cli"`
	CliForm int      `json:"cliForm,omitempty"` // spelling of the command-line options (0 = `-p proj`, no option for evaluate)
	Extras  []string `json:"extras,omitempty"`  // further files of the project that declare no class (keys of extraFiles)
	Prev    bool     `json:"prev,omitempty"`    // another model is evaluated in the same process before this one
}

var (
	baseNames   = []string{"Account", "Order", "Invoice", "Customer", "Report", "Ledger", "Parser", "Cart", "String", "Date"}
	suffixes    = []string{"", "", "", "Helper", "Manager", "Util", "Utils", "Service", "ServiceImpl"}
	// the word Util/Utils/Service also in front of and inside the name, not only at its end
	prefixes = []string{"", "", "", "", "", "", "Util", "Utils", "Service"}
	tails    = []string{"", "", "", "", "Helper", "Impl"}
	mNames      = []string{"load", "save", "findUser", "getName", "setName", "compute", "resolve", "parseInput", "toText", "isReady", "build", "apply", "handle", "fetchAll", "lookup", "getValue"}
	javaPkgs    = []string{"com.acme", "com.acme.core", "com.acme.web", "org.demo", "app", "com.acme.util", "org.demo.service.utils"}
	nullKinds   = map[string]bool{"null": true, "condNullThen": true, "condNullElse": true, "parenNull": true, "castNull": true, "cmpNullThen": true, "nestedCondNull": true}
	refExprs    = []string{"lit", "field", "lit2", "condPlain", "null", "condNullThen", "condNullElse", "null"}
	// expressions that mention null without being able to return it (feature return_mentions_null)
	refMentions  = []string{"nullGuard", "nullText", "nullIdent", "nullArgCmp"}
	boolMentions = []string{"eqNull", "neNull"}
	intMentions  = []string{"nullCount"}
	conds       = []string{"flag", "count > 0", "value == null", "value != null", "count == 0 && flag"}
	fillers     = []string{"count = count + 2;", "count++;", "value = \"w\";", "flag = !flag;"}
	annotations = []string{"@Nullable", "@CheckForNull", "@Nullable", "@CheckForNull", "@Deprecated", "@SuppressWarnings(\"unchecked\")",
		// names that only resemble the two nullability annotations, and the marker form with parentheses
		"@NonNull", "@NotNullable", "@NullableDecl", "@Nullable()"}
	// the two annotations written with their package (feature qualified_nullable_annotation)
	qualifiedAnnotations = []string{"@javax.annotation.Nullable", "@javax.annotation.CheckForNull", "@org.jetbrains.annotations.Nullable", "@edu.umd.cs.findbugs.annotations.CheckForNull"}
	nullAnnotations      = map[string]bool{"@Nullable": true, "@CheckForNull": true, "@Nullable()": true, "@javax.annotation.Nullable": true, "@javax.annotation.CheckForNull": true,
		"@org.jetbrains.annotations.Nullable": true, "@edu.umd.cs.findbugs.annotations.CheckForNull": true,
		`@Nullable("may be absent")`: true, "@CheckForNull(when = javax.annotation.meta.When.MAYBE)": true}
	// members other than methods, written between the methods; %d is replaced by a number unique in the class
	otherMembers = []string{"private int extra%d;", "@Nullable private String extra%d;", "@CheckForNull private static Object extra%d;", "private static int extra%d = 0;",
		"static { count = %d; }", "private String extra%d = null;", "{ value = null; }", "private static final String extra%d = \"null\";"}
	loopKinds = []string{"forreturn", "whilereturn", "tryreturn", "switchreturn"}
	// statements that handle the null literal without returning it, and an annotated local
	// variable; %d is replaced by the number of the statement (local names stay unique)
	nullFillers = []string{"value = null;", "Object tmp%d = null;", "@Nullable Object tmp%d = value;", "if (value == null) { value = \"w\"; }",
		// the words `return null;` where they are no statement: in a string literal, in comments
		"value = \"return null;\";", "// return null;", "/* return null; */ count++;", "count++; // static @Nullable return null;"}
	// Members that hold a lambda: the returns of a lambda are not returns of any method of the
	// class. LAMBDA / TYPE are replaced by the text and the functional-interface type of the
	// lambda, %d by a number unique in the class.
	lambdaHolders = []string{"private TYPE extra%d = LAMBDA;", "private static final TYPE extra%d = LAMBDA;", "@Nullable private TYPE extra%d = LAMBDA;",
		"{ TYPE local = LAMBDA; }", "static { TYPE local = LAMBDA; count = %d; }"}
	lambdaForms  = []string{"block", "block", "ifblock", "expr"}
	lambdaParams = []string{"", "", "s", "(String s)"}
)

// lambdaSrc gives the functional-interface type and the text of a lambda whose body has the
// given form and whose parameter is written as param: `() -> { return E; }`,
// `s -> { if (flag) { return E; } return E2; }`, `(String s) -> E`.
func lambdaSrc(form, param, expr, other string) (typ, text string) {
	typ, head := "java.util.function.Supplier<String>", "()"
	if param != "" {
		typ, head = "java.util.function.Function<String, String>", param
	}
	switch form {
	case "block":
		return typ, head + " -> { " + returnText(expr) + " }"
	case "ifblock":
		return typ, head + " -> { if (flag) { " + returnText(expr) + " } " + returnText(other) + " }"
	case "expr":
		return typ, head + " -> " + exprText(expr)
	}
	panic("unknown lambda form " + form)
}

// lambdaGen draws a lambda returning a String: form, parameter style and the expression kinds of
// its returns (all kinds a String method can return, null included).
func lambdaGen(t *rapid.T) JStmt {
	s := JStmt{Kind: "lambda", Cond: rapid.SampledFrom(lambdaForms).Draw(t, "lambdaForm"), Text: rapid.SampledFrom(lambdaParams).Draw(t, "lambdaParam")}
	s.Expr = retExpr(t, "String")
	if s.Cond == "ifblock" {
		s.Else = retExpr(t, "String")
	}
	return s
}

// lambdaReturnsNull: the lambda (not the method or class around it) can return the null literal.
func lambdaReturnsNull(s JStmt) bool { return nullKinds[s.Expr] || nullKinds[s.Else] }

// memberGen draws one member that is not a method: a field or an initialiser block from
// otherMembers (low draws), or a field / initialiser block holding a lambda.
var memberGen = rapid.Custom(func(t *rapid.T) string {
	k := rapid.IntRange(0, len(otherMembers)+len(lambdaHolders)-1).Draw(t, "member")
	if k < len(otherMembers) {
		return otherMembers[k]
	}
	typ, text := lambdaText(lambdaGen(t))
	return strings.NewReplacer("TYPE", typ, "LAMBDA", text).Replace(lambdaHolders[k-len(otherMembers)])
})

func lambdaText(s JStmt) (string, string) { return lambdaSrc(s.Cond, s.Text, s.Expr, s.Else) }

// memberHasLambda / memberLambdaReturnsNull classify the text of a member (evidence labels only).
func memberHasLambda(text string) bool { return strings.Contains(text, " -> ") }

func memberLambdaReturnsNull(text string) bool {
	i := strings.Index(text, " -> ")
	if i < 0 {
		return false
	}
	for k := range nullKinds {
		if e := exprText(k); strings.Contains(text[i:], "return "+e+";") || strings.HasPrefix(text[i:], " -> "+e+";") {
			return true
		}
	}
	return false
}

func permute(t *rapid.T, in []string, label string) []string {
	out := append([]string{}, in...)
	// Fisher-Yates with drawn indices; all-zero draws keep the conventional order
	for i := 0; i < len(out)-1; i++ {
		j := i + rapid.IntRange(0, len(out)-1-i).Draw(t, label)
		out[i], out[j] = out[j], out[i]
	}
	return out
}

// Generators are built from rapid.Custom / rapid.SliceOfN so that the shrinker can delete
// whole classes, methods, statements and parameters; flags are "on" for high draws so that
// shrinking moves towards the plain variant.
func stmtGen(ret string) *rapid.Generator[JStmt] {
	return rapid.Custom(func(t *rapid.T) JStmt {
		k := rapid.IntRange(0, 8).Draw(t, "stmt")
		if k < 2 {
			return JStmt{Kind: "filler", Text: rapid.SampledFrom(fillers).Draw(t, "filler")}
		}
		if k == 6 {
			// the null literal in a statement that is not a return; an annotated local variable
			return JStmt{Kind: "filler", Text: rapid.SampledFrom(nullFillers).Draw(t, "nullFiller")}
		}
		if k == 7 {
			// a local variable initialised with a lambda: the lambda's returns are not the method's
			s := lambdaGen(t)
			if lambdaReturnsNull(s) && pbt.Excluded("lambda_in_method_returns_null") {
				s.Expr, s.Else = "lit", ""
				if s.Cond == "ifblock" {
					s.Else = "field"
				}
			}
			return s
		}
		if k == 5 {
			// a return inside a loop, a catch clause or a switch group: still "on some path"
			return JStmt{Kind: rapid.SampledFrom(loopKinds).Draw(t, "nesting"), Cond: rapid.SampledFrom(conds).Draw(t, "cond"), Expr: retExpr(t, ret)}
		}
		if k == 8 {
			// ... inside do-while, synchronized, finally, if in if in if, a labelled block, the else branch only
			return JStmt{Kind: rapid.SampledFrom(moreNestings).Draw(t, "otherNesting"), Cond: rapid.SampledFrom(conds).Draw(t, "cond"), Expr: retExpr(t, ret)}
		}
		return JStmt{Kind: "ifreturn", Cond: rapid.SampledFrom(conds).Draw(t, "cond"), Expr: retExpr(t, ret),
			Bare: rapid.IntRange(0, 3).Draw(t, "bareIf") == 3}
	})
}

var paramGen = rapid.Custom(func(t *rapid.T) JParam {
	p := JParam{Type: rapid.SampledFrom([]string{"String", "int", "boolean", "Object"}).Draw(t, "ptype")}
	if (p.Type == "String" || p.Type == "Object") && rapid.IntRange(0, 5).Draw(t, "annotatedParam") == 5 {
		// annotates the parameter, not the method
		p.Ann = rapid.SampledFrom([]string{"@Nullable", "@CheckForNull"}).Draw(t, "paramAnnotation")
	}
	return p
})

func methodGen(abstractClass bool) *rapid.Generator[JMethod] {
	return rapid.Custom(func(t *rapid.T) JMethod {
		m := JMethod{Name: rapid.SampledFrom(mNames).Draw(t, "mname")}
		m.Ret = rapid.SampledFrom([]string{"String", "String", "String", "Object", "void", "int", "boolean"}).Draw(t, "ret")
		var mods []string
		access := rapid.SampledFrom([]string{"public", "public", "private", "protected", ""}).Draw(t, "access")
		if abstractClass && rapid.IntRange(0, 3).Draw(t, "abstract") == 3 {
			m.Abstract = true
			if access == "private" {
				access = "protected"
			}
			if access != "" {
				mods = append(mods, access)
			}
			mods = append(mods, "abstract")
		} else {
			if access != "" {
				mods = append(mods, access)
			}
			for _, x := range []string{"static", "final", "synchronized"} {
				if rapid.IntRange(0, 2).Draw(t, x) == 2 {
					mods = append(mods, x)
				}
			}
		}
		mods = permute(t, mods, "perm")
		ref := m.Ret == "String" || m.Ret == "Object"
		if rapid.IntRange(0, 2).Draw(t, "annotated") == 2 {
			pool := annotations
			if !pbt.Excluded("qualified_nullable_annotation") {
				pool = append(append([]string{}, annotations...), qualifiedAnnotations...)
			}
			a := rapid.SampledFrom(pool).Draw(t, "annotation")
			if with := annotationWithArguments[a]; with != "" && rapid.IntRange(0, 3).Draw(t, "annotationArguments") == 3 {
				a = with
			}
			if !ref && nullAnnotations[a] {
				a = "@Deprecated"
			}
			pos := 0
			if rapid.IntRange(0, 2).Draw(t, "annotationElsewhere") == 2 {
				pos = rapid.IntRange(0, len(mods)).Draw(t, "annotationPos")
			}
			mods = append(mods[:pos], append([]string{a}, mods[pos:]...)...)
			if nullAnnotations[a] && rapid.IntRange(0, 2).Draw(t, "bothNullAnnotations") == 2 {
				// both nullability annotations on one method: it is still listed once
				other := "@CheckForNull"
				if strings.Contains(a, "CheckForNull") {
					other = "@Nullable"
				}
				mods = append(mods[:pos+1], append([]string{other}, mods[pos+1:]...)...)
			}
			m.OwnLine = pos == 0 && rapid.Bool().Draw(t, "ownLine")
		}
		if rapid.IntRange(0, 3).Draw(t, "extraAnnotation") == 3 {
			// one more annotation that says nothing about null, before, between or after the rest
			x := rapid.SampledFrom(extraAnnotations).Draw(t, "extraAnnotationText")
			at := rapid.IntRange(0, len(mods)).Draw(t, "extraAnnotationPos")
			mods = append(mods[:at], append([]string{x}, mods[at:]...)...)
		}
		m.Mods = mods
		if rapid.IntRange(0, 5).Draw(t, "generic") == 5 && !pbt.Excluded("generic_method") {
			m.Generic = true
		}
		maxParams := rapid.SampledFrom([]int{0, 1, 1, 2, 2, 5}).Draw(t, "maxParams")
		m.Params = rapid.SliceOfN(paramGen, 0, maxParams).Draw(t, "params")
		for i := range m.Params {
			m.Params[i].Name = fmt.Sprintf("p%d", i)
		}
		if rapid.IntRange(0, 5).Draw(t, "specialName") == 5 {
			m.Name = rapid.SampledFrom(specialMethodNames).Draw(t, "specialMethodName")
		}
		methodLayoutGen(t, &m)
		if m.Abstract {
			return m
		}
		m.Stmts = rapid.SliceOfN(stmtGen(m.Ret), 0, 3).Draw(t, "stmts")
		switch {
		case m.Ret == "void":
			if rapid.IntRange(0, 4).Draw(t, "bareReturn") == 4 {
				m.Last = "bare"
			}
		case rapid.IntRange(0, 4).Draw(t, "endsWithIfElse") == 4:
			// both branches return: nothing may follow (it would be unreachable)
			m.Stmts = append(m.Stmts, JStmt{Kind: "ifelse", Cond: rapid.SampledFrom(conds).Draw(t, "cond"), Expr: retExpr(t, m.Ret), Else: retExpr(t, m.Ret)})
		default:
			m.Last = retExpr(t, m.Ret)
		}
		return m
	})
}

func retExpr(t *rapid.T, ret string) string {
	mention := func(pool, mentions []string) []string {
		if pbt.Excluded("return_mentions_null") {
			return pool
		}
		return append(append([]string{}, pool...), mentions...)
	}
	switch ret {
	case "String", "Object":
		k := rapid.SampledFrom(mention(refExprs, refMentions)).Draw(t, "expr")
		// another way of writing the same kind of value: null in parentheses or under a cast, null
		// returned by an expression that also compares with null, a nested conditional expression
		if v := exprVariants[k]; len(v) > 0 && rapid.IntRange(0, 3).Draw(t, "exprVariant") == 3 {
			k = rapid.SampledFrom(v).Draw(t, "variantOf")
		}
		return k
	case "int":
		return rapid.SampledFrom(mention([]string{"zero", "count"}, intMentions)).Draw(t, "expr")
	case "boolean":
		return rapid.SampledFrom(mention([]string{"flag", "true"}, boolMentions)).Draw(t, "expr")
	}
	return "bare"
}

func classGen(layout string, maxMethods int) *rapid.Generator[JClass] {
	return rapid.Custom(func(t *rapid.T) JClass {
		cl := JClass{Layout: layout, Pkg: rapid.SampledFrom(javaPkgs).Draw(t, "pkg")}
		cl.Name = rapid.SampledFrom(baseNames).Draw(t, "base") + rapid.SampledFrom(suffixes).Draw(t, "suffix")
		cl.Name = rapid.SampledFrom(prefixes).Draw(t, "prefix") + cl.Name + rapid.SampledFrom(tails).Draw(t, "tail")
		abstract := rapid.IntRange(0, 3).Draw(t, "abstractClass") == 3
		var mods []string
		if rapid.IntRange(0, 4).Draw(t, "packagePrivateClass") < 4 {
			mods = append(mods, "public")
		}
		if abstract {
			mods = append(mods, "abstract")
		} else if rapid.IntRange(0, 4).Draw(t, "finalClass") == 4 {
			mods = append(mods, "final")
		}
		cl.Mods = permute(t, mods, "classPerm")
		cl.Methods = rapid.SliceOfN(methodGen(abstract), 0, maxMethods).Draw(t, "methods")
		used := map[string]bool{}
		for j := range cl.Methods {
			if used[cl.Methods[j].Name] {
				cl.Methods[j].Name = fmt.Sprintf("%s%c", cl.Methods[j].Name, 'A'+j)
			}
			used[cl.Methods[j].Name] = true
		}
		// fields and initialiser blocks between the methods
		extra := 0
		number := func(texts []string) []string {
			var out []string
			for _, text := range texts {
				extra++
				out = append(out, strings.ReplaceAll(text, "%d", fmt.Sprint(extra)))
			}
			return out
		}
		for j := range cl.Methods {
			cl.Methods[j].Before = number(rapid.SliceOfN(memberGen, 0, 2).Draw(t, "membersBefore"))
		}
		// ... and after the last method (the only members of a class without methods)
		cl.After = number(rapid.SliceOfN(memberGen, 0, 2).Draw(t, "membersAfter"))
		if rapid.IntRange(0, 5).Draw(t, "exoticClassName") == 5 {
			cl.Name = rapid.SampledFrom(exoticClassNames).Draw(t, "exoticName")
		}
		classDressGen(t, &cl)
		if rapid.IntRange(0, 7).Draw(t, "defaultPackage") == 7 {
			// no package declaration; how the methods of such a class are named in the nullable list
			// is not settled, so none of them is nullable
			cl.Pkg = ""
			for j := range cl.Methods {
				denull(&cl.Methods[j])
			}
		}
		return cl
	})
}

func genEval(t *rapid.T) EvalCase {
	var c EvalCase
	layout := rapid.SampledFrom([]string{"", "src/main/java/"}).Draw(t, "layout")
	seen := map[string]bool{}
	// 1 project in 12 is larger: up to 10 classes of up to 10 methods
	minClasses, maxClasses, maxMethods := 1, 4, 5
	if rapid.IntRange(0, 11).Draw(t, "big") == 11 {
		minClasses, maxClasses, maxMethods = 5, 10, 10
	}
	for _, cl := range rapid.SliceOfN(classGen(layout, maxMethods), minClasses, maxClasses).Draw(t, "classes") {
		if !seen[cl.Pkg+"."+cl.Name] {
			seen[cl.Pkg+"."+cl.Name] = true
			c.Classes = append(c.Classes, cl)
		}
	}
	// the same class (simple name, methods) once more in another package
	if rapid.IntRange(0, 3).Draw(t, "twin") == 3 {
		twin := c.Classes[rapid.IntRange(0, len(c.Classes)-1).Draw(t, "twinOf")]
		twin.Pkg = rapid.SampledFrom(javaPkgs).Draw(t, "twinPkg")
		twin.Methods = append([]JMethod{}, twin.Methods...)
		if !seen[twin.Pkg+"."+twin.Name] {
			seen[twin.Pkg+"."+twin.Name] = true
			c.Classes = append(c.Classes, twin)
		}
	}
	c.Cli = rapid.IntRange(0, 9).Draw(t, "cli") == 9
	if c.Cli {
		c.CliForm = rapid.IntRange(0, 2).Draw(t, "cliForm")
	}
	if rapid.IntRange(0, 3).Draw(t, "extraFiles") == 3 {
		c.Extras = rapid.SliceOfNDistinct(rapid.SampledFrom(extraFileKeys), 1, 4, func(s string) string { return s }).Draw(t, "extras")
	}
	c.Prev = rapid.IntRange(0, 2).Draw(t, "prev") == 2
	return c
}

func exprText(kind string) string {
	switch kind {
	case "null":
		return "null"
	case "lit":
		return `"x"`
	case "lit2":
		return `"none"`
	case "field":
		return "value"
	case "condPlain":
		return `flag ? "a" : "b"`
	case "condNullThen":
		return `flag ? null : "x"`
	case "condNullElse":
		return `count > 0 ? value : null`
	case "zero":
		return "0"
	case "count":
		return "count"
	case "flag":
		return "flag"
	case "true":
		return "true"
	case "nullGuard":
		return `value != null ? value : "d"`
	case "nullText":
		return `"null"`
	case "nullIdent":
		return "nullable"
	case "nullArgCmp":
		return "String.valueOf(value == null)"
	case "eqNull":
		return "value == null"
	case "neNull":
		return "value != null && flag"
	case "nullCount":
		return "value == null ? 0 : count"
	case "parenNull":
		return "(null)"
	case "castNull":
		return "(String) null"
	case "cmpNullThen":
		return "value == null ? null : value"
	case "nestedCondNull":
		return `flag ? "a" : (count > 0 ? null : "b")`
	case "nestedCondPlain":
		return `flag ? "a" : (count > 0 ? "c" : "b")`
	}
	panic("unknown expression kind " + kind)
}

func returnText(kind string) string {
	if kind == "bare" {
		return "return;"
	}
	return "return " + exprText(kind) + ";"
}

func (cl JClass) path() string {
	if cl.Pkg == "" { // default package: the file lies in the source root
		return cl.Layout + cl.Name + ".java"
	}
	return cl.Layout + strings.ReplaceAll(cl.Pkg, ".", "/") + "/" + cl.Name + ".java"
}

// nullImport matches a nullability annotation written by its simple name (with or without
// arguments): the two that need an import.
var nullImport = regexp.MustCompile(`^@(Nullable|CheckForNull)($|[^A-Za-z0-9_.])`)

func (cl JClass) importLines() []string {
	imports := map[string]bool{}
	need := func(text string) {
		m := nullImport.FindStringSubmatch(text)
		if m == nil {
			return
		}
		switch cl.AnnImport {
		case "":
			imports["javax.annotation."+m[1]] = true
		case "wildcard":
			imports["javax.annotation.*"] = true
		case "other":
			imports[map[string]string{"Nullable": "org.jetbrains.annotations.Nullable", "CheckForNull": "edu.umd.cs.findbugs.annotations.CheckForNull"}[m[1]]] = true
		case "none":
		default:
			panic("unknown annotation import style " + cl.AnnImport)
		}
	}
	for _, m := range cl.Methods {
		for _, x := range m.Mods {
			need(x)
		}
		for _, x := range m.Before {
			need(x)
		}
		for _, p := range m.Params {
			need(p.Ann)
		}
		for _, st := range m.Stmts {
			need(st.Text)
		}
	}
	for _, x := range cl.After {
		need(x)
	}
	var imps []string
	for k := range imports {
		imps = append(imps, k)
	}
	sort.Strings(imps)
	// further imports (wildcard, static, duplicates) in the drawn order, around the needed ones
	for i, x := range cl.Imports {
		if i%2 == 0 {
			imps = append(imps, x)
		} else {
			imps = append([]string{x}, imps...)
		}
	}
	return imps
}

// header renders the declaration of a method up to and including `{` or `;`.
func (m JMethod) header() string {
	mods := append([]string{}, m.Mods...)
	var ps []string
	for _, p := range m.Params {
		if p.Ann != "" {
			ps = append(ps, p.Ann+" "+p.Type+" "+p.Name)
		} else {
			ps = append(ps, p.Type+" "+p.Name)
		}
	}
	end := "{"
	if m.Abstract {
		end = ";"
	}
	switch m.Split {
	case 0:
		var b strings.Builder
		if m.OwnLine && len(mods) > 0 && strings.HasPrefix(mods[0], "@") {
			b.WriteString(mods[0] + "\n    ")
			mods = mods[1:]
		}
		if len(mods) > 0 {
			b.WriteString(strings.Join(mods, " ") + " ")
		}
		if m.Inline != "" {
			b.WriteString(m.Inline + " ")
		}
		if m.Generic {
			b.WriteString("<T> ")
		}
		fmt.Fprintf(&b, "%s %s(%s)", m.Ret, m.Name, strings.Join(ps, ", "))
		if m.Abstract {
			return b.String() + ";"
		}
		return b.String() + " {"
	case 1, 2:
		toks := mods
		if m.Inline != "" {
			toks = append(toks, m.Inline)
		}
		if m.Generic {
			toks = append(toks, "<T>")
		}
		toks = append(toks, m.Ret, m.Name, "(")
		for i, p := range ps {
			if i > 0 {
				toks = append(toks, ",")
			}
			toks = append(toks, p)
		}
		toks = append(toks, ")", end)
		if m.Split == 1 {
			return strings.Join(toks, "\n    ")
		}
		return strings.Join(toks, "  \t ")
	}
	panic(fmt.Sprintf("unknown header layout %d", m.Split))
}

func (m JMethod) render() string {
	var b strings.Builder
	if m.Doc != "" && !m.Joined {
		b.WriteString(m.Doc + "\n    ")
	}
	b.WriteString(m.header())
	if m.Abstract {
		return b.String()
	}
	b.WriteString("\n")
	for si, s := range m.Stmts {
		switch s.Kind {
		case "filler":
			b.WriteString("        " + strings.ReplaceAll(s.Text, "%d", fmt.Sprint(si)) + "\n")
		case "lambda":
			typ, text := lambdaText(s)
			fmt.Fprintf(&b, "        %s fn%d = %s;\n", typ, si, text)
		case "ifreturn":
			if s.Bare {
				fmt.Fprintf(&b, "        if (%s) %s\n", s.Cond, returnText(s.Expr))
			} else {
				fmt.Fprintf(&b, "        if (%s) {\n            %s\n        }\n", s.Cond, returnText(s.Expr))
			}
		case "ifelse":
			fmt.Fprintf(&b, "        if (%s) {\n            %s\n        } else {\n            %s\n        }\n", s.Cond, returnText(s.Expr), returnText(s.Else))
		case "forreturn":
			fmt.Fprintf(&b, "        for (int i = 0; i < count; i++) {\n            if (%s) {\n                %s\n            }\n        }\n", s.Cond, returnText(s.Expr))
		case "whilereturn":
			fmt.Fprintf(&b, "        while (count > 3) {\n            count--;\n            if (%s) %s\n        }\n", s.Cond, returnText(s.Expr))
		case "tryreturn":
			fmt.Fprintf(&b, "        try {\n            count = count / 2;\n        } catch (RuntimeException e) {\n            %s\n        }\n", returnText(s.Expr))
		case "switchreturn":
			fmt.Fprintf(&b, "        switch (count) {\n        case 1:\n            %s\n        default:\n            break;\n        }\n", returnText(s.Expr))
		case "doreturn":
			fmt.Fprintf(&b, "        do {\n            count--;\n            if (%s) %s\n        } while (count > 3);\n", s.Cond, returnText(s.Expr))
		case "syncreturn":
			fmt.Fprintf(&b, "        synchronized (value) {\n            if (%s) {\n                %s\n            }\n        }\n", s.Cond, returnText(s.Expr))
		case "finallyreturn":
			fmt.Fprintf(&b, "        try {\n            count++;\n        } finally {\n            if (%s) {\n                %s\n            }\n        }\n", s.Cond, returnText(s.Expr))
		case "nestedifreturn":
			fmt.Fprintf(&b, "        if (flag) {\n            if (%s) {\n                if (count < 9) %s\n            }\n        }\n", s.Cond, returnText(s.Expr))
		case "labeledreturn":
			fmt.Fprintf(&b, "        block%d: {\n            if (%s) {\n                %s\n            }\n        }\n", si, s.Cond, returnText(s.Expr))
		case "elsereturn":
			fmt.Fprintf(&b, "        if (%s) {\n            count++;\n        } else {\n            %s\n        }\n", s.Cond, returnText(s.Expr))
		default:
			panic("unknown statement kind " + s.Kind)
		}
	}
	if m.Last != "" {
		b.WriteString("        " + returnText(m.Last) + "\n")
	}
	b.WriteString("    }")
	return b.String()
}

func (cl JClass) render() string {
	var b strings.Builder
	b.WriteString(cl.Head)
	if cl.Pkg != "" {
		fmt.Fprintf(&b, "package %s;\n\n", cl.Pkg)
	}
	imps := cl.importLines()
	for _, k := range imps {
		fmt.Fprintf(&b, "import %s;\n", k)
	}
	if len(imps) > 0 {
		b.WriteString("\n")
	}
	for _, a := range cl.Anns {
		b.WriteString(a + "\n")
	}
	if len(cl.Mods) > 0 {
		b.WriteString(strings.Join(cl.Mods, " ") + " ")
	}
	fmt.Fprintf(&b, "class %s%s", cl.Name, cl.TypeParams)
	if cl.Extends != "" {
		b.WriteString(" extends " + cl.Extends)
	}
	if len(cl.Implements) > 0 {
		b.WriteString(" implements " + strings.Join(cl.Implements, ", "))
	}
	b.WriteString(" {\n")
	b.WriteString("    private static String value = \"v\";\n    private static boolean flag;\n    private static int count;\n    private static String nullable = \"n\";")
	for _, m := range cl.Methods {
		for _, x := range m.Before {
			b.WriteString("\n\n    " + x)
		}
		if m.Joined {
			b.WriteString(" ")
		} else {
			b.WriteString("\n\n    ")
		}
		b.WriteString(m.render())
	}
	for _, x := range cl.After {
		b.WriteString("\n\n    " + x)
	}
	b.WriteString("\n}\n")
	b.WriteString(cl.Tail)
	// %LONG% stands for a run of 70000 letters (a line longer than 65536 bytes)
	text := strings.ReplaceAll(b.String(), "%LONG%", strings.Repeat("x", 70000))
	if cl.Tabs {
		lines := strings.Split(text, "\n")
		for i, line := range lines {
			n := 0
			for strings.HasPrefix(line[n:], "    ") {
				n += 4
			}
			lines[i] = strings.Repeat("\t", n/4) + line[n:]
		}
		text = strings.Join(lines, "\n")
	}
	if cl.NoEOL {
		text = strings.TrimRight(text, "\n")
	}
	if cl.Crlf {
		text = strings.ReplaceAll(text, "\n", "\r\n")
	}
	return text
}

// ---- syntax validation with the shipped parser ------------------------------------------------

type errListener struct {
	*antlr.DefaultErrorListener
	errs []string
}

func (l *errListener) SyntaxError(_ antlr.Recognizer, _ interface{}, line, column int, msg string, _ antlr.RecognitionException) {
	l.errs = append(l.errs, fmt.Sprintf("%d:%d %s", line, column, msg))
}

func syntaxErrors(text string) []string {
	l := &errListener{DefaultErrorListener: antlr.NewDefaultErrorListener()}
	lexer := parser.NewJavaLexer(antlr.NewInputStream(text))
	lexer.RemoveErrorListeners()
	lexer.AddErrorListener(l)
	p := parser.NewJavaParser(antlr.NewCommonTokenStream(lexer, 0))
	p.RemoveErrorListeners()
	p.AddErrorListener(l)
	p.CompilationUnit()
	return l.errs
}

// ---- the evaluate check -----------------------------------------------------------------------

type evalWant struct {
	classes, methods, static, utils int
	nullable                        map[string]bool
}

// the word Util / Utils in a class name: followed by the end of the name, a capital, a digit, `_` or `$`
var utilWord = regexp.MustCompile(`Utils?($|[^a-z])`)

func expectEval(c EvalCase) evalWant {
	w := evalWant{nullable: map[string]bool{}}
	for _, cl := range c.Classes {
		w.classes++
		if utilWord.MatchString(cl.Name) {
			w.utils++
		}
		for _, m := range cl.Methods {
			w.methods++
			isNull := false
			for _, x := range m.Mods {
				if x == "static" {
					w.static++
				}
				if nullAnnotations[x] {
					isNull = true
				}
			}
			for _, s := range m.Stmts {
				// fillers do not return; the returns of a lambda are not returns of the method
				if s.Kind != "filler" && s.Kind != "lambda" && (nullKinds[s.Expr] || nullKinds[s.Else]) {
					isNull = true
				}
			}
			if nullKinds[m.Last] {
				isNull = true
			}
			if isNull {
				w.nullable[cl.Pkg+"."+cl.Name+"."+m.Name] = true
			}
		}
	}
	return w
}

func resetJava() {
	ast_java.VerifResetAstJava()
	java_identify.VerifResetJavaIdentify()
	evaluator.VerifResetEvaluator()
}

func checkEval(c EvalCase) pbt.Verdict {
	files := map[string]string{}
	for _, cl := range c.Classes {
		text := cl.render()
		if errs := syntaxErrors(text); len(errs) > 0 {
			panic(fmt.Sprintf("GENERATOR BUG: the shipped Java parser rejects a generated file: %v\n%s", errs, text))
		}
		files["proj/"+cl.path()] = text
	}
	for rel, text := range extraFileTree(c) {
		if _, clash := files["proj/"+rel]; clash {
			return pbt.Verdict{Skip: true}
		}
		if strings.HasSuffix(rel, ".java") {
			if errs := syntaxErrors(text); len(errs) > 0 {
				panic(fmt.Sprintf("GENERATOR BUG: the shipped Java parser rejects a generated file: %v\n%s", errs, text))
			}
		}
		files["proj/"+rel] = text
	}
	dir := cli.Scratch("c18-eval-")
	defer os.RemoveAll(dir)
	cli.WriteTree(dir, files)
	if len(files) == 0 {
		_ = os.MkdirAll(filepath.Join(dir, "proj"), 0755)
	}
	want := expectEval(c)
	for _, it := range sortedSet(want.nullable) {
		if strings.HasPrefix(it, ".") {
			// a nullable method in a class of the default package: how it is named in the list is
			// not settled (the generator makes no such case)
			return pbt.Verdict{Skip: true}
		}
	}
	resetJava()
	var result evaluator.EvaluateModel
	var nodesKept, identsKept []core_domain.CodeDataStruct
	if p := pbt.Call(func() {
		quiet(func() {
			src := filepath.Join(dir, "proj")
			idApp := javaapp.NewJavaIdentifierApp()
			idents := idApp.AnalysisPath(src)
			fullApp := javaapp.NewJavaFullApp()
			nodes := fullApp.AnalysisPath(src, idents)
			nodesKept, identsKept = nodes, idents
			if c.Prev {
				// another model first, in the same process: it must leave no trace
				evaluate.NewEvaluateAnalyser().Analysis(otherModel(nodes), otherModel(idents))
			}
			result = evaluate.NewEvaluateAnalyser().Analysis(nodes, idents)
		})
	}); p != "" {
		return pbt.Fail("analysis + evaluation panicked: %s\n%s", p, dump(files))
	}
	if msg := compareEval("Analyser.Analysis", want, result.Summary.ClassCount, result.Summary.MethodCount, result.Summary.StaticMethodCount, result.Summary.UtilsCount); msg != "" {
		return pbt.Fail("%s\n%s", msg, dump(files))
	}
	seen := map[string]bool{}
	for _, it := range mgen.SortedCopy(result.Nullable.Items) {
		if seen[it] {
			return pbt.Fail("Nullable.Items lists %q twice\n%s", it, dump(files))
		}
		seen[it] = true
		if !want.nullable[it] {
			return pbt.Fail("Nullable.Items lists %q, which neither returns the null literal nor is annotated @Nullable/@CheckForNull\n%s", it, dump(files))
		}
	}
	for _, it := range sortedSet(want.nullable) {
		if !seen[it] {
			return pbt.Fail("Nullable.Items lacks %q (returns null on some path or is annotated); listed: %v\n%s", it, mgen.SortedCopy(result.Nullable.Items), dump(files))
		}
	}
	// the same evaluation once more on the same parsed lists: nothing may have been used up,
	// accumulated or rewritten by the first one
	var again evaluator.EvaluateModel
	if p := pbt.Call(func() { again = evaluate.NewEvaluateAnalyser().Analysis(nodesKept, identsKept) }); p != "" {
		return pbt.Fail("second evaluation of the same lists panicked: %s\n%s", p, dump(files))
	}
	if msg := compareEval("second Analyser.Analysis on the same lists", want, again.Summary.ClassCount, again.Summary.MethodCount, again.Summary.StaticMethodCount, again.Summary.UtilsCount); msg != "" {
		return pbt.Fail("%s\n%s", msg, dump(files))
	}
	if a, b := strings.Join(mgen.SortedCopy(again.Nullable.Items), " "), strings.Join(mgen.SortedCopy(result.Nullable.Items), " "); a != b {
		return pbt.Fail("second Analyser.Analysis on the same lists: Nullable.Items [%s], the first evaluation gave [%s]\n%s", a, b, dump(files))
	}
	if c.Cli {
		if msg := evalCLI(dir, want, c.CliForm); msg != "" {
			return pbt.Fail("%s\n%s", msg, dump(files))
		}
	}
	return classifyEval(c, want)
}

func compareEval(what string, w evalWant, classes, methods, static, utils int) string {
	switch {
	case classes != w.classes:
		return fmt.Sprintf("%s: ClassCount %d, the sources declare %d classes", what, classes, w.classes)
	case methods != w.methods:
		return fmt.Sprintf("%s: MethodCount %d, the sources declare %d methods", what, methods, w.methods)
	case static != w.static:
		return fmt.Sprintf("%s: StaticMethodCount %d, the sources declare %d static methods", what, static, w.static)
	case utils != w.utils:
		return fmt.Sprintf("%s: UtilsCount %d, the sources declare %d utility classes", what, utils, w.utils)
	}
	return ""
}

func sortedSet(m map[string]bool) []string {
	var out []string
	for k := range m {
		out = append(out, k)
	}
	sort.Strings(out)
	return out
}

func dump(files map[string]string) string {
	var names []string
	for k := range files {
		names = append(names, k)
	}
	sort.Strings(names)
	var b strings.Builder
	for _, k := range names {
		fmt.Fprintf(&b, "--- %s\n%s", k, strings.ReplaceAll(files[k], strings.Repeat("x", 70000), "%LONG%"))
	}
	return b.String()
}

// evalCLI runs `coca analysis -p proj` and `coca evaluate` in dir and reads the stdout table.
func evalCLI(dir string, w evalWant, form int) string {
	// the same two commands with their options spelled in the ways the command line allows
	analysis := [][]string{{"analysis", "-p", "proj"}, {"analysis", "--path", "proj", "--identify=true"}, {"analysis", "--path=proj", "-i"}}[form%3]
	evaluation := [][]string{{"evaluate"}, {"evaluate", "-d", "coca_reporter/deps.json"}, {"evaluate", "--dependence=coca_reporter/deps.json"}}[form%3]
	res, err := cli.Run("coca", dir, nil, analysis...)
	if err != nil {
		panic("cannot run coca: " + err.Error())
	}
	if res.ExitCode != 0 || res.TimedOut {
		return fmt.Sprintf("`coca %s` exited with %d\n%s", strings.Join(analysis, " "), res.ExitCode, res.Stderr)
	}
	res, err = cli.Run("coca", dir, nil, evaluation...)
	if err != nil {
		panic("cannot run coca: " + err.Error())
	}
	if res.ExitCode != 0 || res.TimedOut {
		return fmt.Sprintf("`coca evaluate` exited with %d\n%s%s", res.ExitCode, res.Stdout, res.Stderr)
	}
	got := map[string][2]int{}
	for _, row := range tableRows(res.Stdout) {
		if len(row) < 4 {
			continue
		}
		a, errA := strconv.Atoi(row[1])
		b, errB := strconv.Atoi(row[3])
		if errA == nil && errB == nil {
			got[row[0]] = [2]int{a, b}
		}
	}
	for _, x := range []struct {
		row        string
		count, tot int
	}{{"Nullable / Return Null", len(w.nullable), w.methods}, {"Utils", w.utils, w.classes}, {"Static Method", w.static, w.methods}} {
		g, ok := got[x.row]
		if !ok {
			return fmt.Sprintf("`coca evaluate`: no row %q in the table\n%s", x.row, tableText(res.Stdout))
		}
		if g[0] != x.count || g[1] != x.tot {
			return fmt.Sprintf("`coca evaluate`: row %q shows count %d of %d, the sources give %d of %d\n%s", x.row, g[0], g[1], x.count, x.tot, tableText(res.Stdout))
		}
	}
	return ""
}

func memberLabels(set map[string]bool, text string) {
	if !memberHasLambda(text) {
		return
	}
	set["lambda_in_field_or_initialiser"] = true
	if strings.Contains(text, "{ java.util.function") {
		set["lambda_in_initialiser_block"] = true
	}
	if memberLambdaReturnsNull(text) {
		set["lambda_member_returns_null"] = true
	}
	if !strings.Contains(text, "return") {
		set["expression_lambda"] = true
	}
}

func classifyEval(c EvalCase, w evalWant) pbt.Verdict {
	v := pbt.Verdict{}
	set := map[string]bool{}
	simple := map[string]int{}
	for _, cl := range c.Classes {
		simple[cl.Name]++
		if simple[cl.Name] == 2 {
			set["class_name_in_two_packages"] = true
		}
		if strings.Contains(cl.Name, "Util") && !strings.HasSuffix(cl.Name, "Util") && !strings.HasSuffix(cl.Name, "Utils") {
			set["util_not_at_end_of_name"] = true
		}
		if strings.Contains(cl.Name, "Util") {
			set["util_class"] = true
		} else if strings.Contains(cl.Pkg, "util") {
			set["plain_class_in_a_util_package"] = true
		}
		if strings.Contains(cl.Name, "Service") {
			set["service_class"] = true
		}
		classLabels(set, cl)
		for _, m := range cl.Methods {
			methodLabels(set, m)
			var plain []string
			annPos := -1
			for i, x := range m.Mods {
				if strings.HasPrefix(x, "@") {
					annPos = i
					if nullAnnotations[x] {
						set["nullable_annotation"] = true
						if i > 0 {
							set["nullable_annotation_not_first"] = true
						}
						if strings.Contains(x, ".") {
							set["nullable_annotation_with_package"] = true
						}
						if m.Generic {
							set["nullable_annotation_on_generic_method"] = true
						}
					} else {
						set["other_annotation"] = true
						if strings.Contains(x, "Null") {
							set["annotation_resembling_nullable"] = true
						}
					}
				} else {
					plain = append(plain, x)
				}
			}
			_ = annPos
			for i, x := range plain {
				if x == "static" {
					set["static_method"] = true
					if m.Generic {
						set["static_generic_method"] = true
					}
					if i < len(plain)-1 {
						set["static_not_last_modifier"] = true
						v.NonTrivial = true
					}
				}
			}
			if len(plain) >= 3 {
				set["modifiers>=3"] = true
			}
			if m.Abstract {
				set["abstract_method"] = true
			}
			// return sites in order
			var sites []string
			for _, s := range m.Stmts {
				if s.Kind == "ifreturn" {
					sites = append(sites, s.Expr)
				}
				if strings.HasSuffix(s.Kind, "return") && s.Kind != "ifreturn" {
					sites = append(sites, s.Expr)
					if nullKinds[s.Expr] {
						set["return_null_in_loop_catch_switch"] = true
					}
					for _, k := range moreNestings {
						if s.Kind == k {
							set["return_in_do_synchronized_finally_nested_if_labelled_block_or_else"] = true
							if nullKinds[s.Expr] {
								set["return_null_in_do_synchronized_finally_nested_if_labelled_block_or_else"] = true
							}
						}
					}
				}
				if s.Kind == "ifelse" {
					sites = append(sites, s.Expr, s.Else)
				}
			}
			if m.Last != "" && m.Last != "bare" {
				sites = append(sites, m.Last)
			}
			hasMention, hasNullSite, nullAnn := false, false, false
			for _, k := range sites {
				switch k {
				case "nullGuard", "nullText", "nullIdent", "nullArgCmp", "eqNull", "neNull", "nullCount":
					hasMention = true
				}
				hasNullSite = hasNullSite || nullKinds[k]
			}
			for _, x := range m.Mods {
				nullAnn = nullAnn || nullAnnotations[x]
			}
			if hasMention {
				set["return_mentions_null"] = true
				if !hasNullSite && !nullAnn {
					set["not_nullable_although_null_is_mentioned"] = true
				}
			}
			for _, p := range m.Params {
				if p.Ann != "" {
					set["annotated_parameter"] = true
				}
			}
			for _, x := range m.Before {
				set["members_between_methods"] = true
				if strings.HasPrefix(x, "@") {
					set["annotated_field_before_method"] = true
				}
				memberLabels(set, x)
				if memberLambdaReturnsNull(x) && !w.nullable[cl.Pkg+"."+cl.Name+"."+m.Name] {
					set["null_returning_lambda_member_before_a_method_that_is_not_nullable"] = true
				}
			}
			for _, s := range m.Stmts {
				switch {
				case s.Kind == "lambda":
					set["lambda_in_method_body"] = true
					if s.Cond == "expr" {
						set["expression_lambda"] = true
					}
					if lambdaReturnsNull(s) {
						set["lambda_in_method_returns_null"] = true
						if !w.nullable[cl.Pkg+"."+cl.Name+"."+m.Name] {
							set["not_nullable_although_a_lambda_in_it_returns_null"] = true
						}
					}
				case s.Kind == "filler" && strings.Contains(s.Text, "return null;"):
					set["the_words_return_null_in_a_string_or_comment"] = true
				case s.Kind == "filler" && strings.HasPrefix(s.Text, "@"):
					set["annotated_local_variable"] = true
				case s.Kind == "filler" && strings.Contains(s.Text, "null"):
					set["null_literal_in_non_return_statement"] = true
				}
			}
			if m.Generic {
				set["generic_method"] = true
			}
			for i, k := range sites {
				if !nullKinds[k] {
					continue
				}
				switch k {
				case "null":
					set["return_null_literal"] = true
				case "parenNull", "castNull":
					set["return_null_in_parentheses_or_under_a_cast"] = true
				case "cmpNullThen":
					set["null_compared_and_returned_in_one_expression"] = true
					set["null_in_conditional_expression"] = true
				case "nestedCondNull":
					set["null_in_nested_conditional_expression"] = true
					set["null_in_conditional_expression"] = true
				default:
					set["null_in_conditional_expression"] = true
				}
				if i < len(sites)-1 {
					later := false
					for _, k2 := range sites[i+1:] {
						if !nullKinds[k2] {
							later = true
						}
					}
					if later {
						set["return_null_then_other_return"] = true
						v.NonTrivial = true
					}
				}
				if i == len(sites)-1 && len(sites) > 1 {
					set["return_null_last_of_several"] = true
				}
			}
			if len(m.Params) >= 4 {
				set["params>=4"] = true
			}
		}
	}
	for _, cl := range c.Classes {
		for _, x := range cl.After {
			set["members_after_last_method"] = true
			if len(cl.Methods) == 0 {
				set["members_in_class_without_methods"] = true
			}
			memberLabels(set, x)
		}
	}
	if len(c.Classes) >= 2 {
		set["classes>=2"] = true
	}
	if len(c.Classes) >= 5 {
		set["classes>=5"] = true
	}
	if w.methods >= 17 {
		set["methods>=17"] = true
	}
	if w.methods >= 33 {
		set["methods>=33"] = true
	}
	if len(w.nullable) >= 9 {
		set["nullable_methods>=9"] = true
	}
	if len(w.nullable) >= 17 {
		set["nullable_methods>=17"] = true
	}
	for _, k := range c.Extras {
		set["extra_files_without_a_class"] = true
		set["extra_file_"+k] = true
	}
	if c.Prev {
		set["evaluated_after_another_model"] = true
	}
	if c.Cli && c.CliForm > 0 {
		set["cli_long_or_explicit_options"] = true
	}
	if c.Cli {
		set["cli"] = true
	}
	v.Classes = sortedSet(set)
	return v
}

// ---- (c) concept words -----------------------------------------------------------------------

type ConceptCase struct {
	Classes [][][]string `json:"classes"` // class -> method -> words of its camelCase name
	Cli     bool         `json:"cli"`
	CliForm int          `json:"cliForm,omitempty"` // spelling of the option: 0 `-d f`, 1 `--dependence f`, 2 `--dependence=f`
	Prev    [][]string   `json:"prev,omitempty"`    // method names of another model, analysed first in the same process
}

var plainWord = regexp.MustCompile(`^[a-z]{2,12}$`)

// Other shapes of a word inside a camel-case name: capitalised as the first word of the name
// (PascalCase, "LoadUser"), or an acronym in capitals ("parseXMLFile", "getURL"). Two acronyms
// never touch (where one ends and the next begins would be anybody's guess).
var (
	// words of a name: letters of any alphabet that has two cases, up to 40 of them
	lowerWord   = regexp.MustCompile(`^\p{Ll}{2,40}$`)
	capitalWord = regexp.MustCompile(`^\p{Lu}\p{Ll}{1,39}$`)
	acronymWord = regexp.MustCompile(`^[A-Z]{2,5}$`)
	acronyms    = []string{"XML", "URL", "ID", "HTTP", "JSON", "SQL", "IO", "API", "DTO", "BY", "GET", "ALL"}
)

// wordsOK says whether the words of one method name are inside the domain of the check.
var digitRun = regexp.MustCompile(`^[0-9]+$`)
var asciiLower = regexp.MustCompile(`^[a-z]{2,}$`)

func wordsOK(words []string) bool {
	for i, w := range words {
		switch {
		case lowerWord.MatchString(w):
		case i > 0 && digitRun.MatchString(w) && asciiLower.MatchString(words[i-1]) && (i+1 == len(words) || asciiLower.MatchString(words[i+1])):
			// a run of digits behind a word and in front of the next one, both written in ASCII letters (export42Report):
			// a number, not a word. Next to letters outside ASCII or to an acronym (café0XML) where the words end is in doubt.
		case i == 0 && capitalWord.MatchString(w):
		case acronymWord.MatchString(w):
			if i > 0 && acronymWord.MatchString(words[i-1]) {
				return false
			}
		default:
			return false
		}
	}
	return len(words) > 0
}

var domainWords = []string{"user", "order", "account", "invoice", "price", "customer", "payment", "report", "token", "session", "ledger", "cargo", "voyage", "route", "stock", "basket", "tax", "refund", "owner", "branch"}

func stopWordLists() (all map[string]bool, english, tech []string) {
	all = map[string]bool{}
	for _, w := range languages.ENGLISH_STOP_WORDS {
		all[w] = true
		if plainWord.MatchString(w) {
			english = append(english, w)
		}
	}
	for _, w := range constants.TechStopWords {
		all[w] = true
		if plainWord.MatchString(w) {
			tech = append(tech, w)
		}
	}
	return
}

func camel(words []string) string {
	var b strings.Builder
	for i, w := range words {
		if i == 0 || w == "" {
			b.WriteString(w)
		} else {
			b.WriteString(capitalise(w))
		}
	}
	return b.String()
}

func genConcept(t *rapid.T) ConceptCase {
	_, english, tech := stopWordLists()
	odd := append([]string{}, lookAlikeWords...)
	if !pbt.Excluded("non_ascii_letters_in_method_names") {
		odd = append(odd, nonASCIIWords...)
	}
	word := rapid.Custom(func(t *rapid.T) string {
		switch k := rapid.IntRange(0, 9).Draw(t, "wordKind"); {
		case k < 5:
			if rapid.IntRange(0, 5).Draw(t, "oddWord") == 5 {
				// a word that contains or resembles a stop word, a very long word, a word with letters
				// outside ASCII
				return rapid.SampledFrom(odd).Draw(t, "oddWordText")
			}
			return rapid.SampledFrom(domainWords).Draw(t, "domainWord")
		case k < 8:
			return rapid.SampledFrom(tech).Draw(t, "techStopWord")
		default:
			return rapid.SampledFrom(english).Draw(t, "englishStopWord")
		}
	})
	method := rapid.Custom(func(t *rapid.T) []string {
		maxWords := 5
		if rapid.IntRange(0, 9).Draw(t, "longName") == 9 {
			maxWords = 24
		}
		words := rapid.SliceOfN(word, 1, maxWords).Draw(t, "words")
		// eighth seed batch: a number inside or at the end of a name (export42Report, rollback20231005123045123456Step,
		// v2 is left out: a single letter in front of the digits is not a word of its own): 1-25 digits, also past the
		// range of a 64-bit integer; numbers are no words
		if rapid.IntRange(0, 7).Draw(t, "numberInName") == 7 && !pbt.Excluded("digits_in_method_names") {
			at := rapid.IntRange(1, len(words)).Draw(t, "numberAt")
			digits := rapid.StringMatching(`[0-9]{1,25}`).Draw(t, "number")
			if asciiLower.MatchString(words[at-1]) && (at == len(words) || asciiLower.MatchString(words[at])) {
				words = append(words[:at:at], append([]string{digits}, words[at:]...)...)
			}
		}
		switch rapid.IntRange(0, 7).Draw(t, "nameShape") {
		case 6: // PascalCase
			words[0] = capitalise(words[0])
		case 7: // one word is an acronym in capitals
			i := rapid.IntRange(0, len(words)-1).Draw(t, "acronymAt")
			words[i] = rapid.SampledFrom(acronyms).Draw(t, "acronym")
		}
		return words
	})
	maxMethods, maxClasses := 5, 4
	if rapid.IntRange(0, 11).Draw(t, "big") == 11 {
		maxMethods, maxClasses = 12, 9
	}
	class := rapid.SliceOfN(method, 0, maxMethods)
	classes := rapid.SliceOfN(class, 1, maxClasses).Draw(t, "classes")
	// the same method name once more, in the same or in another class
	var all [][]string
	for _, cl := range classes {
		all = append(all, cl...)
	}
	if len(all) > 0 {
		for k := rapid.IntRange(0, 2).Draw(t, "repeatedNames"); k > 0; k-- {
			src := rapid.SampledFrom(all).Draw(t, "repeatedName")
			ci := rapid.IntRange(0, len(classes)-1).Draw(t, "repeatedIn")
			classes[ci] = append(classes[ci], append([]string{}, src...))
		}
	}
	c := ConceptCase{Classes: classes, Cli: rapid.IntRange(0, 49).Draw(t, "cli") == 31}
	if c.Cli {
		c.CliForm = rapid.IntRange(0, 2).Draw(t, "cliForm")
	}
	if rapid.IntRange(0, 2).Draw(t, "prev") == 2 {
		c.Prev = rapid.SliceOfN(method, 1, 4).Draw(t, "prevNames")
	}
	return c
}

func checkConcept(c ConceptCase) pbt.Verdict {
	stop, _, _ := stopWordLists()
	concept.VerifResetConcept()
	var deps []core_domain.CodeDataStruct
	want, total, stopped := 0, 0, 0
	distinct := map[string]int{}
	nameCount := map[string]int{}
	repeatedName, pascal, acronym := false, false, false
	for i, methods := range c.Classes {
		ds := core_domain.CodeDataStruct{NodeName: fmt.Sprintf("C%d", i), Package: "app", Type: "Class"}
		for _, words := range methods {
			if !wordsOK(words) {
				return pbt.Verdict{Skip: true}
			}
			full := camel(words)
			if nameCount[full]++; nameCount[full] == 2 {
				repeatedName = true
			}
			for wi, w := range words {
				if wi == 0 && capitalWord.MatchString(w) {
					pascal = true
				}
				if acronymWord.MatchString(w) {
					acronym = true
				}
				if digitRun.MatchString(w) {
					continue // a number, not a word
				}
				w = strings.ToLower(w)
				total++
				if stop[w] {
					stopped++
				} else {
					want++
					distinct[w]++
				}
			}
			ds.Functions = append(ds.Functions, core_domain.CodeFunction{Name: camel(words), ReturnType: "void"})
		}
		deps = append(deps, ds)
	}
	if len(c.Prev) > 0 {
		// the names of another model are analysed first: the second report must not depend on it
		other := []core_domain.CodeDataStruct{{NodeName: "Before", Package: "app", Type: "Class"}}
		for _, words := range c.Prev {
			if !wordsOK(words) {
				return pbt.Verdict{Skip: true}
			}
			other[0].Functions = append(other[0].Functions, core_domain.CodeFunction{Name: camel(words), ReturnType: "void"})
		}
		if p := pbt.Call(func() { concept.NewConceptAnalyser().Analysis(&other) }); p != "" {
			return pbt.Fail("ConceptAnalyser.Analysis panicked on the names analysed first: %s; names: %v", p, names(other))
		}
	}
	var got string_helper.PairList
	if p := pbt.Call(func() { got = concept.NewConceptAnalyser().Analysis(&deps) }); p != "" {
		return pbt.Fail("ConceptAnalyser.Analysis panicked: %s", p)
	}
	sum := 0
	for _, p := range got {
		sum += p.Value
	}
	if sum != want {
		return pbt.Fail("concept counts sum to %d, the method names hold %d words that are not stop words (of %d words); report: %v; names: %v", sum, want, total, got, names(deps))
	}
	// once more on the same model: nothing may have been used up or kept by the first analysis
	var again string_helper.PairList
	if p := pbt.Call(func() { again = concept.NewConceptAnalyser().Analysis(&deps) }); p != "" {
		return pbt.Fail("second ConceptAnalyser.Analysis on the same model panicked: %s", p)
	}
	sum2 := 0
	for _, p := range again {
		sum2 += p.Value
	}
	if sum2 != want {
		return pbt.Fail("second analysis of the same model: concept counts sum to %d, the method names hold %d words that are not stop words; report: %v; names: %v", sum2, want, again, names(deps))
	}
	v := pbt.Verdict{NonTrivial: stopped > 0 && want > 0}
	repeated := false
	for _, n := range distinct {
		if n >= 2 {
			repeated = true
		}
	}
	if stopped > 0 {
		v.Classes = append(v.Classes, "has_stop_words")
	}
	if want > 0 {
		v.Classes = append(v.Classes, "has_non_stop_words")
	}
	if repeated {
		v.Classes = append(v.Classes, "word_counted>=2")
	}
	if want == 0 {
		v.Classes = append(v.Classes, "only_stop_words_or_empty")
	}
	if repeatedName {
		v.Classes = append(v.Classes, "method_name_occurs_twice")
	}
	if pascal {
		v.Classes = append(v.Classes, "name_starts_with_capital")
	}
	if acronym {
		v.Classes = append(v.Classes, "name_with_acronym")
	}
	v.Classes = append(v.Classes, conceptLabels(c, distinct)...)
	if c.Cli {
		v.Classes = append(v.Classes, "cli")
		dir := cli.Scratch("c18-concept-")
		defer os.RemoveAll(dir)
		raw, _ := json.Marshal(deps)
		cli.WriteTree(dir, map[string]string{"deps.json": string(raw)})
		res, err := cli.Run("coca", dir, nil, [][]string{{"concept", "-d", "deps.json"}, {"concept", "--dependence", "deps.json"}, {"concept", "--dependence=deps.json"}}[c.CliForm%3]...)
		if err != nil {
			panic("cannot run coca: " + err.Error())
		}
		if res.ExitCode != 0 || res.TimedOut {
			return pbt.Fail("`coca concept` exited with %d\n%s", res.ExitCode, res.Stderr)
		}
		cs := 0
		for _, row := range tableRows(res.Stdout) {
			if len(row) != 2 {
				return pbt.Fail("`coca concept`: cannot read table row %v\n%s", row, res.Stdout)
			}
			n, err := strconv.Atoi(row[1])
			if err != nil {
				return pbt.Fail("`coca concept`: count cell %q is not a number\n%s", row[1], res.Stdout)
			}
			cs += n
		}
		if cs != want {
			return pbt.Fail("`coca concept` counts sum to %d, the method names hold %d words that are not stop words; names: %v\n%s", cs, want, names(deps), tableText(res.Stdout))
		}
	}
	return v
}

func names(deps []core_domain.CodeDataStruct) []string {
	var out []string
	for _, d := range deps {
		for _, f := range d.Functions {
			out = append(out, f.Name)
		}
	}
	return out
}

func init() {
	pbt.SetProperty("C18")
	pbt.Describe("count: rapid-generated code models (own generator: 1-5 classes whose simple names are their own or drawn from a small pool so that one name recurs in several packages; packages a, b, a.b, ab, bc, x.a ... that are suffixes/prefixes of each other; methods m, m0, m1, m10, run (no overloads), optional constructor; 0-5 calls per method to a declared method, to a pooled method name on a declared class (declared there or only on a namesake), to a declared method's class and name under another package, to external classes named like project ones, with an empty receiver, with a receiver without package, in constructor form; recorded calls repeated 0-3 times to raise multiplicities; 1 model in 4 also has classes in the default package (empty package name: a call without package to such a class resolves), 1 in 4 draws names from a pool with case variants of pooled names (c0, M, Run, M0), names with `_`, `$`, a letter outside ASCII and an 80-letter name, 1 in 12 is large: up to 24 classes of up to 10 methods, more than 64 declared and more than 16 counted methods; 1 case in 3 first counts another model in the same process, one that declares and calls every method the case calls, and discards the result); oracle: per declared method the number of call sites whose full name equals it, absent when 0, sum == resolving sites; a second BuildCallMap over the same model gives the same map; string_helper.SortWord (the order `coca count` lists) applied three times to the map lists every entry once and in the same order each time; about 1 case in 40 also runs `coca count` twice on the same deps.json, the option spelled `-d f`, `--dependence f` or `--dependence=f` (identical stdout, table rows == reference). evaluate: generated Java projects (1-4 classes, one per file, flat or src/main/java layout, packages incl. com.acme.util / org.demo.service.utils; class names with the word Util, Utils, Service in front, in the middle, at the end or absent; a class may occur once more, methods included, in another package; 1 class in 6 is named outside that scheme: the bare word (Util, Utils, Service), one letter, the word followed by a digit, `_` or `$` (StringUtils2, Utils_1, Util$Helper), letters outside ASCII (Größe, ÉtatUtils), names of 170-190 letters; 1 class in 8 lies in the default package (no package declaration; none of its methods is nullable); 1 class in 4 has a dressed header: 0-2 annotations on the class (their arguments mention static / Util / Service), type parameters, `extends` and `implements` clauses naming types that are not declared in the project (some named ...Utils / ...Service); 1 class in 4 has 0-4 further imports (wildcard, static, duplicates, undeclared ...Utils classes) and imports @Nullable / @CheckForNull by name from javax.annotation, by wildcard, from another library (org.jetbrains.annotations, edu.umd.cs.findbugs.annotations) or not at all; 1 file in 4 has another layout: CRLF line ends, tabs for indentation, no final line terminator, text before the package declaration (blank lines, a line comment or block comment that holds a class / method returning null, a line of 70000 letters) and after the closing brace; 1 project in 12 is large (5-10 classes of up to 10 methods: more than 16 and 32 methods, more than 8 nullable ones); 1 project in 4 holds 1-4 files that declare no class: package-info.java with an annotated package, a .java file that is empty or holds only a commented-out class, README.md, *.java.bak, *.java~, *.java.txt and *.kt files whose text declares a ...Utils class with a static method returning null, a .gitignore that matches no source file; no constructors, no interfaces; 0-5 methods with modifiers in drawn permutations of subsets of {public|private|protected, static, final, synchronized} or {public|protected, abstract} in abstract classes; 1 method in 6 generic (`<T>` between modifiers and return type); an optional annotation before or between the modifiers: @Nullable, @CheckForNull, both, @Nullable(), @javax.annotation.Nullable / @javax.annotation.CheckForNull, or one that is not a nullability annotation (@Deprecated, @SuppressWarnings, @NonNull, @NotNullable, @NullableDecl); the two also with arguments (@Nullable(\"...\"), @CheckForNull(when = ...)) and with the package of another library; 1 method in 4 carries one more annotation that says nothing about null, at a drawn position before, between or after modifiers and the other annotations (@Override, @Deprecated, @SuppressWarnings(\"static-access\"), @SuppressWarnings({\"static\", \"null\"}), @javax.annotation.Nonnull, @org.demo.nullable.Checked, @Generated(\"static Nullable CheckForNull\")); 1 method in 6 is named from a pool of special names (staticLoad, isStatic, nullable, returnNull, getNull, checkForNull, utilService, $load, _save, load2, x, Load, LOAD, load_user, get, set, größe, nameÉ, имя, a name of 184 letters); 1 method in 3 has another layout: a comment on the lines before it (javadoc with `@return null`, `// @Nullable`, `// static`, a commented-out static method returning null), a block comment between modifiers and return type (/* static */, /* @Nullable */, /* return null; */), the header written one token per line or with runs of blanks and tabs between all tokens and inside the parentheses, the method starting on the line on which the member before it ends; parameters that carry @Nullable/@CheckForNull themselves; fields (annotated, static, initialised with null or \"null\") and initialiser blocks between the methods, after the last method and in classes without methods; among those members fields (plain, static final, @Nullable) and instance / static initialiser blocks that hold a lambda `() -> ...`, `s -> ...`, `(String s) -> ...` with a block body `{ return E; }`, `{ if (flag) { return E; } return E2; }` or an expression body, E drawn from everything a String method may return, null included: a lambda is not a method, so its returns make no method nullable, in particular not the method declared next; bodies of 0-3 statements (filler, statements that use the null literal without returning it: `value = null;`, `Object tmp = null;`, `if (value == null) {...}`, a local variable annotated @Nullable; a local variable initialised with a lambda of the same forms, whose returns are not the method's; the words `return null;` in a string literal and in line / block comments; if-return with or without braces, a return inside a for / while loop, a catch clause or a switch group, inside do-while, synchronized, a finally block, an if in an if in an if, a labelled block, the else branch of an if whose then branch does not return, if-else-return) and a closing return whose expressions are null, literals, a field, conditional expressions with or without a null branch, null in parentheses and under a cast (`(null)`, `(String) null`), `value == null ? null : value` (compares with null and returns it), a conditional nested in the else branch of another with or without a null branch, and expressions that mention null without being able to return it (value == null, value != null ? value : \"d\", \"null\", a variable named nullable, String.valueOf(value == null), value == null ? 0 : count)), every file validated with the shipped ANTLR parser; analysed with JavaIdentifierApp + JavaFullApp + evaluate.Analyser as `coca analysis`/`coca evaluate` do; oracle from the description: ClassCount, MethodCount, StaticMethodCount (modifier set contains static), UtilsCount (by class name), Nullable.Items as a duplicate-free set; a second Analyser.Analysis on the same two lists gives the same numbers and the same set; in 1 case in 3 another model (every class renamed to a ...Utils class, every method static and returning null, one more class) is evaluated in the same process just before; 1 case in 10 also runs the two CLI commands (`analysis -p proj` / `--path proj --identify=true` / `--path=proj -i`, `evaluate` without option / `-d coca_reporter/deps.json` / `--dependence=coca_reporter/deps.json`) and reads the stdout table. overloads: one class of 2-6 methods named from a pool of three names (same-named methods get parameter lists of different lengths), analysed twice, with its methods in the drawn order and in a drawn permutation of it; oracle: class / method / static counts as above (every overload is a method); a path none of whose overloads is nullable is absent from Nullable.Items, a path with k >= 1 nullable overloads is listed once or k times, and both orders give the same list as a multiset. concept: 1-4 classes x 0-5 methods (1 case in 12: up to 9 x 12) named by 1-5 words (1 name in 10: up to 24) in camelCase: domain words, the tool's tech stop words, the tool's English stop words, and 1 domain word in 6 from a pool of words that contain, begin or end with or extend a stop word (getter, setup, reset, budget, ids, keys, news, strings, returns, counter ...), words of 20-22 letters, and words with letters outside ASCII in the middle, at the end and at the beginning (größe, café, été, übersicht, état, имя: inside a name the last ones put a word boundary at a capital outside ASCII; switch non_ascii_letters_in_method_names); 1 name in 8 PascalCase, 1 in 8 with one word replaced by an acronym in capitals (XML, URL, ID, BY ...), up to two method names repeated in the same or another class; oracle: sum of reported counts == number of words whose lower-case form is not in ENGLISH_STOP_WORDS u TechStopWords, also when the same model is analysed a second time; in 1 case in 3 the 1-4 names of another model are analysed in the same process just before; 1 case in 50 through `coca concept` (`-d f`, `--dependence f`, `--dependence=f`). Non-trivial: count = a method with >= 2 resolving sites and an unresolved site; evaluate = a static method whose static is not the last modifier or a return of null followed by a non-null return; overloads = two nullable overloads with another nullable method written between them in one of the two orders, and the order changed; concept = stop words and non-stop words both present.",
		"evaluate: a null literal never occurs inside a returned expression other than as the returned value (also in parentheses or under a cast), a branch of a returned conditional expression (also of a nested one), or an operand of == / != (e.g. not as a method argument: the repository's own fixture counts `return opt.orElse(null)` as returning null, the statement does not say); classes named with the word Util/Utils (followed by the end of the name, a capital, a digit, `_` or `$`) are the utility classes, whatever their package, superclass, interfaces, imports or annotations; names that merely contain the letters (Utility, Futile, Stringutil) are not generated; in the evaluate sub-check method names are unique within a class; overloads are the subject of the overloads sub-check, which asserts only what both readings of 'each listed once' share (whether two nullable overloads are one entry or two is not settled by the statement)",
		"evaluate: a method returns null when one of its own return statements does: a return inside a lambda leaves the lambda (Java semantics), so neither a lambda in a field / initialiser block nor one in a method body makes a method nullable; anonymous and nested classes are not generated (whether their methods and the classes themselves are counted is not settled by the statement)",
		"evaluate: only the 'Type Count' and 'Level Total' columns of the `coca evaluate` table are compared (the percentage column of the Static Method row is computed from the utility-class count: observed, outside the statement); coca_reporter/evaluate.json is not read because it is written empty whenever a standard deviation is NaN",
		"evaluate: generator feature switches (pbt.Excluded): return_mentions_null, generic_method, qualified_nullable_annotation, lambda_in_method_returns_null; concept: non_ascii_letters_in_method_names",
		"evaluate: a method annotated @Nullable / @CheckForNull is nullable whichever library the annotation is imported from, also when it is not imported, and whatever arguments it carries; how a nullable method of a class in the default package is named in the list is not settled by the statement, so classes of the default package have no nullable methods (their class / method / static / utility counts are asserted); files that the tool's own source filter leaves out by design (names ending in Test.java / Tests.java, src/test/java, paths containing testData) and a byte order mark (the shipped parser rejects it) are not generated; every generated .java file, also the ones without a class, passes the shipped parser",
		"concept: lower-case words are 2-40 letters of any alphabet with two cases (single-letter words are merged by the camel-case splitter), acronyms 2-5 ASCII capitals and never adjacent to another acronym, no digits, `$` or underscores: for those shapes the words of a name are not in doubt (a capital, ASCII or not, begins a word)",
		"count: no overloads and no class-level (field) calls in the models: the statement does not say how they count; `coca count --top n` is not run (what a truncated listing holds is outside the statement)")
	pbt.Register("count", 2000, 12000, genCount, checkCount)
	pbt.Register("evaluate", 300, 2000, genEval, checkEval)
	pbt.Register("concept", 1500, 8000, genConcept, checkConcept)
}

func TestProp(t *testing.T)   { pbt.Main(t) }
func TestReplay(t *testing.T) { pbt.Replay(t) }
