package c18

// Pools and helpers of the widened evaluate generator: other spellings of the same thing
// (expressions, nestings, annotations, imports, class headers), layout of the text (line ends,
// tabs, comments that resemble code), names that contain the words the tool looks for, files
// that declare no class. Each family sits behind its own draw in c18_test.go.

import (
	"fmt"
	"sort"
	"strings"
	"unicode"
	"unicode/utf8"

	"github.com/modernizing/coca/pkg/domain/core_domain"
	"pgregory.net/rapid"
)

var (
	// other ways of writing a value of the same kind (null stays null, not-null stays not-null)
	exprVariants = map[string][]string{
		"null":         {"parenNull", "castNull"},
		"condNullThen": {"cmpNullThen"},
		"condNullElse": {"nestedCondNull"},
		"condPlain":    {"nestedCondPlain"},
	}
	moreNestings = []string{"doreturn", "syncreturn", "finallyreturn", "nestedifreturn", "labeledreturn", "elsereturn"}

	// @Nullable / @CheckForNull with arguments
	annotationWithArguments = map[string]string{
		"@Nullable":     `@Nullable("may be absent")`,
		"@CheckForNull": "@CheckForNull(when = javax.annotation.meta.When.MAYBE)",
	}
	// a second (third) annotation that says nothing about null; some mention the words the tool
	// looks for in modifiers and annotation names
	extraAnnotations = []string{"@Override", "@Deprecated", `@SuppressWarnings("static-access")`, `@SuppressWarnings({"static", "null"})`,
		"@javax.annotation.Nonnull", "@org.demo.nullable.Checked", `@Generated("static Nullable CheckForNull")`}

	// method names: the tool's special words inside a name, `$`, `_`, digits, one letter, capitals,
	// letters outside ASCII, a very long name
	specialMethodNames = []string{"staticLoad", "isStatic", "nullable", "returnNull", "getNull", "checkForNull", "utilService", "$load", "_save", "load2", "x",
		"Load", "LOAD", "load_user", "größe", "nameÉ", "имя", "get", "set",
		"load" + strings.Repeat("AndThenTheNextStepOfTheLongProcedure", 5)}

	// class names outside the base+suffix scheme. Only names whose reading is not in doubt: the
	// word Util / Utils / Service stands alone, or is followed by a digit, `_` or `$`; no name
	// that merely contains the letters (Utility, Futile).
	exoticClassNames = []string{"Util", "Utils", "Service", "U", "S", "StringUtils2", "String_Utils", "Utils_1", "Util$Helper", "$Service", "_Account",
		"Größe", "ÉtatUtils", "ИмяService", "Account2", "UtilService", "ServiceUtils",
		"Very" + strings.Repeat("LongNameOfAClass", 11) + "Utils", "An" + strings.Repeat("ExtremelyLongName", 10)}

	classAnnotations = []string{"@Deprecated", `@SuppressWarnings("static-access")`, "@javax.annotation.ParametersAreNullableByDefault", "@javax.annotation.Generated(\"Util Service static\")", "@org.demo.Service"}
	typeParamTexts   = []string{"<T>", "<K, V extends Comparable<K>>", "<T extends java.util.List<? super T>>"}
	// superclasses and interfaces that are not classes of the project (some named like the
	// classes the tool looks for: they are mentioned, not declared)
	extendsTexts    = []string{"Object", "Thread", "java.util.ArrayList<String>", "BaseService", "org.ext.StringUtils", "AbstractUtil<String>"}
	implementsTexts = []string{"java.io.Serializable", "Cloneable", "Comparable<String>", "Runnable", "org.ext.UtilService", "java.util.function.Supplier<String>"}
	importTexts     = []string{"java.util.*", "java.util.List", "java.util.List", "static java.util.Objects.requireNonNull", "static java.lang.Math.*", "org.ext.StringUtils",
		"org.ext.util.*", "javax.annotation.Nonnull", "org.ext.service.AccountService", "static org.ext.Utils.nullable"}
	annImports = []string{"", "", "wildcard", "other", "none"}

	headTexts = []string{"\n\n", "   \t \n", "// @Nullable public static String ghost() { return null; }\n",
		"/*\n * Copyright (c) the authors.\n * public class LicenceUtils { public static String none() { return null; } }\n */\n",
		"/** package com.fake; */\n\n", "// %LONG%\n"}
	tailTexts = []string{"\n\n", "// end of class\n", "/* class TrailingUtils { static String none() { return null; } } */\n", "   \t \n// static", "/* %LONG% */"}

	docTexts = []string{"/**\n     * @return null when nothing is found; {@code static}\n     */", "// @Nullable", "// public static String ghost() { return null; }",
		"/* @CheckForNull\n    public static String ghost() {\n        return null;\n    } */", "// static", "/** @Nullable @CheckForNull */"}
	inlineTexts = []string{"/* static */", "/* @Nullable */", "/* return null; */", "/* final */ /* static */", "/**/"}

	// files of the project that declare no class (written below proj/, DIR = directory of the
	// first class that has a package, PKG = its package)
	extraFiles = map[string]struct{ path, text string }{
		"package-info": {"DIR/package-info.java", "/** Utilities. */\n@javax.annotation.ParametersAreNullableByDefault\npackage PKG;\n"},
		"comment-only": {"DIR/CommentOnlyUtil.java", "// public class CommentOnlyUtil { public static String none() { return null; } }\n"},
		"empty":        {"DIR/EmptyService.java", ""},
		"readme":       {"README.md", "# Demo\n\n```java\npublic class ReadmeUtil { public static String none() { return null; } }\n```\n"},
		"backup":       {"DIR/BackupUtils.java.bak", "package PKG;\npublic class BackupUtils { public static String none() { return null; } }\n"},
		"backup2":      {"DIR/BackupService.java~", "package PKG;\npublic class BackupService { public static String none() { return null; } }\n"},
		"text":         {"notes/NotesUtils.java.txt", "public class NotesUtils { public static String none() { return null; } }\n"},
		"gitignore":    {".gitignore", "# *.java\n*.class\n/target/\n!*.java\n"},
		"kotlin":       {"DIR/KotlinUtils.kt", "package PKG\nobject KotlinUtils { fun none(): String? { return null } }\n"},
	}
	extraFileKeys = []string{"package-info", "comment-only", "empty", "readme", "backup", "backup2", "text", "gitignore", "kotlin"}
)

var specialMethodName = func() map[string]bool {
	m := map[string]bool{}
	for _, n := range specialMethodNames {
		m[n] = true
	}
	return m
}()

var exoticClassName = func() map[string]bool {
	m := map[string]bool{}
	for _, n := range exoticClassNames {
		m[n] = true
	}
	return m
}()

func nonASCII(s string) bool {
	for _, r := range s {
		if r > 127 {
			return true
		}
	}
	return false
}

// methodLayoutGen draws the layout of a method's text (all plain for low draws).
func methodLayoutGen(t *rapid.T, m *JMethod) {
	if rapid.IntRange(0, 2).Draw(t, "methodLayout") < 2 {
		return
	}
	if rapid.Bool().Draw(t, "hasDoc") {
		m.Doc = rapid.SampledFrom(docTexts).Draw(t, "doc")
	}
	if rapid.Bool().Draw(t, "hasInlineComment") {
		m.Inline = rapid.SampledFrom(inlineTexts).Draw(t, "inlineComment")
	}
	m.Split = rapid.IntRange(0, 2).Draw(t, "headerSplit")
	m.Joined = rapid.IntRange(0, 2).Draw(t, "joined") == 2
}

// classDressGen draws what a class declaration and its file may carry besides members: header
// parts, imports, layout of the text.
func classDressGen(t *rapid.T, cl *JClass) {
	if rapid.IntRange(0, 3).Draw(t, "classHeader") == 3 {
		cl.Anns = rapid.SliceOfN(rapid.SampledFrom(classAnnotations), 0, 2).Draw(t, "classAnnotations")
		if rapid.Bool().Draw(t, "genericClass") {
			cl.TypeParams = rapid.SampledFrom(typeParamTexts).Draw(t, "typeParams")
		}
		if rapid.Bool().Draw(t, "hasExtends") {
			cl.Extends = rapid.SampledFrom(extendsTexts).Draw(t, "extends")
		}
		cl.Implements = rapid.SliceOfNDistinct(rapid.SampledFrom(implementsTexts), 0, 3, func(s string) string { return s }).Draw(t, "implements")
	}
	if rapid.IntRange(0, 3).Draw(t, "classImports") == 3 {
		cl.Imports = rapid.SliceOfN(rapid.SampledFrom(importTexts), 0, 4).Draw(t, "imports")
		cl.AnnImport = rapid.SampledFrom(annImports).Draw(t, "annotationImport")
	}
	if rapid.IntRange(0, 3).Draw(t, "fileLayout") == 3 {
		cl.Crlf = rapid.Bool().Draw(t, "crlf")
		cl.Tabs = rapid.Bool().Draw(t, "tabs")
		cl.NoEOL = rapid.Bool().Draw(t, "noFinalNewline")
		if rapid.Bool().Draw(t, "hasHead") {
			cl.Head = rapid.SampledFrom(headTexts).Draw(t, "head")
		}
		if rapid.Bool().Draw(t, "hasTail") {
			cl.Tail = rapid.SampledFrom(tailTexts).Draw(t, "tail")
		}
	}
}

// denull takes everything out of a method that would make it nullable (for classes of the
// default package: how their methods are named in the nullable list is not settled).
func denull(m *JMethod) {
	var mods []string
	for _, x := range m.Mods {
		if !nullAnnotations[x] {
			mods = append(mods, x)
		}
	}
	m.Mods = mods
	plain := func(kind string) string {
		if !nullKinds[kind] {
			return kind
		}
		if kind == "condNullThen" || kind == "condNullElse" || kind == "cmpNullThen" || kind == "nestedCondNull" {
			return "condPlain"
		}
		return "lit"
	}
	for i := range m.Stmts {
		if m.Stmts[i].Kind == "filler" || m.Stmts[i].Kind == "lambda" {
			continue
		}
		m.Stmts[i].Expr = plain(m.Stmts[i].Expr)
		m.Stmts[i].Else = plain(m.Stmts[i].Else)
	}
	m.Last = plain(m.Last)
}

// extraFileTree resolves the drawn extra files against the classes of the case.
func extraFileTree(c EvalCase) map[string]string {
	out := map[string]string{}
	dir, pkg := "", ""
	layout := ""
	for _, cl := range c.Classes {
		layout = cl.Layout
		if cl.Pkg != "" {
			dir, pkg = cl.Layout+strings.ReplaceAll(cl.Pkg, ".", "/"), cl.Pkg
			break
		}
	}
	for _, k := range c.Extras {
		f, ok := extraFiles[k]
		if !ok {
			panic("unknown extra file " + k)
		}
		if strings.Contains(f.path, "DIR") && pkg == "" {
			// no class with a package: the file goes to a package of its own
			dir, pkg = layout+"org/extra", "org.extra"
		}
		out[strings.ReplaceAll(f.path, "DIR", dir)] = strings.ReplaceAll(f.text, "PKG", pkg)
	}
	return out
}

// otherModel derives a different model from parsed lists (every class renamed to a utility
// class, every method returning null and static): evaluated first in the same process, it must
// leave no trace in the evaluation that follows.
func otherModel(in []core_domain.CodeDataStruct) []core_domain.CodeDataStruct {
	var out []core_domain.CodeDataStruct
	for i, ds := range in {
		d := ds
		d.NodeName = fmt.Sprintf("%sOther%dUtils", ds.NodeName, i)
		d.Functions = nil
		for _, f := range ds.Functions {
			g := f
			g.IsReturnNull = true
			g.Modifiers = append([]string{"static"}, f.Modifiers...)
			d.Functions = append(d.Functions, g)
		}
		d.Functions = append(d.Functions, core_domain.CodeFunction{Name: "leftOver", ReturnType: "String", IsReturnNull: true, Modifiers: []string{"public", "static"}})
		out = append(out, d)
	}
	out = append(out, core_domain.CodeDataStruct{NodeName: "LeftOverUtils", Package: "org.left", Type: "Class",
		Functions: []core_domain.CodeFunction{{Name: "over", ReturnType: "String", IsReturnNull: true, Modifiers: []string{"static"}}}})
	return out
}

func classLabels(set map[string]bool, cl JClass) {
	if cl.Pkg == "" {
		set["class_in_default_package"] = true
	}
	if exoticClassName[cl.Name] {
		set["class_name_outside_the_usual_scheme"] = true
		switch cl.Name {
		case "Util", "Utils", "Service":
			set["class_named_by_the_bare_word"] = true
		}
		if nonASCII(cl.Name) {
			set["non_ascii_class_name"] = true
		}
		if len(cl.Name) > 100 {
			set["class_name>100"] = true
		}
		if strings.ContainsAny(cl.Name, "$_0123456789") {
			set["class_name_with_digit_dollar_underscore"] = true
		}
	}
	if len(cl.Anns) > 0 {
		set["annotated_class"] = true
	}
	if cl.TypeParams != "" {
		set["generic_class"] = true
	}
	if cl.Extends != "" {
		set["class_extends"] = true
	}
	if len(cl.Implements) > 0 {
		set["class_implements"] = true
	}
	for _, x := range append(append([]string{cl.Extends}, cl.Implements...), cl.Imports...) {
		if strings.Contains(x, "Util") && !strings.Contains(cl.Name, "Util") {
			set["plain_class_mentions_an_undeclared_util_class"] = true
		}
	}
	if len(cl.Imports) > 0 {
		set["further_imports"] = true
		seen := map[string]bool{}
		for _, x := range cl.Imports {
			if seen[x] {
				set["duplicate_import"] = true
			}
			seen[x] = true
			if strings.HasPrefix(x, "static ") {
				set["static_import"] = true
			}
			if strings.HasSuffix(x, "*") {
				set["wildcard_import"] = true
			}
		}
	}
	usesImport := false
	for _, line := range cl.importLines() {
		if strings.HasSuffix(line, "Nullable") || strings.HasSuffix(line, "CheckForNull") || line == "javax.annotation.*" {
			usesImport = true
		}
	}
	switch {
	case cl.AnnImport == "none":
		set["nullable_annotation_import_style_none"] = true
	case usesImport && cl.AnnImport != "":
		set["nullable_annotation_import_style_"+cl.AnnImport] = true
	}
	if cl.Crlf {
		set["file_with_crlf"] = true
	}
	if cl.Tabs {
		set["file_with_tabs"] = true
	}
	if cl.NoEOL {
		set["file_without_final_newline"] = true
	}
	if cl.Head != "" {
		set["text_before_package"] = true
	}
	if strings.Contains(cl.Head+cl.Tail, "%LONG%") {
		set["line_longer_than_65536_bytes"] = true
	}
	if cl.Tail != "" {
		set["text_after_class"] = true
	}
}

func methodLabels(set map[string]bool, m JMethod) {
	if specialMethodName[m.Name] {
		set["method_name_outside_the_usual_scheme"] = true
		if nonASCII(m.Name) {
			set["non_ascii_method_name"] = true
		}
		if strings.Contains(strings.ToLower(m.Name), "static") || strings.Contains(strings.ToLower(m.Name), "null") {
			set["method_name_contains_static_or_null"] = true
		}
		if len(m.Name) > 100 {
			set["method_name>100"] = true
		}
	}
	otherBefore, anns := false, 0
	for _, x := range m.Mods {
		if !strings.HasPrefix(x, "@") {
			continue
		}
		anns++
		if nullAnnotations[x] {
			if otherBefore {
				set["nullable_annotation_after_another_annotation"] = true
			}
			if strings.Contains(x, "(") && x != "@Nullable()" {
				set["nullable_annotation_with_arguments"] = true
			}
			if strings.Contains(x, "jetbrains") || strings.Contains(x, "findbugs") {
				set["nullable_annotation_of_another_library"] = true
			}
		} else {
			otherBefore = true
			if strings.Contains(x, "static") {
				set["annotation_mentions_static"] = true
			}
		}
	}
	if anns >= 2 {
		set["annotations>=2"] = true
	}
	if anns >= 3 {
		set["annotations>=3"] = true
	}
	switch m.Split {
	case 1:
		set["method_header_one_token_per_line"] = true
	case 2:
		set["method_header_with_runs_of_blanks_and_tabs"] = true
	}
	if m.Joined {
		set["method_starts_on_the_line_of_the_member_before"] = true
	}
	if m.Doc != "" && !m.Joined {
		set["comment_before_method"] = true
		if strings.Contains(m.Doc, "ghost") {
			set["commented_out_method_before_method"] = true
		}
	}
	if m.Inline != "" {
		set["comment_between_modifiers_and_type"] = true
	}
}

// ---- concept: words ---------------------------------------------------------------------------

var (
	// words that are no stop words but contain one, begin or end with one, or differ from one by a
	// letter; words longer than the usual ones
	lookAlikeWords = []string{"getter", "setup", "settings", "budget", "reset", "asset", "widget", "target", "ids", "idle", "bytes", "counter", "account",
		"finder", "news", "keys", "typed", "equality", "nullable", "strings", "isolate", "offer", "other", "island", "builder", "returns", "lastly", "adds",
		"internationalization", "counterrevolutionaries", "incomprehensibilities"}
	// words with letters outside ASCII, in the middle, at the end and at the beginning (the last
	// ones are capitalised inside a name: a word boundary at a capital outside ASCII)
	nonASCIIWords = []string{"größe", "naïve", "données", "señal", "café", "année", "été", "übersicht", "état", "élève", "ölçü", "имя", "счёт"}
)

func capitalise(w string) string {
	r, n := utf8.DecodeRuneInString(w)
	if n == 0 {
		return w
	}
	return string(unicode.ToUpper(r)) + w[n:]
}

func conceptLabels(c ConceptCase, distinct map[string]int) []string {
	set := map[string]bool{}
	look := map[string]bool{}
	for _, w := range lookAlikeWords {
		look[w] = true
	}
	methods := 0
	for _, cl := range c.Classes {
		for _, words := range cl {
			methods++
			if len(words) > 5 {
				set["name_of_more_than_5_words"] = true
			}
			if len(words) > 16 {
				set["name_of_more_than_16_words"] = true
			}
			for i, w := range words {
				lw := strings.ToLower(w)
				if look[lw] {
					set["word_resembling_a_stop_word"] = true
				}
				if len(w) > 12 {
					set["word_longer_than_12_letters"] = true
				}
				if nonASCII(w) {
					set["word_with_non_ascii_letter"] = true
					r, _ := utf8.DecodeRuneInString(w)
					if r > 127 && i > 0 {
						set["word_boundary_at_non_ascii_capital"] = true
					}
				}
				if i > 0 {
					if r, _ := utf8.DecodeLastRuneInString(words[i-1]); r > 127 {
						set["word_boundary_after_non_ascii_letter"] = true
					}
				}
			}
		}
	}
	if methods > 20 {
		set["methods>20"] = true
	}
	if len(distinct) > 16 {
		set["distinct_counted_words>16"] = true
	}
	if len(c.Prev) > 0 {
		set["analysed_after_another_model"] = true
	}
	if c.Cli && c.CliForm > 0 {
		set["cli_long_option"] = true
	}
	var out []string
	for k := range set {
		out = append(out, k)
	}
	sort.Strings(out)
	return out
}
