package c18

import (
	"fmt"
	"os"
	"path/filepath"
	"sort"
	"strings"

	"github.com/modernizing/coca/pkg/application/analysis/javaapp"
	"github.com/modernizing/coca/pkg/application/evaluate"
	"github.com/modernizing/coca/pkg/application/evaluate/evaluator"
	"pgregory.net/rapid"

	"verif/internal/cli"
	"verif/internal/pbt"
)

// ---- (b') evaluation summary of a class with overloaded methods ------------------------------
//
// The statement says "each listed once" but not whether two nullable overloads (one path
// package.Class.name) are one entry or two. Both readings agree on three things, and only those are
// asserted here: a path none of whose overloads is nullable is absent; a path with k >= 1 nullable
// overloads is listed once or k times; and the list is a function of the set of methods, so the
// same class with its methods written in another order gives the same list (as a multiset).

type OverCase struct {
	Class JClass `json:"class"`
	Order []int  `json:"order"` // the second rendering writes Methods[Order[0]], Methods[Order[1]], ...
}

func genOver(t *rapid.T) OverCase {
	cl := JClass{Pkg: rapid.SampledFrom(javaPkgs).Draw(t, "pkg"), Name: rapid.SampledFrom(baseNames).Draw(t, "base"), Mods: []string{"public"}}
	cl.Methods = rapid.SliceOfN(methodGen(false), 2, 6).Draw(t, "methods")
	for j := range cl.Methods {
		// a small name pool, so that names recur: recurring names are overloads
		cl.Methods[j].Name = rapid.SampledFrom([]string{"load", "load", "find", "save"}).Draw(t, "overloadName")
		cl.Methods[j].Before = nil
		// most closing returns of reference type return null, so that nullable overloads are common
		if m := &cl.Methods[j]; (m.Ret == "String" || m.Ret == "Object") && m.Last != "" && m.Last != "bare" && rapid.IntRange(0, 2).Draw(t, "returnsNull") > 0 {
			m.Last = "null"
		}
	}
	// overloads must differ in their parameter lists: give same-named methods distinct lengths
	taken := map[string]bool{}
	for j := range cl.Methods {
		m := &cl.Methods[j]
		for taken[fmt.Sprintf("%s/%d", m.Name, len(m.Params))] {
			m.Params = append(m.Params, JParam{Type: "int", Name: fmt.Sprintf("p%d", len(m.Params))})
		}
		taken[fmt.Sprintf("%s/%d", m.Name, len(m.Params))] = true
	}
	idx := make([]string, len(cl.Methods))
	for i := range idx {
		idx[i] = fmt.Sprint(i)
	}
	c := OverCase{Class: cl}
	for _, s := range permute(t, idx, "order") {
		var k int
		fmt.Sscan(s, &k)
		c.Order = append(c.Order, k)
	}
	return c
}

func evalOnce(cl JClass) (evaluator.EvaluateModel, string, string) {
	text := cl.render()
	if errs := syntaxErrors(text); len(errs) > 0 {
		panic(fmt.Sprintf("GENERATOR BUG: the shipped Java parser rejects a generated file: %v\n%s", errs, text))
	}
	dir := cli.Scratch("c18-over-")
	defer os.RemoveAll(dir)
	cli.WriteTree(dir, map[string]string{"proj/" + cl.path(): text})
	resetJava()
	var result evaluator.EvaluateModel
	p := pbt.Call(func() {
		quiet(func() {
			src := filepath.Join(dir, "proj")
			idApp := javaapp.NewJavaIdentifierApp()
			idents := idApp.AnalysisPath(src)
			fullApp := javaapp.NewJavaFullApp()
			nodes := fullApp.AnalysisPath(src, idents)
			result = evaluate.NewEvaluateAnalyser().Analysis(nodes, idents)
		})
	})
	return result, p, text
}

func checkOver(c OverCase) pbt.Verdict {
	if len(c.Order) != len(c.Class.Methods) {
		return pbt.Verdict{Skip: true}
	}
	second := c.Class
	second.Methods = nil
	for _, k := range c.Order {
		if k < 0 || k >= len(c.Class.Methods) {
			return pbt.Verdict{Skip: true}
		}
		second.Methods = append(second.Methods, c.Class.Methods[k])
	}
	want := expectEval(EvalCase{Classes: []JClass{c.Class}})
	// nullable overloads per path
	k := map[string]int{}
	{
		for _, m := range c.Class.Methods {
			one := expectEval(EvalCase{Classes: []JClass{{Pkg: c.Class.Pkg, Name: c.Class.Name, Methods: []JMethod{m}}}})
			for p := range one.nullable {
				k[p]++
			}
		}
	}
	var lists [2][]string
	var texts [2]string
	for i, cl := range []JClass{c.Class, second} {
		res, p, text := evalOnce(cl)
		texts[i] = text
		what := []string{"methods in the first order", "methods in the second order"}[i]
		if p != "" {
			return pbt.Fail("analysis + evaluation panicked (%s): %s\n%s", what, p, text)
		}
		if msg := compareEval("Analyser.Analysis ("+what+")", want, res.Summary.ClassCount, res.Summary.MethodCount, res.Summary.StaticMethodCount, res.Summary.UtilsCount); msg != "" {
			return pbt.Fail("%s\n%s", msg, text)
		}
		got := map[string]int{}
		for _, it := range res.Nullable.Items {
			got[it]++
		}
		for _, it := range sortedKeys(got) {
			if k[it] == 0 {
				return pbt.Fail("Nullable.Items lists %q (%s), none of whose overloads returns the null literal or is annotated @Nullable/@CheckForNull\n%s", it, what, text)
			}
			if got[it] != 1 && got[it] != k[it] {
				return pbt.Fail("Nullable.Items lists %q %d times (%s); it has %d nullable overloads, so once or %d times would be a listing of each once\n%s", it, got[it], what, k[it], k[it], text)
			}
		}
		for _, it := range sortedKeys(k) {
			if got[it] == 0 {
				return pbt.Fail("Nullable.Items lacks %q (%s), which has %d nullable overload(s)\n%s", it, what, k[it], text)
			}
		}
		lists[i] = append([]string{}, res.Nullable.Items...)
		sort.Strings(lists[i])
	}
	if a, b := strings.Join(lists[0], " "), strings.Join(lists[1], " "); a != b {
		return pbt.Fail("the same methods written in another order give another list of nullable methods: [%s] against [%s]\n--- first order\n%s\n--- second order\n%s", a, b, texts[0], texts[1])
	}
	v := pbt.Verdict{}
	set := map[string]bool{}
	moved := false
	for i, x := range c.Order {
		if x != i {
			moved = true
		}
	}
	for p, n := range k {
		if n >= 2 {
			set["path_with_two_nullable_overloads"] = true
			// another nullable method written between two of them in one of the orders
			for _, ms := range [][]JMethod{c.Class.Methods, second.Methods} {
				state := 0
				for _, m := range ms {
					one := expectEval(EvalCase{Classes: []JClass{{Pkg: c.Class.Pkg, Name: c.Class.Name, Methods: []JMethod{m}}}})
					isNull := len(one.nullable) > 0
					mine := c.Class.Pkg+"."+c.Class.Name+"."+m.Name == p
					switch {
					case state == 0 && mine && isNull:
						state = 1
					case state == 1 && !mine && isNull:
						state = 2
					case state == 2 && mine && isNull:
						set["nullable_overloads_apart"] = true
					}
				}
			}
		}
	}
	if moved {
		set["order_changed"] = true
	}
	v.Classes = sortedSet(set)
	v.NonTrivial = set["nullable_overloads_apart"] && moved
	return v
}

func sortedKeys(m map[string]int) []string {
	var out []string
	for k := range m {
		out = append(out, k)
	}
	sort.Strings(out)
	return out
}

func init() {
	pbt.Register("overloads", 200, 1500, genOver, checkOver)
}
