// Model generator of the count sub-check. It started as a copy of mgen.Gen (shared with
// C03/C04, where every class has its own simple name) and differs in what matters for
// "the number of recorded call sites that resolve to it": full names are compared, so the
// models hold classes of one simple name in several packages, packages that are suffixes /
// prefixes of each other, method names that are prefixes of each other, and call sites that
// differ from a declared method in exactly one of package, class, method.
package c18

import (
	"fmt"
	"sort"
	"strings"

	"pgregory.net/rapid"

	"verif/internal/mgen"
)

var (
	countPkgs    = []string{"a", "b", "a.b", "ab", "a.c", "bc", "c", "x.a"}
	countClasses = []string{"C0", "C1", "C2", "C", "C10"}
	countMethods = []string{"m0", "m1", "m2", "m", "m10", "run"}
	countExtPkgs = []string{"java.util", "org.ext", "x", "org.a", "a.b.c"}
	// widened pools, each behind its own draw: the default package; names that differ from pooled
	// ones in case only, names with `_`, `$`, letters outside ASCII, a very long name; enough method
	// names for models with more than 64 methods
	countOddClasses  = []string{"c0", "C_0", "$C", "Ç0", "C0C0C0C0C0C0C0C0C0C0C0C0C0C0C0C0C0C0C0C0C0C0C0C0C0C0C0C0C0C0C0C0C0C0C0C0C0C0C0C0"}
	countOddMethods  = []string{"M", "Run", "m_1", "$m", "mé", "M0", "m0m0m0m0m0m0m0m0m0m0m0m0m0m0m0m0m0m0m0m0m0m0m0m0m0m0m0m0m0m0m0m0m0m0m0m0m0m0m0m0"}
	countManyMethods = []string{"m3", "m4", "m5", "m6", "m7", "m8", "m9", "m11", "m12", "stop", "start"}
)

// countPools is what one model draws its names from.
type countPools struct {
	pkgs, classes, methods []string
	maxClasses, maxMethods int
}

func drawCountPools(t *rapid.T) countPools {
	p := countPools{pkgs: countPkgs, classes: countClasses, methods: countMethods, maxClasses: 5, maxMethods: 4}
	if rapid.IntRange(0, 3).Draw(t, "defaultPackage") == 3 {
		p.pkgs = append(append([]string{}, countPkgs...), "", "")
	}
	if rapid.IntRange(0, 3).Draw(t, "oddNames") == 3 {
		p.classes = append(append([]string{}, countClasses...), countOddClasses...)
		p.methods = append(append([]string{}, countMethods...), countOddMethods...)
	}
	if rapid.IntRange(0, 11).Draw(t, "big") == 11 {
		p.methods = append(append([]string{}, p.methods...), countManyMethods...)
		p.maxClasses, p.maxMethods = 24, 10
	}
	return p
}

type countRef struct{ ci, mi int }

func genCountModel(t *rapid.T) mgen.Model {
	pools := drawCountPools(t)
	nc := rapid.IntRange(1, pools.maxClasses).Draw(t, "nClasses")
	// plain: every class has its own simple name (C0, C1, ...) as in mgen; otherwise names
	// are drawn from a small pool and recur in other packages
	plain := rapid.IntRange(0, 2).Draw(t, "sharedNames") == 0
	var m mgen.Model
	seen := map[string]bool{}
	for i := 0; i < nc; i++ {
		pkg := rapid.SampledFrom(pools.pkgs).Draw(t, "pkg")
		name := fmt.Sprintf("C%d", i)
		if !plain {
			name = rapid.SampledFrom(pools.classes).Draw(t, "class")
		}
		if seen[pkg+"."+name] {
			continue
		}
		seen[pkg+"."+name] = true
		c := mgen.Class{Pkg: pkg, Name: name}
		used := map[string]bool{}
		for _, mn := range rapid.SliceOfN(rapid.SampledFrom(pools.methods), 0, pools.maxMethods).Draw(t, "methods") {
			if !used[mn] { // no overloads: one full name, one method
				used[mn] = true
				c.Methods = append(c.Methods, mgen.Method{Name: mn})
			}
		}
		if rapid.IntRange(0, 3).Draw(t, "hasCtor") == 3 && !used[name] {
			c.Methods = append(c.Methods, mgen.Method{Name: name, Ctor: true})
		}
		m.Classes = append(m.Classes, c)
	}
	var refs []countRef
	for ci, c := range m.Classes {
		for mi := range c.Methods {
			refs = append(refs, countRef{ci, mi})
		}
	}
	density := rapid.IntRange(1, 5).Draw(t, "density")
	for ci := range m.Classes {
		for mi := range m.Classes[ci].Methods {
			n := rapid.IntRange(0, density).Draw(t, "nCalls")
			if n == 0 && rapid.Bool().Draw(t, "atLeastOne") {
				n = 1
			}
			for k := 0; k < n; k++ {
				m.Classes[ci].Methods[mi].Calls = append(m.Classes[ci].Methods[mi].Calls, drawCountCall(t, m, refs, pools))
			}
		}
	}
	return m
}

func drawCountCall(t *rapid.T, m mgen.Model, refs []countRef, pools countPools) mgen.Call {
	kind := rapid.IntRange(0, 23).Draw(t, "kind")
	switch {
	case kind < 12 && len(refs) > 0: // a declared method (possibly the caller itself)
		r := rapid.SampledFrom(refs).Draw(t, "target")
		tc := m.Classes[r.ci]
		return mgen.Call{Pkg: tc.Pkg, Node: tc.Name, Func: tc.Methods[r.mi].Name}
	case kind < 15: // a method name of the pool on a declared class: declared there or only elsewhere
		tc := rapid.SampledFrom(m.Classes).Draw(t, "tclass")
		return mgen.Call{Pkg: tc.Pkg, Node: tc.Name, Func: rapid.SampledFrom(append([]string{"undeclared"}, pools.methods...)).Draw(t, "anyMethod")}
	case kind < 18 && len(refs) > 0: // a declared method's class and name under another package
		r := rapid.SampledFrom(refs).Draw(t, "near")
		tc := m.Classes[r.ci]
		return mgen.Call{Pkg: rapid.SampledFrom(append(append([]string{}, pools.pkgs...), countExtPkgs...)).Draw(t, "otherPkg"), Node: tc.Name, Func: tc.Methods[r.mi].Name}
	case kind < 20: // external
		return mgen.Call{Pkg: rapid.SampledFrom(countExtPkgs).Draw(t, "xpkg"), Node: rapid.SampledFrom([]string{"Ext", "C0", "C"}).Draw(t, "xclass"), Func: rapid.SampledFrom([]string{"run", "m0"}).Draw(t, "xmethod")}
	case kind < 21: // empty receiver
		return mgen.Call{Pkg: "", Node: "", Func: rapid.SampledFrom([]string{"orphan", "m0"}).Draw(t, "orphan")}
	case kind < 22: // receiver without package
		tc := rapid.SampledFrom(m.Classes).Draw(t, "bare")
		return mgen.Call{Pkg: "", Node: tc.Name, Func: rapid.SampledFrom(pools.methods).Draw(t, "bareMethod")}
	default: // constructor form
		tc := rapid.SampledFrom(m.Classes).Draw(t, "tclass")
		return mgen.Call{Pkg: tc.Pkg, Node: tc.Name, Func: ""}
	}
}

// closureModel declares every method that m calls (receiver and name given): one class per
// called receiver, and every one of its methods calls all called names once.
func closureModel(m mgen.Model) mgen.Model {
	type key struct{ pkg, node string }
	methods := map[key]map[string]bool{}
	var all []mgen.Call
	seen := map[string]bool{}
	for _, cl := range m.Classes {
		for _, mm := range cl.Methods {
			for _, call := range mm.Calls {
				if call.Node == "" || call.Func == "" || seen[call.Full()] {
					continue
				}
				seen[call.Full()] = true
				all = append(all, mgen.Call{Pkg: call.Pkg, Node: call.Node, Func: call.Func})
				k := key{call.Pkg, call.Node}
				if methods[k] == nil {
					methods[k] = map[string]bool{}
				}
				methods[k][call.Func] = true
			}
		}
	}
	sort.Slice(all, func(i, j int) bool { return all[i].Full() < all[j].Full() })
	var keys []key
	for k := range methods {
		keys = append(keys, k)
	}
	sort.Slice(keys, func(i, j int) bool {
		if keys[i].pkg != keys[j].pkg {
			return keys[i].pkg < keys[j].pkg
		}
		return keys[i].node < keys[j].node
	})
	var out mgen.Model
	for _, k := range keys {
		cl := mgen.Class{Pkg: k.pkg, Name: k.node}
		var names []string
		for n := range methods[k] {
			names = append(names, n)
		}
		sort.Strings(names)
		for _, n := range names {
			cl.Methods = append(cl.Methods, mgen.Method{Name: n, Calls: all})
		}
		out.Classes = append(out.Classes, cl)
	}
	return out
}

// countNameLabels: evidence labels for the widened name pools.
func countNameLabels(m mgen.Model, want map[string]int) []string {
	set := map[string]bool{}
	lower := map[string]string{}
	for _, cl := range m.Classes {
		if cl.Pkg == "" {
			set["class_in_default_package"] = true
		}
		for _, mm := range cl.Methods {
			full := cl.Full() + "." + mm.Name
			if other, ok := lower[strings.ToLower(full)]; ok && other != full {
				set["method_names_differ_in_case_only"] = true
			}
			lower[strings.ToLower(full)] = full
			if nonASCII(full) || strings.ContainsAny(full, "$_") {
				set["name_with_dollar_underscore_or_non_ascii_letter"] = true
			}
			if len(mm.Name) > 64 || len(cl.Name) > 64 {
				set["name>64"] = true
			}
		}
	}
	for k := range want {
		if strings.HasPrefix(k, ".") {
			set["counted_method_in_default_package"] = true
		}
		if nonASCII(k) || strings.ContainsAny(k, "$_") {
			set["counted_method_with_dollar_underscore_or_non_ascii_letter"] = true
		}
	}
	var out []string
	for k := range set {
		out = append(out, k)
	}
	sort.Strings(out)
	return out
}
