// Model generator of the count sub-check. It started as a copy of mgen.Gen (shared with
// C03/C04, where every class has its own simple name) and differs in what matters for
// "the number of recorded call sites that resolve to it": full names are compared, so the
// models hold classes of one simple name in several packages, packages that are suffixes /
// prefixes of each other, method names that are prefixes of each other, and call sites that
// differ from a declared method in exactly one of package, class, method.
package c18

import (
	"fmt"

	"pgregory.net/rapid"

	"verif/internal/mgen"
)

var (
	countPkgs    = []string{"a", "b", "a.b", "ab", "a.c", "bc", "c", "x.a"}
	countClasses = []string{"C0", "C1", "C2", "C", "C10"}
	countMethods = []string{"m0", "m1", "m2", "m", "m10", "run"}
	countExtPkgs = []string{"java.util", "org.ext", "x", "org.a", "a.b.c"}
)

type countRef struct{ ci, mi int }

func genCountModel(t *rapid.T) mgen.Model {
	nc := rapid.IntRange(1, 5).Draw(t, "nClasses")
	// plain: every class has its own simple name (C0, C1, ...) as in mgen; otherwise names
	// are drawn from a small pool and recur in other packages
	plain := rapid.IntRange(0, 2).Draw(t, "sharedNames") == 0
	var m mgen.Model
	seen := map[string]bool{}
	for i := 0; i < nc; i++ {
		pkg := rapid.SampledFrom(countPkgs).Draw(t, "pkg")
		name := fmt.Sprintf("C%d", i)
		if !plain {
			name = rapid.SampledFrom(countClasses).Draw(t, "class")
		}
		if seen[pkg+"."+name] {
			continue
		}
		seen[pkg+"."+name] = true
		c := mgen.Class{Pkg: pkg, Name: name}
		used := map[string]bool{}
		for _, mn := range rapid.SliceOfN(rapid.SampledFrom(countMethods), 0, 4).Draw(t, "methods") {
			if !used[mn] { // no overloads: one full name, one method
				used[mn] = true
				c.Methods = append(c.Methods, mgen.Method{Name: mn})
			}
		}
		if rapid.IntRange(0, 3).Draw(t, "hasCtor") == 3 && !used[name] {
			c.Methods = append(c.Methods, mgen.Method{Name: name, Ctor: true})
		}
		m.Classes = append(m.Classes, c)
	}
	var refs []countRef
	for ci, c := range m.Classes {
		for mi := range c.Methods {
			refs = append(refs, countRef{ci, mi})
		}
	}
	density := rapid.IntRange(1, 5).Draw(t, "density")
	for ci := range m.Classes {
		for mi := range m.Classes[ci].Methods {
			n := rapid.IntRange(0, density).Draw(t, "nCalls")
			if n == 0 && rapid.Bool().Draw(t, "atLeastOne") {
				n = 1
			}
			for k := 0; k < n; k++ {
				m.Classes[ci].Methods[mi].Calls = append(m.Classes[ci].Methods[mi].Calls, drawCountCall(t, m, refs))
			}
		}
	}
	return m
}

func drawCountCall(t *rapid.T, m mgen.Model, refs []countRef) mgen.Call {
	kind := rapid.IntRange(0, 23).Draw(t, "kind")
	switch {
	case kind < 12 && len(refs) > 0: // a declared method (possibly the caller itself)
		r := rapid.SampledFrom(refs).Draw(t, "target")
		tc := m.Classes[r.ci]
		return mgen.Call{Pkg: tc.Pkg, Node: tc.Name, Func: tc.Methods[r.mi].Name}
	case kind < 15: // a method name of the pool on a declared class: declared there or only elsewhere
		tc := rapid.SampledFrom(m.Classes).Draw(t, "tclass")
		return mgen.Call{Pkg: tc.Pkg, Node: tc.Name, Func: rapid.SampledFrom(append([]string{"undeclared"}, countMethods...)).Draw(t, "anyMethod")}
	case kind < 18 && len(refs) > 0: // a declared method's class and name under another package
		r := rapid.SampledFrom(refs).Draw(t, "near")
		tc := m.Classes[r.ci]
		return mgen.Call{Pkg: rapid.SampledFrom(append(append([]string{}, countPkgs...), countExtPkgs...)).Draw(t, "otherPkg"), Node: tc.Name, Func: tc.Methods[r.mi].Name}
	case kind < 20: // external
		return mgen.Call{Pkg: rapid.SampledFrom(countExtPkgs).Draw(t, "xpkg"), Node: rapid.SampledFrom([]string{"Ext", "C0", "C"}).Draw(t, "xclass"), Func: rapid.SampledFrom([]string{"run", "m0"}).Draw(t, "xmethod")}
	case kind < 21: // empty receiver
		return mgen.Call{Pkg: "", Node: "", Func: rapid.SampledFrom([]string{"orphan", "m0"}).Draw(t, "orphan")}
	case kind < 22: // receiver without package
		tc := rapid.SampledFrom(m.Classes).Draw(t, "bare")
		return mgen.Call{Pkg: "", Node: tc.Name, Func: rapid.SampledFrom(countMethods).Draw(t, "bareMethod")}
	default: // constructor form
		tc := rapid.SampledFrom(m.Classes).Draw(t, "tclass")
		return mgen.Call{Pkg: tc.Pkg, Node: tc.Name, Func: ""}
	}
}
