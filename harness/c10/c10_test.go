// C10 — bad-smell findings match the documented thresholds exactly.
//
// A case is a small tree of conventional Java classes / interfaces described abstractly
// (methods with parameter counts, top-level ifs and classic switches, decoys that must not
// count, filler lines). The printer below turns the description into text and records, while
// printing, the line every declaration / closing brace / condition parenthesis lands on; the
// expected findings are computed from that record, never from the tool.
package c10

import (
	"encoding/json"
	"fmt"
	"os"
	"path/filepath"
	"sort"
	"strconv"
	"strings"
	"testing"

	"github.com/antlr/antlr4/runtime/Go/antlr/v4"
	parser "github.com/modernizing/coca/languages/java"
	"github.com/modernizing/coca/pkg/application/bs"
	"github.com/modernizing/coca/pkg/domain/bs_domain"
	"github.com/modernizing/coca/pkg/infrastructure/ast/bs_java"
	"pgregory.net/rapid"

	"verif/internal/cli"
	"verif/internal/pbt"
)

// ---------------------------------------------------------------------------------------
// abstract description

// Stmt is one statement of a method body.
//
//	fill    N plain lines (declarations, calls, comments, blank lines)
//	if      condition spanning H lines; Compact = brace-less with the statement (and the whole
//	        else-if chain) on the condition's last line; ElseIfs else-if branches (condition
//	        height ElseH, not used when Compact), Else; Inner statements inside the then-block
//	switch  classic switch with N cases (+ default); Compact = on one line; Inner inside case 0
//	for, foreach, while (condition height H), do, try, sync, lambda: containers for Inner
type Stmt struct {
	Kind     string `json:"kind"`
	N        int    `json:"n,omitempty"`
	H        int    `json:"h,omitempty"`
	CloseOwn bool   `json:"closeOwn,omitempty"` // ")" of a multi-line condition on its own line
	Compact  bool   `json:"compact,omitempty"`
	ElseIfs  int    `json:"elseIfs,omitempty"`
	ElseH    int    `json:"elseH,omitempty"`
	Else     bool   `json:"else,omitempty"`
	Inner    []Stmt `json:"inner,omitempty"`
	// widening a5 (checklist audit; all optional, so that older replay files still load)
	OpenOwn bool `json:"openOwn,omitempty"` // "(" of a multi-line condition ends its line: the first operand stands on the next line
	IfAlone bool `json:"ifAlone,omitempty"` // the keyword `if` on a line of its own above the condition's "("
	Arrow   bool `json:"arrow,omitempty"`   // switch statement written with `case X ->` rules
}

// Method kinds: "normal", "getter", "setter", "abstract" (no body); in interfaces also
// "default" and "static" (interface methods with a body, written like a normal method).
type Method struct {
	Kind      string `json:"kind"`
	Name      string `json:"name"`
	Mods      string `json:"mods,omitempty"`
	Ret       string `json:"ret,omitempty"`
	Params    int    `json:"params"`
	Throws    bool   `json:"throws,omitempty"`
	Doc       int    `json:"doc,omitempty"`     // lines of javadoc above the declaration
	OneLine   bool   `json:"oneLine,omitempty"` // getter/setter written on a single line
	BraceNext bool   `json:"braceNext,omitempty"`
	SplitHead bool   `json:"splitHead,omitempty"` // modifiers and return type on one line, name and parameters on the next
	Body      []Stmt `json:"body,omitempty"`
	// widening w4 (all optional, so that older replay files still load)
	Varargs    bool `json:"varargs,omitempty"`    // the last of the Params parameters is written `String... rest`
	WrapParams int  `json:"wrapParams,omitempty"` // 0 one line; 1 a continuation line after every third parameter; 2 one parameter per line, ")" on a line of its own
	RichParams bool `json:"richParams,omitempty"` // annotated / nested-generic parameter types (commas inside annotations and type arguments)
	SameLine   bool `json:"sameLine,omitempty"`   // a one-line getter/setter written on the line of the one-line getter/setter before it
	// widening r4: a getter/setter (Kind getter: no parameter, returns a value; Kind setter: one
	// parameter) written like an ordinary method: Body statements around its own statement, Doc,
	// BraceNext, SplitHead, RichParams as for an ordinary method. Methods of the other kinds may
	// carry a name that merely starts with get/set/is (see accessorLike).
	Full bool `json:"full,omitempty"`
	// widening a5: with SplitHead, the return type itself is broken over two lines (inside its type arguments)
	SplitRet bool `json:"splitRet,omitempty"`
}

type File struct {
	Dir         string   `json:"dir,omitempty"`
	Name        string   `json:"name"` // type name; "package-info" for a file without a type
	Package     string   `json:"package,omitempty"`
	Interface   bool     `json:"interface,omitempty"`
	Abstract    bool     `json:"abstract,omitempty"`
	Heritage    int      `json:"heritage,omitempty"` // 0 none, 1 extends, 2 implements two types, 3 both
	Header      int      `json:"header,omitempty"`   // comment lines at the top of the file
	Imports     int      `json:"imports,omitempty"`  // import lines
	Indent      int      `json:"indent,omitempty"`   // 0 = four spaces, 1 = two spaces, 2 = tab
	BraceNext   bool     `json:"braceNext,omitempty"`
	BlankLines  int      `json:"blankLines,omitempty"` // blank lines between members
	Fields      int      `json:"fields,omitempty"`
	Constructor int      `json:"constructor,omitempty"` // 0 none, k = constructor with k-1 parameters
	Methods     []Method `json:"methods"`
	// widening w4
	CRLF      bool `json:"crlf,omitempty"`      // Windows line ends
	ClassMods int  `json:"classMods,omitempty"` // 0 public; 1 package-private; 2 public final; 3 @Deprecated on its own line; 4 @SuppressWarnings("unused") on the declaration line; 5 generic type parameter
	InitBlock int  `json:"initBlock,omitempty"` // 0 none; 1 static initialiser, 2 instance initialiser: long, full of ifs, one tall condition - not a method
	// widening a5
	RichFill bool `json:"richFill,omitempty"` // filler lines drawn from a wider table of one-line statements (object creation, call chains, method references, casts, labels, literals that look like code ...)
	Tail     int  `json:"tail,omitempty"`     // 0 the file ends with "}\n"; 1 no final newline; 2 blank lines and a comment after the closing brace
	LongLine bool `json:"longLine,omitempty"` // a comment line of more than 65536 bytes at the top of the file
}

type Case struct {
	Files  []File   `json:"files"`
	Ignore []string `json:"ignore"`
	Sort   bool     `json:"sort"`
	RelDir bool     `json:"relDir,omitempty"` // CLI: pass a relative -p
	// widening w4
	DirStyle  int `json:"dirStyle,omitempty"`  // CLI: 0 as RelDir says; 1 "./src"; 2 "src/"; 3 run inside src without -p (the default ".")
	FlagStyle int `json:"flagStyle,omitempty"` // CLI: 0 `-p d -x a,b -s type`; 1 `-p=d -x=a,b -s=type`; 2 `--path d --ignore a,b --sort type`; 3 `--path=d --ignore=a,b --sort=type`
	// widening a5
	Prior       []File   `json:"prior,omitempty"`       // API: another tree, analysed (and reported under PriorIgnore) in the same process right before this one
	PriorIgnore []string `json:"priorIgnore,omitempty"` //
	PriorSame   bool     `json:"priorSame,omitempty"`   // ... under the very path this tree is then written to (the directory's content changes between two analyses)
	Single      bool     `json:"single,omitempty"`      // the path handed to the tool is that of the first file, not of the directory: the report is about that file alone
	Stray       bool     `json:"stray,omitempty"`       // files that are no Java sources lie in the tree (notes.txt, X.java.orig, X.javax, X.kt)
	StaleReport bool     `json:"staleReport,omitempty"` // CLI: coca_reporter/bs.json exists already (longer than any report) when the tool starts
}

type SweepCase struct {
	Indent    int  `json:"indent"`
	BraceNext bool `json:"braceNext"`
	CloseOwn  bool `json:"closeOwn"`
	Decoys    bool `json:"decoys"`
	Full      bool `json:"full"` // whole 4^5 product of the method-level parameters (thorough tier)
	Part      int  `json:"part"` // -1 = everything; otherwise only chunk Part (for replays)
	// widening w4
	Shapes          bool `json:"shapes,omitempty"`          // boundary classes with wrapped / annotated parameter lists and look-alike method names
	Varargs         bool `json:"varargs,omitempty"`         // ... and with a variable-arity last parameter
	InterfaceBodies bool `json:"interfaceBodies,omitempty"` // ... and default methods of interfaces
	// widening r4
	Accessors bool `json:"accessors,omitempty"` // boundary classes whose method-level parameters sit on getters/setters and on methods named like accessors
	// widening a5
	Layouts bool `json:"layouts,omitempty"` // boundary classes with "(" / `if` on lines of their own, arrow-form switches, bare blocks and labels as decoys, return types over two lines
	Arrows  bool `json:"arrows,omitempty"`  // ... the arrow-form switches among them
}

// ---------------------------------------------------------------------------------------
// printer with line tracking (ground truth for lines)

type ifTruth struct {
	ParenLine int // line of the condition's "("
	Height    int // lines from "(" to ")" inclusive
}

type methodTruth struct {
	Name      string
	Kind      string
	DeclLine  int
	CloseLine int
	Params    int
	Ifs       []ifTruth
	Switches  int
}

type fileTruth struct {
	Rel       string
	Interface bool
	HasType   bool
	Methods   []methodTruth
	Text      string
}

type jw struct {
	sb   strings.Builder
	next int // number of the line that will be written next (1-based)
	unit string
	v    int  // counter for fresh local names
	join bool // the next line continues the line written last
	rich bool // filler from the wider table (File.RichFill)
}

// ln writes one line and returns its number. With w.join set the text is appended to the
// line written last instead (two members on one line).
func (w *jw) ln(depth int, s string) int {
	if w.join {
		w.join = false
		text := strings.TrimSuffix(w.sb.String(), "\n")
		w.sb.Reset()
		w.sb.WriteString(text + " " + s + "\n")
		return w.next - 1
	}
	n := w.next
	if s != "" {
		w.sb.WriteString(strings.Repeat(w.unit, depth))
		w.sb.WriteString(s)
	}
	w.sb.WriteString("\n")
	w.next++
	return n
}

func (w *jw) fresh() int { w.v++; return w.v }

var paramTypes = []string{"int", "String", "long", "List<String>", "boolean", "int[]", "Map<String, Integer>", "double", "final int", "Object"}

// richParamTypes carry commas and parentheses that are not parameter separators.
var richParamTypes = []string{"@Nonnull String", "final Map<String, List<Integer>>", "@Named(\"a, b\") int", "java.util.Optional<String>",
	"@SuppressWarnings({\"x\", \"y\"}) Object", "int[][]", "final @Nonnull List<Map<String, Integer>>"}

func paramDecls(n int, rich, varargs bool) []string {
	var ps []string
	for i := 0; i < n; i++ {
		typ := paramTypes[i%len(paramTypes)]
		if rich {
			typ = richParamTypes[i%len(richParamTypes)]
		}
		if varargs && i == n-1 {
			// a variable-arity parameter is a parameter like any other
			ps = append(ps, fmt.Sprintf("String... p%d", i))
			continue
		}
		ps = append(ps, fmt.Sprintf("%s p%d", typ, i))
	}
	return ps
}

func paramList(n int) string { return strings.Join(paramDecls(n, false, false), ", ") }

// signature writes `<prefix>(<parameters>)<suffix><tail>` over one or several lines and
// returns the line the text starts on. wrap: 0 one line; 1 a continuation line after every
// third parameter; 2 one parameter per line and ")" on a line of its own.
func (w *jw) signature(depth int, prefix string, params []string, suffix string, wrap int, tail string) int {
	if wrap == 0 || len(params) < 2 {
		return w.ln(depth, prefix+"("+strings.Join(params, ", ")+")"+suffix+tail)
	}
	if wrap == 1 {
		first := 0
		for i := 0; i < len(params); i += 3 {
			end := i + 3
			if end > len(params) {
				end = len(params)
			}
			text := strings.Join(params[i:end], ", ")
			if end == len(params) {
				text += ")" + suffix + tail
			} else {
				text += ","
			}
			if i == 0 {
				first = w.ln(depth, prefix+"("+text)
			} else {
				w.ln(depth+2, text)
			}
		}
		return first
	}
	first := w.ln(depth, prefix+"(")
	for i, p := range params {
		if i < len(params)-1 {
			p += ","
		}
		w.ln(depth+2, p)
	}
	w.ln(depth, ")"+suffix+tail)
	return first
}

func (w *jw) fill(depth, n int) {
	for i := 0; i < n; i++ {
		k := w.fresh()
		if w.rich && k%3 != 0 {
			w.ln(depth, richLine(k))
			continue
		}
		switch k % 6 {
		case 0:
			w.ln(depth, fmt.Sprintf("int v%d = %d;", k, k))
		case 1:
			w.ln(depth, fmt.Sprintf("// step %d: if (x) { switch (y) {} }", k))
		case 2:
			w.ln(depth, fmt.Sprintf("n0 += %d;", k))
		case 3:
			w.ln(depth, "")
		case 4:
			w.ln(depth, fmt.Sprintf("String s%d = \"if (a) { } else { switch } – día\" + n0; // ¿por qué? {", k))
		default:
			w.ln(depth, fmt.Sprintf("n0 = Math.max(n0, %d);", k))
		}
	}
}

// richLines: one-line statements and comments that are neither an if nor a switch statement,
// whatever they contain or look like: object and array creation, call chains, method
// references, lambdas in arguments, conditional expressions, casts, labelled and empty
// statements, assertions, a switch expression as an initialiser, literals and comments that
// look like code. %d is replaced by a number that keeps local names apart.
var richLines = []string{
	"Object o%d = new Object();",
	"StringBuilder sb%d = new StringBuilder(\"if (\").append(n0).append(')');",
	"long c%d = names.stream().map(String::trim).filter(s -> s.length() > n0).count();",
	"n0 = n0 > %d ? n0 - 1 : n0 + 1;",
	"final long t%d = (long) n0 << 2;",
	"int[] arr%d = new int[] {1, 2, 3};",
	"int[][] grid%d = new int[3][n0 + 1];",
	"assert n0 >= 0 : \"switch (n0) { case %d: \";",
	"this.names.add(\"x\" + n0);",
	"super.toString();",
	"char ch%d = '{';",
	"String t%d = \"// not a comment */ \" + '\"' + \"/* nor this\";",
	"/* if (n0 > %d) { */ n0++; /* } */",
	"// public void fake%d(int a, int b, int c, int d, int e, int f, int g) {",
	"java.util.List<String> l%d = new java.util.ArrayList<>();",
	"@SuppressWarnings(\"unused\") final int q%d = n0;",
	"var w%d = names.get(0);",
	"Runnable r%d = this::toString;",
	"n0 = Math.max(n0, Integer.parseInt(\"1\" + n0));",
	"String u%d = String.format(\"%s if\", n0).trim().toLowerCase();",
	";",
	"iffy%d: n0++;",
	"switcher%d: n0--;",
	"ifCount(n0); switchOn(n0);",
	"boolean iffy%d = (n0 > 1);",
	"(n0 > 2 ? names : this.names).size();",
	"String z%d = (String) names.get(0);",
	"this.<String>pick(names);",
	"n0 += names.isEmpty() ? 0 : names.get(0).length();",
	"int k%d = switch (n0) { case 1 -> 2; default -> 3; };",
	"names.forEach(e -> { if (e.isEmpty()) { n0++; } });",
	"Object a%d = java.util.Arrays.asList(new String[] {\"if\", \"switch\"});",
	"// } } }",
	"/** class Fake%d { void none() { } } */",
	"double d%d = 1e3 + 0x1F + 07 + 1_000 + .5f;",
	"String e%d = null; Object f%d = e%d;",
}

func richLine(k int) string {
	return strings.ReplaceAll(richLines[(k-k/3-1)%len(richLines)], "%d", strconv.Itoa(k))
}

// cond writes `<head>(<condition over h lines>)<tail>` and returns the lines of "(" and ")".
// openOwn: nothing follows "(" on its line (the first operand stands on the next line);
// closeOwn: ")" stands on a line of its own.
func (w *jw) cond(depth int, head string, h int, closeOwn bool, tail string, openOwnOpt ...bool) (int, int) {
	openOwn := len(openOwnOpt) > 0 && openOwnOpt[0]
	if h <= 1 {
		n := w.ln(depth, fmt.Sprintf("%s(n0 > %d)%s", head, w.fresh(), tail))
		return n, n
	}
	if openOwn && closeOwn && h < 3 {
		closeOwn = false // "(" and ")" on lines of their own need a line for the operand between them
	}
	operands := h - 1 // operand lines below the line of "("
	if closeOwn {
		operands = h - 2
	}
	var first int
	if openOwn {
		first = w.ln(depth, head+"(")
	} else {
		first = w.ln(depth, fmt.Sprintf("%s(n0 > %d", head, w.fresh()))
	}
	last := first
	for i := 0; i < operands; i++ {
		op := "&&"
		if i%2 == 1 {
			op = "||"
		}
		k := w.fresh()
		text := fmt.Sprintf("%s n0 < %d", op, k)
		if openOwn {
			if i == 0 {
				text = fmt.Sprintf("n0 > %d", k)
			} else if i%2 == 0 {
				text = fmt.Sprintf("|| n0 < %d", k)
			} else {
				text = fmt.Sprintf("&& n0 < %d", k)
			}
		}
		if !closeOwn && i == operands-1 {
			text += ")" + tail
		} else if k%4 == 0 {
			text += " // because ) {"
		}
		last = w.ln(depth+2, text)
	}
	if closeOwn {
		last = w.ln(depth, ")"+tail)
	}
	return first, last
}

func (w *jw) block(depth int, inner []Stmt, t *methodTruth) {
	for _, s := range inner {
		w.stmt(depth, s, false, t)
	}
}

func (w *jw) stmt(depth int, s Stmt, top bool, t *methodTruth) {
	switch s.Kind {
	case "fill":
		w.fill(depth, s.N)
	case "if":
		var a, b int
		head, cd := "if ", depth
		if s.IfAlone {
			// the keyword on a line of its own; the condition (and its line record) starts at "("
			w.ln(depth, "if")
			head, cd = "", depth+1
		}
		if s.Compact {
			// brace-less; an else-if chain, if any, follows on the same line
			tail := fmt.Sprintf(" n0 -= %d;", w.fresh())
			for i := 0; i < s.ElseIfs; i++ {
				tail += fmt.Sprintf(" else if (n0 > %d) n0 -= %d;", w.fresh(), w.fresh())
			}
			if s.Else {
				tail += " else n0++;"
			}
			a, b = w.cond(cd, head, s.H, s.CloseOwn, tail, s.OpenOwn)
		} else {
			a, b = w.cond(cd, head, s.H, s.CloseOwn, " {", s.OpenOwn)
			if len(s.Inner) == 0 {
				w.fill(depth+1, 1)
			}
			w.block(depth+1, s.Inner, t)
			for i := 0; i < s.ElseIfs; i++ {
				w.cond(depth, "} else if ", s.ElseH, s.CloseOwn, " {", s.OpenOwn)
				w.fill(depth+1, 1)
			}
			if s.Else {
				w.ln(depth, "} else {")
				w.fill(depth+1, 1)
			}
			w.ln(depth, "}")
		}
		if top {
			t.Ifs = append(t.Ifs, ifTruth{ParenLine: a, Height: b - a + 1})
		}
	case "switch":
		switch {
		case s.Arrow && s.Compact:
			w.ln(depth, fmt.Sprintf("switch (n0) { case %d -> n0++; default -> n0--; }", w.fresh()))
		case s.Arrow:
			// a switch statement written with rules
			w.ln(depth, "switch (n0) {")
			for i := 0; i < s.N; i++ {
				if i == 0 {
					w.ln(depth+1, "case 0 -> {")
					w.block(depth+2, s.Inner, t)
					w.ln(depth+2, fmt.Sprintf("n0 = %d;", w.fresh()))
					w.ln(depth+1, "}")
				} else {
					w.ln(depth+1, fmt.Sprintf("case %d, %d -> n0 = %d;", 2*i, 2*i+1, w.fresh()))
				}
			}
			if s.N == 0 && len(s.Inner) > 0 {
				w.ln(depth+1, "default -> {")
				w.block(depth+2, s.Inner, t)
				w.ln(depth+1, "}")
			} else {
				w.ln(depth+1, "default -> n0--;")
			}
			w.ln(depth, "}")
		case s.Compact:
			w.ln(depth, fmt.Sprintf("switch (n0) { case %d: n0++; break; default: break; }", w.fresh()))
		default:
			w.ln(depth, "switch (n0) {")
			for i := 0; i < s.N; i++ {
				w.ln(depth+1, fmt.Sprintf("case %d:", i))
				if i == 0 {
					w.block(depth+2, s.Inner, t)
				}
				w.ln(depth+2, fmt.Sprintf("n0 = %d;", w.fresh()))
				if i%2 == 0 {
					w.ln(depth+2, "break;")
				}
			}
			w.ln(depth+1, "default:")
			if s.N == 0 {
				w.block(depth+2, s.Inner, t)
			}
			w.ln(depth+2, "break;")
			w.ln(depth, "}")
		}
		if top {
			t.Switches++
		}
	case "for":
		k := w.fresh()
		w.ln(depth, fmt.Sprintf("for (int i%d = 0; i%d < n0; i%d++) {", k, k, k))
		w.block(depth+1, s.Inner, t)
		w.ln(depth, "}")
	case "foreach":
		w.ln(depth, fmt.Sprintf("for (String e%d : names) {", w.fresh()))
		w.block(depth+1, s.Inner, t)
		w.ln(depth, "}")
	case "while":
		w.cond(depth, "while ", s.H, s.CloseOwn, " {")
		w.block(depth+1, s.Inner, t)
		w.ln(depth+1, "n0--;")
		w.ln(depth, "}")
	case "do":
		w.ln(depth, "do {")
		w.block(depth+1, s.Inner, t)
		w.ln(depth+1, "n0--;")
		w.cond(depth, "} while ", s.H, s.CloseOwn, ";")
	case "try":
		w.ln(depth, "try {")
		w.block(depth+1, s.Inner, t)
		w.ln(depth, fmt.Sprintf("} catch (RuntimeException ex%d) {", w.fresh()))
		w.stmt(depth+1, Stmt{Kind: "if", H: 1}, false, t)
		w.ln(depth, "} finally {")
		w.fill(depth+1, 1)
		w.ln(depth, "}")
	case "block":
		// a bare block: what it holds is not at the top level of the method
		w.ln(depth, "{")
		w.block(depth+1, s.Inner, t)
		w.ln(depth, "}")
	case "labeled":
		// a labelled loop: a statement that starts with a name and holds ifs
		k := w.fresh()
		w.ln(depth, fmt.Sprintf("iffy%d: for (int i%d = 0; i%d < n0; i%d++) {", k, k, k, k))
		w.block(depth+1, s.Inner, t)
		w.ln(depth+1, fmt.Sprintf("if (n0 > %d) { break iffy%d; }", w.fresh(), k))
		w.ln(depth, "}")
	case "trywith":
		k := w.fresh()
		w.ln(depth, fmt.Sprintf("try (java.io.Reader rd%d = new java.io.StringReader(\"if (\" + n0); java.io.Closeable cl%d = rd%d) {", k, k, k))
		w.block(depth+1, s.Inner, t)
		w.ln(depth, fmt.Sprintf("} catch (java.io.IOException | RuntimeException ex%d) {", w.fresh()))
		w.fill(depth+1, 1)
		w.ln(depth, "}")
	case "sync":
		w.ln(depth, "synchronized (this) {")
		w.block(depth+1, s.Inner, t)
		w.ln(depth, "}")
	case "lambda":
		if s.N > 0 {
			// explicitly typed lambda parameters: formal parameters that are not the method's
			var ps []string
			for i := 0; i < s.N; i++ {
				ps = append(ps, fmt.Sprintf("%s a%d", []string{"int", "String", "Object"}[i%3], i))
			}
			w.ln(depth, fmt.Sprintf("Handler h%d = (%s) -> {", w.fresh(), strings.Join(ps, ", ")))
		} else {
			w.ln(depth, fmt.Sprintf("Runnable r%d = () -> {", w.fresh()))
		}
		w.block(depth+1, s.Inner, t)
		w.ln(depth, "};")
	case "comment":
		// a block comment over N >= 2 lines
		w.ln(depth, "/*")
		for i := 2; i < s.N; i++ {
			w.ln(depth, fmt.Sprintf(" * if (n0 > %d) { switch (n0) { default: break; } }", w.fresh()))
		}
		w.ln(depth, " */")
	case "decoyline":
		// a whole container on one line, holding N ifs / switches that must not count
		var ifs, sws, chain strings.Builder
		for i := 0; i < s.N; i++ {
			fmt.Fprintf(&ifs, " if (n0 > %d) n0--;", w.fresh())
			sws.WriteString(" switch (n0) { default: break; }")
			fmt.Fprintf(&chain, " else if (n0 > %d) { n0--; }", w.fresh())
		}
		k := w.fresh()
		switch s.H % 5 {
		case 0:
			w.ln(depth, fmt.Sprintf("for (int i%d = 0; i%d < n0; i%d++) {%s }", k, k, k, ifs.String()))
		case 1:
			w.ln(depth, fmt.Sprintf("while (n0 > %d) {%s n0--; }", k, sws.String()))
		case 2:
			w.ln(depth, fmt.Sprintf("try { if (n0 > %d) { n0++; }%s } finally { n0++; }", k, chain.String()))
		case 3:
			w.ln(depth, fmt.Sprintf("do {%s } while (n0 > %d);", ifs.String(), k))
		default:
			w.ln(depth, fmt.Sprintf("synchronized (this) {%s switch (n0) { default: break; } }", ifs.String()))
		}
	default:
		panic("GENERATOR BUG: unknown statement kind " + s.Kind)
	}
}

func capital(s string) string { return strings.ToUpper(s[:1]) + s[1:] }

func (w *jw) method(depth int, m Method, inInterface bool) methodTruth {
	t := methodTruth{Name: m.Name, Kind: m.Kind, Params: m.Params}
	if m.Doc > 0 {
		w.ln(depth, "/**")
		for i := 1; i < m.Doc; i++ {
			w.ln(depth, fmt.Sprintf(" * %s does things; if (x) then switch.", m.Name))
		}
		w.ln(depth, " */")
	}
	ret := m.Ret
	if ret == "" {
		ret = "void"
	}
	params := paramDecls(m.Params, m.RichParams, m.Varargs)
	prefix := ret + " " + m.Name
	if m.Mods != "" {
		prefix = m.Mods + " " + prefix
	}
	suffix := ""
	if m.Throws {
		suffix = " throws Exception"
	}
	switch m.Kind {
	case "abstract":
		t.DeclLine = w.signature(depth, prefix, params, suffix, m.WrapParams, ";")
		t.CloseLine = w.next - 1
		return t
	case "getter", "setter":
		if m.Full {
			break // written like an ordinary method, below
		}
		stmt := "return n0;"
		if m.Kind == "setter" {
			stmt = "this.n0 = p0;"
		}
		head := prefix + "(" + strings.Join(params, ", ") + ")" + suffix
		if m.OneLine {
			t.DeclLine = w.ln(depth, head+" { "+stmt+" }")
			t.CloseLine = t.DeclLine
			return t
		}
		t.DeclLine = w.openBrace(depth, head, m.BraceNext)
		w.ln(depth+1, stmt)
		t.CloseLine = w.ln(depth, "}")
		return t
	}
	if m.OneLine && len(m.Body) == 0 {
		// an ordinary method with an empty body, written on one line
		body := " { }"
		if ret != "void" {
			body = " { return " + defaultValue(ret) + "; }"
		}
		t.DeclLine = w.signature(depth, prefix, params, suffix, m.WrapParams, body)
		t.CloseLine = w.next - 1
		return t
	}
	tail := " {"
	if m.BraceNext {
		tail = ""
	}
	if m.SplitHead {
		// the declaration starts on the line of its modifiers and return type
		first := ret
		if m.Mods != "" {
			first = m.Mods + " " + ret
		}
		if cut := strings.Index(ret, ", "); m.SplitRet && cut >= 0 {
			// the return type itself goes over two lines (broken inside its type arguments): the
			// declaration starts on the first, next to the modifiers
			t.DeclLine = w.ln(depth, first[:len(first)-len(ret)+cut+1])
			w.ln(depth+2, ret[cut+2:])
		} else {
			t.DeclLine = w.ln(depth, first)
		}
		w.signature(depth+2, m.Name, params, suffix, m.WrapParams, " {")
	} else {
		t.DeclLine = w.signature(depth, prefix, params, suffix, m.WrapParams, tail)
		if m.BraceNext {
			w.ln(depth, "{")
		}
	}
	if m.Kind == "setter" {
		// a setter's own statement, ahead of whatever else its body holds
		if m.RichParams || m.Varargs {
			w.ln(depth+1, "this.n0 = 1;")
		} else {
			w.ln(depth+1, "this.n0 = p0;")
		}
	}
	for _, s := range m.Body {
		w.stmt(depth+1, s, true, &t)
	}
	if ret != "void" {
		w.ln(depth+1, "return "+defaultValue(ret)+";")
	}
	t.CloseLine = w.ln(depth, "}")
	return t
}

// spanOf is the distance between the line a method's declaration starts on and the line of
// its closing brace, as the printer lays it out.
func spanOf(m Method) int {
	w := &jw{next: 1, unit: " "}
	m.Doc = 0
	t := w.method(0, m, false)
	return t.CloseLine - t.DeclLine
}

func defaultValue(ret string) string {
	switch ret {
	case "int", "long", "double":
		return "n0"
	case "boolean":
		return "n0 > 0"
	case "String":
		return "\"\" + n0"
	}
	return "null"
}

func (w *jw) openBrace(depth int, head string, next bool) int {
	if next {
		n := w.ln(depth, head)
		w.ln(depth, "{")
		return n
	}
	return w.ln(depth, head+" {")
}

var indentUnits = []string{"    ", "  ", "\t"}

func render(f File) fileTruth {
	w := &jw{next: 1, unit: indentUnits[f.Indent%len(indentUnits)], rich: f.RichFill}
	rel := f.Name + ".java"
	if f.Dir != "" {
		rel = f.Dir + "/" + rel
	}
	t := fileTruth{Rel: rel, Interface: f.Interface, HasType: f.Name != "package-info"}
	for i := 0; i < f.Header; i++ {
		w.ln(0, fmt.Sprintf("// header line %d { if (", i))
	}
	if f.LongLine {
		// one line longer than any common buffer
		w.ln(0, "// "+strings.Repeat("if (a) { switch (b) { } } ", 2800))
	}
	if f.Package != "" {
		w.ln(0, "package "+f.Package+";")
		w.ln(0, "")
	}
	if !t.HasType {
		t.Text = w.sb.String()
		return t
	}
	imports := []string{"java.util.List", "java.util.Map", "java.io.IOException", "static java.lang.Math.max", "java.util.concurrent.*", "static java.util.Objects.*", "java.util.List"}
	for i := 0; i < f.Imports && i < len(imports); i++ {
		w.ln(0, "import "+imports[i]+";")
	}
	if f.Imports > 0 {
		w.ln(0, "")
	}
	kw := "class"
	if f.Interface {
		kw = "interface"
	} else if f.Abstract {
		kw = "abstract class"
	}
	heritage := ""
	if f.Interface {
		if f.Heritage != 0 {
			heritage = " extends Comparable<" + f.Name + ">"
		}
	} else {
		if f.Heritage&1 != 0 {
			heritage += " extends BaseEntity"
		}
		if f.Heritage&2 != 0 {
			heritage += " implements java.io.Serializable, Comparable<" + f.Name + ">"
		}
	}
	vis, typeParams := "public ", ""
	switch f.ClassMods {
	case 1:
		vis = ""
	case 2:
		if !f.Interface && !f.Abstract {
			vis = "public final "
		}
	case 3:
		w.ln(0, "@Deprecated")
	case 4:
		vis = "@SuppressWarnings(\"unused\") public "
	case 5:
		typeParams = "<T extends Comparable<T>>"
	}
	w.openBrace(0, vis+kw+" "+f.Name+typeParams+heritage, f.BraceNext)
	if !f.Interface {
		for i := 0; i < f.Fields; i++ {
			switch i {
			case 0:
				w.ln(1, "private int n0;")
			case 1:
				w.ln(1, "private List<String> names;")
			default:
				w.ln(1, fmt.Sprintf("protected String text%d = \"{\";", i))
			}
		}
		if f.InitBlock > 0 {
			// an initialiser block is no method: its length, ifs and tall condition call for nothing
			if f.InitBlock == 1 {
				w.ln(1, "static {")
			} else {
				w.ln(1, "{")
			}
			w.ln(2, "int n0 = 0;")
			scrap := &methodTruth{}
			w.stmt(2, Stmt{Kind: "if", H: 5, Compact: true}, false, scrap)
			for i := 0; i < 9; i++ {
				w.stmt(2, Stmt{Kind: "if", H: 1, Compact: true}, false, scrap)
			}
			for i := 0; i < 24; i++ {
				w.ln(2, fmt.Sprintf("n0 += %d;", i))
			}
			w.ln(1, "}")
		}
		if f.Constructor > 0 {
			for i := 0; i < f.BlankLines; i++ {
				w.ln(0, "")
			}
			w.ln(1, "public "+f.Name+"("+paramList(f.Constructor-1)+") {")
			w.ln(2, "this.n0 = 1;")
			w.ln(1, "}")
		}
	} else {
		for i := 0; i < f.Fields; i++ {
			w.ln(1, fmt.Sprintf("int LIMIT%d = %d;", i, i))
		}
	}
	for i, m := range f.Methods {
		if oneLineAccessor := func(x Method) bool { return isGS(x.Kind) && x.OneLine && x.Doc == 0 }; m.SameLine && i > 0 && oneLineAccessor(m) && oneLineAccessor(f.Methods[i-1]) {
			w.join = true
		} else {
			for i := 0; i < f.BlankLines; i++ {
				w.ln(0, "")
			}
		}
		t.Methods = append(t.Methods, w.method(1, m, f.Interface))
	}
	w.ln(0, "}")
	t.Text = w.sb.String()
	switch f.Tail {
	case 1:
		t.Text = strings.TrimSuffix(t.Text, "\n") // the closing brace is the last byte of the file
	case 2:
		t.Text += "\n\n// end of " + f.Name + " { if (\n\n"
	}
	if f.CRLF {
		t.Text = strings.ReplaceAll(t.Text, "\n", "\r\n")
	}
	return t
}

// ---------------------------------------------------------------------------------------
// expected findings

// generator features tied to defects found while widening (see notes/proposed/C10-*.patch):
// they are switched off when known_findings.json lists them as known.
const (
	varargsFeature       = "varargs_parameter"
	interfaceBodyFeature = "interface_method_with_body"
	arrowFeature         = "arrow_switch_statement"
)

const (
	kLongMethod = "longMethod"
	kLongParams = "longParameterList"
	kLargeClass = "largeClass"
	kDataClass  = "dataClass"
	kLazy       = "lazyElement"
	kRepeated   = "repeatedSwitches"
	kComplex    = "complexCondition"
)

var sevenKinds = []string{kLongMethod, kLongParams, kLargeClass, kDataClass, kLazy, kRepeated, kComplex}
var sized = map[string]bool{kLongMethod: true, kLongParams: true, kLargeClass: true, kDataClass: true, kRepeated: true}
var methodLevel = map[string]bool{kLongMethod: true, kLongParams: true, kRepeated: true, kComplex: true}
var isSeven = map[string]bool{}

func init() {
	for _, k := range sevenKinds {
		isSeven[k] = true
	}
}

// finding is the part of a reported finding the statement speaks about: kind, file, the
// start line for method-level kinds, the size for sized kinds.
type finding struct {
	Kind string
	File string
	Line string
	Size int
}

func (f finding) String() string {
	return fmt.Sprintf("%s %s line=%q size=%d", f.Kind, f.File, f.Line, f.Size)
}

func isGS(kind string) bool { return kind == "getter" || kind == "setter" }

// accessorLike: the name starts like an accessor's (get..., set..., isX...). For a method of
// kind getter/setter that is what it is. For a method of another kind (setBounds with six
// parameters, getKind(int), settle, getaway, isReady) the statement does not say whether it is
// a "getter/setter": such methods stand only where the class-level findings are the same
// under both readings (interfaces; classes with at least one method of an ordinary name and
// fewer than 20 methods that are not getters/setters by kind), which expectedOf verifies.
func accessorLike(name string) bool {
	if strings.HasPrefix(name, "get") || strings.HasPrefix(name, "set") {
		return true
	}
	return len(name) > 2 && strings.HasPrefix(name, "is") && name[2] >= 'A' && name[2] <= 'Z'
}

// prefixLookAlike: starts with get/set without being spelt like an accessor (settle, getaway, set7).
func prefixLookAlike(name string) bool {
	if !strings.HasPrefix(name, "get") && !strings.HasPrefix(name, "set") {
		return false
	}
	return len(name) == 3 || !(name[3] >= 'A' && name[3] <= 'Z')
}

func expectedOf(root string, t fileTruth) []finding {
	if !t.HasType {
		return nil
	}
	file := filepath.Join(root, filepath.FromSlash(t.Rel))
	var out []finding
	normal, gs, either := 0, 0, 0
	for _, m := range t.Methods {
		switch {
		case isGS(m.Kind):
			gs++
		case accessorLike(m.Name):
			either++ // a getter/setter under one reading of the statement, an ordinary method under the other
		default:
			normal++
		}
		line := strconv.Itoa(m.DeclLine)
		if l := m.CloseLine - m.DeclLine; l > 30 {
			out = append(out, finding{kLongMethod, file, line, l})
		}
		if m.Params > 5 {
			out = append(out, finding{kLongParams, file, line, m.Params})
		}
		if len(m.Ifs) >= 8 {
			out = append(out, finding{kRepeated, file, line, len(m.Ifs)})
		}
		if m.Switches >= 8 {
			out = append(out, finding{kRepeated, file, line, m.Switches})
		}
		for _, c := range m.Ifs {
			if c.Height >= 4 {
				out = append(out, finding{kComplex, file, strconv.Itoa(c.ParenLine), 0})
			}
		}
	}
	if !t.Interface {
		if either > 0 && !(normal >= 1 && normal+either < 20) {
			// largeClass / dataClass would depend on the reading: the generators never build this
			panic(fmt.Sprintf("GENERATOR BUG (not a violation): class %s has %d methods whose names start like accessors but are none by kind, next to %d ordinary methods: the class-level findings depend on how the statement's \"getters/setters\" is read", t.Rel, either, normal))
		}
		if normal >= 20 {
			out = append(out, finding{kLargeClass, file, "", normal})
		}
		if normal == 0 && gs >= 1 {
			out = append(out, finding{kDataClass, file, "", gs})
		}
		if normal+gs == 0 {
			out = append(out, finding{kLazy, file, "", 0})
		}
	}
	return out
}

func project(m bs_domain.BadSmellModel) finding {
	f := finding{Kind: m.Bs, File: m.File}
	if methodLevel[m.Bs] {
		f.Line = m.Line
	}
	if sized[m.Bs] {
		f.Size = m.Size
	}
	return f
}

func keys(fs []finding) []string {
	var out []string
	for _, f := range fs {
		out = append(out, f.String())
	}
	sort.Strings(out)
	return out
}

func diff(want, got []string) string {
	count := map[string]int{}
	for _, w := range want {
		count[w]++
	}
	for _, g := range got {
		count[g]--
	}
	var names []string
	for k := range count {
		names = append(names, k)
	}
	sort.Strings(names)
	var sb strings.Builder
	for _, k := range names {
		switch n := count[k]; {
		case n > 0:
			fmt.Fprintf(&sb, "  missing (x%d): %s\n", n, k)
		case n < 0:
			fmt.Fprintf(&sb, "  unexpected (x%d): %s\n", -n, k)
		}
	}
	return sb.String()
}

func without(fs []finding, ignore []string) []finding {
	ig := map[string]bool{}
	for _, k := range ignore {
		ig[k] = true
	}
	var out []finding
	for _, f := range fs {
		if !ig[f.Kind] {
			out = append(out, f)
		}
	}
	return out
}

func seven(ms []bs_domain.BadSmellModel) []finding {
	var out []finding
	for _, m := range ms {
		if isSeven[m.Bs] {
			out = append(out, project(m))
		}
	}
	return out
}

// full is the complete reported model (used for the ignore and grouping clauses, where the
// statement speaks about findings as such).
func full(m bs_domain.BadSmellModel) string {
	return fmt.Sprintf("%s|%s|%s|%d|%s", m.Bs, m.File, m.Line, m.Size, m.Description)
}

func fullKeys(ms []bs_domain.BadSmellModel, skip func(kind string) bool) []string {
	var out []string
	for _, m := range ms {
		if skip != nil && skip(m.Bs) {
			continue
		}
		out = append(out, full(m))
	}
	sort.Strings(out)
	return out
}

// graphConnectedCall comes from a third-party package that accumulates state across calls
// in one process; it names no file and is outside the seven kinds.
func isGraph(kind string) bool { return kind == "graphConnectedCall" }

// checkSorted judges a grouped report against the flat list it was made from.
func checkSorted(flat []bs_domain.BadSmellModel, grouped map[string][]bs_domain.BadSmellModel, what string) string {
	byKind := map[string][]bs_domain.BadSmellModel{}
	for _, m := range flat {
		byKind[m.Bs] = append(byKind[m.Bs], m)
	}
	for k := range grouped {
		if _, ok := byKind[k]; !ok {
			return fmt.Sprintf("%s: group %q has no finding of that kind in the unsorted report", what, k)
		}
	}
	var kinds []string
	for k := range byKind {
		kinds = append(kinds, k)
	}
	sort.Strings(kinds)
	for _, k := range kinds {
		g, ok := grouped[k]
		if !ok {
			return fmt.Sprintf("%s: kind %q is reported but has no group", what, k)
		}
		for _, m := range g {
			if m.Bs != k {
				return fmt.Sprintf("%s: group %q contains a finding of kind %q", what, k, m.Bs)
			}
		}
		if d := diff(fullKeys(byKind[k], nil), fullKeys(g, nil)); d != "" {
			return fmt.Sprintf("%s: group %q is not the multiset of the unsorted findings of that kind:\n%s", what, k, d)
		}
		if sized[k] {
			for i := 1; i < len(g); i++ {
				if g[i-1].Size < g[i].Size {
					var sizes []int
					for _, m := range g {
						sizes = append(sizes, m.Size)
					}
					return fmt.Sprintf("%s: sizes of group %q are not in non-increasing order: %v", what, k, sizes)
				}
			}
		}
	}
	return ""
}

// ---------------------------------------------------------------------------------------
// validation with the shipped parser

type errListener struct {
	*antlr.DefaultErrorListener
	errs []string
}

func (e *errListener) SyntaxError(_ antlr.Recognizer, _ interface{}, line, column int, msg string, _ antlr.RecognitionException) {
	e.errs = append(e.errs, fmt.Sprintf("%d:%d %s", line, column, msg))
}

// syntaxErrors parses text with the shipped lexer and parser. The shipped grammar is very
// slow on classic switch statements in full LL mode (ambiguity with Java 17 switch
// expressions), so the usual two-stage strategy is used: SLL first, which never accepts an
// invalid text, and full LL only if SLL reports an error.
func syntaxErrors(text string) []string {
	if errs := parseWith(text, true); len(errs) == 0 {
		return nil
	}
	return parseWith(text, false)
}

func parseWith(text string, sll bool) []string {
	l := &errListener{DefaultErrorListener: antlr.NewDefaultErrorListener()}
	lexer := parser.NewJavaLexer(antlr.NewInputStream(text))
	lexer.RemoveErrorListeners()
	lexer.AddErrorListener(l)
	p := parser.NewJavaParser(antlr.NewCommonTokenStream(lexer, 0))
	p.RemoveErrorListeners()
	p.AddErrorListener(l)
	if sll {
		p.GetInterpreter().SetPredictionMode(antlr.PredictionModeSLL)
	}
	p.CompilationUnit()
	return l.errs
}

func mustParse(t fileTruth) {
	if errs := syntaxErrors(t.Text); len(errs) > 0 {
		panic(fmt.Sprintf("GENERATOR BUG (not a violation): the shipped Java parser rejects generated file %s: %v\n%s", t.Rel, errs, t.Text))
	}
}

// ---------------------------------------------------------------------------------------
// running the tool

var devNull *os.File

// quiet runs f with the process's stdout pointed at /dev/null (the analysis prints one line
// per file).
func quiet(f func()) {
	if devNull == nil {
		devNull, _ = os.OpenFile(os.DevNull, os.O_WRONLY, 0)
	}
	old := os.Stdout
	if devNull != nil {
		os.Stdout = devNull
	}
	defer func() { os.Stdout = old }()
	f()
}

func resetState() {
	bs_java.VerifResetBsJava()
	bs.VerifResetBs()
}

func writeTree(root string, truths []fileTruth, stray ...bool) {
	files := map[string]string{}
	for _, t := range truths {
		if _, dup := files[t.Rel]; dup {
			panic("GENERATOR BUG: two files named " + t.Rel)
		}
		files[t.Rel] = t.Text
	}
	if len(stray) > 0 && stray[0] && len(truths) > 0 {
		for rel, text := range strayFiles(truths) {
			if _, dup := files[rel]; dup || strings.HasSuffix(rel, ".java") {
				panic("GENERATOR BUG: stray file named " + rel)
			}
			files[rel] = text
		}
	}
	cli.WriteTree(root, files)
}

func texts(truths []fileTruth) string {
	var sb strings.Builder
	for _, t := range truths {
		fmt.Fprintf(&sb, "----- %s -----\n", t.Rel)
		lines := strings.Split(strings.TrimSuffix(t.Text, "\n"), "\n")
		for i, l := range lines {
			fmt.Fprintf(&sb, "%3d| %s\n", i+1, l)
		}
	}
	return sb.String()
}

func isSizedKind(k string) bool { return sized[k] }

// apiOpt: variations of how the API is driven.
type apiOpt struct {
	Path        string      // handed to AnalysisPath instead of the directory: the path of file number Only
	Only        int         //
	PriorRoot   string      // a tree analysed and reported (under PriorIgnore) first, in the same process, without any reset in between
	PriorTruths []fileTruth //
	PriorIgnore []string    //
	Prepare     func()      // called between the analysis of the tree analysed first and that of the tree under judgement (writes the latter)
}

// strayFiles: files that are no Java sources, whatever they hold.
func strayFiles(truths []fileTruth) map[string]string {
	lazy := "public class Stray {\n}\n"
	dir := ""
	if i := strings.LastIndex(truths[0].Rel, "/"); i >= 0 {
		dir = truths[0].Rel[:i+1]
	}
	return map[string]string{
		"notes.txt":             "class Notes { }\n",
		".gitignore":            "# build output\n*.class\n*.log\n/target/\nnode_modules/\n",
		truths[0].Rel + ".orig": lazy,
		truths[0].Rel + "~":     lazy,
		dir + "Helper.kt":       "class Helper\n",
		"gen/Model.javax":       lazy,
		"gen/java":              lazy,
		dir + "Stray.java.txt":  lazy,
		dir + "StrayJava":       lazy,
		dir + "Stray.jav":       lazy,
	}
}

// judgeAPI runs the API on a written tree and checks the exactness, ignore and sort
// clauses for every ignore list given. Returns "" or a violation text.
func judgeAPI(root string, truths []fileTruth, ignores [][]string, sortToo bool, opts ...apiOpt) string {
	var opt apiOpt
	if len(opts) > 0 {
		opt = opts[0]
	}
	var want []finding
	for i, t := range truths {
		if opt.Path != "" && i != opt.Only {
			continue // the tool is pointed at one file: the others are none of its business
		}
		want = append(want, expectedOf(root, t)...)
	}
	path := root
	if opt.Path != "" {
		path = opt.Path
	}
	resetState()
	if opt.PriorRoot != "" {
		// another tree goes through the same process first; nothing of it may show below
		var wantPrior []finding
		for _, t := range opt.PriorTruths {
			wantPrior = append(wantPrior, expectedOf(opt.PriorRoot, t)...)
		}
		var got []bs_domain.BadSmellModel
		if p := pbt.Call(func() {
			quiet(func() {
				priorApp := bs.NewBadSmellApp()
				got = priorApp.IdentifyBadSmell(priorApp.AnalysisPath(opt.PriorRoot), opt.PriorIgnore)
			})
		}); p != "" {
			return "AnalysisPath/IdentifyBadSmell on the tree analysed first panicked: " + p
		}
		if d := diff(keys(without(wantPrior, opt.PriorIgnore)), keys(seven(got))); d != "" {
			return fmt.Sprintf("the report on the tree analysed first (ignore=%v) differs from the findings its sources call for:\n%s", opt.PriorIgnore, d)
		}
	}
	if opt.Prepare != nil {
		opt.Prepare()
	}
	app := bs.NewBadSmellApp()
	var nodes *[]bs_domain.BSDataStruct
	var base []bs_domain.BadSmellModel
	if p := pbt.Call(func() {
		quiet(func() {
			nodes = app.AnalysisPath(path)
			base = app.IdentifyBadSmell(nodes, nil)
		})
	}); p != "" {
		return "AnalysisPath/IdentifyBadSmell panicked: " + p
	}
	if d := diff(keys(want), keys(seven(base))); d != "" {
		return "the report differs from the findings the sources call for (kind file line size):\n" + d
	}
	for _, ig := range ignores {
		var got []bs_domain.BadSmellModel
		if p := pbt.Call(func() { quiet(func() { got = app.IdentifyBadSmell(nodes, ig) }) }); p != "" {
			return fmt.Sprintf("IdentifyBadSmell(ignore=%v) panicked: %s", ig, p)
		}
		igSet := map[string]bool{}
		for _, k := range ig {
			igSet[k] = true
		}
		skip := func(kind string) bool { return isGraph(kind) }
		wantFull := fullKeys(base, func(kind string) bool { return igSet[kind] || isGraph(kind) })
		if d := diff(wantFull, fullKeys(got, skip)); d != "" {
			return fmt.Sprintf("ignore=%v: the result is not the unfiltered result minus the named kinds:\n%s", ig, d)
		}
		if d := diff(keys(without(want, ig)), keys(seven(got))); d != "" {
			return fmt.Sprintf("ignore=%v: the report differs from the expected findings minus the named kinds:\n%s", ig, d)
		}
		if sortToo {
			var grouped map[string][]bs_domain.BadSmellModel
			flat := append([]bs_domain.BadSmellModel(nil), got...)
			if p := pbt.Call(func() { grouped = bs_domain.SortSmellByType(got, isSizedKind) }); p != "" {
				return "SortSmellByType panicked: " + p
			}
			if msg := checkSorted(flat, grouped, fmt.Sprintf("SortSmellByType (ignore=%v)", ig)); msg != "" {
				return msg
			}
		}
	}
	if len(ignores) > 0 {
		// the sequence "a call with an ignore list, then a call without": the option of one call
		// must not leak into the next call on the same analysis
		var again []bs_domain.BadSmellModel
		if p := pbt.Call(func() { quiet(func() { again = app.IdentifyBadSmell(nodes, nil) }) }); p != "" {
			return "IdentifyBadSmell(nil) after the calls with ignore lists panicked: " + p
		}
		if d := diff(fullKeys(base, isGraph), fullKeys(again, isGraph)); d != "" {
			return fmt.Sprintf("IdentifyBadSmell without ignore list, called again after ignore=%v on the same analysis, differs from the first such call:\n%s", ignores[len(ignores)-1], d)
		}
		if d := diff(keys(want), keys(seven(again))); d != "" {
			return fmt.Sprintf("IdentifyBadSmell without ignore list, called again after ignore=%v, differs from the findings the sources call for:\n%s", ignores[len(ignores)-1], d)
		}
	}
	return ""
}

func runCLI(cwd string, dirArg string, ignore []string, sortType bool, flagStyle int) (flat []bs_domain.BadSmellModel, grouped map[string][]bs_domain.BadSmellModel, problem string) {
	// coca_reporter is left as the run before (or the case) left it: a report overwrites what is there
	args := []string{"bs"}
	opt := func(short, long, value string) {
		switch flagStyle % 4 {
		case 0:
			args = append(args, short, value)
		case 1:
			args = append(args, short+"="+value)
		case 2:
			args = append(args, long, value)
		default:
			args = append(args, long+"="+value)
		}
	}
	if dirArg != "" {
		opt("-p", "--path", dirArg)
	}
	if len(ignore) > 0 {
		opt("-x", "--ignore", strings.Join(ignore, ","))
	}
	if sortType {
		opt("-s", "--sort", "type")
	}
	res, err := cli.Run("coca", cwd, nil, args...)
	if err != nil {
		panic("HARNESS: cannot run coca: " + err.Error())
	}
	if res.TimedOut {
		return nil, nil, fmt.Sprintf("coca %v timed out", args)
	}
	if res.ExitCode != 0 {
		return nil, nil, fmt.Sprintf("coca %v exited with %d:\n%s", args, res.ExitCode, tail(res.Stderr, 1500))
	}
	data, err := os.ReadFile(filepath.Join(cwd, "coca_reporter", "bs.json"))
	if err != nil {
		return nil, nil, fmt.Sprintf("coca %v wrote no coca_reporter/bs.json: %v", args, err)
	}
	if sortType {
		if err := json.Unmarshal(data, &grouped); err != nil {
			return nil, nil, fmt.Sprintf("coca %v: bs.json is not a map of kind to findings: %v\n%s", args, err, tail(string(data), 800))
		}
		return nil, grouped, ""
	}
	if err := json.Unmarshal(data, &flat); err != nil {
		return nil, nil, fmt.Sprintf("coca %v: bs.json is not a list of findings: %v\n%s", args, err, tail(string(data), 800))
	}
	return flat, nil, ""
}

func tail(s string, n int) string {
	if len(s) > n {
		return "…" + s[len(s)-n:]
	}
	return s
}

// ---------------------------------------------------------------------------------------
// classification

func near(v, threshold int) bool { return v >= threshold-1 && v <= threshold+1 }

func classify(c Case, truths []fileTruth, want []finding, mode string) pbt.Verdict {
	v := pbt.Verdict{}
	labels := map[string]bool{}
	nearAny := false
	var canon []string
	for i, t := range truths {
		normal, gs := 0, 0
		var vecs []string
		for _, m := range t.Methods {
			if isGS(m.Kind) {
				gs++
			} else {
				normal++
			}
			l := m.CloseLine - m.DeclLine
			var hs []int
			for _, c := range m.Ifs {
				hs = append(hs, c.Height)
				if near(c.Height, 4) {
					nearAny = true
					labels["H_near_threshold"] = true
				}
			}
			if near(l, 30) {
				nearAny = true
				labels["L_near_threshold"] = true
			}
			if near(m.Params, 5) {
				nearAny = true
				labels["P_near_threshold"] = true
			}
			if near(len(m.Ifs), 8) {
				nearAny = true
				labels["I_near_threshold"] = true
			}
			if near(m.Switches, 8) {
				nearAny = true
				labels["S_near_threshold"] = true
			}
			tall := false
			for _, h := range hs {
				tall = tall || h >= 4
			}
			overOther := m.Params > 5 || len(m.Ifs) >= 8 || m.Switches >= 8 || tall
			who := m.Kind[:1]
			switch {
			case isGS(m.Kind):
				if l > 30 || overOther {
					labels["getter_or_setter_over_a_method_threshold"] = true
				}
				if near(l, 30) || near(len(m.Ifs), 8) || near(m.Switches, 8) || (len(hs) > 0 && near(hs[0], 4)) {
					labels["getter_or_setter_near_a_method_threshold"] = true
				}
			case accessorLike(m.Name):
				who += "~" // named like an accessor
				labels["accessor_named_method_of_another_kind"] = true
				if t.Interface {
					labels["accessor_named_method_in_interface"] = true
				} else {
					labels["accessor_named_method_in_class"] = true
				}
				if overOther {
					labels["accessor_named_method_over_P_I_S_or_H_threshold"] = true
					if !t.Interface {
						labels["accessor_named_method_in_class_over_P_I_S_or_H_threshold"] = true
					}
				}
				if m.Params > 5 {
					labels["accessor_named_method_long_parameter_list"] = true
				}
				if l > 30 {
					labels["accessor_named_method_long"] = true
				}
				if prefixLookAlike(m.Name) {
					labels["name_with_get_or_set_prefix_not_spelt_as_accessor"] = true
				}
				if strings.HasPrefix(m.Name, "is") {
					labels["is_accessor_named_method"] = true
				}
				if m.Kind == "abstract" {
					labels["accessor_named_abstract_method"] = true
				}
			}
			vecs = append(vecs, fmt.Sprintf("%s:L%dP%dI%dS%dH%v", who, l, m.Params, len(m.Ifs), m.Switches, hs))
		}
		if t.HasType && !t.Interface {
			if near(normal, 20) {
				nearAny = true
				labels["M_near_threshold"] = true
			}
			if normal+gs <= 1 {
				nearAny = true
				labels["methods_0_or_1"] = true
			}
			if normal <= 1 && gs >= 1 && gs <= 2 {
				nearAny = true
				labels["dataclass_boundary"] = true
			}
		}
		if t.Interface {
			labels["interface"] = true
		}
		if !t.HasType {
			labels["file_without_type"] = true
		}
		f := c.Files[i]
		if f.CRLF {
			labels["crlf_line_ends"] = true
		}
		if f.ClassMods != 0 {
			labels["class_header_variant"] = true
		}
		if f.InitBlock != 0 {
			labels["decoy_initialiser_block"] = true
		}
		if f.RichFill {
			labels["filler_from_wider_statement_table"] = true
		}
		if f.Abstract && normal == 0 && !t.Interface {
			labels["abstract_class_without_ordinary_methods"] = true
		}
		switch f.Tail {
		case 1:
			labels["no_final_newline"] = true
		case 2:
			labels["text_after_closing_brace"] = true
		}
		if f.LongLine {
			labels["line_longer_than_65536_bytes"] = true
		}
		if f.Imports > 3 {
			labels["static_or_wildcard_imports"] = true
		}
		for _, special := range classNames[13:] {
			if strings.HasPrefix(f.Name, special) {
				labels["class_name_special_characters_or_tool_word"] = true
			}
		}
		for _, special := range dirs[7:] {
			if f.Dir == special {
				labels["directory_named_like_kind_or_near_test_directory"] = true
			}
		}
		if t.HasType && !t.Interface && normal == 0 && gs >= 19 {
			labels["data_class_with_about_20_accessors"] = true
		}
		for j, other := range c.Files {
			if j != i && other.Name == f.Name {
				labels["same_class_name_in_two_directories"] = true
			}
		}
		for _, m := range f.Methods {
			if m.Varargs {
				labels["varargs_parameter"] = true
				if near(m.Params, 5) {
					labels["varargs_P_near_threshold"] = true
				}
			}
			if m.WrapParams != 0 && m.Params >= 2 {
				labels["parameters_over_several_lines"] = true
			}
			if m.RichParams && m.Params > 0 {
				labels["annotated_or_nested_generic_parameters"] = true
			}
			if (m.Kind == "normal" || m.Kind == "default" || m.Kind == "static") && m.OneLine && len(m.Body) == 0 {
				labels["ordinary_method_on_one_line"] = true
			}
			if m.Kind == "default" || m.Kind == "static" {
				labels["interface_method_with_body"] = true
			}
			if m.SameLine {
				labels["two_accessors_on_one_line"] = true
			}
			if isGS(m.Kind) && m.Full {
				labels["getter_or_setter_with_statements_in_body"] = true
				if !f.Interface {
					onlyGS := true
					for _, o := range f.Methods {
						onlyGS = onlyGS && isGS(o.Kind)
					}
					if onlyGS {
						labels["data_class_whose_accessor_has_statements"] = true
					}
				}
			}
			for _, o := range f.Methods {
				if o.Name == m.Name && (o.Params != m.Params || o.Kind != m.Kind) {
					labels["overloaded_methods"] = true
				}
			}
			if !isGS(m.Kind) && !accessorLike(m.Name) && (strings.Contains(m.Name, "get") || strings.Contains(m.Name, "set")) {
				labels["ordinary_name_containing_get_or_set"] = true
			}
			if m.SplitRet && m.SplitHead {
				labels["return_type_over_two_lines"] = true
			}
			if strings.Contains(m.Mods, "native") {
				labels["native_method"] = true
			}
			for _, odd := range oddNames {
				if strings.HasPrefix(m.Name, odd) && !isGS(m.Kind) && !accessorLike(m.Name) {
					labels["ordinary_name_with_special_characters_case_or_length"] = true
					if lower := strings.ToLower(m.Name); strings.HasPrefix(lower, "get") || strings.HasPrefix(lower, "set") {
						labels["ordinary_name_get_or_set_prefix_in_other_case"] = true
					}
				}
			}
		}
		sort.Strings(vecs)
		canon = append(canon, fmt.Sprintf("%v/%v[%s]", t.Interface, t.HasType, strings.Join(vecs, ",")))
		for _, m := range c.Files[i].Methods {
			countDecoys(m.Body, true, labels)
		}
	}
	groups := map[string][]int{}
	for _, f := range without(want, c.Ignore) {
		labels["expect_"+f.Kind] = true
		if sized[f.Kind] {
			groups[f.Kind] = append(groups[f.Kind], f.Size)
		}
	}
	if len(want) == 0 {
		labels["no_finding_expected"] = true
	}
	for kind, sizes := range groups {
		for i := 1; i < len(sizes); i++ {
			if sizes[i-1] < sizes[i] {
				labels["group_needs_reordering"] = true
				labels["reorder_"+kind] = true
				if len(strconv.Itoa(sizes[i-1])) != len(strconv.Itoa(sizes[i])) {
					labels["reorder_across_digit_count"] = true
				}
			}
		}
	}
	seenIg := map[string]bool{}
	for _, k := range c.Ignore {
		if seenIg[k] {
			labels["ignore_name_twice"] = true
		}
		seenIg[k] = true
		if !isSeven[k] && k != "refusedBequest" && k != "graphConnectedCall" {
			labels["ignore_name_that_is_no_kind"] = true
		}
	}
	if c.DirStyle != 0 && !c.Single {
		labels[fmt.Sprintf("cli_dir_style_%d", c.DirStyle)] = true
	}
	if len(c.Prior) > 0 {
		labels["another_tree_analysed_first_in_same_process"] = true
		if len(c.PriorIgnore) > 0 {
			labels["another_tree_first_with_ignore_list"] = true
		}
		if c.PriorSame {
			labels["same_directory_analysed_twice_with_changed_content"] = true
		}
	}
	if c.Single {
		labels["path_of_a_single_file"] = true
	}
	if c.Stray {
		labels["non_java_files_in_tree"] = true
	}
	if c.StaleReport {
		labels["stale_report_files_present"] = true
	}
	for i, k := range c.Ignore {
		if k == "" {
			labels["ignore_empty_name"] = true
		}
		for j := 0; j < i; j++ {
			if isSeven[k] && isSeven[c.Ignore[j]] && kindIndex(c.Ignore[j]) > kindIndex(k) {
				labels["ignore_names_in_another_order"] = true
			}
		}
	}
	if c.FlagStyle != 0 {
		labels["cli_flag_spelling_variant"] = true
	}
	if len(truths) > 1 {
		labels["files>=2"] = true
	}
	if len(c.Ignore) > 0 {
		labels["ignore_nonempty"] = true
	}
	if c.Sort {
		labels["sort_by_type"] = true
	}
	for k := range labels {
		v.Classes = append(v.Classes, k)
	}
	sort.Strings(v.Classes)
	v.NonTrivial = nearAny
	sort.Strings(canon)
	ig := append([]string(nil), c.Ignore...)
	sort.Strings(ig)
	v.Canon = fmt.Sprintf("%s|%s|ignore=%v|sort=%v", mode, strings.Join(canon, ";"), ig, c.Sort)
	return v
}

func kindIndex(kind string) int {
	for i, k := range sevenKinds {
		if k == kind {
			return i
		}
	}
	return -1
}

func countDecoys(body []Stmt, top bool, labels map[string]bool) {
	for _, s := range body {
		if !top && s.Kind == "if" {
			labels["decoy_nested_if"] = true
			if s.H >= 4 {
				labels["decoy_nested_tall_condition"] = true
			}
		}
		if !top && s.Kind == "switch" {
			labels["decoy_nested_switch"] = true
		}
		if s.Kind == "decoyline" {
			labels["decoy_container_on_one_line"] = true
		}
		if s.Kind == "if" && s.ElseIfs > 0 {
			labels["decoy_else_if"] = true
			if s.ElseH >= 4 {
				labels["decoy_else_if_tall_condition"] = true
			}
		}
		if s.Kind == "while" && s.H >= 4 {
			labels["decoy_tall_loop_condition"] = true
		}
		if s.Kind == "lambda" && s.N > 0 {
			labels["decoy_typed_lambda_parameters"] = true
		}
		if s.Kind == "comment" {
			labels["block_comment_in_body"] = true
		}
		if s.Kind == "if" && s.OpenOwn && s.H > 1 {
			labels["condition_whose_paren_ends_its_line"] = true
			if top && near(s.H, 4) {
				labels["top_level_condition_whose_paren_ends_its_line_H_near_threshold"] = true
			}
		}
		if s.Kind == "if" && s.IfAlone {
			labels["if_keyword_on_a_line_of_its_own"] = true
			if top && near(s.H, 4) {
				labels["top_level_if_keyword_on_own_line_H_near_threshold"] = true
			}
		}
		if s.Kind == "switch" && s.Arrow {
			labels["arrow_switch_statement"] = true
			if top {
				labels["arrow_switch_statement_top_level"] = true
			}
		}
		switch s.Kind {
		case "block":
			labels["decoy_bare_block"] = true
		case "labeled":
			labels["decoy_labelled_loop"] = true
		case "trywith":
			labels["decoy_try_with_resources"] = true
		}
		switch s.Kind {
		case "for", "foreach", "while", "do":
			for _, in := range s.Inner {
				if in.Kind == "if" || in.Kind == "switch" {
					labels["decoy_if_or_switch_in_loop"] = true
				}
			}
		}
		countDecoys(s.Inner, false, labels)
	}
}

// ---------------------------------------------------------------------------------------
// checks

func renderAll(files []File) []fileTruth {
	var truths []fileTruth
	for _, f := range files {
		t := render(f)
		mustParse(t)
		truths = append(truths, t)
	}
	return truths
}

func checkAPI(c Case) pbt.Verdict {
	truths := renderAll(c.Files)
	root := cli.Scratch("c10-")
	defer os.RemoveAll(root)
	src := filepath.Join(root, "src")
	var opt apiOpt
	how := ""
	if len(c.Prior) > 0 && c.PriorSame {
		// the directory holds another tree first; this one replaces it after that has been analysed
		opt.Prepare = func() {
			_ = os.RemoveAll(src)
			writeTree(src, truths, c.Stray)
		}
	} else {
		writeTree(src, truths, c.Stray)
	}
	if c.Single {
		opt.Path = filepath.Join(src, filepath.FromSlash(truths[0].Rel))
		how = " path=<DIR>/" + truths[0].Rel
	}
	if len(c.Prior) > 0 {
		opt.PriorRoot = filepath.Join(root, "prior")
		if c.PriorSame {
			opt.PriorRoot = src
		}
		opt.PriorTruths = renderAll(c.Prior)
		opt.PriorIgnore = c.PriorIgnore
		writeTree(opt.PriorRoot, opt.PriorTruths)
		how += fmt.Sprintf(" after a tree of %d file(s) analysed first with ignore=%v (same directory: %v)", len(c.Prior), c.PriorIgnore, c.PriorSame)
	}
	if msg := judgeAPI(src, truths, [][]string{c.Ignore}, c.Sort, opt); msg != "" {
		// no scratch-directory names in the message: rapid compares messages while shrinking
		if opt.PriorRoot != "" && !c.PriorSame {
			msg = strings.ReplaceAll(msg, opt.PriorRoot, "<PRIOR>")
		}
		msg = strings.ReplaceAll(msg, src, "<DIR>")
		all := texts(truths)
		if len(c.Prior) > 0 {
			all += "===== analysed first =====\n" + texts(opt.PriorTruths)
		}
		return pbt.Fail("%s\ncase: ignore=%v sort=%v%s\n%s", msg, c.Ignore, c.Sort, how, all)
	}
	var want []finding
	for i, t := range truths {
		if c.Single && i != 0 {
			continue
		}
		want = append(want, expectedOf(src, t)...)
	}
	return classify(c, truths, want, "api")
}

func toFindings(ms []bs_domain.BadSmellModel) []finding { return seven(ms) }

func checkCLI(c Case) pbt.Verdict {
	truths := renderAll(c.Files)
	root := cli.Scratch("c10-")
	defer os.RemoveAll(root)
	src := filepath.Join(root, "src")
	writeTree(src, truths, c.Stray)
	// how the directory is named on the command line; the report names files below it
	cwd, dirArg, nameRoot := root, src, src
	if c.RelDir {
		dirArg, nameRoot = "src", "src"
	}
	dirStyle := c.DirStyle
	if c.Single {
		dirStyle = 0
	}
	switch dirStyle {
	case 1:
		dirArg, nameRoot = "./src", "src"
	case 2:
		dirArg, nameRoot = "src/", "src"
	case 3:
		cwd, dirArg, nameRoot = src, "", "."
	}
	if c.Single {
		// the path of one source file instead of a directory: the report is about that file
		dirArg = filepath.Join(nameRoot, filepath.FromSlash(truths[0].Rel))
	}
	if c.StaleReport {
		// reports of an earlier run, longer than anything this run writes
		junk := "[" + strings.Repeat("{\"BS\": \"longMethod\", \"EntityName\": \"stale\"},\n", 6000) + "{}]\n"
		cli.WriteTree(cwd, map[string]string{"coca_reporter/bs.json": junk, "coca_reporter/nodeInfos.json": junk})
	}
	var want []finding
	for i, t := range truths {
		if c.Single && i != 0 {
			continue
		}
		want = append(want, expectedOf(nameRoot, t)...)
	}
	fail := func(msg string) pbt.Verdict {
		return pbt.Fail("%s\ncase: coca bs -p %q (dirStyle %d, flagStyle %d) ignore=%v sort=%v\n%s", strings.ReplaceAll(msg, root, "<CWD>"), strings.ReplaceAll(dirArg, root, "<CWD>"), c.DirStyle, c.FlagStyle, c.Ignore, c.Sort, texts(truths))
	}
	base, _, problem := runCLI(cwd, dirArg, nil, false, c.FlagStyle)
	if problem != "" {
		return fail(problem)
	}
	if d := diff(keys(want), keys(toFindings(base))); d != "" {
		return fail("bs.json differs from the findings the sources call for (kind file line size):\n" + d)
	}
	if len(c.Ignore) == 0 && !c.Sort {
		return classify(c, truths, want, "cli")
	}
	// second run with the options; what it must show follows from the first run
	igSet := map[string]bool{}
	for _, k := range c.Ignore {
		igSet[k] = true
	}
	var kept []bs_domain.BadSmellModel
	for _, m := range base {
		if !igSet[m.Bs] && !isGraph(m.Bs) {
			kept = append(kept, m)
		}
	}
	flat, grouped, problem := runCLI(cwd, dirArg, c.Ignore, c.Sort, c.FlagStyle)
	if problem != "" {
		return fail(problem)
	}
	if c.Sort {
		delete(grouped, "graphConnectedCall")
		var kinds []string
		for k := range grouped {
			kinds = append(kinds, k)
		}
		sort.Strings(kinds)
		for _, k := range kinds {
			flat = append(flat, grouped[k]...)
		}
	}
	if d := diff(fullKeys(kept, nil), fullKeys(flat, isGraph)); d != "" {
		return fail(fmt.Sprintf("with -x %q the findings are not those of the plain run minus the named kinds:\n%s", strings.Join(c.Ignore, ","), d))
	}
	if d := diff(keys(without(want, c.Ignore)), keys(toFindings(flat))); d != "" {
		return fail("the report differs from the expected findings minus the ignored kinds:\n" + d)
	}
	if c.Sort {
		if msg := checkSorted(kept, grouped, "coca bs -s type"); msg != "" {
			return fail(msg)
		}
	}
	return classify(c, truths, want, "cli")
}

// ---------------------------------------------------------------------------------------
// bounded-exhaustive sweep at the thresholds

func allSubsets(kinds []string) [][]string {
	var out [][]string
	for mask := 0; mask < 1<<len(kinds); mask++ {
		var s []string
		for i, k := range kinds {
			if mask&(1<<i) != 0 {
				s = append(s, k)
			}
		}
		out = append(out, s)
	}
	return out
}

// decoys are statements that hold many ifs / switches / tall conditions, none of them a
// top-level if or switch of the method. With switches they make the shipped parser slow,
// hence the flag.
func decoys(closeOwn bool, withSwitches bool) []Stmt {
	out := []Stmt{
		{Kind: "decoyline", N: 9, H: 0},
		{Kind: "decoyline", N: 9, H: 2},
	}
	if withSwitches {
		out = append(out, Stmt{Kind: "decoyline", N: 8, H: 1})
	}
	out = append(out,
		Stmt{Kind: "decoyline", N: 8, H: 3},
		Stmt{Kind: "foreach", Inner: []Stmt{{Kind: "if", H: 5, CloseOwn: closeOwn, Compact: true}}},
		Stmt{Kind: "while", H: 5, CloseOwn: closeOwn})
	return out
}

// sweepMethod builds one method with exactly the given vector: closing brace l lines below
// the declaration, p parameters, i top-level ifs (the first with a condition of height h),
// s top-level switches. Decoys are added as long as they fit.
func sweepMethod(name string, l, p, i, s, h int, sc SweepCase, withDecoys bool) Method {
	m := Method{Kind: "normal", Name: name, Mods: "public", Params: p, BraceNext: sc.BraceNext}
	var body []Stmt
	for k := 0; k < i; k++ {
		st := Stmt{Kind: "if", H: 1, Compact: true}
		if k == 0 {
			st = Stmt{Kind: "if", H: h, CloseOwn: sc.CloseOwn, Compact: true}
		}
		if k == 1 && withDecoys {
			st.ElseIfs, st.Else = 3, true // else-if branches are not top-level ifs
		}
		body = append(body, st)
		if k < s {
			body = append(body, Stmt{Kind: "switch", Compact: true})
		}
	}
	for k := i; k < s; k++ {
		body = append(body, Stmt{Kind: "switch", Compact: true})
	}
	avail := l - 1
	if sc.BraceNext {
		avail--
	}
	m.Body = body
	used := bodyLines(m)
	if used > avail {
		panic(fmt.Sprintf("GENERATOR BUG: sweep vector L=%d I=%d S=%d H=%d does not fit", l, i, s, h))
	}
	if withDecoys {
		for _, d := range decoys(sc.CloseOwn, s > 0) {
			n := bodyLines(Method{Body: []Stmt{d}})
			if used+n <= avail {
				body = append(body, d)
				used += n
			}
		}
	}
	m.Body = body
	if used < avail {
		// filler in the middle, so that ifs sit on both sides of it
		mid := len(body) / 2
		rest := append([]Stmt{{Kind: "fill", N: avail - used}}, body[mid:]...)
		m.Body = append(append([]Stmt(nil), body[:mid]...), rest...)
	}
	return m
}

// padTo puts filler into the middle of the body so that the closing brace lies l lines below
// the line the declaration starts on.
func padTo(m Method, l int) Method {
	span := spanOf(m)
	if span > l {
		panic(fmt.Sprintf("GENERATOR BUG: method %s spans %d lines, more than the wanted %d", m.Name, span, l))
	}
	if span < l {
		mid := len(m.Body) / 2
		body := append([]Stmt(nil), m.Body[:mid]...)
		body = append(body, Stmt{Kind: "fill", N: l - span})
		m.Body = append(body, m.Body[mid:]...)
	}
	return m
}

func bodyLines(m Method) int {
	w := &jw{next: 1, unit: " "}
	t := methodTruth{}
	for _, s := range m.Body {
		w.stmt(0, s, true, &t)
	}
	return w.next - 1
}

func trivialMethod(kind, name string) Method {
	switch kind {
	case "getter":
		return Method{Kind: "getter", Name: "get" + capital(name), Mods: "public", Ret: "int"}
	case "setter":
		return Method{Kind: "setter", Name: "set" + capital(name), Mods: "public", Params: 1}
	}
	return Method{Kind: "normal", Name: name, Mods: "public", Body: []Stmt{{Kind: "fill", N: 1}}}
}

func sweepFiles(sc SweepCase) []File {
	var files []File
	mk := func(name string) File {
		return File{Name: name, Package: "sweep", Indent: sc.Indent, BraceNext: sc.BraceNext, Fields: 2, Imports: 2}
	}
	// cross of the five method-level parameters, one method per class. Full: the whole
	// product (1024 classes; the shipped parser needs ~50 ms for a method with 8 switches).
	// Otherwise: L x P x I x H without switches (256) + I x S on the diagonal of (L, P, H) (64).
	ls, ps, hs := []int{29, 30, 31, 32}, []int{4, 5, 6, 7}, []int{2, 3, 4, 5}
	for li, l := range ls {
		for pi, p := range ps {
			for _, i := range []int{6, 7, 8, 9} {
				for _, s := range []int{0, 6, 7, 8, 9} {
					for hi, h := range hs {
						if s > 0 && !sc.Full && !(li == pi && pi == hi) {
							continue
						}
						f := mk(fmt.Sprintf("V%dx%dx%dx%dx%d", l, p, i, s, h))
						f.Dir = fmt.Sprintf("v/l%d", l)
						f.Methods = []Method{sweepMethod("run", l, p, i, s, h, sc, sc.Decoys)}
						files = append(files, f)
					}
				}
			}
		}
	}
	// class-level parameters: M x G, classes and interfaces
	for _, m := range []int{0, 1, 18, 19, 20, 21} {
		for _, g := range []int{0, 1, 3} {
			for _, iface := range []bool{false, true} {
				f := mk(fmt.Sprintf("C%dx%dx%v", m, g, iface))
				f.Dir = "c"
				f.Interface = iface
				for k := 0; k < m; k++ {
					mm := trivialMethod("normal", fmt.Sprintf("%s%d", methodNames[k%len(methodNames)], k))
					if iface {
						mm = Method{Kind: "abstract", Name: mm.Name, Params: k % 3}
					}
					f.Methods = append(f.Methods, mm)
				}
				for k := 0; k < g; k++ {
					kind := "getter"
					if k%2 == 1 {
						kind = "setter"
					}
					mm := trivialMethod(kind, fmt.Sprintf("prop%d", k))
					if iface {
						mm = Method{Kind: "abstract", Name: mm.Name, Ret: mm.Ret, Params: mm.Params}
					}
					// getters/setters interleaved with the other methods
					pos := 0
					if len(f.Methods) > 0 {
						pos = (k*7 + 3) % (len(f.Methods) + 1)
					}
					f.Methods = append(f.Methods[:pos], append([]Method{mm}, f.Methods[pos:]...)...)
				}
				files = append(files, f)
			}
		}
	}
	// interface methods with parameter counts around the threshold
	for _, p := range []int{4, 5, 6, 7} {
		f := mk(fmt.Sprintf("I%d", p))
		f.Dir = "i"
		f.Interface = true
		f.Methods = []Method{{Kind: "abstract", Name: "call", Params: p}, {Kind: "abstract", Name: "other", Params: 1, Ret: "int"}}
		files = append(files, f)
	}
	if !sc.Shapes {
		return files
	}
	// parameter lists over several lines, annotated / nested-generic parameter types and a
	// variable-arity last parameter, at the boundaries of P and L
	for _, p := range []int{4, 5, 6, 7} {
		for _, va := range []bool{false, true} {
			if va && !sc.Varargs {
				continue
			}
			for wrap := 0; wrap <= 2; wrap++ {
				for _, l := range []int{30, 31} {
					f := mk(fmt.Sprintf("W%dx%vx%dx%d", p, va, wrap, l))
					f.Dir = "w"
					f.CRLF = (p+l)%2 == 0
					m := Method{Kind: "normal", Name: "run", Mods: "public", Params: p, Varargs: va, WrapParams: wrap, RichParams: wrap == 1,
						BraceNext: sc.BraceNext, Throws: wrap == 2}
					for k := 0; k < 3; k++ {
						m.Body = append(m.Body, Stmt{Kind: "if", H: 1, Compact: true})
					}
					f.Methods = []Method{padTo(m, l)}
					files = append(files, f)
				}
			}
			f := mk(fmt.Sprintf("J%dx%v", p, va))
			f.Dir = "w"
			f.Interface = true
			f.Methods = []Method{{Kind: "abstract", Name: "call", Params: p, Varargs: va, WrapParams: p % 3, RichParams: p%2 == 0}}
			files = append(files, f)
		}
	}
	// default methods of interfaces at the boundaries of L, I and H
	if sc.InterfaceBodies {
		for _, l := range []int{30, 31} {
			for _, i := range []int{7, 8} {
				for _, h := range []int{3, 4} {
					f := mk(fmt.Sprintf("D%dx%dx%d", l, i, h))
					f.Dir = "w"
					f.Interface = true
					m := Method{Kind: "default", Name: "run", Mods: "default", Params: 1}
					for k := 0; k < i; k++ {
						st := Stmt{Kind: "if", H: 1, Compact: true}
						if k == 0 {
							st = Stmt{Kind: "if", H: h, CloseOwn: sc.CloseOwn, Compact: true}
						}
						m.Body = append(m.Body, st)
					}
					f.Methods = []Method{padTo(m, l), {Kind: "abstract", Name: "other", Params: 1, Ret: "int"}}
					files = append(files, f)
				}
			}
		}
	}
	// ordinary methods whose names contain get / set, and the usual companions of getters and
	// setters, at the boundaries of M and of the data-class rule
	tricky := []string{"reset", "forget", "target", "offset", "toString", "hashCode", "budget", "asset"}
	for _, n := range []int{19, 20} {
		for _, g := range []int{0, 2} {
			f := mk(fmt.Sprintf("N%dx%d", n, g))
			f.Dir = "w"
			for k := 0; k < n; k++ {
				name := tricky[k%len(tricky)]
				if k >= len(tricky) {
					name = fmt.Sprintf("%s%d", name, k)
				}
				f.Methods = append(f.Methods, trivialMethod("normal", name))
			}
			for k := 0; k < g; k++ {
				f.Methods = append(f.Methods, trivialMethod([]string{"getter", "setter"}[k%2], fmt.Sprintf("prop%d", k)))
			}
			files = append(files, f)
		}
	}
	// overloads (one name, two parameter lists) at the boundary of M; accessors sharing a line
	for _, n := range []int{19, 20} {
		f := mk(fmt.Sprintf("O%d", n))
		f.Dir = "w"
		for k := 0; k < n; k++ {
			m := trivialMethod("normal", fmt.Sprintf("step%d", k/2))
			m.Params = k % 2
			f.Methods = append(f.Methods, m)
		}
		files = append(files, f)
	}
	for _, g := range []int{2, 3} {
		for _, n := range []int{0, 20} {
			f := mk(fmt.Sprintf("Pair%dx%d", g, n))
			f.Dir = "w"
			for k := 0; k < n; k++ {
				f.Methods = append(f.Methods, trivialMethod("normal", fmt.Sprintf("step%d", k)))
			}
			for k := 0; k < g; k++ {
				m := trivialMethod([]string{"getter", "setter"}[k%2], fmt.Sprintf("prop%d", k))
				m.OneLine, m.SameLine = true, k > 0
				f.Methods = append(f.Methods, m)
			}
			files = append(files, f)
		}
	}
	for k, name := range tricky {
		// two accessors and one method that is none: no data class
		f := mk(fmt.Sprintf("NotData%d", k))
		f.Dir = "w"
		f.Methods = []Method{trivialMethod("getter", "prop"), trivialMethod("normal", name), trivialMethod("setter", "prop")}
		files = append(files, f)
	}
	if sc.Accessors {
		files = append(files, accessorSweepFiles(sc, mk)...)
	}
	if sc.Layouts {
		files = append(files, layoutSweepFiles(sc, mk)...)
	}
	return files
}

// layoutSweepFiles: the thresholds of H, S, I and L under the layouts of widening a5.
func layoutSweepFiles(sc SweepCase, mk func(string) File) []File {
	var files []File
	add := func(name string, edit func(*File), ms ...Method) {
		f := mk(name)
		f.Dir = "y"
		f.Methods = ms
		if edit != nil {
			edit(&f)
		}
		files = append(files, f)
	}
	plainIf := Stmt{Kind: "if", H: 1, Compact: true}
	// H{3,4}: "(" ending its line, `if` on a line of its own, ")" on a line of its own
	for _, h := range []int{3, 4} {
		for v := 1; v < 4; v++ {
			for _, closeOwn := range []bool{false, true} {
				m := Method{Kind: "normal", Name: "run", Mods: "public", Params: 1}
				m.Body = []Stmt{plainIf, {Kind: "if", H: h, OpenOwn: v&1 != 0, IfAlone: v&2 != 0, CloseOwn: closeOwn, Compact: closeOwn, Else: true}, plainIf}
				add(fmt.Sprintf("H%dx%dx%v", h, v, closeOwn), nil, padTo(m, 20))
			}
		}
	}
	// S{7,8}: arrow-form switch statements alone and mixed with classic ones
	if sc.Arrows {
		for _, sw := range []int{7, 8} {
			for _, classic := range []int{0, 4} {
				m := Method{Kind: "normal", Name: "run", Mods: "public", Params: 1}
				for k := 0; k < sw; k++ {
					st := Stmt{Kind: "switch", Compact: k%2 == 0, Arrow: k >= classic, N: 2}
					m.Body = append(m.Body, st)
				}
				add(fmt.Sprintf("S%dx%d", sw, classic), nil, padTo(m, 60))
			}
		}
	}
	// I{7,8} and S{7,8} next to a bare block, a labelled loop and a try-with-resources holding more
	for _, what := range []string{"if", "switch"} {
		for _, n := range []int{7, 8} {
			m := Method{Kind: "normal", Name: "run", Mods: "public", Params: 1}
			one := Stmt{Kind: what, H: 1, Compact: true}
			for k := 0; k < n; k++ {
				m.Body = append(m.Body, one)
				switch k {
				case 1:
					m.Body = append(m.Body, Stmt{Kind: "block", Inner: []Stmt{one, one, one}})
				case 3:
					m.Body = append(m.Body, Stmt{Kind: "labeled", Inner: []Stmt{one, one}})
				case 5:
					m.Body = append(m.Body, Stmt{Kind: "trywith", Inner: []Stmt{one, one, one}})
				}
			}
			add(fmt.Sprintf("B%sx%d", what, n), func(f *File) { f.RichFill = n == 8 }, padTo(m, 40))
		}
	}
	// L{30,31}: return type over two lines; filler from the wider table; the last brace of the file without newline
	for _, l := range []int{30, 31} {
		m := Method{Kind: "normal", Name: "run", Mods: "public", Ret: "Map<String, List<Integer>>", Params: 2, SplitHead: true, SplitRet: true}
		m.Body = []Stmt{plainIf}
		add(fmt.Sprintf("R%d", l), nil, padTo(m, l))
		for _, i := range []int{7, 8} {
			m := Method{Kind: "normal", Name: "run", Mods: "public", Params: 1}
			for k := 0; k < i; k++ {
				m.Body = append(m.Body, plainIf)
			}
			tail := 1 + (l+i)%2
			add(fmt.Sprintf("F%dx%d", l, i), func(f *File) { f.RichFill, f.Tail = true, tail }, padTo(m, l))
		}
	}
	return files
}

// ifsMethod: a method with i top-level ifs, the first with a condition of height h, and s
// top-level switches, padded so that its closing brace lies l lines below its declaration.
func ifsMethod(m Method, l, i, s, h int, sc SweepCase) Method {
	m.BraceNext = sc.BraceNext
	for k := 0; k < i; k++ {
		st := Stmt{Kind: "if", H: 1, Compact: true}
		if k == 0 {
			st = Stmt{Kind: "if", H: h, CloseOwn: sc.CloseOwn, Compact: true}
		}
		m.Body = append(m.Body, st)
	}
	for k := 0; k < s; k++ {
		m.Body = append(m.Body, Stmt{Kind: "switch", Compact: true})
	}
	return padTo(m, l)
}

// accessorSweepFiles: the method-level thresholds on getters and setters (which stay getters
// and setters for the class-level kinds) and on methods of other kinds whose names start like
// an accessor's (in interfaces and next to an ordinary method, where the class-level findings
// do not depend on what they are taken for).
func accessorSweepFiles(sc SweepCase, mk func(string) File) []File {
	var files []File
	n := 0
	add := func(name string, iface bool, ms ...Method) {
		f := mk(name)
		f.Dir = "a"
		f.Interface = iface
		f.Methods = ms
		files = append(files, f)
		n++
	}
	plain := trivialMethod("normal", "run")
	// getters and setters with bodies: L x I x H, alone in the class (a data class), next to a
	// plain accessor, or next to an ordinary method
	for _, kind := range []string{"getter", "setter"} {
		for _, l := range []int{30, 31} {
			for _, i := range []int{7, 8} {
				for _, h := range []int{3, 4} {
					m := trivialMethod(kind, "kind")
					m.Full = true
					m = ifsMethod(m, l, i, 0, h, sc)
					switch n % 3 {
					case 0:
						add(fmt.Sprintf("A%sx%dx%dx%d", kind, l, i, h), false, m)
					case 1:
						add(fmt.Sprintf("A%sx%dx%dx%d", kind, l, i, h), false, trivialMethod("setter", "other"), m)
					default:
						add(fmt.Sprintf("A%sx%dx%dx%d", kind, l, i, h), false, m, plain)
					}
				}
			}
		}
		for _, sw := range []int{7, 8} {
			m := trivialMethod(kind, "state")
			m.Full = true
			add(fmt.Sprintf("A%sS%d", kind, sw), false, ifsMethod(m, 31, 2, sw, 1, sc))
		}
	}
	// names that start like an accessor's on methods of other kinds: P at the boundary ...
	names := []string{"setBounds", "getKind", "settle", "getaway", "setup", "isReady", "get", "set"}
	for k, name := range names {
		for _, p := range []int{5, 6} {
			m := Method{Kind: "normal", Name: name, Mods: "public", Params: p, BraceNext: sc.BraceNext, WrapParams: k % 3, Body: []Stmt{{Kind: "fill", N: 1}}}
			if k%2 == 1 {
				m.Ret = "int"
			}
			if k%4 == 2 {
				m.Mods = "public static"
			}
			if (k+p)%2 == 0 {
				add(fmt.Sprintf("B%sx%d", capital(name), p), false, plain, m)
			} else {
				add(fmt.Sprintf("B%sx%d", capital(name), p), false, m, trivialMethod("getter", "prop"), plain)
			}
			// ... and as an interface method without body
			if k < 4 {
				add(fmt.Sprintf("J%sx%d", capital(name), p), true, Method{Kind: "abstract", Name: name, Ret: m.Ret, Params: p, WrapParams: (k + 1) % 3})
			}
		}
	}
	// ... and I, S, H, L at the boundary
	for k, name := range names[:6] {
		for _, v := range [][4]int{{30, 7, 0, 3}, {31, 8, 0, 4}, {31, 2, 8, 1}} {
			if v[2] > 0 && k > 1 {
				continue
			}
			m := Method{Kind: "normal", Name: name, Mods: "public", Params: k % 2}
			if k%2 == 1 {
				m.Ret = "boolean"
			}
			add(fmt.Sprintf("C%sx%dx%dx%dx%d", capital(name), v[0], v[1], v[2], v[3]), false, ifsMethod(m, v[0], v[1], v[2], v[3], sc), plain)
		}
	}
	if sc.InterfaceBodies {
		for k, name := range []string{"getKind", "setBounds", "isReady"} {
			for _, v := range [][3]int{{30, 7, 3}, {31, 8, 4}} {
				m := Method{Kind: "default", Name: name, Mods: "default", Params: k}
				if k != 1 {
					m.Ret = "int"
				}
				add(fmt.Sprintf("D%sx%dx%dx%d", capital(name), v[0], v[1], v[2]), true, ifsMethod(m, v[0], v[1], 0, v[2], sc), Method{Kind: "abstract", Name: "other", Params: 1, Ret: "int"})
			}
		}
	}
	// 19 ordinary methods are the most a class may have next to one such method here; 18 + two
	for _, ord := range []int{17, 18} {
		var ms []Method
		for k := 0; k < ord; k++ {
			ms = append(ms, trivialMethod("normal", fmt.Sprintf("step%d", k)))
		}
		ms = append(ms, Method{Kind: "normal", Name: "setBounds", Mods: "public", Params: 6, Body: []Stmt{{Kind: "fill", N: 1}}})
		if ord == 17 {
			ms = append(ms, Method{Kind: "normal", Name: "getaway", Mods: "public", Params: 7, Body: []Stmt{{Kind: "fill", N: 1}}})
		}
		add(fmt.Sprintf("M%d", ord), false, ms...)
	}
	return files
}

const sweepChunk = 64

func checkSweep(sc SweepCase) pbt.Verdict {
	files := sweepFiles(sc)
	subsets := allSubsets(sevenKinds)
	vectors := 0
	for start, part := 0, 0; start < len(files); start, part = start+sweepChunk, part+1 {
		if sc.Part >= 0 && sc.Part != part {
			continue
		}
		end := start + sweepChunk
		if end > len(files) {
			end = len(files)
		}
		truths := renderAll(files[start:end])
		root := cli.Scratch("c10-sweep-")
		writeTree(root, truths)
		msg := strings.ReplaceAll(judgeAPI(root, truths, subsets, true), root, "<DIR>")
		_ = os.RemoveAll(root)
		if msg != "" {
			// narrow the chunk down to one file for the message
			for _, f := range files[start:end] {
				one := renderAll([]File{f})
				r := cli.Scratch("c10-sweep-")
				writeTree(r, one)
				m1 := strings.ReplaceAll(judgeAPI(r, one, subsets, true), r, "<DIR>")
				_ = os.RemoveAll(r)
				if m1 != "" {
					single, _ := json.Marshal(Case{Files: []File{f}, Ignore: []string{}, Sort: true})
					return pbt.Fail("threshold sweep (part %d), class %s: %s\n%s\nthe same class as a case of sub-check \"vec\": %s", part, f.Name, m1, texts(one), single)
				}
			}
			return pbt.Fail("threshold sweep (part %d, %d files analysed together): %s", part, end-start, msg)
		}
		vectors += end - start
	}
	pbt.Count("exhaustive_subspace_classes", vectors)
	for _, f := range files {
		if f.Dir == "a" {
			pbt.Count("sweep_classes_with_thresholds_on_accessors_or_accessor_named_methods", 1)
		}
	}
	pbt.Count("exhaustive_subspace_ignore_subsets_per_chunk", len(subsets))
	v := pbt.Verdict{NonTrivial: true, Classes: []string{"sweep"}}
	v.Canon = fmt.Sprintf("sweep|%+v", sc)
	return v
}

// ---------------------------------------------------------------------------------------
// generators

var (
	// class names; the last three contain "test"/"Test" without making the file a test file
	// and, since widening a5, names that equal words of the tool's own vocabulary, hold `$`, `_`,
	// digits or non-ASCII letters, are one letter long, or come close to the test-file suffixes
	classNames = []string{"Order", "Invoice", "Ledger", "Parser", "Engine", "Router", "Cache", "Account", "Planner", "Widget", "Contest", "LatestOrder", "TestBed",
		"Interface", "Größe", "Order$Impl", "X", "_Util", "TestsSuite", "Class1", "DataClass"}
	// ordinary method names; some share letters with get/set without being getters/setters,
	// the last six contain "get"/"set" (not at the front) or are the usual companions of
	// getters and setters in a value class
	methodNames = []string{"process", "generate", "load", "send", "update", "build", "select", "handle", "apply", "gather", "merge", "serve",
		"reset", "forget", "target", "offset", "toString", "hashCode"}
	dirs = []string{"", "", "core/model", "src/main/java/com/acme", "app", "com/acme/testing", "latest",
		"dataClass", "testdata/fixtures", "src/test/javax/acme", "my sources", "longMethod/lazyElement"}
	modsPool = []string{"public", "public", "private", "protected", "", "public static", "public final", "public synchronized", "static",
		"@Override public", "@Deprecated protected", "public <T>", "private static <K, V>",
		"@SuppressWarnings({\"a\", \"b\"}) public", "protected final"}
	retPool = []string{"", "", "int", "String", "boolean", "List<String>", "int[]", "java.util.Optional<String>"}
	// ordinary names that are no accessor's under any reading: `_`, `$`, digits, non-ASCII
	// letters, one letter, very long, get/set not at the front or not in lower case
	oddNames = []string{"_get", "$set", "größe", "x", "Settle", "GetReady", "SETUP", "unset", "isolate", "issue", "run2fa", "déjàVu", "gEt", "sEtValue",
		"aVeryLongMethodNameThatGoesOnAndOnForMoreThanOneHundredCharactersBecauseSomebodyLikedSentencesAsNamesOfMethods"}
)

func aroundOr(t *rapid.T, label string, around []int, lo, hi int, weightAround int) int {
	if rapid.IntRange(0, 9).Draw(t, label+"Near") < weightAround {
		return rapid.SampledFrom(around).Draw(t, label+"At")
	}
	return rapid.IntRange(lo, hi).Draw(t, label)
}

func genHeight(t *rapid.T, label string) int {
	switch k := rapid.IntRange(0, 9).Draw(t, label+"Kind"); {
	case k < 5:
		return 1
	case k < 9:
		return rapid.SampledFrom([]int{2, 3, 4, 5}).Draw(t, label)
	}
	return rapid.IntRange(1, 8).Draw(t, label+"Any")
}

func genInner(t *rapid.T, depth int) []Stmt {
	n := rapid.IntRange(0, 3).Draw(t, "nInner")
	var out []Stmt
	for i := 0; i < n; i++ {
		out = append(out, genStmt(t, depth, false))
	}
	return out
}

func genIf(t *rapid.T, depth int) Stmt {
	s := Stmt{Kind: "if", H: genHeight(t, "h")}
	if s.H > 1 {
		s.CloseOwn = rapid.Bool().Draw(t, "closeOwn")
		s.OpenOwn = rapid.IntRange(0, 3).Draw(t, "openOwn") == 3
	}
	s.IfAlone = rapid.IntRange(0, 9).Draw(t, "ifAlone") == 9
	if rapid.IntRange(0, 2).Draw(t, "compact") == 2 {
		s.Compact = true
		if rapid.IntRange(0, 3).Draw(t, "compactChain") == 3 {
			s.ElseIfs = rapid.IntRange(1, 9).Draw(t, "elseIfs")
			s.Else = rapid.Bool().Draw(t, "else")
		}
		return s
	}
	if rapid.IntRange(0, 3).Draw(t, "hasElseIf") == 3 {
		s.ElseIfs = rapid.IntRange(1, 9).Draw(t, "elseIfs")
		s.ElseH = genHeight(t, "elseH")
	}
	s.Else = rapid.Bool().Draw(t, "else")
	if depth < 2 && rapid.IntRange(0, 2).Draw(t, "hasInner") == 2 {
		s.Inner = genInner(t, depth+1)
	}
	return s
}

func genSwitch(t *rapid.T, depth int) Stmt {
	s := Stmt{Kind: "switch"}
	s.Arrow = rapid.IntRange(0, 3).Draw(t, "arrowSwitch") == 3 && !pbt.Excluded(arrowFeature)
	if rapid.Bool().Draw(t, "compactSwitch") {
		s.Compact = true
		return s
	}
	s.N = rapid.IntRange(0, 3).Draw(t, "cases")
	if depth < 2 && rapid.IntRange(0, 2).Draw(t, "hasInner") == 2 {
		s.Inner = genInner(t, depth+1)
	}
	return s
}

func genContainer(t *rapid.T, depth int) Stmt {
	if rapid.IntRange(0, 3).Draw(t, "decoyLine") == 3 {
		style := rapid.SampledFrom([]int{0, 2, 3, 4, 1}).Draw(t, "decoyStyle")
		return Stmt{Kind: "decoyline", N: rapid.IntRange(1, 10).Draw(t, "decoyN"), H: style}
	}
	kind := rapid.SampledFrom([]string{"for", "foreach", "while", "do", "try", "sync", "lambda", "block", "labeled", "trywith"}).Draw(t, "container")
	s := Stmt{Kind: kind}
	if kind == "lambda" && rapid.Bool().Draw(t, "typedLambda") {
		s.N = rapid.IntRange(1, 7).Draw(t, "lambdaParams")
	}
	if kind == "while" || kind == "do" {
		s.H = genHeight(t, "loopH")
		if s.H > 1 {
			s.CloseOwn = rapid.Bool().Draw(t, "closeOwn")
		}
	}
	if depth < 2 {
		if rapid.IntRange(0, 3).Draw(t, "manyInner") == 3 {
			n := rapid.IntRange(7, 10).Draw(t, "nManyInner")
			what := rapid.SampledFrom([]string{"if", "switch"}).Draw(t, "manyKind")
			for i := 0; i < n; i++ {
				s.Inner = append(s.Inner, Stmt{Kind: what, H: 1, Compact: true})
			}
		} else {
			s.Inner = genInner(t, depth+1)
		}
	}
	return s
}

func genStmt(t *rapid.T, depth int, top bool) Stmt {
	switch k := rapid.IntRange(0, 9).Draw(t, "stmtKind"); {
	case k < 2:
		if rapid.IntRange(0, 3).Draw(t, "blockComment") == 3 {
			return Stmt{Kind: "comment", N: rapid.IntRange(2, 5).Draw(t, "commentN")}
		}
		return Stmt{Kind: "fill", N: rapid.IntRange(1, 3).Draw(t, "fillN")}
	case k < 6:
		return genIf(t, depth)
	case k < 8:
		return genSwitch(t, depth)
	}
	return genContainer(t, depth)
}

func genNormalMethod(t *rapid.T, name string, big bool) Method {
	m := Method{Kind: "normal", Name: name}
	m.Mods = rapid.SampledFrom(modsPool).Draw(t, "mods")
	m.Ret = rapid.SampledFrom(retPool).Draw(t, "ret")
	m.Params = aroundOr(t, "params", []int{4, 5, 6, 7}, 0, 12, 4)
	genParamShape(t, &m)
	m.Throws = rapid.IntRange(0, 4).Draw(t, "throws") == 4
	m.BraceNext = rapid.IntRange(0, 3).Draw(t, "braceNext") == 3
	m.SplitHead = !m.BraceNext && rapid.IntRange(0, 4).Draw(t, "splitHead") == 4
	if m.SplitHead && rapid.IntRange(0, 2).Draw(t, "splitRet") == 2 {
		m.Ret, m.SplitRet = "Map<String, List<Integer>>", true // the return type over two lines
	}
	if rapid.IntRange(0, 3).Draw(t, "hasDoc") == 3 {
		m.Doc = rapid.IntRange(2, 4).Draw(t, "doc")
	}
	if !big {
		n := rapid.IntRange(0, 2).Draw(t, "smallBody")
		if n == 0 && rapid.Bool().Draw(t, "oneLine") {
			m.OneLine = true // `void run() { }`
			return m
		}
		m.Body = []Stmt{{Kind: "fill", N: n}}
		return m
	}
	return genBody(t, m)
}

// genBody fills the body of a method whose header is settled: top-level ifs and switches
// around the thresholds, decoys, filler up to a drawn length.
func genBody(t *rapid.T, m Method) Method {
	nIf := aroundOr(t, "ifs", []int{6, 7, 8, 9}, 0, 11, 3)
	nSw := aroundOr(t, "switches", []int{6, 7, 8, 9}, 0, 3, 1)
	if rapid.IntRange(0, 2).Draw(t, "fewBranches") == 0 {
		nIf, nSw = rapid.IntRange(0, 2).Draw(t, "fewIfs"), rapid.IntRange(0, 1).Draw(t, "fewSwitches")
	}
	nDecoy := rapid.IntRange(0, 3).Draw(t, "decoys")
	var body []Stmt
	tight := nIf+nSw > 8
	for i := 0; i < nIf; i++ {
		s := genIf(t, 0)
		if tight && i > 1 {
			s = Stmt{Kind: "if", H: 1, Compact: true}
		}
		body = append(body, s)
	}
	for i := 0; i < nSw; i++ {
		s := genSwitch(t, 0)
		if tight {
			s = Stmt{Kind: "switch", Compact: true}
		}
		body = append(body, s)
	}
	for i := 0; i < nDecoy; i++ {
		body = append(body, genContainer(t, 0))
	}
	if len(body) > 1 {
		perm := rapid.Permutation(body).Draw(t, "order")
		body = perm
	}
	m.Body = body
	// length: pad with filler up to a drawn target
	used := spanOf(m)
	target := aroundOr(t, "length", []int{29, 30, 31, 32}, 1, 48, 5)
	if rapid.IntRange(0, 11).Draw(t, "veryLong") == 11 {
		target = rapid.IntRange(95, 104).Draw(t, "lengthLong") // sizes with two and with three digits
	}
	if target > used {
		pad := target - used
		first := rapid.IntRange(0, pad).Draw(t, "padFirst")
		var nb []Stmt
		if first > 0 {
			nb = append(nb, Stmt{Kind: "fill", N: first})
		}
		nb = append(nb, body...)
		if pad-first > 0 {
			nb = append(nb, Stmt{Kind: "fill", N: pad - first})
		}
		m.Body = nb
	}
	return m
}

// genParamShape draws how the parameter list is written; all draws shrink to the plain form.
func genParamShape(t *rapid.T, m *Method) {
	if m.Params >= 1 && rapid.IntRange(0, 4).Draw(t, "varargs") == 4 && !pbt.Excluded(varargsFeature) {
		m.Varargs = true
	}
	if m.Params >= 2 && rapid.IntRange(0, 3).Draw(t, "wrapParams") == 3 {
		m.WrapParams = rapid.IntRange(1, 2).Draw(t, "wrapStyle")
	}
	if m.Params >= 1 && rapid.IntRange(0, 5).Draw(t, "richParams") == 5 {
		m.RichParams = true
	}
}

// names that start like an accessor's, for methods of the other kinds: accessor spelling with
// another signature (whatever parameter count is drawn), words that merely begin with get/set,
// the bare prefixes, is-accessors
var accessorLikeNames = []string{"setBounds", "getKind", "setRange", "getOrDefault", "settle", "getaway", "setup", "getting", "set", "get", "isReady", "isEmpty"}

// genFullAccessor: a getter or setter whose body holds more than its own statement (checks,
// lazy initialisation, notifications ...): ifs, switches and length around the thresholds.
func genFullAccessor(t *rapid.T, kind, name string) Method {
	m := trivialMethod(kind, name)
	m.Full = true
	m.Mods = rapid.SampledFrom([]string{"public", "public", "protected", "", "public final", "public synchronized", "@Override public"}).Draw(t, "accessorMods")
	if kind == "getter" {
		m.Ret = rapid.SampledFrom([]string{"int", "String", "boolean", "List<String>", "int[]"}).Draw(t, "accessorRet")
	} else {
		m.RichParams = rapid.IntRange(0, 4).Draw(t, "accessorRichParam") == 4
	}
	m.Throws = rapid.IntRange(0, 4).Draw(t, "throws") == 4
	m.BraceNext = rapid.IntRange(0, 3).Draw(t, "braceNext") == 3
	m.SplitHead = !m.BraceNext && rapid.IntRange(0, 4).Draw(t, "splitHead") == 4
	if rapid.IntRange(0, 3).Draw(t, "hasDoc") == 3 {
		m.Doc = rapid.IntRange(2, 4).Draw(t, "doc")
	}
	if rapid.IntRange(0, 3).Draw(t, "accessorFewLines") == 0 {
		m.Body = []Stmt{{Kind: "fill", N: rapid.IntRange(1, 3).Draw(t, "accessorFill")}}
		return m
	}
	return genBody(t, m)
}

// reserve = the number of ordinary methods the caller may still add to the class.
func genFile(t *rapid.T, idx int, used map[string]bool, reserve int) File {
	f := File{}
	base := rapid.SampledFrom(classNames).Draw(t, "className")
	f.Name = base
	f.Dir = rapid.SampledFrom(dirs).Draw(t, "dir")
	// the same class name may occur again in another directory of the tree, not in the same one
	for n := 2; used[f.Dir+"/"+f.Name]; n++ {
		f.Name = fmt.Sprintf("%s%d", base, n)
	}
	used[f.Dir+"/"+f.Name] = true
	if rapid.IntRange(0, 3).Draw(t, "hasPackage") > 0 {
		f.Package = "com.acme." + strings.ToLower(base)
		if base == "Interface" {
			f.Package = "com.acme.contracts" // `interface` is a keyword
		}
	}
	f.Indent = rapid.IntRange(0, 2).Draw(t, "indent")
	f.BraceNext = rapid.IntRange(0, 3).Draw(t, "classBraceNext") == 3
	f.BlankLines = rapid.IntRange(0, 2).Draw(t, "blank")
	f.Header = rapid.IntRange(0, 2).Draw(t, "header")
	f.Imports = rapid.IntRange(0, 3).Draw(t, "imports")
	if f.Imports == 3 && rapid.Bool().Draw(t, "moreImports") {
		f.Imports = rapid.IntRange(4, 7).Draw(t, "importsMore") // static, wildcard and repeated imports
	}
	f.Fields = rapid.IntRange(0, 3).Draw(t, "fields")
	f.Interface = rapid.IntRange(0, 5).Draw(t, "interface") == 5
	if rapid.IntRange(0, 2).Draw(t, "hasHeritage") == 2 {
		f.Heritage = rapid.IntRange(1, 3).Draw(t, "heritage")
	}
	f.CRLF = rapid.IntRange(0, 5).Draw(t, "crlf") == 5
	if rapid.IntRange(0, 2).Draw(t, "classHeader") == 2 {
		f.ClassMods = rapid.IntRange(1, 5).Draw(t, "classMods")
	}
	if !f.Interface && rapid.IntRange(0, 7).Draw(t, "initBlock") == 7 {
		f.InitBlock = rapid.IntRange(1, 2).Draw(t, "initKind")
	}
	f.RichFill = rapid.IntRange(0, 2).Draw(t, "richFill") == 2
	if rapid.IntRange(0, 3).Draw(t, "tail") == 3 {
		f.Tail = rapid.IntRange(1, 2).Draw(t, "tailKind")
	}
	f.LongLine = rapid.IntRange(0, 15).Draw(t, "longLine") == 15

	// shape of the method list
	var normal, gs int
	switch rapid.IntRange(0, 9).Draw(t, "shape") {
	case 0:
		normal, gs = 0, 0
	case 1:
		normal, gs = 0, rapid.IntRange(1, 4).Draw(t, "gsOnly")
		if rapid.IntRange(0, 4).Draw(t, "gsOnlyMany") == 4 {
			gs = rapid.IntRange(19, 22).Draw(t, "gsOnlyAround20") // twenty getters and setters make no large class
		}
	case 2:
		normal, gs = 1, rapid.IntRange(0, 2).Draw(t, "gsFew")
	case 3, 4:
		normal = rapid.SampledFrom([]int{18, 19, 20, 21}).Draw(t, "normalNear")
		gs = rapid.SampledFrom([]int{0, 1, 3}).Draw(t, "gsNear")
	case 5:
		normal, gs = rapid.IntRange(15, 26).Draw(t, "normalMany"), rapid.IntRange(0, 6).Draw(t, "gsMany")
	default:
		normal, gs = rapid.IntRange(1, 4).Draw(t, "normalFew"), rapid.IntRange(0, 3).Draw(t, "gsSome")
	}
	if !f.Interface && normal == 0 && rapid.IntRange(0, 5).Draw(t, "abstractWithoutOrdinaryMethods") == 5 {
		f.Abstract = true // an abstract class without methods, or with getters and setters only, is a class like any other
	}
	if !f.Interface && normal+gs > 0 && f.Fields < 2 {
		f.Fields = 2 // n0 and names, which the bodies mention
	}
	bigBudget := 3  // methods with a generated body per class; the others stay small
	fullBudget := 2 // getters/setters with a generated body per class
	prevName, prevParams := "", 0
	add := func(m Method, overload bool) {
		if overload && m.Params == prevParams {
			m.Params++ // overloads differ in their parameter lists
		}
		prevName, prevParams = m.Name, m.Params
		f.Methods = append(f.Methods, m)
	}
	// A method of an ordinary kind may be named like an accessor where no class-level finding
	// depends on what it is taken for: in an interface, and in a class that keeps one method of
	// an ordinary name (the first) and has fewer than 20 methods that are no getters/setters.
	likeOK := f.Interface || normal+reserve < 20
	taken := map[string]bool{}
	for k := 0; k < normal; k++ {
		name := fmt.Sprintf("%s%d", methodNames[(k+idx)%len(methodNames)], k)
		if likeOK && (k > 0 || f.Interface) && rapid.IntRange(0, 4).Draw(t, "accessorLikeName") == 4 {
			name = fmt.Sprintf("%s%d", rapid.SampledFrom(accessorLikeNames).Draw(t, "accessorLike"), k)
			if bare := strings.TrimSuffix(name, strconv.Itoa(k)); !taken[bare] && rapid.Bool().Draw(t, "accessorLikeBare") {
				name = bare // `set`, `getKind`: without the number that keeps the other names apart
			}
			taken[name] = true
		} else if rapid.IntRange(0, 5).Draw(t, "oddName") == 5 {
			odd := rapid.SampledFrom(oddNames).Draw(t, "odd")
			name = fmt.Sprintf("%s%d", odd, k)
			if !taken[odd] && rapid.Bool().Draw(t, "oddBare") {
				name = odd
			}
			taken[name] = true
		}
		overload := k > 0 && rapid.IntRange(0, 5).Draw(t, "overload") == 5
		if overload {
			name = prevName // the name of the method before, with another parameter list
		}
		if f.Interface {
			if bigBudget > 0 && rapid.IntRange(0, 3).Draw(t, "interfaceBody") == 3 && !pbt.Excluded(interfaceBodyFeature) {
				// a default or static interface method is a method with a body like any other
				bigBudget--
				m := genNormalMethod(t, name, true)
				m.Kind = rapid.SampledFrom([]string{"default", "static"}).Draw(t, "interfaceBodyKind")
				m.Mods = rapid.SampledFrom([]string{"", "public "}).Draw(t, "interfaceBodyMods") + m.Kind
				add(m, overload)
				continue
			}
			m := Method{Kind: "abstract", Name: name,
				Ret: rapid.SampledFrom(retPool).Draw(t, "iret"), Params: aroundOr(t, "iparams", []int{4, 5, 6, 7}, 0, 12, 4)}
			genParamShape(t, &m)
			add(m, overload)
			continue
		}
		big := bigBudget > 0 && (normal <= 4 || rapid.IntRange(0, 5).Draw(t, "big") == 5)
		if big {
			bigBudget--
		}
		add(genNormalMethod(t, name, big), overload)
	}
	for k := 0; k < gs; k++ {
		kind := "getter"
		if rapid.Bool().Draw(t, "setter") {
			kind = "setter"
		}
		m := trivialMethod(kind, fmt.Sprintf("value%d", k))
		if f.Interface {
			m = Method{Kind: "abstract", Name: m.Name, Ret: m.Ret, Params: m.Params}
		} else if fullBudget > 0 && rapid.IntRange(0, 3).Draw(t, "fullAccessor") == 3 {
			fullBudget--
			m = genFullAccessor(t, kind, fmt.Sprintf("value%d", k))
		} else {
			m.OneLine = rapid.IntRange(0, 2).Draw(t, "oneLine") == 2
		}
		pos := rapid.IntRange(0, len(f.Methods)).Draw(t, "gsPos")
		if m.OneLine && pos > 0 && isGS(f.Methods[pos-1].Kind) && f.Methods[pos-1].OneLine {
			m.SameLine = rapid.Bool().Draw(t, "sameLine") // `int getA() { .. } void setA(int a) { .. }` on one line
		}
		f.Methods = append(f.Methods[:pos], append([]Method{m}, f.Methods[pos:]...)...)
	}
	if !f.Interface {
		// a constructor only where it cannot influence a count the statement is silent about
		if normal >= 1 && normal != 19 && rapid.IntRange(0, 3).Draw(t, "ctor") == 3 {
			f.Constructor = 1 + rapid.IntRange(0, 3).Draw(t, "ctorParams")
		}
		if last := len(f.Methods) - 1; normal >= 2 && normal != 20 && f.Constructor == 0 && f.Methods[last].Kind == "normal" &&
			rapid.IntRange(0, 7).Draw(t, "abstractClass") == 7 {
			f.Abstract = true
			am := Method{Kind: "abstract", Name: "planAhead", Mods: "public abstract",
				Params: aroundOr(t, "aparams", []int{4, 5, 6, 7}, 0, 12, 5)}
			genParamShape(t, &am)
			f.Methods[len(f.Methods)-1] = am
		}
		if last := len(f.Methods) - 1; normal >= 2 && normal != 20 && !f.Abstract && f.Methods[last].Kind == "normal" &&
			rapid.IntRange(0, 7).Draw(t, "nativeMethod") == 7 {
			// a native method: no body, in a class that is not abstract
			nm := Method{Kind: "abstract", Name: "nativeCall", Mods: "public native", Ret: "int",
				Params: aroundOr(t, "nparams", []int{4, 5, 6, 7}, 0, 12, 5)}
			genParamShape(t, &nm)
			f.Methods[len(f.Methods)-1] = nm
		}
	}
	return f
}

func genIgnore(t *rapid.T) []string {
	ig := []string{}
	switch rapid.IntRange(0, 3).Draw(t, "ignoreKind") {
	case 0:
		return ig
	case 1:
		ig = append(ig, rapid.SampledFrom(sevenKinds).Draw(t, "ignoreOne"))
		return ig
	}
	mask := rapid.IntRange(0, 127).Draw(t, "ignoreMask")
	for i, k := range sevenKinds {
		if mask&(1<<i) != 0 {
			ig = append(ig, k)
		}
	}
	if rapid.IntRange(0, 3).Draw(t, "ignoreOther") == 3 {
		// names that are no kind: unknown ones, another spelling, parts of kind names
		ig = append(ig, rapid.SampledFrom([]string{"refusedBequest", "graphConnectedCall", "noSuchSmell", "longmethod",
			"Class", "long", "Method", "Element", "complex", "dataClasses", "DataClass", "LONGMETHOD"}).Draw(t, "other"))
	}
	if len(ig) > 0 && rapid.IntRange(0, 5).Draw(t, "ignoreTwice") == 5 {
		ig = append(ig, ig[0]) // a kind named twice
	}
	if rapid.IntRange(0, 7).Draw(t, "ignoreEmptyName") == 7 {
		ig = append(ig, "") // what a trailing comma of -x leaves behind
	}
	if len(ig) > 1 && rapid.IntRange(0, 3).Draw(t, "ignoreShuffled") > 0 {
		ig = rapid.Permutation(ig).Draw(t, "ignoreOrder") // the names in another order than the tool lists its kinds
	}
	return ig
}

func genCase(t *rapid.T) Case {
	c := Case{}
	n := rapid.IntRange(1, 4).Draw(t, "files")
	used := map[string]bool{}
	for i := 0; i < n; i++ {
		c.Files = append(c.Files, genFile(t, i, used, 0))
	}
	if rapid.IntRange(0, 9).Draw(t, "packageInfo") == 9 {
		c.Files = append(c.Files, File{Name: "package-info", Dir: c.Files[0].Dir, Package: "com.acme.info", Header: 1})
	}
	// eighth seed batch: a large code base: 125-140 further classes without methods (lazyElement each) in directories
	// that sort before, between and behind the drawn ones, so that 128 and more classes go through one report
	if rapid.IntRange(0, 29).Draw(t, "manyClasses") == 29 {
		extra := rapid.IntRange(125, 140).Draw(t, "manyClassesCount")
		for k := 0; k < extra; k++ {
			dir := []string{"aaa/bulk", "mmm/bulk", "zzz/bulk"}[k%3]
			name := fmt.Sprintf("Bulk%03d", k)
			if !used[name] {
				used[name] = true
				c.Files = append(c.Files, File{Name: name, Dir: dir, Package: "bulk.p" + fmt.Sprint(k%3)})
			}
		}
	}
	c.Ignore = genIgnore(t)
	c.Sort = rapid.Bool().Draw(t, "sort")
	if rapid.IntRange(0, 4).Draw(t, "hasPrior") == 4 {
		// another tree goes through the same process first
		usedPrior := map[string]bool{}
		for i, n := 0, rapid.IntRange(1, 2).Draw(t, "priorFiles"); i < n; i++ {
			c.Prior = append(c.Prior, genFile(t, i, usedPrior, 0))
		}
		c.PriorIgnore = genIgnore(t)
		c.PriorSame = rapid.IntRange(0, 2).Draw(t, "priorSame") == 2
	}
	c.Single = rapid.IntRange(0, 7).Draw(t, "single") == 7
	c.Stray = rapid.IntRange(0, 4).Draw(t, "stray") == 4
	return c
}

// genSortCase is biased towards trees whose sized groups hold several findings of
// different sizes, which is what the sort clause is about.
func genSortCase(t *rapid.T) Case {
	c := Case{Sort: rapid.IntRange(0, 3).Draw(t, "sort") > 0}
	n := rapid.IntRange(1, 3).Draw(t, "files")
	used := map[string]bool{}
	for i := 0; i < n; i++ {
		f := genFile(t, i, used, 3)
		if !f.Interface && rapid.IntRange(0, 2).Draw(t, "addLong") > 0 {
			k := rapid.IntRange(1, 3).Draw(t, "longMethods")
			for j := 0; j < k; j++ {
				l := rapid.IntRange(29, 40).Draw(t, "longL")
				if rapid.IntRange(0, 3).Draw(t, "veryLong") == 3 {
					l = rapid.IntRange(96, 103).Draw(t, "longL3") // group sizes with two and with three digits
				}
				p := rapid.IntRange(4, 12).Draw(t, "longP")
				i8 := rapid.SampledFrom([]int{0, 7, 8, 9, 10, 11}).Draw(t, "longI")
				s8 := rapid.SampledFrom([]int{0, 0, 8, 9}).Draw(t, "longS")
				for i8+s8+2 > l-1 {
					l++
				}
				m := sweepMethod(fmt.Sprintf("long%d", j), l, p, i8, s8, 1, SweepCase{}, false)
				pos := rapid.IntRange(0, len(f.Methods)).Draw(t, "longPos")
				f.Methods = append(f.Methods[:pos], append([]Method{m}, f.Methods[pos:]...)...)
			}
		}
		c.Files = append(c.Files, f)
	}
	// class-level sized kinds: two classes whose sizes ascend in walk order
	if rapid.IntRange(0, 2).Draw(t, "dataPair") > 0 {
		g1 := rapid.IntRange(1, 3).Draw(t, "dataSmall")
		g2 := g1 + rapid.IntRange(0, 3).Draw(t, "dataMore")
		for i, g := range []int{g1, g2} {
			f := File{Name: fmt.Sprintf("Record%c", 'A'+i), Fields: 2}
			for k := 0; k < g; k++ {
				kind := "getter"
				if k%2 == 1 {
					kind = "setter"
				}
				f.Methods = append(f.Methods, trivialMethod(kind, fmt.Sprintf("field%d", k)))
			}
			c.Files = append(c.Files, f)
		}
	}
	if rapid.IntRange(0, 2).Draw(t, "largePair") == 2 {
		m1 := rapid.IntRange(19, 21).Draw(t, "largeSmall")
		m2 := m1 + rapid.IntRange(0, 2).Draw(t, "largeMore")
		for i, m := range []int{m1, m2} {
			f := File{Name: fmt.Sprintf("Service%c", 'A'+i), Fields: 2}
			for k := 0; k < m; k++ {
				f.Methods = append(f.Methods, trivialMethod("normal", fmt.Sprintf("step%d", k)))
			}
			c.Files = append(c.Files, f)
		}
	}
	c.Ignore = genIgnore(t)
	c.RelDir = rapid.Bool().Draw(t, "relDir")
	if rapid.Bool().Draw(t, "otherDirStyle") {
		c.DirStyle = rapid.IntRange(1, 3).Draw(t, "dirStyle")
	}
	if rapid.IntRange(0, 2).Draw(t, "otherFlagStyle") == 2 {
		c.FlagStyle = rapid.IntRange(1, 3).Draw(t, "flagStyle")
	}
	c.Single = rapid.IntRange(0, 7).Draw(t, "single") == 7
	c.Stray = rapid.IntRange(0, 4).Draw(t, "stray") == 4
	c.StaleReport = rapid.IntRange(0, 2).Draw(t, "staleReport") == 2
	return c
}

func genSweep(t *rapid.T) SweepCase {
	return SweepCase{
		Indent:          rapid.IntRange(0, 2).Draw(t, "indent"),
		BraceNext:       rapid.Bool().Draw(t, "braceNext"),
		CloseOwn:        rapid.Bool().Draw(t, "closeOwn"),
		Decoys:          rapid.IntRange(0, 3).Draw(t, "decoys") > 0,
		Full:            pbt.Tier() == "thorough",
		Part:            -1,
		Shapes:          true,
		Varargs:         !pbt.Excluded(varargsFeature),
		InterfaceBodies: !pbt.Excluded(interfaceBodyFeature),
		Accessors:       true,
		Layouts:         true,
		Arrows:          !pbt.Excluded(arrowFeature),
	}
}

func init() {
	pbt.SetProperty("C10")
	pbt.Describe("Conventional Java classes/interfaces printed from a parameter vector by a line-tracking printer: per method the distance L between declaration line and closing brace, parameter count P, top-level if count I and classic switch count S (with nested ifs/switches, else-if chains written over several lines or on one line, ifs/switches inside for/while/do/try/synchronized/lambda bodies, multi-line loop conditions, explicitly typed lambda parameters, block comments and long initialiser blocks full of ifs as decoys that must not count; since widening a5 also bare blocks, labelled loops and try-with-resources holding ifs/switches, and filler lines from a table of one-line statements that are neither: object/array creation, call chains, method references, lambdas in arguments, conditional expressions, casts, labelled statements named iffy/switcher, empty statements, assertions, a switch expression as an initialiser, literals and comments that look like code), switch statements in classic form or written with `case X ->` rules, heights H of top-level if conditions (\"(\" followed by the first operand or ending its line, \")\" closing the last operand's line or on a line of its own, the keyword `if` on the condition's line or on the line above); per class M ordinary methods (some named generate/select/send/serve, some containing get/set inside the name: reset, forget, target, offset, or the usual companions toString/hashCode) and G getters/setters (getX() returning a value, setX(v); written on one line, on three, or with a body of their own: ifs, switches, tall conditions and lengths around the thresholds like any other method), and methods of the other kinds (ordinary, static, abstract, default) whose names start like an accessor's without being one by signature or spelling (setBounds/getKind/setRange/getOrDefault with any parameter count, settle, getaway, setup, getting, bare get/set, isReady/isEmpty), all with bodies and parameter lists around the method-level thresholds; parameter lists on one line or wrapped over several lines, with annotated / nested-generic parameter types, optionally ending in a variable-arity parameter; modifiers/return type on a line of their own, the return type itself over two lines; ordinary methods with an empty body on one line; native methods; default and static interface methods with bodies; ordinary method names with `_`, `$`, digits, non-ASCII letters, one letter, more than 100 letters, get/set in another case (GetReady, Settle, SETUP, gEt) or not at the front (_get, $set, unset); class headers public / package-private / final / annotated / generic, abstract classes without ordinary methods; class names that are words of the tool (Interface, DataClass, Class1), hold `$`, `_`, non-ASCII letters or one letter, or come close to the test-file suffixes (TestsSuite); LF or CRLF line ends, with or without final newline, text after the closing brace, a line longer than 65536 bytes; static, wildcard and repeated imports; 1-4 files per tree (the same class name may recur in another directory; directory and class names containing test/Test that are no test files: com/acme/testing, testdata/fixtures, src/test/javax/acme; directories named like kinds or holding a blank), optionally a package-info.java, optionally files that are no Java sources (X.java.orig, X.java~, X.javax, X.java.txt, .kt, a .gitignore whose patterns match no source), x ignore lists (subsets of the seven kinds in the tool's or in another order, a kind named twice, the empty name, names that are no kind: unknown ones, another spelling or case, parts of kind names such as Class/long/Method) x sort on/off x histories (API: another tree analysed and reported in the same process right before, in another directory or in the very directory whose content is then replaced; CLI: report files of an earlier run present, the run with options after the plain run in the same working directory) x the path handed over (the directory, or the path of one source file: the report is then about that file alone). Sub-check sweep (bounded-exhaustive, one evaluation): quick tier L{29..32} x P{4..7} x I{6..9} x H{2..5} without switches (256 one-method classes) + I{6..9} x S{6..9} on the diagonal of (L,P,H) (64); thorough tier the whole product L x P x I x S{0,6..9} x H (1280); both + M{0,1,18..21} x G{0,1,3} x class/interface (36) + interface P{4..7} + boundary shapes: P{4..7} x varargs x wrap style{0,1,2} x L{30,31} (48) and as interface methods (8), default methods L{30,31} x I{7,8} x H{3,4} (8), M{19,20} x G{0,2} with look-alike names (4), accessor pairs plus one look-alike method (8), overloads at M{19,20} (2), two or three accessors on one line with M{0,20} (4), getters and setters with bodies L{30,31} x I{7,8} x H{3,4} alone / next to an accessor / next to an ordinary method (16) and with S{7,8} (4), accessor-named methods of other kinds P{5,6} x 8 names in classes (16) and as interface methods (8), with (L,I,S,H) at (30,7,0,3), (31,8,0,4), (31,2,8,1) (14), as default methods (6), next to 17/18 ordinary methods (2), H{3,4} x (\"(\" ending its line, `if` on the line above, both) x \")\" on its own line or not (12), arrow-form switches S{7,8} alone and mixed with four classic ones (4), I{7,8} and S{7,8} next to a bare block, a labelled loop and a try-with-resources holding more (4), return type over two lines L{30,31} (2), wider filler table with or without final newline L{30,31} x I{7,8} (4); every chunk of 64 files is judged under all 128 ignore subsets, each with SortSmellByType, and finally once more without ignore list on the same analysis. Sub-checks vec (API: BadSmellApp.AnalysisPath + IdentifyBadSmell(nil), IdentifyBadSmell(ignore), IdentifyBadSmell(nil) again on the same analysis + SortSmellByType) and cli (`coca bs [-p DIR] [-x kinds] [-s type]`, bs.json; DIR absolute, relative, ./DIR, DIR/ or the default . from inside; flags spelt -p d -x v, -p=d -x=v, --path d --ignore v, --path=d --ignore=v; biased to groups whose sizes ascend in report order, also across a change in the number of digits) draw random vectors biased to the thresholds. Oracle: findings of the seven kinds computed from the printer's line record (kind, file, line for method-level kinds, size for sized kinds); other kinds are ignored. Non-trivial = some parameter at threshold-1/threshold/threshold+1 (L 29-31, P 4-6, M 19-21, I/S 7-9, H 3-5, or a class with 0/1 methods); distinct = the vector with ignore list, sort flag and entry point.",
		"the line a declaration starts on is the line of its modifiers and return type: no annotations on lines of their own above a method; one top-level type per file; no nested, local or anonymous types; constructors only where they cannot affect a method count near a threshold",
		"getters/setters are getX() returning a value and setX(v) with one parameter, whatever their bodies hold (a setter that validates with eight ifs is still a setter for largeClass/dataClass, and a method like any other for the four method-level kinds, which the statement gives for methods without exception)",
		"the statement does not say whether a method that is no such accessor but whose name starts with get/set/is (setBounds with six parameters, getKind(int), settle, getaway, isReady) is a getter/setter: such methods are generated only in interfaces and in classes that also have at least one method of an ordinary name and, counting them, fewer than 20 methods that are not getters/setters, so that largeClass, dataClass and lazyElement come out the same under both readings (the expected-value computation refuses any other placement); their method-level findings are asserted in full",
		"else-if branches, ifs inside any nested block and loop conditions do not count as top-level ifs (DESIGN C10)",
		"graphConnectedCall findings (third-party state leak, DESIGN section 6 row 22) are left out of every comparison",
		"a file without any type (package-info.java) must produce no finding of the seven kinds",
		"a condition is the parenthesised expression: its start line and its height are taken from \"(\" to \")\" also where the keyword `if` stands on the line above",
		"a switch statement written with `case X ->` rules is a switch statement (a switch expression used as an initialiser is none); generator feature "+arrowFeature+" belongs to a defect found by the checklist audit (such statements are not counted: notes/proposed/C10-arrow-switch-statement.patch, replays/C10/fixed-arrow-switch-statement.json); it is switched off only if known_findings.json lists it as known",
		"not generated because the statement leaves the expected value open or the tool treats the path specially: a receiver parameter (`void m(Order this, int a)`: one of the \"parameters\" or not), enums / records / annotation types (classes or not), labelled ifs, paths containing testData or ending in Test.java / Tests.java or below src/test/java/, directories named like a Java file, a .gitignore that matches sources, a byte order mark (the shipped lexer takes it for a letter and the parse fails), blanks inside the -x list",
		"pointed at one source file instead of a directory, the tool reports on that file and names it by the path handed over",
		"file names are compared as the tool prints them: the directory as named on the command line (cleaned) joined with the path below it",
		"generator features "+varargsFeature+" and "+interfaceBodyFeature+" belong to two defects found while widening (notes/proposed/C10-*.patch, replays/C10/fixed-varargs-parameter.json, fixed-interface-method-body.json); they are switched off only if known_findings.json lists them as known",
		"the quick tier's sweep is a reduced cross because the shipped grammar needs ~6 ms per classic switch statement in full LL mode; the generated files are validated with the shipped parser in two stages (SLL, then LL on error)")
	pbt.Register("sweep", 1, 1, genSweep, checkSweep)
	pbt.Register("vec", 200, 1500, genCase, checkAPI)
	pbt.Register("cli", 30, 100, genSortCase, checkCLI)
}

func TestProp(t *testing.T)   { pbt.Main(t) }
func TestReplay(t *testing.T) { pbt.Replay(t) }
