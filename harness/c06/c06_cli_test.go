// The command-line entry point of the removal: `coca refactor -m <move config> -p <dir>`. The
// command analyses the directory for the move-class refactoring first (the move configuration is
// only read by that refactoring's second phase, which the command never starts) and then removes
// the unused imports. Every run is one process.
package c06

import (
	"fmt"
	"os"
	"path/filepath"
	"strings"

	"pgregory.net/rapid"

	"verif/internal/cli"
	"verif/internal/pbt"
)

// CliOpts: how the command line is spelled.
type CliOpts struct {
	PathForm int `json:"pathForm"` // 0 absolute; 1 relative to the working directory; 2 "." inside the project; 3 relative with a trailing slash; 4 "./" + relative; 5 absolute with a trailing slash
	OptForm  int `json:"optForm"`  // 0 -m v -p d; 1 -p d -m v; 2 --move v --path d; 3 --path=d --move=v; 4 -p=d -m=v
	MoveArg  int `json:"moveArg"`  // 0 a name that does not exist; 1 an empty file next to the project; 2 a file holding a move the project does not contain
}

func genCliOpts(t *rapid.T) *CliOpts {
	return &CliOpts{
		PathForm: rapid.IntRange(0, 5).Draw(t, "cliPathForm"),
		OptForm:  rapid.IntRange(0, 4).Draw(t, "cliOptForm"),
		MoveArg:  rapid.IntRange(0, 2).Draw(t, "cliMoveArg"),
	}
}

func (o *CliOpts) labels() []string {
	return []string{fmt.Sprintf("cli:path_form_%d", o.PathForm), fmt.Sprintf("cli:option_form_%d", o.OptForm), fmt.Sprintf("cli:move_argument_%d", o.MoveArg)}
}

// runCli runs the command once; nil = it ran.
func runCli(c Case, scratch, dir string, history []string) *pbt.Verdict {
	o := c.Cli
	cwd, path := scratch, dir
	switch o.PathForm {
	case 1:
		path = c.DirName
	case 2:
		cwd, path = dir, "."
	case 3:
		path = c.DirName + "/"
	case 4:
		path = "./" + c.DirName
	case 5:
		path = dir + "/"
	}
	move := "move.cfg"
	switch o.MoveArg {
	case 1:
		move = filepath.Join(scratch, "empty-move.cfg")
		if err := os.WriteFile(move, nil, 0644); err != nil {
			panic(err)
		}
	case 2:
		move = filepath.Join(scratch, "other-move.cfg")
		if err := os.WriteFile(move, []byte("org.nowhere.Gone -> org.elsewhere.Gone\n"), 0644); err != nil {
			panic(err)
		}
	}
	var args []string
	switch o.OptForm {
	case 0:
		args = []string{"refactor", "-m", move, "-p", path}
	case 1:
		args = []string{"refactor", "-p", path, "-m", move}
	case 2:
		args = []string{"refactor", "--move", move, "--path", path}
	case 3:
		args = []string{"refactor", "--path=" + path, "--move=" + move}
	default:
		args = []string{"refactor", "-p=" + path, "-m=" + move}
	}
	res, err := cli.Run("coca", cwd, nil, args...)
	if err != nil {
		panic(err)
	}
	if res.TimedOut {
		pbt.Count("cli_timeout", 1)
		return &pbt.Verdict{Skip: true}
	}
	if res.ExitCode != 0 {
		first := ""
		for _, l := range strings.Split(res.Stderr, "\n") {
			if strings.HasPrefix(l, "panic:") || strings.HasPrefix(l, "Error:") {
				first = strings.ReplaceAll(l, scratch, "")
				break
			}
		}
		v := pbt.Fail("history %v: `coca %s` ended with status %d: %s", history, strings.ReplaceAll(strings.Join(args, " "), scratch, ""), res.ExitCode, first)
		return &v
	}
	return nil
}
