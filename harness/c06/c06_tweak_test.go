// Layout variants of a generated unit (jgen or local): other spellings of the import lines, lines
// in front of, between and behind the imports, text behind the type, long lines. Every change
// keeps the meaning of the file and the verdict of every import; the recorded import lines follow.
package c06

import (
	"fmt"
	"sort"
	"strings"

	"pgregory.net/rapid"

	"verif/internal/jgen"
)

// ed is a unit as a list of lines (the last one is "" when the text ends in a line end).
type ed struct {
	lines []string
	u     *jgen.UnitTruth
	feats map[string]bool
}

// insert puts lines in front of line `at` (1-based) and moves the recorded import lines.
func (e *ed) insert(at int, ins []string) {
	if len(ins) == 0 {
		return
	}
	out := append([]string(nil), e.lines[:at-1]...)
	out = append(out, ins...)
	e.lines = append(out, e.lines[at-1:]...)
	for k := range e.u.Imports {
		if e.u.Imports[k].Line >= at {
			e.u.Imports[k].Line += len(ins)
		}
	}
}

var notes = []string{"keep", "needed by the mapper", "TODO tidy up", "see List", "注释", "import it once"}

// ghost is a line that looks like an import of a class nothing refers to; it only ever stands inside comments.
func ghost(k int) string { return fmt.Sprintf("import org.fake.Ghost%d;", k) }

func pad(t *rapid.T, label string) string {
	n := rapid.IntRange(4097, 5200).Draw(t, label+"Len")
	if rapid.IntRange(0, 4).Draw(t, label+"Huge") == 4 {
		n = rapid.IntRange(65537, 70000).Draw(t, label+"HugeLen")
	}
	chunk := rapid.SampledFrom([]string{"x", "lorem ipsum ", "import a.B; ", "0123456789abcdef"}).Draw(t, label+"Chunk")
	return strings.TrimRight(strings.Repeat(chunk, n/len(chunk)+1), " ")
}

// spell writes an import declaration in one of the ways the language allows on one line.
func spell(t *rapid.T, im jgen.ImportTruth, e *ed) string {
	name := im.Text
	if im.Wildcard {
		name += ".*"
	}
	kw := "import "
	if im.Static {
		kw = "import static "
	}
	note := rapid.SampledFrom(notes).Draw(t, "note")
	v := rapid.IntRange(0, 17).Draw(t, "importSpelling")
	if v > 0 {
		e.feats[fmt.Sprintf("import_spelling:%d", v)] = true
	}
	switch v {
	case 1:
		return kw + name + "; "
	case 2:
		return kw + name + ";\t"
	case 3:
		return kw + name + " ;"
	case 4:
		return "    " + kw + name + ";"
	case 5:
		return "\t" + kw + name + ";"
	case 6:
		return strings.ReplaceAll(kw, " ", "\t") + name + ";"
	case 7:
		return strings.ReplaceAll(kw, " ", "   ") + name + ";"
	case 8:
		return kw + name + "; // " + note
	case 9:
		return kw + name + "; /* " + note + " */"
	case 10:
		return "/* " + note + " */ " + kw + name + ";"
	case 11:
		return kw + "/* " + note + " */ " + name + ";"
	case 12:
		return kw + strings.ReplaceAll(name, ".", " . ") + ";"
	case 13:
		return kw + name + ";// " + ghost(1)
	case 14:
		return kw + name + ";   \t  "
	case 15:
		return " " + kw + name + " ; // " + note
	case 16:
		return kw + name + "; //"
	case 17:
		return kw + name + ";/**/"
	}
	return kw + name + ";"
}

// tweak draws the layout variants of one unit; plain = nothing changes.
func tweak(t *rapid.T, f *jgen.File, u *jgen.UnitTruth) {
	e := &ed{lines: strings.Split(f.Text, "\n"), u: u, feats: map[string]bool{}}
	// 1. spelling of the import lines
	if len(u.Imports) > 0 && rapid.IntRange(0, 3).Draw(t, "respell") == 3 {
		for _, im := range u.Imports {
			e.lines[im.Line-1] = spell(t, im, e)
		}
	}
	// 2. lines between the imports (from the last import upwards, so that the lines drawn stay right)
	if len(u.Imports) > 0 && rapid.IntRange(0, 4).Draw(t, "separators") == 4 {
		order := append([]jgen.ImportTruth(nil), u.Imports...)
		for k := len(order) - 1; k >= 0; k-- {
			at := order[k].Line
			var ins []string
			switch rapid.IntRange(0, 9).Draw(t, "separator") {
			case 5:
				ins = []string{""}
			case 6:
				ins = []string{"", "   ", "\t"}
			case 7:
				ins = []string{"// " + rapid.SampledFrom(notes).Draw(t, "note")}
			case 8: // an import that was commented out
				ins = []string{"// " + ghost(k), "//" + ghost(k+100)}
			case 9: // a block comment whose lines look like imports
				ins = []string{"/*", ghost(k), " * " + ghost(k+100), "import static org.fake.Ghost.*;", "package org.fake;", "*/"}
			}
			if len(ins) > 0 {
				e.feats["lines_between_imports"] = true
				if len(ins) == 6 || len(ins) == 2 {
					e.feats["import_lookalike_in_comment"] = true
				}
			}
			e.insert(at, ins)
		}
	}
	// 3. lines in front of everything
	if rapid.IntRange(0, 4).Draw(t, "top") == 4 {
		var ins []string
		switch rapid.IntRange(0, 4).Draw(t, "topKind") {
		case 0: // blank lines, some of them holding blanks
			n := rapid.IntRange(1, 4).Draw(t, "topBlank")
			for k := 0; k < n; k++ {
				ins = append(ins, []string{"", "  ", "\t", ""}[k])
			}
			e.feats["leading_blank_lines"] = true
		case 1: // licence in line comments
			n := rapid.IntRange(2, 12).Draw(t, "topLineComments")
			for k := 0; k < n; k++ {
				ins = append(ins, "// Licensed under the Example License, line "+fmt.Sprint(k))
			}
			ins = append(ins, "")
		case 2, 3: // licence in a block comment: pushes the imports past line 9, rarely past line 99
			n := rapid.IntRange(8, 45).Draw(t, "topBlock")
			if rapid.IntRange(0, 5).Draw(t, "topBlockHuge") == 5 {
				n = rapid.IntRange(95, 130).Draw(t, "topBlockHugeLen")
			}
			ins = append(ins, "/*")
			for k := 0; k < n; k++ {
				switch {
				case k == 3:
					ins = append(ins, ghost(900))
				case k == 5:
					ins = append(ins, " * package org.fake;")
				default:
					ins = append(ins, " * Copyright line "+fmt.Sprint(k))
				}
			}
			ins = append(ins, " */")
			e.feats["import_lookalike_in_comment"] = true
		default: // a long line in front of the package declaration
			ins = []string{"// " + pad(t, "topPad")}
		}
		e.insert(1, ins)
	}
	// 4. text behind the type
	if rapid.IntRange(0, 5).Draw(t, "tail") == 5 {
		final := e.lines[len(e.lines)-1] == "" // the text ends in a line end
		if final {
			e.lines = e.lines[:len(e.lines)-1]
		}
		switch rapid.IntRange(0, 4).Draw(t, "tailKind") {
		case 0:
			e.lines = append(e.lines, "", "")
		case 1:
			e.lines = append(e.lines, "// end of file")
		case 2:
			e.lines = append(e.lines, "", "/*", ghost(901), "*/")
		case 3:
			e.lines[len(e.lines)-1] += "  \t"
		default:
			e.lines = append(e.lines, "   ", "\t")
		}
		if final {
			e.lines = append(e.lines, "")
		}
		e.feats["text_behind_type"] = true
	}
	// 5. blanks at line ends; a long line
	if rapid.IntRange(0, 5).Draw(t, "pads") == 5 {
		n := rapid.IntRange(1, 4).Draw(t, "nPads")
		for k := 0; k < n; k++ {
			i := rapid.IntRange(0, len(e.lines)-1).Draw(t, "padLine")
			if i == len(e.lines)-1 && e.lines[i] == "" {
				continue // nothing behind the final line end
			}
			e.lines[i] += rapid.SampledFrom([]string{" ", "\t", "   "}).Draw(t, "padText")
		}
		e.feats["blanks_at_line_ends"] = true
		if rapid.IntRange(0, 3).Draw(t, "longLine") == 3 {
			i := rapid.IntRange(0, len(e.lines)-1).Draw(t, "longLineAt")
			if !(i == len(e.lines)-1 && e.lines[i] == "") {
				p := pad(t, "linePad")
				e.lines[i] += " // " + p
				if len(p) > 65536 {
					e.feats["line>65536"] = true
				} else {
					e.feats["line>4096"] = true
				}
			}
		}
	}
	f.Text = strings.Join(e.lines, "\n")
	var keys []string
	for k := range e.feats {
		keys = append(keys, k)
	}
	sort.Strings(keys)
	for _, k := range keys {
		dup := false
		for _, x := range u.Features {
			if x == k {
				dup = true
			}
		}
		if !dup {
			u.Features = append(u.Features, k)
		}
	}
}
