package c06

import (
	"fmt"
	"os"
	"path/filepath"
	"regexp"
	"sort"
	"strings"
	"unicode"

	"github.com/antlr/antlr4/runtime/Go/antlr/v4"
	parser "github.com/modernizing/coca/languages/java"
	"github.com/modernizing/coca/pkg/application/refactor/base"
	"github.com/modernizing/coca/pkg/application/refactor/base/models"
	"github.com/modernizing/coca/pkg/application/refactor/unused"
	"github.com/modernizing/coca/pkg/infrastructure/ast/ast_java"

	"verif/internal/cli"
	"verif/internal/jany"
	"verif/internal/jgen"
	"verif/internal/jref"
	"verif/internal/pbt"
)

// Sub-check `anyjava`: unused-import removal on Java files no generator of this harness wrote (repository
// fixtures rewritten token by token, see internal/jany), judged by a token-level reference instead of a
// generator's ground truth:
//   - the result is the original minus whole lines, each of which holds exactly one import declaration;
//   - a wildcard import is never deleted; the simple name of a deleted import occurs as an identifier token
//     nowhere outside the import and package declarations of the file;
//   - a single-type, non-static import whose simple name occurs nowhere else in the text of the file (as a
//     word: not in code, comments or literals) is deleted;
//   - a second run changes nothing; every file of the directory is judged.
// Left open: an unused static import (may stay or go), a name that occurs only in comments or literals.

type importDecl struct {
	line     int // 1-based, start == stop
	name     string
	simple   string
	static   bool
	wildcard bool
}

type fileRef struct {
	imports    []importDecl
	byLine     map[int]importDecl
	identsElse map[string]bool // identifier tokens outside import / package declarations
	ok         bool            // every import stands alone on one line
}

func refOf(text string) fileRef {
	r := fileRef{byLine: map[int]importDecl{}, identsElse: map[string]bool{}, ok: true}
	lexer := parser.NewJavaLexer(antlr.NewInputStream(text))
	lexer.RemoveErrorListeners()
	stream := antlr.NewCommonTokenStream(lexer, 0)
	p := parser.NewJavaParser(stream)
	p.RemoveErrorListeners()
	cu := p.CompilationUnit().(*parser.CompilationUnitContext)
	type span struct{ a, b int }
	var decl []span
	if pd := cu.PackageDeclaration(); pd != nil {
		decl = append(decl, span{pd.GetStart().GetTokenIndex(), pd.GetStop().GetTokenIndex()})
	}
	lines := strings.Split(text, "\n")
	for _, x := range cu.AllImportDeclaration() {
		id := x.(*parser.ImportDeclarationContext)
		decl = append(decl, span{id.GetStart().GetTokenIndex(), id.GetStop().GetTokenIndex()})
		d := importDecl{line: id.GetStart().GetLine(), name: id.QualifiedName().GetText(), static: id.STATIC() != nil, wildcard: id.MUL() != nil}
		d.simple = d.name[strings.LastIndex(d.name, ".")+1:]
		if id.GetStop().GetLine() != d.line {
			r.ok = false
		}
		if _, twice := r.byLine[d.line]; twice {
			r.ok = false
		}
		// nothing else on the line but blanks (a trailing comment is part of the line)
		l := strings.TrimSuffix(lines[d.line-1], "\r")
		if !regexp.MustCompile(`^\s*import\b[^;]*;\s*(//.*|/\*.*\*/\s*)?$`).MatchString(l) {
			r.ok = false
		}
		r.byLine[d.line] = d
		r.imports = append(r.imports, d)
	}
	// names being declared are no references: the type's own name, constructors, methods, variables,
	// parameters, type parameters, labels
	declared := map[int]bool{}
	var walk func(n antlr.Tree)
	walk = func(n antlr.Tree) {
		var id parser.IIdentifierContext
		switch c := n.(type) {
		case *parser.ClassDeclarationContext:
			id = c.Identifier()
		case *parser.InterfaceDeclarationContext:
			id = c.Identifier()
		case *parser.MethodDeclarationContext:
			id = c.Identifier()
		case *parser.InterfaceCommonBodyDeclarationContext:
			id = c.Identifier()
		case *parser.ConstructorDeclarationContext:
			id = c.Identifier()
		case *parser.VariableDeclaratorIdContext:
			id = c.Identifier()
		case *parser.ConstantDeclaratorContext:
			id = c.Identifier()
		case *parser.TypeParameterContext:
			id = c.Identifier()
		case *parser.ElementValuePairContext:
			id = c.Identifier() // `@Ann(value = 1)`: the name of an annotation element
		case *parser.InnerCreatorContext:
			id = c.Identifier() // `outer.new Inner()`: a member of outer's type
		// variables bound by patterns, lambdas, catch clauses, resources, `var` declarations; labels
		case *parser.PatternContext:
			id = c.Identifier()
		case *parser.GuardedPatternContext:
			id = c.Identifier()
		case *parser.SwitchLabelContext:
			id = c.GetVarName()
		case *parser.LambdaParametersContext:
			for _, x := range c.AllIdentifier() {
				declared[x.GetStart().GetTokenIndex()] = true
			}
		case *parser.LambdaLVTIParameterContext:
			id = c.Identifier()
		case *parser.CatchClauseContext:
			id = c.Identifier()
		case *parser.LocalVariableDeclarationContext:
			id = c.Identifier()
		case *parser.ResourceContext:
			if c.VAR() != nil {
				id = c.Identifier()
			}
		case *parser.RecordComponentContext:
			id = c.Identifier()
		case *parser.StatementContext:
			id = c.GetIdentifierLabel()
		case *parser.AnnotationContext:
			// `@ b.NbAlpha(0)`: the head of a qualified annotation name is a package (or an enclosing type named in
			// full), no simple name an import brings in
			if qn, ok := c.QualifiedName().(*parser.QualifiedNameContext); ok && len(qn.AllIdentifier()) > 1 {
				for _, x := range qn.AllIdentifier() {
					declared[x.GetStart().GetTokenIndex()] = true
				}
			}
		}
		if id != nil {
			declared[id.GetStart().GetTokenIndex()] = true
		}
		for i := 0; i < n.GetChildCount(); i++ {
			walk(n.GetChild(i))
		}
	}
	walk(cu)
	// tokens of the default channel, to look at the neighbours of an identifier
	var sig []antlr.Token
	for _, t := range stream.GetAllTokens() {
		if t.GetChannel() == antlr.TokenDefaultChannel {
			sig = append(sig, t)
		}
	}
	for k, t := range sig {
		if t.GetTokenType() != parser.JavaLexerIDENTIFIER || declared[t.GetTokenIndex()] {
			continue
		}
		// the tail of a qualified name or a member behind `.` / `::` (`a.B`, `x.<T>b()`, `Foo::i`) is looked up
		// in what stands before it, never among the imports
		j := k - 1
		if j >= 0 && sig[j].GetText() == ">" {
			// explicit type arguments between the dot and the member: x.<A, B<C>>m()
			for depth := 0; j >= 0; j-- {
				if sig[j].GetText() == ">" {
					depth++
				} else if sig[j].GetText() == "<" {
					depth--
					if depth == 0 {
						j--
						break
					}
				}
			}
		}
		if j >= 0 && (sig[j].GetText() == "." || sig[j].GetText() == "::") {
			continue
		}
		// the head of a dotted chain written in lower case may as well be a package (`a.b.String`)
		if k+1 < len(sig) && sig[k+1].GetText() == "." {
			if r := []rune(t.GetText()); len(r) > 0 && !unicode.IsUpper(r[0]) {
				// ... unless a method is called on it (`out.println(1)`): a package has no methods
				if !(k+3 < len(sig) && sig[k+2].GetTokenType() == parser.JavaLexerIDENTIFIER && sig[k+3].GetText() == "(") {
					continue
				}
			}
		}
		in := false
		for _, s := range decl {
			if t.GetTokenIndex() >= s.a && t.GetTokenIndex() <= s.b {
				in = true
			}
		}
		if !in {
			r.identsElse[t.GetText()] = true
		}
	}
	return r
}

func wordElsewhere(lines []string, skip int, word string) bool {
	re := regexp.MustCompile(`(^|[^\p{L}\p{N}_$])` + regexp.QuoteMeta(word) + `($|[^\p{L}\p{N}_$])`)
	for i, l := range lines {
		if i+1 == skip {
			continue
		}
		if re.MatchString(l) {
			return true
		}
	}
	return false
}

func judgeRemoval(path, orig, got string, skipped map[string]int) string {
	r := refOf(orig)
	if !r.ok {
		skipped["importsNotOnePerLine"]++
		if got != orig {
			// still: only whole lines may go
			if !subsequence(strings.Split(got, "\n"), strings.Split(orig, "\n")) {
				return fmt.Sprintf("%s differs from its original other than by the deletion of whole lines\n%s", path, diff(orig, got))
			}
		}
		return ""
	}
	ol, gl := strings.Split(orig, "\n"), strings.Split(got, "\n")
	j := 0
	deleted := map[int]bool{}
	for i, line := range ol {
		if j < len(gl) && gl[j] == line {
			j++
			continue
		}
		deleted[i+1] = true
	}
	if j != len(gl) {
		return fmt.Sprintf("%s differs from its original other than by the deletion of whole lines\n%s", path, diff(orig, got))
	}
	var dl []int
	for l := range deleted {
		dl = append(dl, l)
	}
	sort.Ints(dl)
	for _, l := range dl {
		d, isImport := r.byLine[l]
		if !isImport {
			return fmt.Sprintf("%s: line %d %q was deleted and is no import line", path, l, ol[l-1])
		}
		if d.wildcard {
			return fmt.Sprintf("%s: the wildcard import on line %d %q was deleted", path, l, ol[l-1])
		}
		if r.identsElse[d.simple] {
			return fmt.Sprintf("%s: the import on line %d %q was deleted although %s is referred to in the file", path, l, ol[l-1], d.simple)
		}
	}
	for _, d := range r.imports {
		if d.wildcard || deleted[d.line] {
			continue
		}
		if d.static {
			skipped["staticImportKept"]++
			continue
		}
		if !wordElsewhere(ol, d.line, d.simple) {
			return fmt.Sprintf("%s: the import on line %d %q is unused (the name %s occurs nowhere else in the file) and was not removed", path, d.line, ol[d.line-1], d.simple)
		}
		if !r.identsElse[d.simple] {
			skipped["nameOnlyInCommentOrLiteral"]++
		}
	}
	return ""
}

func subsequence(sub, all []string) bool {
	j := 0
	for _, l := range all {
		if j < len(sub) && sub[j] == l {
			j++
		}
	}
	return j == len(sub)
}

func checkAny(c jany.Case) pbt.Verdict {
	for _, f := range c.Files {
		if !strings.HasSuffix(f.Path, ".java") {
			continue
		}
		if !f.Other && len(jgen.SyntaxErrors(f.Text)) > 0 {
			return pbt.Verdict{Skip: true}
		}
		// "whole import lines": the statement presumes that an import declaration has its line. A file whose
		// line ends are bare CRs (one line, as the tool counts) or that puts two imports on a line is
		// outside that reading; such directories are not judged (counted).
		if len(jgen.SyntaxErrors(f.Text)) == 0 && !refOf(f.Text).ok {
			pbt.Count("anyjava_imports_not_one_per_line", 1)
			return pbt.Verdict{Skip: true}
		}
	}
	scratch := cli.Scratch("c06any-")
	defer os.RemoveAll(scratch)
	dir := filepath.Join(scratch, "proj")
	files := map[string]string{}
	for _, f := range c.Files {
		files[f.Path] = f.Text
	}
	cli.WriteTree(dir, files)
	ast_java.VerifResetAstJava()
	base.VerifResetBase()
	models.VerifResetModels()
	unused.VerifResetUnused()
	run := func() string {
		return pbt.Call(func() {
			app := unused.NewRemoveUnusedImportApp(dir)
			app.Refactoring(app.Analysis())
		})
	}
	if p := run(); p != "" {
		return pbt.Fail("removal panicked: %s", strings.ReplaceAll(p, scratch, ""))
	}
	skipped := map[string]int{}
	after := map[string]string{}
	nImports, nDeleted, judged := 0, 0, 0
	for _, f := range c.Files {
		data, err := os.ReadFile(filepath.Join(dir, filepath.FromSlash(f.Path)))
		if err != nil {
			return pbt.Fail("%s is gone after the removal", f.Path)
		}
		got := string(data)
		after[f.Path] = got
		if !strings.HasSuffix(f.Path, ".java") {
			if got != f.Text {
				return pbt.Fail("%s is no Java source and was changed", f.Path)
			}
			continue
		}
		if f.Other || len(jgen.SyntaxErrors(f.Text)) > 0 {
			continue
		}
		if !jref.Parse(f.Text).Conventional() {
			skipped["unit.outsideQuantifier"]++ // no type, several top-level types, named inner types
			continue
		}
		judged++
		if msg := judgeRemoval(f.Path, f.Text, got, skipped); msg != "" {
			return pbt.Fail("%s\n--- %s (%s %v) ---\n%s", msg, f.Path, c.Source, c.Ops, f.Text)
		}
		nImports += strings.Count(f.Text, "import ")
		nDeleted += strings.Count(f.Text, "\n") - strings.Count(got, "\n")
	}
	if judged == 0 {
		return pbt.Verdict{Skip: true}
	}
	if p := run(); p != "" {
		return pbt.Fail("second removal panicked: %s", strings.ReplaceAll(p, scratch, ""))
	}
	for _, f := range c.Files {
		data, _ := os.ReadFile(filepath.Join(dir, filepath.FromSlash(f.Path)))
		if string(data) != after[f.Path] {
			return pbt.Fail("a second removal changed %s again\n%s\n--- original (%s %v) ---\n%s", f.Path, diff(after[f.Path], string(data)), c.Source, c.Ops, f.Text)
		}
	}
	v := pbt.Verdict{NonTrivial: nDeleted > 0 && nImports > nDeleted}
	if nDeleted > 0 {
		v.Classes = append(v.Classes, "any.someImportDeleted")
	}
	if c.Source == "jgen" || c.Source == "jgram" {
		v.Classes = append(v.Classes, "any.source."+c.Source)
	} else {
		v.Classes = append(v.Classes, "any.source.fixture")
	}
	for _, op := range c.Ops {
		v.Classes = append(v.Classes, "any.op."+op)
	}
	for k := range skipped {
		v.Classes = append(v.Classes, "any.skip."+k)
	}
	sort.Strings(v.Classes)
	return v
}

func init() {
	pbt.DescribeMore("sub-check anyjava: directories of repository .java fixtures rewritten token by token and jgen projects with every body shape on (internal/jany), cleaned by RemoveUnusedImportApp and judged by a token-level reference: the result is the original minus whole lines that each hold exactly one import declaration; no wildcard import is deleted; the simple name of a deleted import is no identifier token outside the import and package declarations; a single-type non-static import whose simple name occurs nowhere else in the file's text is deleted; a second run changes nothing. Left open and counted: static imports that stay, names that occur only in comments or literals, files whose imports do not stand one per line.")
	pbt.Register("anyjava", 600, 1500, jany.Gen, checkAny)
}
