// C06 — unused-import removal deletes nothing but unused single-type imports.
package c06

import (
	"fmt"
	"os"
	"path/filepath"
	"sort"
	"strings"
	"testing"

	"github.com/modernizing/coca/pkg/application/refactor/base"
	"github.com/modernizing/coca/pkg/application/refactor/base/models"
	"github.com/modernizing/coca/pkg/application/refactor/unused"
	"github.com/modernizing/coca/pkg/infrastructure/ast/ast_java"
	"pgregory.net/rapid"

	"verif/internal/cli"
	"verif/internal/jgen"
	"verif/internal/pbt"
)

type Case struct {
	Project jgen.Project `json:"project"`
	Initial int          `json:"initial"` // units present before the first run
	Ops     []string     `json:"ops"`     // "run" | "add" (adds the next unit not yet present) | "restore" (every present file gets its original bytes back)
	// the widened domain (zero values = the cases of the first version of this check)
	Enc     []string    `json:"enc,omitempty"`     // per file: "" = the text as UTF-8, "latin1" = one byte per character (all characters of the text are below U+0100)
	Extra   []jgen.File `json:"extra,omitempty"`   // files of the project that are not Java sources
	DirName string      `json:"dirName,omitempty"` // the project directory is this sub-directory of the scratch directory ("" = the scratch directory itself)
	DirArg  string      `json:"dirArg,omitempty"`  // appended to the directory handed to the tool ("" or "/")
	Cli     *CliOpts    `json:"cli,omitempty"`     // run `coca refactor` as a process instead of calling the API
}

// rootPool: directories the units are put under; none makes a file a test file ("src/test/java/") or test data ("testData").
var rootPool = []string{"", "src/main/java/", "core/src/main/java/", "src/", "test/", "tests/unit/", "testdata/", "src/test/javax/", "src/testing/java/",
	"my project/", "проект/", "a.b/", "x/y/z/w/v/u/t/s/r/q/", "Test.java.d/sources/", "legacy.java/"}

// (eighth seed batch: the project may lie below a directory whose name starts with a dot - a CI workspace under
// ~/.jenkins, a checkout under .ws - or be such a directory itself; what is hidden is decided inside the project)
var dirNames = []string{"", "proj", "my proj", "src", "Tests", "проект", "test-data", "old.java", ".ws/proj", ".jenkins/workspace/shop", ".proj", "a/.hidden/b"}

// extraPool: what else lies in a project; the .gitignore files match none of the generated paths.
var extraPool = []jgen.File{
	{Path: "README.md", Text: "# Demo\n\nimport org.fake.Ghost;\n"},
	{Path: "pom.xml", Text: "<project>\n  <modelVersion>4.0.0</modelVersion>\n</project>\n"},
	{Path: ".gitignore", Text: "*.class\ntarget/\n"},
	{Path: ".gitignore", Text: "# IDE\n.idea/\n*.iml\n\nbuild/\n/out/\n*.log\n"},
	{Path: "notes/Old.javax", Text: "package old;\nimport org.fake.Ghost;\nclass Old { }\n"},
	{Path: "notes/Thing.java.bak", Text: "package old;\nimport org.fake.Ghost;\nclass Thing { }\n"},
	{Path: "docs/App.kt", Text: "import org.fake.Ghost\n\nfun main() { }\n"},
	{Path: "docs/java", Text: "import org.fake.Ghost;\n"},
	{Path: "build.gradle", Text: "plugins { id 'java' }\n"},
}

func gen(t *rapid.T) Case    { return genCase(t, false) }
func genCli(t *rapid.T) Case { return genCase(t, true) }

func genCase(t *rapid.T, viaCli bool) Case {
	exotic := rapid.IntRange(0, 3).Draw(t, "exoticNames") == 3
	p := jgen.GenProject(t, jgen.Opts{ExtraImps: true, Bodies: rapid.Bool().Draw(t, "bodies"), MultiByte: true, Interfaces: true, MaxUnits: 6, MaxMethods: 3,
		WordNames: true, WordDirs: true, ExoticNames: exotic})
	for i := range p.Units {
		// what this check does not look at (and what the layout variants below would make stale)
		p.Units[i].Funcs, p.Units[i].Fields, p.Units[i].Annotations = nil, nil, nil
	}
	// local units at drawn places between the jgen units
	nLocal := rapid.IntRange(0, 4).Draw(t, "nLocal")
	tiny := false
	if rapid.IntRange(0, 19).Draw(t, "manyFiles") == 19 {
		nLocal, tiny = rapid.IntRange(8, 40).Draw(t, "nLocalMany"), true
	}
	if nLocal > 0 {
		lc := newLctx(t)
		for _, f := range p.Files {
			lc.paths[f.Path] = true
		}
		for k := 0; k < nLocal; k++ {
			f, u := genLocalUnit(t, lc, tiny)
			at := rapid.IntRange(0, len(p.Files)).Draw(t, "localAt")
			p.Files = append(p.Files[:at:at], append([]jgen.File{f}, p.Files[at:]...)...)
			p.Units = append(p.Units[:at:at], append([]jgen.UnitTruth{u}, p.Units[at:]...)...)
		}
	}
	// layout variants, directories, line ends, encodings
	roots := []string{""}
	if rapid.IntRange(0, 2).Draw(t, "otherRoots") == 2 {
		roots = nil
		for k, n := 0, rapid.IntRange(1, 3).Draw(t, "nRoots"); k < n; k++ {
			roots = append(roots, rapid.SampledFrom(rootPool).Draw(t, "root"))
		}
	}
	c := Case{Enc: make([]string, len(p.Files))}
	for i := range p.Files {
		tweak(t, &p.Files[i], &p.Units[i])
		if len(roots) > 1 || roots[0] != "" {
			r := roots[rapid.IntRange(0, len(roots)-1).Draw(t, "rootOf")]
			p.Files[i].Path = r + p.Files[i].Path
			p.Units[i].Path = p.Files[i].Path
		}
		text := p.Files[i].Text
		switch rapid.IntRange(0, 9).Draw(t, "lineEnds") {
		case 7, 8:
			text = strings.ReplaceAll(text, "\n", "\r\n")
			p.Units[i].Features = append(p.Units[i].Features, "crlf")
		case 9: // a file edited on both systems: some lines end in CR LF
			k, off := rapid.IntRange(2, 4).Draw(t, "crlfEvery"), rapid.IntRange(0, 3).Draw(t, "crlfFrom")
			ls := strings.Split(text, "\n")
			for j := range ls {
				if j < len(ls)-1 && (j+off)%k == 0 {
					ls[j] += "\r"
				}
			}
			text = strings.Join(ls, "\n")
			p.Units[i].Features = append(p.Units[i].Features, "crlf_on_some_lines")
		}
		ascii := true
		for _, f := range p.Units[i].Features {
			if f == "nonascii_identifier" {
				ascii = false
			}
		}
		local := len(p.Units[i].Features) > 0 && p.Units[i].Features[0] == "local_unit"
		if (local && ascii || !local && !exotic) && rapid.IntRange(0, 9).Draw(t, "latin1") == 9 {
			// a source in ISO 8859-1: every character outside ASCII stands in a comment or literal
			text = strings.Map(func(r rune) rune {
				if r > 0xff {
					return 'é'
				}
				return r
			}, text)
			c.Enc[i] = "latin1"
		}
		p.Files[i].Text = text
	}
	seen := map[string]bool{}
	for _, f := range p.Files {
		seen[f.Path] = true
	}
	if n := rapid.IntRange(0, 3).Draw(t, "nExtra"); n > 0 {
		for k := 0; k < n; k++ {
			x := rapid.SampledFrom(extraPool).Draw(t, "extra")
			if !seen[x.Path] {
				seen[x.Path] = true
				c.Extra = append(c.Extra, x)
			}
		}
	}
	c.Project = p
	c.DirName = rapid.SampledFrom(dirNames).Draw(t, "dirName")
	if rapid.IntRange(0, 5).Draw(t, "dirArgSlash") == 5 {
		c.DirArg = "/"
	}
	c.Initial = rapid.IntRange(1, len(p.Units)).Draw(t, "initial")
	n := rapid.IntRange(0, 3).Draw(t, "nOps")
	for i := 0; i < n; i++ {
		c.Ops = append(c.Ops, rapid.SampledFrom([]string{"run", "add", "add", "restore"}).Draw(t, "op"))
	}
	c.Ops = append(c.Ops, "run", "run")
	if viaCli {
		c.Cli = genCliOpts(t)
		if c.DirName == "" {
			c.DirName = "proj"
		}
	}
	return c
}

// allowed checks that got is orig minus whole import lines, respecting the verdicts.
func allowed(u jgen.UnitTruth, orig, got string) string {
	verdict := map[int]jgen.ImportTruth{}
	for _, im := range u.Imports {
		verdict[im.Line] = im
	}
	ol, gl := strings.Split(orig, "\n"), strings.Split(got, "\n")
	j := 0
	for i, line := range ol {
		im, isImport := verdict[i+1]
		same := j < len(gl) && gl[j] == line
		switch {
		case !isImport || im.Verdict == "keep":
			if !same {
				what := "line"
				if isImport {
					what = fmt.Sprintf("import (%s, must be kept)", im.Why)
				}
				g := "<end of file>"
				if j < len(gl) {
					g = gl[j]
				}
				return fmt.Sprintf("%s %d of the original %q is gone or changed (found %q there)", what, i+1, line, g)
			}
			j++
		case im.Verdict == "delete":
			if same {
				return fmt.Sprintf("unused import on line %d %q was not removed (%s)", i+1, line, im.Why)
			}
		default: // free
			if same {
				j++
			}
		}
	}
	if j != len(gl) {
		return fmt.Sprintf("the file has %d extra line(s) at the end, first %q", len(gl)-j, gl[j])
	}
	return ""
}

// bytesOf is what is written to disk for file i.
func bytesOf(c Case, i int) string {
	text := c.Project.Files[i].Text
	if i < len(c.Enc) && c.Enc[i] == "latin1" {
		b := make([]byte, 0, len(text))
		for _, r := range text {
			if r > 0xff {
				r = '?'
			}
			b = append(b, byte(r))
		}
		return string(b)
	}
	return text
}

func check(c Case) pbt.Verdict {
	scratch := cli.Scratch("c06-")
	defer os.RemoveAll(scratch)
	dir := scratch
	if c.DirName != "" {
		dir = filepath.Join(scratch, c.DirName)
		if err := os.MkdirAll(dir, 0755); err != nil {
			panic(err)
		}
	}
	// a text the shipped parser rejects is outside the domain
	orig := make([]string, len(c.Project.Files))
	for i := range c.Project.Files {
		orig[i] = bytesOf(c, i)
		if errs := jgen.SyntaxErrors(orig[i]); len(errs) > 0 {
			pbt.Count("rejected_by_parser", 1)
			if os.Getenv("C06_SHOW_REJECTED") != "" { // while developing the generator: report the rejected text
				return pbt.Fail("generator: the parser rejects %s: %v", c.Project.Files[i].Path, errs)
			}
			return pbt.Verdict{Skip: true}
		}
	}
	ast_java.VerifResetAstJava()
	base.VerifResetBase()
	models.VerifResetModels()
	unused.VerifResetUnused()
	extra := map[string]string{}
	for _, x := range c.Extra {
		extra[x.Path] = x.Text
	}
	cli.WriteTree(dir, extra)
	present := 0
	add := func() bool {
		if present >= len(c.Project.Units) {
			return false
		}
		cli.WriteTree(dir, map[string]string{c.Project.Files[present].Path: orig[present]})
		present++
		return true
	}
	for present < c.Initial {
		add()
	}
	readPath := func(rel string) string {
		data, err := os.ReadFile(filepath.Join(dir, filepath.FromSlash(rel)))
		if err != nil {
			return "<unreadable: " + strings.ReplaceAll(err.Error(), scratch, "") + ">"
		}
		return string(data)
	}
	cleaned := map[int]string{} // unit -> bytes after the first run that saw it
	history := []string{}
	for _, op := range c.Ops {
		if op == "add" {
			if add() {
				history = append(history, "add "+c.Project.Files[present-1].Path)
			}
			continue
		}
		if op == "restore" {
			for i := 0; i < present; i++ {
				cli.WriteTree(dir, map[string]string{c.Project.Files[i].Path: orig[i]})
			}
			cleaned = map[int]string{}
			history = append(history, "restore")
			continue
		}
		history = append(history, "run")
		if c.Cli != nil {
			if v := runCli(c, scratch, dir, history); v != nil {
				return *v
			}
		} else if p := pbt.Call(func() {
			app := unused.NewRemoveUnusedImportApp(dir + c.DirArg)
			app.Refactoring(app.Analysis())
		}); p != "" {
			return pbt.Fail("history %v: removal panicked: %s", history, strings.ReplaceAll(p, scratch, ""))
		}
		for i := 0; i < present; i++ {
			got := readPath(c.Project.Files[i].Path)
			u := c.Project.Units[i]
			if before, ok := cleaned[i]; ok {
				if got != before {
					return pbt.Fail("history %v: %s was already cleaned by an earlier run and changed again\n%s", history, u.Path, diff(before, got))
				}
				continue
			}
			if msg := allowed(u, orig[i], got); msg != "" {
				return pbt.Fail("history %v: %s: %s", history, u.Path, msg)
			}
			cleaned[i] = got
		}
		for _, x := range c.Extra {
			if got := readPath(x.Path); got != x.Text {
				return pbt.Fail("history %v: %s is not a Java source and was changed\n%s", history, x.Path, diff(x.Text, got))
			}
		}
	}
	v := pbt.Verdict{}
	withDelete, keep := 0, 0
	kinds := map[string]bool{}
	bases := map[string]bool{}
	for i := 0; i < present; i++ {
		u := c.Project.Units[i]
		nDel, first := 0, 0
		for _, im := range u.Imports {
			if first == 0 || im.Line < first {
				first = im.Line
			}
			if im.Verdict == "delete" {
				nDel++
				kinds["delete:"+im.Why] = true
			}
			if im.Verdict == "keep" {
				keep++
				kinds["keep:"+im.Why] = true
			}
			if im.Verdict == "free" {
				kinds["free:"+im.Why] = true
			}
		}
		if nDel > 0 {
			withDelete++
		}
		for _, f := range u.Features {
			if f != "usage_method" {
				kinds["unit:"+f] = true
			}
		}
		for _, n := range []int{9, 17, 33, 65} {
			if len(u.Imports) >= n {
				kinds[fmt.Sprintf("unit:imports>=%d", n)] = true
			}
		}
		for _, n := range []int{10, 50} {
			if nDel >= n {
				kinds[fmt.Sprintf("unit:deletions>=%d", n)] = true
			}
		}
		switch {
		case first == 1:
			kinds["unit:import_on_line_1"] = true
		case first >= 100:
			kinds["unit:first_import_line>=100"] = true
		case first >= 10:
			kinds["unit:first_import_line>=10"] = true
		}
		if i < len(c.Enc) && c.Enc[i] == "latin1" {
			kinds["unit:latin1"] = true
		}
		b := u.Path[strings.LastIndex(u.Path, "/")+1:]
		if bases[b] {
			kinds["same_file_name_in_two_directories"] = true
		}
		bases[b] = true
		for _, r := range rootPool[1:] {
			if strings.HasPrefix(u.Path, r) {
				kinds["root:"+r] = true
			}
		}
	}
	for k := range kinds {
		v.Classes = append(v.Classes, k)
	}
	if present >= 2 {
		v.Classes = append(v.Classes, "files>=2")
	}
	for _, n := range []int{9, 17, 33} {
		if present >= n {
			v.Classes = append(v.Classes, fmt.Sprintf("files>=%d", n))
		}
	}
	if present > c.Initial {
		v.Classes = append(v.Classes, "file_added_between_runs")
	}
	for _, op := range c.Ops {
		if op == "restore" {
			v.Classes = append(v.Classes, "files_restored_between_runs")
			break
		}
	}
	if len(c.Extra) > 0 {
		v.Classes = append(v.Classes, "other_files_in_project")
	}
	if c.DirName != "" {
		v.Classes = append(v.Classes, "dir:"+c.DirName)
	}
	if c.DirArg != "" {
		v.Classes = append(v.Classes, "dir_argument_with_slash")
	}
	if c.Cli != nil {
		v.Classes = append(v.Classes, c.Cli.labels()...)
	}
	sort.Strings(v.Classes)
	v.NonTrivial = present >= 2 && withDelete >= 2 && keep >= 1
	return v
}

func diff(a, b string) string {
	al, bl := strings.Split(a, "\n"), strings.Split(b, "\n")
	for i := 0; i < len(al) || i < len(bl); i++ {
		var x, y string
		if i < len(al) {
			x = al[i]
		}
		if i < len(bl) {
			y = bl[i]
		}
		if x != y {
			return fmt.Sprintf("line %d: before %q after %q", i+1, x, y)
		}
	}
	return ""
}

func init() {
	pbt.SetProperty("C06")
	jgen.SetExcluded(pbt.Excluded)
	pbt.Describe("rapid-generated directories of conventional Java files whose import lines carry a verdict by construction: must-keep (wildcard, static wildcard, simple name used as a type, annotation, creation, static receiver or catch type, used static import), must-delete (single-type import whose simple name occurs nowhere else in the file) and free (unused static single import). "+
		"Units: 1-6 jgen units (bodies of every kind; uses as field / parameter / return / generic-argument type, superclass, annotation, `new`, static receiver of a method / field / method reference, catch type, throws, cast, instanceof, class literal, array, nested-type qualifier, used static method; class names and package directories with the words test / tests / util / main in them, rarely names with `_` and letters outside ASCII) plus 0-4 (rarely 8-40) locally generated import-centred units: a class, interface, enum, annotation type, record, or a package-info.java without imports; with or without package declaration; 0-130 imports; every imported name used in one of ~150 syntactic positions (type of a local / field / parameter / varargs / return / resource / for / foreach / lambda parameter, type argument at any depth, wildcard bound, type-parameter bound, extends / implements / interface extends at any position, throws and multi-catch at any position, cast, intersection cast, instanceof with and without pattern, class literal, constructor / array constructor reference, record component, annotation element; annotation on type / field / method / parameter / local / type use, with arguments, nested in another annotation, class or constant of the name as annotation value; creation plain / generic / diamond / array / anonymous / nested / as argument, receiver, this(...) and super(...) argument, in lambdas and initializers; static receiver of calls, fields, chains over several lines, generic calls, method references, in conditions, operands, case labels, array indexes, ternaries, assignments, lambdas, synchronized, assert, enum-constant arguments, field and interface-constant initializers), placed in a method, constructor, static or instance initializer, lambda block, nested class, anonymous class or a second top-level type; statically imported constants used as a bare name in every expression position, statically imported methods named like contextual keywords (open, with, record, ...), statically imported nested types; packages whose segments are contextual keywords; imported names of one letter, with `_`, digits, letters outside ASCII (also as first letter), 60-320 characters, acronyms, capitalised contextual keywords; names drawn from a pool shared by the units of a case, so that a name used in one file is unused in another; unused imports whose simple name is a prefix / extension / suffix / case variant / inner part of a used name, a case variant of a called method, or a nested class of a used class; duplicate import lines (used and unused); file names like Contest.java, Latest.java, TestHelper.java and the same file name in two directories. "+
		"Layout variants of every unit: import lines spelled with tabs, runs of blanks, indentation, blanks before `;`, around dots and at the line end, comments before / inside / behind the declaration; blank, blank-only, comment and commented-out-import lines and block comments whose lines look like imports or package declarations between the imports, in the header and behind the type; 1-4 leading blank lines; licence headers of 2-130 lines (first import on line 1 ... >100); text, blank lines or blanks behind the closing brace, with or without final line end; blanks at arbitrary line ends; a line of 4097-5200 or 65537-70000 bytes; LF, CR LF or CR LF on some lines only; UTF-8 or ISO 8859-1 (bytes that are not valid UTF-8, in comments and literals). "+
		"Directory: units under 1-3 roots (src/main/java/, test/, tests/unit/, testdata/, src/test/javax/, src/testing/java/, names with a blank, a dot, letters outside ASCII, ending in .java, ten levels deep); project directory named proj, `my proj`, src, Tests, test-data, old.java, ...; directory argument with or without trailing slash; 0-3 other files (README, pom.xml, a .gitignore matching nothing generated, *.javax, *.java.bak, *.kt holding import-like lines), which must stay byte-identical. "+
		"History: some units present, then a rapid-generated sequence of `run removal` / `add the next unit` / `restore the original bytes of every present file`, always ending with two runs, all in one process without resetting the tool's state in between (check `removal`), or every run as one process `coca refactor -m <cfg> -p <dir>` with the options spelled -m/-p, --move/--path, with `=`, in either order, the directory absolute, relative, `.`, with `./` or a trailing slash, the move configuration missing, empty or naming a class the project does not have (check `removal_cli`). "+
		"Oracle after every run: every present file equals its original minus whole import lines that respect the verdicts, and a file cleaned by an earlier run is byte-identical afterwards. Non-trivial = >= 2 files present, >= 2 of them with a must-delete import, >= 1 must-keep import; distinct = hash of the case.",
		"a name that occurs only inside a comment or literal is never used as an import's simple name (the statement does not say whether that counts as a reference)",
		"one import per line, and nothing but blanks and comments next to it; an import declaration is not spread over several lines (the statement speaks of deleting whole import lines)",
		"no byte order mark (javac rejects it), no `$` in class names, no class names starting with a lower-case letter, `_` or `$`",
		"an imported simple name is not used in fully qualified form with another package, as a type variable, or only as the member class in `outer.new Inner()` (the language does not resolve that name through the import): whether such an import must stay is open",
		"no test sources (*Test.java, *Tests.java, src/test/java/), no path containing `testData`, no .gitignore that matches a source file: the tool leaves such files alone and the statement does not say whether it may",
		"generated texts that the shipped parser rejects are skipped (counter rejected_by_parser)")
	pbt.Register("removal", 600, 2500, gen, check)
	pbt.Register("removal_cli", 40, 150, genCli, check)
}

func TestProp(t *testing.T)   { pbt.Main(t) }
func TestReplay(t *testing.T) { pbt.Replay(t) }
