// C06 — unused-import removal deletes nothing but unused single-type imports.
package c06

import (
	"fmt"
	"os"
	"path/filepath"
	"strings"
	"testing"

	"github.com/modernizing/coca/pkg/application/refactor/base"
	"github.com/modernizing/coca/pkg/application/refactor/base/models"
	"github.com/modernizing/coca/pkg/application/refactor/unused"
	"github.com/modernizing/coca/pkg/infrastructure/ast/ast_java"
	"pgregory.net/rapid"

	"verif/internal/cli"
	"verif/internal/jgen"
	"verif/internal/pbt"
)

type Case struct {
	Project jgen.Project `json:"project"`
	Initial int          `json:"initial"` // units present before the first run
	Ops     []string     `json:"ops"`     // "run" | "add" (adds the next unit not yet present)
}

func gen(t *rapid.T) Case {
	p := jgen.GenProject(t, jgen.Opts{ExtraImps: true, Bodies: rapid.Bool().Draw(t, "bodies"), MultiByte: true, Interfaces: true, MaxUnits: 6, MaxMethods: 3})
	for i := range p.Files {
		if rapid.IntRange(0, 7).Draw(t, "crlf") == 0 {
			p.Files[i].Text = strings.ReplaceAll(p.Files[i].Text, "\n", "\r\n")
		}
	}
	c := Case{Project: p, Initial: rapid.IntRange(1, len(p.Units)).Draw(t, "initial")}
	n := rapid.IntRange(0, 3).Draw(t, "nOps")
	for i := 0; i < n; i++ {
		c.Ops = append(c.Ops, rapid.SampledFrom([]string{"run", "add", "add"}).Draw(t, "op"))
	}
	c.Ops = append(c.Ops, "run", "run")
	return c
}

// allowed checks that got is orig minus whole import lines, respecting the verdicts.
func allowed(u jgen.UnitTruth, orig, got string) string {
	verdict := map[int]jgen.ImportTruth{}
	for _, im := range u.Imports {
		verdict[im.Line] = im
	}
	ol, gl := strings.Split(orig, "\n"), strings.Split(got, "\n")
	j := 0
	for i, line := range ol {
		im, isImport := verdict[i+1]
		same := j < len(gl) && gl[j] == line
		switch {
		case !isImport || im.Verdict == "keep":
			if !same {
				what := "line"
				if isImport {
					what = fmt.Sprintf("import (%s, must be kept)", im.Why)
				}
				g := "<end of file>"
				if j < len(gl) {
					g = gl[j]
				}
				return fmt.Sprintf("%s %d of the original %q is gone or changed (found %q there)", what, i+1, line, g)
			}
			j++
		case im.Verdict == "delete":
			if same {
				return fmt.Sprintf("unused import on line %d %q was not removed (%s)", i+1, line, im.Why)
			}
		default: // free
			if same {
				j++
			}
		}
	}
	if j != len(gl) {
		return fmt.Sprintf("the file has %d extra line(s) at the end, first %q", len(gl)-j, gl[j])
	}
	return ""
}

func check(c Case) pbt.Verdict {
	dir := cli.Scratch("c06-")
	defer os.RemoveAll(dir)
	ast_java.VerifResetAstJava()
	base.VerifResetBase()
	models.VerifResetModels()
	unused.VerifResetUnused()
	present := 0
	add := func() bool {
		if present >= len(c.Project.Units) {
			return false
		}
		f := c.Project.Files[present]
		cli.WriteTree(dir, map[string]string{f.Path: f.Text})
		present++
		return true
	}
	for present < c.Initial {
		add()
	}
	read := func(i int) string {
		data, err := os.ReadFile(filepath.Join(dir, filepath.FromSlash(c.Project.Files[i].Path)))
		if err != nil {
			return "<unreadable: " + err.Error() + ">"
		}
		return string(data)
	}
	cleaned := map[int]string{} // unit -> bytes after the first run that saw it
	runs, history := 0, []string{}
	for _, op := range c.Ops {
		if op == "add" {
			if add() {
				history = append(history, "add "+c.Project.Files[present-1].Path)
			}
			continue
		}
		runs++
		history = append(history, "run")
		if p := pbt.Call(func() {
			app := unused.NewRemoveUnusedImportApp(dir)
			app.Refactoring(app.Analysis())
		}); p != "" {
			return pbt.Fail("history %v: removal panicked: %s", history, p)
		}
		for i := 0; i < present; i++ {
			got := read(i)
			u := c.Project.Units[i]
			if before, ok := cleaned[i]; ok {
				if got != before {
					return pbt.Fail("history %v: %s was already cleaned by an earlier run and changed again\n%s", history, u.Path, diff(before, got))
				}
				continue
			}
			if msg := allowed(u, c.Project.Files[i].Text, got); msg != "" {
				return pbt.Fail("history %v: %s: %s", history, u.Path, msg)
			}
			cleaned[i] = got
		}
	}
	v := pbt.Verdict{}
	withDelete, keep := 0, 0
	kinds := map[string]bool{}
	for i := 0; i < present; i++ {
		hasDel := false
		for _, im := range c.Project.Units[i].Imports {
			if im.Verdict == "delete" {
				hasDel = true
			}
			if im.Verdict == "keep" {
				keep++
				kinds["keep:"+im.Why] = true
			}
			if im.Verdict == "free" {
				kinds["free:"+im.Why] = true
			}
		}
		if hasDel {
			withDelete++
		}
	}
	for k := range kinds {
		v.Classes = append(v.Classes, k)
	}
	if present >= 2 {
		v.Classes = append(v.Classes, "files>=2")
	}
	if present > c.Initial {
		v.Classes = append(v.Classes, "file_added_between_runs")
	}
	v.NonTrivial = present >= 2 && withDelete >= 2 && keep >= 1
	return v
}

func diff(a, b string) string {
	al, bl := strings.Split(a, "\n"), strings.Split(b, "\n")
	for i := 0; i < len(al) || i < len(bl); i++ {
		var x, y string
		if i < len(al) {
			x = al[i]
		}
		if i < len(bl) {
			y = bl[i]
		}
		if x != y {
			return fmt.Sprintf("line %d: before %q after %q", i+1, x, y)
		}
	}
	return ""
}

func init() {
	pbt.SetProperty("C06")
	jgen.SetExcluded(pbt.Excluded)
	pbt.Describe("rapid-generated directories of 1-6 conventional Java units (jgen) whose import lines carry a verdict by construction: must-keep (wildcard, static wildcard, simple name used as field / parameter / return / generic-argument type, superclass, annotation, `new`, static receiver, catch type, throws, used static import), must-delete (single-type import whose simple name occurs nowhere else in the file) and free (unused static single import); imports in any order, separated by blank lines, after header comments. History: some units present, then a rapid-generated sequence of `run removal` / `add the next unit`, always ending with two runs, all in one process without resetting the tool's state in between. Oracle after every run: every present file equals its original minus whole import lines that respect the verdicts, and a file cleaned by an earlier run is byte-identical afterwards. Non-trivial = >= 2 files present, >= 2 of them with a must-delete import, >= 1 must-keep import; distinct = hash of the case.",
		"a name that occurs only inside a comment or literal is never used as an import's simple name (the statement does not say whether that counts as a reference)",
		"one import per line")
	pbt.Register("removal", 600, 2500, gen, check)
}

func TestProp(t *testing.T)   { pbt.Main(t) }
func TestReplay(t *testing.T) { pbt.Replay(t) }
