// Import-centred compilation units for C06, generated locally (next to the jgen units of a case).
//
// jgen units bring the variety of bodies; the units built here bring the variety of everything the
// removal depends on: how an imported simple name is used (every syntactic position of a type, an
// annotation, a creation, a static receiver, a catch type), which kind of type the file declares,
// how many imports there are and at which lines, names that resemble each other, the same simple
// name used in one file and unused in the next.
package c06

import (
	"fmt"
	"sort"
	"strings"
	"unicode"

	"pgregory.net/rapid"

	"verif/internal/jgen"
	"verif/internal/pbt"
)

// lform is one way of using an imported simple name. %N = the simple name, %C = the name of the
// declared type, # = a number that is fresh in the unit.
type lform struct {
	why  string
	slot string
	tpl  string
}

// statement forms (slot "stmt"); the first one is the plain variant
var stmtForms = []lform{
	{"type:local", "stmt", "%N v# = null;"},
	{"type:final-local", "stmt", "final %N v# = null;"},
	{"type:generic-argument", "stmt", "java.util.List<%N> v# = null;"},
	{"type:nested-generic-argument", "stmt", "java.util.Map<String, java.util.List<%N>> v# = null;"},
	{"type:wildcard-extends", "stmt", "java.util.List<? extends %N> v# = null;"},
	{"type:wildcard-super", "stmt", "java.util.List<? super %N> v# = null;"},
	{"type:array", "stmt", "%N[] v# = null;"},
	{"type:array-2d", "stmt", "%N[][] v# = null;"},
	{"type:generic-of", "stmt", "%N<String> v# = null;"},
	{"type:nested-qualifier", "stmt", "%N.Inner v# = null;"},
	{"type:cast", "stmt", "Object v# = (%N) o;"},
	{"type:cast-intersection", "stmt", "Object v# = (%N & java.io.Serializable) o;"},
	{"type:instanceof", "stmt", "boolean v# = o instanceof %N;"},
	{"type:instanceof-pattern", "stmt", "if (o instanceof %N p#) { use(p#); }"},
	{"type:class-literal", "stmt", "Object v# = %N.class;"},
	{"type:array-class-literal", "stmt", "Object v# = %N[].class;"},
	{"type:explicit-type-argument", "stmt", "java.util.Collections.<%N>emptyList();"},
	{"type:lambda-parameter", "stmt", "java.util.function.BiFunction<Object, Object, Object> v# = (%N a#, Object c#) -> null;"},
	{"type:foreach-variable", "stmt", "for (%N e# : items()) { use(e#); }"},
	{"type:for-init-variable", "stmt", "for (%N e# = null; e# != null; e# = null) { go(); }"},
	{"type:resource", "stmt", "try (%N r# = open()) { use(r#); }"},
	{"type:constructor-reference", "stmt", "Object v# = %N::new;"},
	{"type:array-constructor-reference", "stmt", "Object v# = %N[]::new;"},
	{"type:local-class-extends", "stmt", "class L# extends %N { }"},
	{"type:creation-type-argument", "stmt", "Object v# = new java.util.ArrayList<%N>();"},
	{"catch:single", "stmt", "try { go(); } catch (%N e#) { }"},
	{"catch:final", "stmt", "try { go(); } catch (final %N e#) { }"},
	{"catch:multi-first", "stmt", "try { go(); } catch (%N | IllegalStateException e#) { }"},
	{"catch:multi-last", "stmt", "try { go(); } catch (IllegalStateException | %N e#) { }"},
	{"catch:second-clause", "stmt", "try { go(); } catch (IllegalStateException e#) { } catch (%N x#) { }"},
	{"catch:multiline", "stmt", "try {\n    go();\n} catch (%N e#) {\n    go();\n} finally {\n    go();\n}"},
	{"new:plain", "stmt", "Object v# = new %N();"},
	{"new:arguments", "stmt", "Object v# = new %N(1, \"a\");"},
	{"new:diamond", "stmt", "Object v# = new %N<>();"},
	{"new:generic", "stmt", "Object v# = new %N<String>();"},
	{"new:array", "stmt", "Object v# = new %N[3];"},
	{"new:array-initializer", "stmt", "Object v# = new %N[] { };"},
	{"new:anonymous", "stmt", "Object v# = new %N() { };"},
	{"new:anonymous-multiline", "stmt", "Object v# = new %N() {\n    public void run() { go(); }\n};"},
	{"new:nested", "stmt", "Object v# = new %N.Inner();"},
	{"new:throw", "stmt", "if (b) throw new %N();"},
	{"new:argument", "stmt", "use(new %N());"},
	{"new:receiver", "stmt", "new %N().go();"},
	{"new:in-lambda", "stmt", "java.util.function.Supplier<Object> v# = () -> new %N();"},
	{"static:call", "stmt", "%N.go();"},
	{"static:call-arguments", "stmt", "%N.go(1, o);"},
	{"static:field", "stmt", "Object v# = %N.F;"},
	{"static:field-call", "stmt", "%N.F.go();"},
	{"static:nested-call", "stmt", "%N.Inner.go();"},
	{"static:generic-call", "stmt", "%N.<String>go();"},
	{"static:chain", "stmt", "%N.a().b().c();"},
	{"static:multiline-chain", "stmt", "%N\n    .builder()\n    .build();"},
	{"static:argument", "stmt", "use(%N.F);"},
	{"static:second-argument", "stmt", "use(1, %N.F);"},
	{"static:condition", "stmt", "if (%N.F == null) { go(); }"},
	{"static:right-operand", "stmt", "int v# = 1 + %N.N;"},
	{"static:ternary-branch", "stmt", "Object v# = b ? null : %N.A;"},
	{"static:assignment-target", "stmt", "%N.count = 3;"},
	{"static:increment", "stmt", "%N.count++;"},
	{"static:negation", "stmt", "boolean v# = !%N.flag;"},
	{"static:array-index", "stmt", "int v# = arr[%N.N];"},
	{"static:case-label", "stmt", "switch (n) { case %N.K: break; default: break; }"},
	{"static:method-reference", "stmt", "Runnable v# = %N::go;"},
	{"static:lambda-body", "stmt", "Runnable v# = () -> %N.go();"},
	{"static:lambda-block", "stmt", "Runnable v# = () -> { %N.go(); };"},
	{"static:return-in-lambda", "stmt", "java.util.function.Supplier<Object> v# = () -> { return %N.F; };"},
	{"static:synchronized", "stmt", "synchronized (%N.class) { go(); }"},
	{"static:assert", "stmt", "assert %N.ok() : \"m\";"},
	{"static:parenthesised", "stmt", "Object v# = (%N.F);"},
	{"static:array-initializer", "stmt", "Object[] v# = { %N.A, null };"},
	{"static:concatenation", "stmt", "String v# = \"a\" + %N.F;"},
	{"static:foreach-source", "stmt", "for (Object e# : %N.values()) { use(e#); }"},
	{"static:while-condition", "stmt", "while (%N.more()) { go(); }"},
	{"static:for-bound", "stmt", "for (int i# = 0; i# < %N.N; i#++) { go(); }"},
	{"ann:local", "stmt", "@%N int v# = 0;"},
	{"ann:local-argument", "stmt", "@%N(1) int v# = 0;"},
	{"ann:local-named-arguments", "stmt", "@%N(name = \"n\", size = 2) int v# = 0;"},
	{"ann:nested", "stmt", "@Outer(@%N) int v# = 0;"},
	{"ann:nested-array", "stmt", "@Outer({@%N, @%N(1)}) int v# = 0;"},
	{"ann:class-literal-value", "stmt", "@Outer(%N.class) int v# = 0;"},
	{"ann:constant-value", "stmt", "@Outer(v = %N.K) int v# = 0;"},
	{"ann:type-use", "stmt", "java.util.List<@%N String> v# = null;"},
}

// field declarations with an initializer: legal in every kind of type (slot "member")
var memberForms = []lform{
	{"type:field", "member", "%N f# = null;"},
	{"type:field-generic-argument", "member", "java.util.Map<String, %N> f# = null;"},
	{"type:field-array", "member", "%N[] f# = { };"},
	{"new:field-initializer", "member", "Object f# = new %N();"},
	{"static:field-initializer", "member", "Object f# = %N.F;"},
	{"ann:field", "member", "@%N int f# = 0;"},
	{"ann:field-own-line", "member", "@%N\nint f# = 0;"},
}

// methods, nested types and the like: classes, enums and records (slot "method")
var methodForms = []lform{
	{"type:method-return", "method", "%N m#() { return null; }"},
	{"type:method-parameter", "method", "void m#(%N p#) { }"},
	{"type:method-second-parameter", "method", "void m#(int q#, final %N p#) { }"},
	{"type:varargs", "method", "void m#(%N... p#) { }"},
	{"type:throws", "method", "void m#() throws %N { }"},
	{"type:throws-first", "method", "void m#() throws %N, IllegalStateException { }"},
	{"type:throws-last", "method", "void m#() throws IllegalStateException, %N { }"},
	{"type:method-type-bound", "method", "<M extends %N> void m#(M p#) { }"},
	{"type:generic-return", "method", "java.util.List<%N> m#() { return null; }"},
	{"ann:method", "method", "@%N\nvoid m#() { }"},
	{"ann:method-inline", "method", "@%N void m#() { }"},
	{"ann:method-after-modifier", "method", "public @%N void m#() { }"},
	{"ann:parameter", "method", "void m#(@%N int p#) { }"},
	{"ann:parameter-final", "method", "void m#(final @%N int p#) { }"},
	{"type:nested-class-extends", "method", "static class N# extends %N { }"},
	{"type:nested-interface-extends", "method", "interface I# extends Runnable, %N { }"},
	{"type:nested-enum-implements", "method", "enum E# implements %N { ONE }"},
	{"static:nested-enum-constant-argument", "method", "enum E# { ONE(%N.F); E#(Object o) { } }"},
	{"static:initializer-block", "method", "static { %N.go(); }"},
}

// constructors and instance initializers: classes only (slot "classonly")
var classOnlyForms = []lform{
	{"type:constructor-parameter", "classonly", "%C(%N p#, int q#) { }"},
	{"type:constructor-throws", "classonly", "%C(long q#) throws %N { }"},
	{"new:this-call-argument", "classonly", "%C(char q#) { this(new %N(), 1); }"},
	{"new:super-call-argument", "classonly", "%C(byte q#) { super(new %N()); }"},
	{"static:this-call-argument", "classonly", "%C(short q#) { this(%N.F, 1); }"},
	{"new:instance-initializer", "classonly", "{ use(new %N()); }"},
	{"type:abstract-method", "classonly", "abstract %N m#(int q#);"},
}

// members of an interface (slot "imethod")
var ifaceForms = []lform{
	{"type:interface-method-return", "imethod", "%N m#();"},
	{"type:interface-method-parameter", "imethod", "void m#(%N p#);"},
	{"type:interface-method-throws", "imethod", "void m#() throws %N;"},
	{"type:interface-generic-method", "imethod", "<M extends %N> M m#();"},
	{"ann:interface-method", "imethod", "@%N void m#();"},
	{"static:default-method", "imethod", "default void m#() { %N.go(); }"},
	{"static:static-interface-method", "imethod", "static void m#() { %N.go(); }"},
}

// parts of the type's header
var headerForms = []lform{
	{"ann:class", "classann", "@%N"},
	{"ann:class-arguments", "classann", "@%N(name = \"t\", size = 2)"},
	{"ann:class-argument", "classann", "@%N(\"t\")"},
	{"type:extends", "extends", "%N"},
	{"type:extends-generic", "extends", "%N<String>"},
	{"type:extends-type-argument", "extends", "java.util.ArrayList<%N>"},
	{"type:implements", "implements", "%N"},
	{"type:implements-type-argument", "implements", "Comparable<%N>"},
	{"type:type-parameter-bound", "typeparam", "T# extends %N"},
	{"type:type-parameter-second-bound", "typeparam", "T# extends Object & %N"},
	{"type:interface-extends", "ifaceext", "%N"},
	{"type:interface-extends-type-argument", "ifaceext", "Comparable<%N>"},
	{"type:record-component", "component", "%N c#"},
	{"type:record-component-generic", "component", "java.util.List<%N> c#"},
	{"ann:record-component", "component", "@%N int c#"},
	{"static:enum-constant-argument", "enumarg", "%N.F"},
	{"new:enum-constant-argument", "enumarg", "new %N()"},
	{"type:annotation-element", "annelem", "%N v#();"},
	{"type:annotation-element-class", "annelem", "Class<? extends %N> t#() default %N.class;"},
	{"static:annotation-element-default", "annelem", "int n#() default %N.K;"},
	{"ann:annotation-element-default", "annelem", "%N a#() default @%N;"},
}

// uses of a statically imported constant (%N) that the refactoring sees today ...
var constFormsSeen = []lform{
	{"static-const:argument", "stmt", "use(%N);"},
	{"static-const:second-argument", "stmt", "use(1, %N);"},
	{"static-const:left-operand", "stmt", "int v# = %N + 1;"},
	{"static-const:indexed", "stmt", "Object v# = %N[0];"},
	{"static-const:return-in-lambda", "stmt", "java.util.function.Supplier<Object> v# = () -> { return %N; };"},
	{"static-const:receiver", "stmt", "%N.go();"},
}

// ... and the other positions of a bare name (feature static_import_used_as_bare_name)
var constFormsBare = []lform{
	{"static-const:initializer", "stmt", "int v# = %N;"},
	{"static-const:right-operand", "stmt", "int v# = 1 + %N;"},
	{"static-const:condition", "stmt", "if (n > %N) { go(); }"},
	{"static-const:case-label", "stmt", "switch (n) { case %N: break; default: break; }"},
	{"static-const:array-index", "stmt", "int v# = arr[%N];"},
	{"static-const:array-size", "stmt", "int[] v# = new int[%N];"},
	{"static-const:annotation-value", "stmt", "@Outer(max = %N) int v# = 0;"},
	{"static-const:ternary-branch", "stmt", "int v# = b ? %N : 0;"},
	{"static-const:assignment", "stmt", "n = %N;"},
	{"static-const:parenthesised", "stmt", "int v# = (%N);"},
	{"static-const:lambda-body", "stmt", "java.util.function.Supplier<Object> v# = () -> %N;"},
	{"static-const:array-initializer", "stmt", "int[] v# = { %N };"},
	{"static-const:for-bound", "stmt", "for (int i# = 0; i# < %N; i#++) { go(); }"},
	{"static-const:field-initializer", "member", "int f# = %N;"},
}

// stems of the imported simple names; jgen uses A B K Order Repo Item Z
var nameStems = []string{"Acct", "Bill", "Cart", "Dept", "Event", "Form", "Grid", "Hub", "Node", "Queue", "Rule", "Stock"}

// names that the units themselves write: an imported simple name never equals one of them
var templateNames = []string{"Object", "String", "Runnable", "Comparable", "Class", "Exception", "IllegalStateException", "Outer", "Inner",
	"Nested", "Second", "Override", "Deprecated", "F", "K", "N", "A", "T", "M", "L", "E", "I", "ONE", "TWO"}

// packages of the imported names: plain ones, and ones whose segments are contextual keywords of the grammar
var importPkgs = []string{"org.lib", "org.lib.err", "org.lib.ann", "a", "com.acme.module", "io.record.model", "org.open.to.with", "net.v2_1.x9", "org.var.yield.sealed"}

// packages of the local units (directories follow them)
var localPkgs = []string{"com.acme", "org.demo.latest", "app", "com.acme.contest.api", "io.record.model", "org.demo.module.open", "x"}

var typeWords = []string{"Ledger", "Contest", "Latest", "Attest", "TestHelper", "TestsRunner", "Protests", "Main", "Util", "Greatest", "Recorder", "Modules"}

// lctx is what the local units of one case share.
type lctx struct {
	pool   []string // imported simple names: drawn once, so that a name used in one file is unused in another
	consts []string // statically imported constants
	paths  map[string]bool
}

func newLctx(t *rapid.T) *lctx {
	lc := &lctx{paths: map[string]bool{}}
	n := rapid.IntRange(4, 12).Draw(t, "lPoolSize")
	seen := map[string]bool{}
	for _, tn := range templateNames {
		seen[tn] = true
	}
	for i := 0; i < n; i++ {
		stem := nameStems[i%len(nameStems)]
		name := fmt.Sprintf("%s%d", stem, i+1)
		// 0-5: the plain variant
		switch rapid.IntRange(0, 15).Draw(t, "lNameShape") {
		case 6:
			name = []string{"Q", "W", "Y", "X"}[i%4] // one letter
		case 7:
			name = fmt.Sprintf("%s_%d", stem, i+1)
		case 8:
			name = fmt.Sprintf("%s%d%s", stem[:1], i+1, stem[1:])
		case 9: // first letter upper case, not ASCII
			name = []string{"Étude", "Ärger", "Ωmega", "Žofia", "Ñandu"}[i%5] + fmt.Sprint(i+1)
		case 10: // letters outside ASCII further back
			name = []string{"Größe", "Café", "Naïve", "Данные"}[i%4] + fmt.Sprint(i+1)
		case 11: // long
			name = stem + strings.Repeat("Xy", rapid.IntRange(30, 160).Draw(t, "lLongName")) + fmt.Sprint(i+1)
		case 12: // acronym
			name = []string{"URL", "IO", "DTO", "ID"}[i%4] + fmt.Sprint(i+1)
		case 13: // capitalised contextual keywords are ordinary class names
			name = []string{"Record", "Var", "Module", "Yield", "Sealed", "Permits", "Open", "With"}[i%8]
		case 14: // ends in digits that make it the prefix of another one
			name = fmt.Sprintf("%s%d", stem, (i+1)*10)
		case 15:
			name = stem // no number
		}
		if seen[name] {
			name = fmt.Sprintf("%sQ%d", stem, i+1)
		}
		seen[name] = true
		lc.pool = append(lc.pool, name)
	}
	for i := 0; i < 4; i++ {
		lc.consts = append(lc.consts, []string{"MAX_SIZE", "LIMIT", "DEFAULT_NAME", "Z_INDEX"}[i]+fmt.Sprint(i+1))
	}
	return lc
}

type limp struct {
	text             string // qualified name (without .*)
	static, wildcard bool
	verdict, why     string
}

type lunit struct {
	t     *rapid.T
	lc    *lctx
	n     int
	kind  string
	name  string
	taken map[string]bool
	imps  []limp
	frag  map[string][]string // slot -> fragments
	stmts map[string][]string // container -> statements
	feats map[string]bool
	left  []string // pool names not yet used in this unit
	used  []string // simple names the unit uses
}

func (u *lunit) fresh() int { u.n++; return u.n }

func (u *lunit) expand(tpl, name string) string {
	s := strings.ReplaceAll(tpl, "#", fmt.Sprint(u.fresh()))
	s = strings.ReplaceAll(s, "%N", name)
	return strings.ReplaceAll(s, "%C", u.name)
}

// slotsOf lists the slots a kind of type offers; the first is the plain one.
func slotsOf(kind string) []string {
	switch kind {
	case "interface":
		return []string{"stmt", "member", "imethod", "classann", "ifaceext", "typeparam"}
	case "enum":
		return []string{"stmt", "member", "method", "classann", "implements", "enumarg"}
	case "annotation":
		return []string{"member", "annelem", "classann"}
	case "record":
		return []string{"stmt", "member", "method", "classann", "implements", "typeparam", "component"}
	}
	return []string{"stmt", "member", "method", "classonly", "classann", "extends", "implements", "typeparam"}
}

func containersOf(kind string) []string {
	switch kind {
	case "interface":
		return []string{"method"}
	case "enum", "record":
		return []string{"method", "static", "nested", "lambda"}
	}
	return []string{"method", "ctor", "static", "init", "nested", "anon", "lambda", "second"}
}

func formsOf(slot string) []lform {
	var all []lform
	switch slot {
	case "stmt":
		return stmtForms
	case "member":
		return memberForms
	case "method":
		return methodForms
	case "classonly":
		return classOnlyForms
	case "imethod":
		return ifaceForms
	}
	for _, f := range headerForms {
		if f.slot == slot {
			all = append(all, f)
		}
	}
	return all
}

// place puts one use of name into the unit: the slot is drawn from those the kind offers, the
// form from those of the slot, a statement goes into a drawn container.
func (u *lunit) place(name, whyPrefix string, forms []lform) string {
	t := u.t
	var f lform
	if forms != nil {
		var ok []lform
		for _, x := range forms {
			if x.slot == "stmt" && u.kind == "annotation" {
				continue
			}
			ok = append(ok, x)
		}
		f = ok[rapid.IntRange(0, len(ok)-1).Draw(t, "lConstForm")]
	} else {
		slots := slotsOf(u.kind)
		var avail []string
		for _, s := range slots {
			if s == "extends" && len(u.frag["extends"]) > 0 {
				continue
			}
			avail = append(avail, s)
		}
		// the first slot (statements; members of an annotation type) is the common one
		si := 0
		if rapid.IntRange(0, 2).Draw(t, "lOtherSlot") == 2 {
			si = rapid.IntRange(0, len(avail)-1).Draw(t, "lSlot")
		}
		fs := formsOf(avail[si])
		f = fs[rapid.IntRange(0, len(fs)-1).Draw(t, "lForm")]
	}
	text := u.expand(f.tpl, name)
	if f.slot == "stmt" {
		cs := containersOf(u.kind)
		c := cs[0]
		if rapid.IntRange(0, 2).Draw(t, "lOtherContainer") == 2 {
			c = cs[rapid.IntRange(0, len(cs)-1).Draw(t, "lContainer")]
		}
		u.stmts[c] = append(u.stmts[c], text)
		if c != "method" {
			u.feats["use_in:"+c] = true
		}
	} else {
		u.frag[f.slot] = append(u.frag[f.slot], text)
	}
	return whyPrefix + f.why
}

// takeName draws a pool name this unit has not used yet ("" when none is left).
func (u *lunit) takeName() string {
	// a pool name may have been taken by another route in the meantime (a twin, a case variant of a
	// called method): two imports of one simple name would make the verdicts contradict each other
	var free []string
	for _, name := range u.left {
		if !u.taken[name] {
			free = append(free, name)
		}
	}
	u.left = free
	if len(u.left) == 0 {
		return ""
	}
	i := rapid.IntRange(0, len(u.left)-1).Draw(u.t, "lName")
	name := u.left[i]
	u.left = append(u.left[:i:i], u.left[i+1:]...)
	u.taken[name] = true
	return name
}

func (u *lunit) pkg() string {
	return importPkgs[rapid.IntRange(0, len(importPkgs)-1).Draw(u.t, "lImportPkg")]
}

// twin derives from a used name a different name that resembles it: never used in the unit.
func (u *lunit) twin(of string) (string, string) {
	r := []rune(of)
	var name, how string
	switch rapid.IntRange(0, 6).Draw(u.t, "lTwinKind") {
	case 0:
		name, how = of+"s", "extension"
	case 1:
		if len(r) > 1 {
			name, how = string(r[:len(r)-1]), "prefix"
		}
	case 2:
		name, how = "My"+of, "suffix"
	case 3:
		if up := strings.ToUpper(of); up != of {
			name, how = up, "case-variant"
		} else {
			name, how = string(r[:1])+strings.ToLower(string(r[1:])), "case-variant"
		}
	case 4:
		if len(r) > 2 {
			name, how = strings.ToUpper(string(r[1:2]))+string(r[2:]), "inner-part"
		}
	case 5:
		name, how = of+"Impl", "extension"
	default:
		name, how = of+"0", "extension"
	}
	if name == "" || name == of || u.taken[name] || !unicode.IsLetter([]rune(name)[0]) {
		return "", ""
	}
	for _, p := range u.lc.pool {
		if p == name {
			return "", ""
		}
	}
	u.taken[name] = true
	return name, how
}

func (u *lunit) unusedName() string {
	for {
		name := fmt.Sprintf("Unused%d", u.fresh())
		if !u.taken[name] {
			u.taken[name] = true
			return name
		}
	}
}

// genLocalUnit draws one unit.
func genLocalUnit(t *rapid.T, lc *lctx, tiny bool) (jgen.File, jgen.UnitTruth) {
	u := &lunit{t: t, lc: lc, taken: map[string]bool{}, frag: map[string][]string{}, stmts: map[string][]string{}, feats: map[string]bool{}}
	for _, tn := range templateNames {
		u.taken[tn] = true
	}
	u.left = append(u.left, lc.pool...)
	// kind of the declared type: 0-5 a class
	u.kind = "class"
	switch rapid.IntRange(0, 11).Draw(t, "lKind") {
	case 6, 7:
		u.kind = "interface"
	case 8:
		u.kind = "enum"
	case 9:
		u.kind = "annotation"
	case 10:
		u.kind = "record"
	case 11:
		u.kind = "package-info"
	}
	if (u.kind == "enum" || u.kind == "annotation" || u.kind == "record") && pbt.Excluded("file_declaring_only_enum_annotation_or_record") {
		u.kind = "class"
	}
	pkg := localPkgs[rapid.IntRange(0, len(localPkgs)-1).Draw(t, "lPkg")]
	if u.kind != "package-info" && rapid.IntRange(0, 7).Draw(t, "lDefaultPkg") == 7 {
		pkg = ""
		u.feats["default_package"] = true
	}
	u.name = typeWords[rapid.IntRange(0, len(typeWords)-1).Draw(t, "lTypeWord")]
	if k := rapid.IntRange(0, 3).Draw(t, "lTypeNumber"); k > 0 {
		u.name += fmt.Sprint(k)
	}
	u.taken[u.name] = true
	dir := strings.ReplaceAll(pkg, ".", "/")
	if pkg == "" {
		dir = []string{"", "misc", "src"}[rapid.IntRange(0, 2).Draw(t, "lDefaultPkgDir")]
	}
	base := u.name
	if u.kind == "package-info" {
		base = "package-info"
	}
	mk := func(b string) string {
		if dir == "" {
			return b + ".java"
		}
		return dir + "/" + b + ".java"
	}
	path := mk(base)
	if lc.paths[path] && u.kind == "package-info" {
		u.kind = "class" // one package-info.java per directory
		path = mk(u.name)
	}
	for k, word := 2, u.name; lc.paths[path]; k++ {
		u.name = fmt.Sprintf("%sV%d", word, k)
		path = mk(u.name)
	}
	u.taken[u.name] = true
	lc.paths[path] = true
	truth := jgen.UnitTruth{Path: path, Role: "main", Pkg: pkg, Name: u.name, Kind: "Class"}
	if u.kind == "interface" {
		truth.Kind = "Interface"
	}
	u.feats["kind:"+u.kind] = true

	if u.kind != "package-info" {
		// used single-type imports
		nKeep := rapid.IntRange(0, 5).Draw(t, "lKeep")
		if tiny {
			nKeep = min(nKeep, 1)
		}
		for k := 0; k < nKeep; k++ {
			name := u.takeName()
			if name == "" {
				break
			}
			text := u.pkg() + "." + name
			if rapid.IntRange(0, 7).Draw(t, "lNestedImport") == 7 {
				text = u.pkg() + ".Holder" + fmt.Sprint(u.fresh()) + "." + name // a nested class, imported directly
			}
			why := u.place(name, "", nil)
			u.used = append(u.used, name)
			u.imps = append(u.imps, limp{text: text, verdict: "keep", why: why})
			if rapid.IntRange(0, 9).Draw(t, "lDuplicateKept") == 9 {
				u.imps = append(u.imps, limp{text: text, verdict: "keep", why: "duplicate:" + why})
			}
		}
		// unused single-type imports
		nDel := rapid.IntRange(0, 4).Draw(t, "lDelete")
		for k := 0; k < nDel; k++ {
			im := limp{verdict: "delete", why: "unused"}
			switch kind := rapid.IntRange(0, 9).Draw(t, "lDeleteKind"); {
			case kind <= 3: // a name of the pool: other files of the case may use it
				if name := u.takeName(); name != "" {
					im.text, im.why = u.pkg()+"."+name, "unused:name-used-in-other-files"
				}
			case kind <= 6 && len(u.used) > 0: // resembles a name the unit uses
				of := u.used[rapid.IntRange(0, len(u.used)-1).Draw(t, "lTwinOf")]
				if name, how := u.twin(of); name != "" {
					im.text, im.why = u.pkg()+"."+name, "unused:"+how+"-of-used-name"
				}
			case kind == 7 && len(u.used) > 0: // nested class of a class the unit uses: the used name is a segment of the import
				of := u.used[rapid.IntRange(0, len(u.used)-1).Draw(t, "lOuterOf")]
				im.text, im.why = u.pkg()+"."+of+"."+u.unusedName(), "unused:nested-class-of-used-name"
			case kind == 8: // differs only in case from a method the unit calls
				name := []string{"Go", "Use", "Items", "Open"}[rapid.IntRange(0, 3).Draw(t, "lMethodTwin")]
				if !u.taken[name] {
					u.taken[name] = true
					im.text, im.why = u.pkg()+"."+name, "unused:case-variant-of-called-method"
				}
			}
			if im.text == "" {
				im.text = "org.unused." + u.unusedName()
			}
			u.imps = append(u.imps, im)
			if rapid.IntRange(0, 9).Draw(t, "lDuplicateUnused") == 9 {
				u.imps = append(u.imps, limp{text: im.text, verdict: "delete", why: "duplicate:" + im.why})
			}
		}
		// wildcard and static imports
		nOther := rapid.IntRange(0, 3).Draw(t, "lOther")
		if tiny {
			nOther = min(nOther, 1)
		}
		for k := 0; k < nOther; k++ {
			switch rapid.IntRange(0, 9).Draw(t, "lOtherKind") {
			case 8, 9:
				// seventh seed batch: a statically imported field (or a class whose name starts in lower case) that
				// is used as a receiver only: `import static java.lang.System.out;` ... `out.println(1);`
				if u.kind == "annotation" {
					continue
				}
				name := []string{"out", "err", "log", "logger", "instance", "mapper", "json", "σ"}[rapid.IntRange(0, 7).Draw(t, "lLowerReceiver")] + fmt.Sprint(u.fresh())
				u.taken[name] = true
				why := u.place(name, "lower-case-receiver:", []lform{{"call", "stmt", "%N.println(1);"}, {"chain", "stmt", "%N.a().b();"}, {"call-as-argument", "stmt", "use(%N.size());"},
					{"field-access", "stmt", "Object v# = %N.length;"}, {"call-in-condition", "stmt", "if (%N.isReady()) { go(); }"}, {"call-in-lambda", "stmt", "Runnable v# = () -> %N.flush();"}})
				if rapid.Bool().Draw(t, "lLowerReceiverStatic") {
					u.imps = append(u.imps, limp{text: "org.stat.Streams" + fmt.Sprint(u.fresh()) + "." + name, static: true, verdict: "keep", why: why})
				} else {
					u.imps = append(u.imps, limp{text: "org.lib.lower." + name, verdict: "keep", why: why})
				}
			case 0:
				u.imps = append(u.imps, limp{text: "org.wild.w" + fmt.Sprint(u.fresh()), wildcard: true, verdict: "keep", why: "wildcard"})
			case 1: // all nested classes of a class
				u.imps = append(u.imps, limp{text: "org.lib.Holder" + fmt.Sprint(u.fresh()), wildcard: true, verdict: "keep", why: "wildcard:of-a-class"})
			case 2:
				u.imps = append(u.imps, limp{text: "org.stat.Consts" + fmt.Sprint(u.fresh()), static: true, wildcard: true, verdict: "keep", why: "static wildcard"})
			case 3:
				u.imps = append(u.imps, limp{text: fmt.Sprintf("org.stat.Helper%d.make%d", u.fresh(), u.fresh()), static: true, verdict: "free", why: "unused static"})
			case 4: // a statically imported method, called; some are named like contextual keywords
				name := []string{"compute", "open", "with", "to", "record", "module", "provides", "uses"}[rapid.IntRange(0, 7).Draw(t, "lStaticMethod")]
				if name == "compute" {
					name += fmt.Sprint(u.fresh())
				}
				if u.taken[name] || u.kind == "annotation" {
					continue
				}
				u.taken[name] = true
				why := u.place(name, "static-method:", []lform{{"call", "stmt", "%N();"}, {"call-in-initializer", "stmt", "Object v# = %N(1);"}, {"call-as-argument", "stmt", "use(%N());"}})
				u.imps = append(u.imps, limp{text: "org.stat.Tools" + fmt.Sprint(u.fresh()) + "." + name, static: true, verdict: "keep", why: why})
			case 5: // a statically imported nested type
				if name := u.takeName(); name != "" {
					why := u.place(name, "static-type:", nil)
					u.used = append(u.used, name)
					u.imps = append(u.imps, limp{text: "org.stat.Holder" + fmt.Sprint(u.fresh()) + "." + name, static: true, verdict: "keep", why: why})
				}
			default: // a statically imported constant
				var cands []string
				for _, c := range lc.consts {
					if !u.taken[c] {
						cands = append(cands, c)
					}
				}
				if len(cands) == 0 {
					continue
				}
				name := cands[rapid.IntRange(0, len(cands)-1).Draw(t, "lConst")]
				u.taken[name] = true
				forms := constFormsSeen
				if rapid.Bool().Draw(t, "lConstBare") && !pbt.Excluded("static_import_used_as_bare_name") {
					forms = constFormsBare
				}
				if u.kind == "annotation" {
					// an annotation type has no statements: the default value of an element, or a constant
					forms = []lform{{"static-const:field-initializer", "member", "int f# = %N;"}, {"static-const:annotation-element-default", "annelem", "int n#() default %N;"}}
					if pbt.Excluded("static_import_used_as_bare_name") {
						continue
					}
				}
				why := u.place(name, "", forms)
				u.imps = append(u.imps, limp{text: "org.stat.Limits" + fmt.Sprint(u.fresh()) + "." + name, static: true, verdict: "keep", why: why})
			}
		}
		// many imports: past 8, 16, 32, 64 entries, past 9 and 99 deletions
		if !tiny && rapid.IntRange(0, 11).Draw(t, "lBulk") == 11 {
			nb := rapid.IntRange(6, 40).Draw(t, "lBulkSize")
			if rapid.IntRange(0, 3).Draw(t, "lBulkHuge") == 3 {
				nb = rapid.IntRange(60, 130).Draw(t, "lBulkHugeSize")
			}
			pattern := rapid.IntRange(0, 3).Draw(t, "lBulkPattern") // 0 all unused, 1 alternating, 2 all used, 3 two unused then one used
			for k := 0; k < nb; k++ {
				name := fmt.Sprintf("Bulk%d", u.fresh())
				usedOne := pattern == 2 || pattern == 1 && k%2 == 1 || pattern == 3 && k%3 == 2
				if usedOne {
					u.frag["member"] = append(u.frag["member"], u.expand("%N f# = null;", name))
					u.imps = append(u.imps, limp{text: "org.bulk." + name, verdict: "keep", why: "type:field"})
				} else {
					u.imps = append(u.imps, limp{text: "org.bulk." + name, verdict: "delete", why: "unused"})
				}
			}
			u.feats["bulk_imports"] = true
		}
	}
	if len(u.imps) > 1 {
		u.imps = rapid.Permutation(u.imps).Draw(t, "lImportOrder")
	}
	idents := append(append([]string(nil), u.used...), u.name)
	for _, im := range u.imps {
		idents = append(idents, im.text)
	}
	for _, name := range idents {
		for _, r := range name {
			if r > 127 {
				u.feats["nonascii_identifier"] = true
			}
		}
	}

	// ---- text ----
	var lines []string
	add := func(indent, s string) {
		for _, l := range strings.Split(s, "\n") {
			if l == "" {
				lines = append(lines, "")
			} else {
				lines = append(lines, indent+l)
			}
		}
	}
	if pkg != "" {
		if u.kind == "package-info" {
			add("", "/**\n * Package documentation.\n */")
		}
		add("", "package "+pkg+";")
		if len(u.imps) == 0 || rapid.IntRange(0, 2).Draw(t, "lBlankAfterPkg") > 0 {
			add("", "")
		}
	}
	for _, im := range u.imps {
		line := "import "
		if im.static {
			line += "static "
		}
		line += im.text
		if im.wildcard {
			line += ".*"
		}
		add("", line+";")
		truth.Imports = append(truth.Imports, jgen.ImportTruth{Text: im.text, Line: len(lines), Static: im.static, Wildcard: im.wildcard, Verdict: im.verdict, Why: im.why})
	}
	if len(u.imps) > 0 && rapid.IntRange(0, 5).Draw(t, "lBlankAfterImports") > 0 {
		add("", "")
	}
	ind := []string{"    ", "\t", "  "}[rapid.IntRange(0, 2).Draw(t, "lIndent")]
	body := func(level int, stmts []string) {
		for _, s := range stmts {
			add(strings.Repeat(ind, level), strings.ReplaceAll(s, "\n    ", "\n"+ind))
		}
	}
	const sig = "(Object o, int n, int[] arr, boolean b)"
	containers := func() {
		if s := u.stmts["ctor"]; len(s) > 0 {
			add(ind, u.name+"(Object o, int n, int[] arr, boolean b, Object x) {")
			body(2, s)
			add(ind, "}")
			add("", "")
		}
		if s := u.stmts["static"]; len(s) > 0 {
			add(ind, "static {")
			body(2, s)
			add(ind, "}")
			add("", "")
		}
		if s := u.stmts["init"]; len(s) > 0 {
			add(ind, "{")
			body(2, s)
			add(ind, "}")
			add("", "")
		}
		if s := u.stmts["method"]; len(s) > 0 {
			mod := "public "
			if u.kind == "interface" {
				mod = "default "
			}
			add(ind, mod+"Object run"+fmt.Sprint(u.fresh())+sig+" {")
			body(2, s)
			add(ind+ind, "return null;")
			add(ind, "}")
		}
		if s := u.stmts["lambda"]; len(s) > 0 {
			add("", "")
			add(ind, "void later"+fmt.Sprint(u.fresh())+sig+" {")
			add(ind+ind, "Runnable r"+fmt.Sprint(u.fresh())+" = () -> {")
			body(3, s)
			add(ind+ind, "};")
			add(ind, "}")
		}
		if s := u.stmts["nested"]; len(s) > 0 {
			add("", "")
			add(ind, "static class Nested"+fmt.Sprint(u.fresh())+" {")
			add(ind+ind, "void q"+fmt.Sprint(u.fresh())+sig+" {")
			body(3, s)
			add(ind+ind, "}")
			add(ind, "}")
		}
		if s := u.stmts["anon"]; len(s) > 0 {
			add("", "")
			add(ind, "Object anon"+fmt.Sprint(u.fresh())+" = new Object() {")
			add(ind+ind, "void q"+fmt.Sprint(u.fresh())+sig+" {")
			body(3, s)
			add(ind+ind, "}")
			add(ind, "};")
		}
	}
	members := func(prefix string) {
		for _, m := range u.frag["member"] {
			add(ind, prefix+m)
		}
		if len(u.frag["member"]) > 0 {
			add("", "")
		}
	}
	for _, a := range u.frag["classann"] {
		add("", a)
	}
	pub := ""
	if rapid.IntRange(0, 2).Draw(t, "lPublic") > 0 {
		pub = "public "
	}
	tp := ""
	if len(u.frag["typeparam"]) > 0 {
		tp = "<" + strings.Join(u.frag["typeparam"], ", ") + ">"
	}
	impl := func(first string) string {
		list := append([]string(nil), u.frag["implements"]...)
		if len(list) > 0 && rapid.Bool().Draw(t, "lImplementsRunnableFirst") {
			list = append([]string{first}, list...)
		}
		if len(list) == 0 {
			return ""
		}
		return " implements " + strings.Join(list, ", ")
	}
	brace := " {"
	if rapid.IntRange(0, 5).Draw(t, "lBraceOnNextLine") == 5 {
		brace = "\n{"
	}
	switch u.kind {
	case "class":
		abstract := ""
		for _, f := range u.frag["classonly"] {
			if strings.HasPrefix(f, "abstract ") {
				abstract = "abstract "
			}
		}
		ext := ""
		if len(u.frag["extends"]) > 0 {
			ext = " extends " + u.frag["extends"][0]
		}
		add("", pub+abstract+"class "+u.name+tp+ext+impl("Runnable")+brace)
		members(rapid.SampledFrom([]string{"", "private ", "static final "}).Draw(t, "lFieldMod"))
		for _, f := range u.frag["classonly"] {
			add(ind, f)
			add("", "")
		}
		for _, f := range u.frag["method"] {
			add(ind, f)
			add("", "")
		}
		containers()
		add("", "}")
		if s := u.stmts["second"]; len(s) > 0 {
			add("", "")
			add("", rapid.SampledFrom([]string{"class", "final class", "enum", "interface"}).Draw(t, "lSecondKind")+" Second"+fmt.Sprint(u.fresh())+" {")
			add(ind, ";")
			add(ind, "static void q"+fmt.Sprint(u.fresh())+sig+" {")
			body(2, s)
			add(ind, "}")
			add("", "}")
		}
	case "interface":
		ext := ""
		if len(u.frag["ifaceext"]) > 0 {
			ext = " extends " + strings.Join(u.frag["ifaceext"], ", ")
		}
		add("", pub+"interface "+u.name+tp+ext+brace)
		members("")
		for _, f := range u.frag["imethod"] {
			add(ind, f)
			add("", "")
		}
		containers()
		add("", "}")
	case "enum":
		add("", pub+"enum "+u.name+impl("Runnable")+brace)
		args := ""
		if len(u.frag["enumarg"]) > 0 {
			args = "(" + strings.Join(u.frag["enumarg"], ", ") + ")"
		}
		add(ind, "ONE"+args+",")
		add(ind, "TWO;")
		add("", "")
		if args != "" {
			add(ind, u.name+"(Object... a) { }")
			add(ind, u.name+"() { }")
			add("", "")
		}
		members(rapid.SampledFrom([]string{"", "private ", "static final "}).Draw(t, "lFieldMod"))
		for _, f := range u.frag["method"] {
			add(ind, f)
			add("", "")
		}
		containers()
		add("", "}")
	case "annotation":
		add("", pub+"@interface "+u.name+brace)
		for _, f := range u.frag["annelem"] {
			add(ind, f)
		}
		if len(u.frag["annelem"]) == 0 {
			add(ind, "String value() default \"\";")
		}
		add("", "")
		members("")
		add("", "}")
	case "record":
		comps := append([]string{"int id"}, u.frag["component"]...)
		add("", pub+"record "+u.name+tp+"("+strings.Join(comps, ", ")+")"+impl("Runnable")+brace)
		members("static ")
		for _, f := range u.frag["method"] {
			add(ind, f)
			add("", "")
		}
		containers()
		add("", "}")
	}
	text := strings.Join(lines, "\n") + "\n"
	if u.kind != "package-info" && rapid.IntRange(0, 5).Draw(t, "lNoFinalNewline") == 5 {
		text = text[:len(text)-1]
	}
	var fs []string
	for f := range u.feats {
		fs = append(fs, f)
	}
	sort.Strings(fs)
	truth.Features = append([]string{"local_unit"}, fs...)
	return jgen.File{Path: path, Text: text}, truth
}
