package jgram

// Expressions, by JLS precedence level so that the text is valid Java however it is re-parsed.

// expr: a full Expression (lambda, assignment or conditional)
func (g *gen) expr() {
	g.depth++
	defer func() { g.depth-- }()
	g.fuel--
	g.maybeComment()
	switch g.pickW(14, 2, 2, 1) {
	case 0:
		g.ternary()
	case 1:
		g.lambda()
	case 2:
		g.assignment()
	case 3:
		g.methodRef()
	}
}

var assignOps = []string{"=", "+=", "-=", "*=", "/=", "&=", "|=", "^=", "%=", "<<=", ">>=", ">>>="}

func (g *gen) lhs() {
	switch g.pickW(5, 2, 2, 1) {
	case 0:
		g.use("primary.identifier")
		g.w(g.vname(false, 45))
	case 1:
		g.use("expression.fieldAccess")
		g.use("primary.this")
		g.w("this")
		g.glue(".")
		g.glue(g.fieldName())
	case 2:
		g.use("expression.arrayAccess")
		g.w(g.vname(false, 45), "[")
		g.expr()
		g.w("]")
	case 3:
		g.use("expression.fieldAccess")
		g.w(g.vname(false, 45))
		g.glue(".")
		g.glue(g.lname())
	}
	g.lastUse = nil
}

func (g *gen) assignment() {
	g.lhs()
	k := g.pickW(8, 1, 1, 1, 1, 1, 1, 1, 1, 1, 1, 1)
	if k == 0 {
		g.use("expression.assign")
	} else {
		g.use("expression.compoundAssign")
	}
	g.w(assignOps[k])
	if g.chance(15) {
		// the right-hand side is a creation itself (x = new int[n], x = new Foo<>() { ... })
		g.use("expression.assignCreator")
		if g.chance(40) {
			// buf = new byte[n]
			g.use("creator.arrayDims")
			g.use("createdName.primitive")
			g.w("new", primitives[g.n(len(primitives))], "[")
			g.expr()
			g.w("]")
			return
		}
		g.creator()
		return
	}
	g.expr()
}

func (g *gen) ternary() {
	g.binary()
	if g.pickW(12, 1) == 1 {
		g.use("expression.ternary")
		g.w("?")
		g.expr()
		g.w(":")
		if g.pickW(4, 1) == 1 {
			g.lambda()
		} else {
			g.ternary()
		}
	}
}

var (
	arithOps = []string{"+", "-", "*", "/", "%"}
	bitOps   = []string{"&", "|", "^", "&&", "||"}
	shiftOps = []string{"<<", ">>", ">>>"}
	relOps   = []string{"<", ">", "<=", ">="}
	eqOps    = []string{"==", "!="}
)

func (g *gen) binary() {
	g.depth++
	defer func() { g.depth-- }()
	g.unary()
	usedRel := false
	for i := 0; i < 3; i++ {
		switch g.pickW(14, 4, 2, 1, 1, 2, 1) {
		case 0:
			return
		case 1:
			g.use("expression.arithmetic")
			g.w(arithOps[g.n(len(arithOps))])
			g.unary()
		case 2:
			g.use("expression.logicalOrBitwise")
			g.w(bitOps[g.n(len(bitOps))])
			g.unary()
		case 3:
			g.use("expression.shift")
			g.w(shiftOps[g.n(len(shiftOps))])
			g.unary()
		case 4:
			if usedRel {
				return
			}
			usedRel = true
			g.use("expression.relational")
			g.w(relOps[g.n(len(relOps))])
			g.unary()
		case 5:
			g.use("expression.equality")
			g.w(eqOps[g.n(len(eqOps))])
			g.unary()
		case 6:
			if usedRel {
				return
			}
			usedRel = true
			g.w("instanceof")
			if g.pickW(3, 2) == 1 {
				g.use("expression.instanceofPattern")
				g.pattern()
			} else {
				g.use("expression.instanceofType")
				g.simpleRefType()
			}
			if g.pickW(2, 1) == 1 {
				g.use("expression.logicalOrBitwise")
				g.w("&&")
				g.unary()
			}
			return
		}
	}
}

// simpleRefType: a reference type without generics (safe in front of further operators)
func (g *gen) simpleRefType() {
	g.lastAnn = false
	switch g.pickW(5, 2, 1, 1) {
	case 0:
		g.use("classOrInterfaceType.simple")
		g.w(g.typeUseName(g.tname()))
		g.lastShape = "simple"
	case 1:
		g.use("classOrInterfaceType.qualified")
		g.qualifiedName(2)
		g.glue(".")
		g.glue(g.tname())
		g.lastShape = "qualified"
	case 2:
		g.use("typeType.array")
		g.use("typeType.primitive")
		g.w(primitives[g.n(len(primitives))], "[")
		g.glue("]")
		g.lastShape = "array"
	case 3:
		g.use("classOrInterfaceType.nested")
		g.w(g.typeUseName(g.tname()))
		g.glue(".")
		g.glue(g.tname())
		g.lastShape = "nested"
	}
}

// patternVariable: the type and the binding name of a type pattern; the name is a declared variable from here on
func (g *gen) patternVariable() {
	g.simpleRefType()
	name := g.sname()
	g.w(name)
	g.declare(name, "patternVariable")
}

// fieldName is the name after `this.`: a field (or record component) declared earlier in an enclosing
// type, else any name as before.
func (g *gen) fieldName() string {
	if len(g.scope) > 0 && g.chance(50) {
		for i, seen := len(g.scope)-1, 0; i >= 0 && seen < 8; i-- {
			if d := g.scope[i]; d.kind == "field" || d.kind == "recordComponent" {
				seen++
				if seen == 8 || g.chance(60) {
					g.use("use.thisField")
					g.lastUse = &d
					return d.name
				}
			}
		}
	}
	return g.lname()
}

// pattern : variableModifier* typeType annotation* identifier
func (g *gen) pattern() {
	g.use("pattern")
	switch g.pickW(6, 1, 1) {
	case 1:
		g.use("variableModifier.final")
		g.w("final")
	case 2:
		g.use("variableModifier.annotation")
		g.annotation(false)
	}
	g.patternVariable()
}

func (g *gen) unary() {
	g.depth++
	defer func() { g.depth-- }()
	g.fuel--
	switch g.pickW(16, 2, 1, 1, 2, 1) {
	case 0:
		g.postfix()
	case 5:
		g.switchExpression()
	case 1:
		g.use("expression.prefixSign")
		g.w([]string{"-", "+", "!", "~"}[g.n(4)])
		g.unary()
	case 2:
		g.use("expression.prefixIncDec")
		g.w([]string{"++", "--"}[g.n(2)])
		g.lhs()
	case 3:
		g.use("expression.postfixIncDec")
		g.lhs()
		g.w([]string{"++", "--"}[g.n(2)])
	case 4:
		g.cast()
	}
}

func (g *gen) cast() {
	g.w("(")
	switch g.pickW(4, 2, 1, 1) {
	case 0:
		g.use("expression.cast")
		g.typeType(false, true)
		g.w(")")
		g.castOperand(false)
	case 1:
		g.use("expression.cast")
		g.use("typeType.primitive")
		g.w(primitives[g.n(len(primitives))], ")")
		g.castOperand(true)
	case 2:
		g.use("expression.castIntersection")
		g.refType(false)
		g.w("&")
		g.refType(false)
		g.w(")")
		g.castOperand(false)
	case 3:
		g.use("expression.castAnnotated")
		g.annotation(false)
		g.refType(false)
		g.w(")")
		g.castOperand(false)
	}
}

func (g *gen) castOperand(primitive bool) {
	switch g.pickW(6, 1, 1, 1) {
	case 0:
		g.postfix()
	case 1:
		g.use("expression.prefixSign")
		g.w([]string{"!", "~"}[g.n(2)])
		g.unary()
	case 2:
		if primitive {
			g.use("expression.prefixSign")
			g.w("-")
			g.postfix()
		} else {
			g.lambda()
		}
	case 3:
		g.cast()
	}
}

// postfix: primary followed by selectors
func (g *gen) postfix() {
	g.depth++
	defer func() { g.depth-- }()
	if !g.primary() {
		g.lastUse = nil
		return
	}
	// the primary is a declared variable (or `this.field`): a call or method reference on it is one the
	// full pass resolves through its symbol tables
	recv := g.lastUse
	g.lastUse = nil
	for i := 0; i < 3; i++ {
		sel := g.pickW(14, 4, 3, 2, 1, 1, 1, 1)
		if i == 0 && (sel == 1 || sel == 4 || sel == 6 || sel == 7) {
			g.resolvedUse(recv)
		}
		switch sel {
		case 0:
			return
		case 1:
			g.use("expression.dotMethodCall")
			g.glue(".")
			g.glue(g.lname())
			g.arguments()
		case 2:
			g.use("expression.fieldAccess")
			g.glue(".")
			g.glue(g.lname())
		case 3:
			g.use("expression.arrayAccess")
			g.w("[")
			g.expr()
			g.w("]")
		case 4:
			g.use("expression.dotExplicitGenericInvocation")
			g.glue(".")
			g.nonWildcardTypeArguments()
			g.w(g.lname())
			g.arguments()
		case 5:
			g.use("expression.dotNewInnerCreator")
			g.glue(".")
			g.w("new")
			if g.chance(20) {
				g.use("innerCreator.constructorTypeArguments")
				g.nonWildcardTypeArguments()
			}
			g.w(g.tname())
			switch g.pickW(4, 1, 1) {
			case 1:
				g.use("innerCreator.diamond")
				g.glue("<")
				g.glue(">")
			case 2:
				g.use("innerCreator.typeArguments")
				g.nonWildcardTypeArguments()
			}
			g.arguments()
			if g.pickW(3, 1) == 1 {
				g.use("classCreatorRest.classBody")
				g.classBody("anonymous")
			}
		case 6:
			g.use("expression.methodReference.expression")
			g.glue("::")
			if g.chance(15) {
				g.use("methodReference.typeArguments")
				g.typeArguments()
			}
			g.w(g.lname())
			return
		case 7:
			g.use("expression.dotMethodCall")
			g.use("expression.chainedCall")
			g.glue(".")
			g.glue(g.sname())
			g.arguments()
			g.glue(".")
			g.glue(g.sname())
			g.arguments()
		}
	}
}

// typeArgumentsNoWildcard: the grammar's typeArguments where Java wants explicit type arguments
func (g *gen) typeArgumentsNoWildcard() {
	g.use("typeArguments")
	g.glue("<")
	k := 1 + g.n(2)
	for i := 0; i < k; i++ {
		if i > 0 {
			g.w(",")
		}
		g.use("typeArgument.type")
		g.refType(false)
	}
	g.glue(">")
}

func (g *gen) nonWildcardTypeArguments() {
	g.use("nonWildcardTypeArguments")
	g.w("<")
	k := 1 + g.n(2)
	for i := 0; i < k; i++ {
		if i > 0 {
			g.w(",")
		}
		g.refType(false)
	}
	g.glue(">")
}

func (g *gen) arguments() {
	g.glue("(")
	k := g.pickW(5, 5, 2, 1)
	for i := 0; i < k; i++ {
		if i > 0 {
			g.w(",")
		}
		g.expr()
	}
	if k == 0 {
		g.use("arguments.empty")
	} else {
		g.use("expressionList")
	}
	g.w(")")
}

func (g *gen) primary() (selectable bool) {
	selectable = true
	g.depth++
	defer func() { g.depth-- }()
	g.fuel--
	g.lastUse = nil
	var used *declared
	defer func() { g.lastUse = used }()
	switch g.pickW(10, 8, 6, 3, 3, 4, 2, 2, 2, 2, 1, 2, 1, 1, 2) {
	case 14:
		g.use("expression.fieldAccess")
		g.use("primary.this")
		g.w("this")
		g.glue(".")
		g.glue(g.fieldName())
		used = g.lastUse
	case 0:
		g.use("primary.identifier")
		g.w(g.vname(false, 45))
		used = g.lastUse
	case 1:
		g.use("primary.literal")
		before := len(g.toks)
		g.literal()
		selectable = len(g.toks) == before+1 && g.toks[before][0] == '"'
	case 2:
		g.use("methodCall.identifier")
		g.w(g.sname())
		g.arguments()
	case 3:
		g.use("primary.this")
		g.w("this")
	case 4:
		g.use("primary.parenthesized")
		g.w("(")
		g.expr()
		g.w(")")
	case 5:
		g.creator()
	case 6:
		g.use("primary.classLiteral")
		switch g.pickW(4, 1, 1, 1) {
		case 0:
			g.w(g.tname())
		case 1:
			g.use("primary.classLiteral.void")
			g.w("void")
		case 2:
			g.use("primary.classLiteral.array")
			g.w(primitives[g.n(len(primitives))], "[")
			g.glue("]")
		case 3:
			g.qualifiedName(2)
			g.glue(".")
			g.glue(g.tname())
		}
		g.glue(".")
		g.glue("class")
	case 7:
		g.use("primary.super")
		g.w("super")
		g.glue(".")
		if g.pickW(3, 1) == 1 {
			g.use("expression.fieldAccess")
			g.glue(g.lname())
		} else {
			g.use("expression.dotMethodCall")
			g.glue(g.lname())
			g.arguments()
		}
	case 8:
		g.use("expression.staticCall")
		g.use("expression.dotMethodCall")
		g.w(g.tname())
		g.glue(".")
		g.glue(g.lname())
		g.arguments()
	case 9:
		g.use("expression.dotThis")
		g.w(g.tname())
		g.glue(".")
		g.glue("this")
	case 10:
		g.use("expression.dotSuperSuffix")
		g.w(g.tname())
		g.glue(".")
		g.glue("super")
		g.glue(".")
		switch g.pickW(3, 1, 1) {
		case 0:
			g.use("superSuffix.methodCall")
			g.glue(g.lname())
			g.arguments()
		case 1:
			g.use("superSuffix.field")
			g.glue(g.lname())
		case 2:
			g.use("superSuffix.typeArguments")
			g.typeArgumentsNoWildcard()
			g.w(g.lname())
			g.arguments()
		}
	case 11:
		g.use("primary.parenthesized")
		g.w("(")
		g.switchExpression()
		g.w(")")
	case 12:
		g.use("primary.parenthesized")
		g.w("(")
		g.methodRef()
		g.w(")")
	case 13:
		g.use("expression.dotExplicitGenericInvocation")
		g.use("primary.this")
		g.w("this")
		g.glue(".")
		g.nonWildcardTypeArguments()
		g.w(g.lname())
		g.arguments()
	}
	return selectable
}

// creator: new ...
func (g *gen) creator() {
	g.w("new")
	switch g.pickW(8, 3, 2, 2, 2, 2, 1, 1, 1) {
	case 8:
		// a member type named through its outer type: new Outer.Inner(), new Outer.Inner<X>(), new Outer.Inner<>()
		g.use("creator.class")
		g.use("createdName.nested")
		g.w(g.typeUseName(g.tname()))
		g.glue(".")
		g.glue(g.tname())
		switch g.pickW(2, 1, 1) {
		case 1:
			g.use("createdName.typeArguments")
			g.typeArguments()
		case 2:
			g.use("createdName.diamond")
			g.glue("<")
			g.glue(">")
		}
		g.arguments()
	case 0:
		g.use("creator.class")
		g.w(g.typeUseName(g.tname()))
		g.arguments()
	case 1:
		g.use("creator.class")
		g.use("createdName.diamond")
		g.w(g.tname())
		g.glue("<")
		g.glue(">")
		g.arguments()
	case 2:
		g.use("creator.class")
		g.use("createdName.typeArguments")
		g.w(g.tname())
		g.typeArguments()
		g.arguments()
	case 3:
		g.use("creator.class")
		g.use("classCreatorRest.classBody")
		g.w(g.tname())
		if g.chance(30) {
			g.use("createdName.typeArguments")
			g.typeArguments()
		}
		g.arguments()
		g.classBody("anonymous")
	case 4:
		g.use("creator.arrayDims")
		if g.pickW(2, 1) == 1 {
			g.use("createdName.primitive")
			g.w(primitives[g.n(len(primitives))])
		} else {
			g.w(g.tname())
		}
		k := 1 + g.n(2)
		for i := 0; i < k; i++ {
			g.w("[")
			g.expr()
			g.w("]")
		}
		g.dims(30, "arrayCreatorRest.trailingDims")
	case 5:
		g.use("creator.arrayInitializer")
		if g.pickW(2, 1) == 1 {
			g.use("createdName.primitive")
			g.w(primitives[g.n(len(primitives))])
		} else {
			g.w(g.tname())
		}
		g.w("[")
		g.glue("]")
		g.dims(30, "arrayCreatorRest.moreDims")
		g.arrayInitializer()
	case 6:
		g.use("creator.constructorTypeArguments")
		g.nonWildcardTypeArguments()
		g.w(g.tname())
		if g.chance(30) {
			g.use("createdName.diamond")
			g.glue("<")
			g.glue(">")
		}
		g.arguments()
		if g.chance(30) {
			g.use("classCreatorRest.classBody")
			g.classBody("anonymous")
		}
	case 7:
		g.use("creator.class")
		g.use("createdName.qualified")
		g.qualifiedName(2)
		g.glue(".")
		g.glue(g.tname())
		switch g.pickW(6, 3, 2, 1) {
		case 1:
			g.typeArguments()
			g.glue(".")
			g.glue(g.tname())
			g.use("createdName.innerOfGeneric")
			if g.chance(50) {
				g.use("createdName.diamond")
				g.glue("<")
				g.glue(">")
			}
		case 2:
			// new a.b.T<X>(): the first '<' of the created name comes after a dot
			g.use("createdName.qualifiedTypeArguments")
			g.use("createdName.typeArguments")
			g.typeArguments()
		case 3:
			g.use("createdName.qualifiedTypeArguments")
			g.use("createdName.diamond")
			g.glue("<")
			g.glue(">")
		}
		g.arguments()
	}
}

func (g *gen) arrayInitializer() {
	g.depth++
	defer func() { g.depth-- }()
	g.use("arrayInitializer")
	g.w("{")
	k := g.pickW(2, 3, 2, 1)
	for i := 0; i < k; i++ {
		if i > 0 {
			g.w(",")
		}
		g.variableInitializer()
	}
	if k == 0 {
		g.use("arrayInitializer.empty")
	}
	if k > 0 && g.chance(20) {
		g.use("arrayInitializer.trailingComma")
		g.w(",")
	}
	g.w("}")
}

func (g *gen) variableInitializer() {
	if g.pickW(5, 1) == 1 {
		g.use("variableInitializer.array")
		g.arrayInitializer()
	} else {
		g.expr()
	}
}

// lambda
func (g *gen) lambda() {
	g.depth++
	defer func() { g.depth-- }()
	defer g.release(g.mark()) // the parameters of the lambda
	g.enter("lambda")
	defer g.leave()
	g.fuel--
	switch g.pickW(5, 3, 3, 2, 2, 1, 1) {
	case 0:
		g.use("lambdaParameters.identifier")
		name := g.sname()
		g.w(name)
		g.declareAs(name, "lambdaParameter", "untyped", false)
	case 1:
		g.use("lambdaParameters.empty")
		g.w("(", ")")
	case 2:
		g.use("lambdaParameters.identifierList")
		g.w("(")
		k := 1 + g.n(3)
		for i := 0; i < k; i++ {
			if i > 0 {
				g.w(",")
			}
			name := g.sname()
			g.w(name)
			g.declareAs(name, "lambdaParameter", "untyped", false)
		}
		g.w(")")
	case 3:
		g.use("lambdaParameters.formalParameterList")
		g.w("(")
		g.formalParameterList(false)
		g.w(")")
	case 4:
		g.use("lambdaLVTIList")
		g.w("(")
		k := 1 + g.n(2)
		for i := 0; i < k; i++ {
			if i > 0 {
				g.w(",")
			}
			switch g.pickW(5, 1, 1) {
			case 1:
				g.use("variableModifier.final")
				g.w("final")
			case 2:
				g.use("variableModifier.annotation")
				g.annotation(false)
			}
			name := g.sname()
			g.w("var", name)
			g.declareAs(name, "lambdaParameter", "var", false)
		}
		g.w(")")
	case 5:
		g.use("lambdaParameters.identifier")
		g.use("identifier.contextualKeyword")
		g.w([]string{"record", "to", "with", "open", "module"}[g.n(5)])
	case 6:
		g.use("lambdaParameters.formalParameterList")
		g.use("lastFormalParameter")
		name := g.sname()
		g.w("(", "String", "...", name, ")")
		g.declareAs(name, "lambdaParameter", "array", false)
	}
	g.w("->")
	if g.pickW(3, 2) == 1 {
		g.use("lambdaBody.block")
		g.block(false)
	} else {
		g.use("lambdaBody.expression")
		g.expr()
	}
}

// methodRef: the method reference shapes
func (g *gen) methodRef() {
	g.fuel--
	switch g.pickW(4, 2, 2, 2, 2, 1, 1, 1, 1, 1) {
	case 0:
		g.use("expression.methodReference.typeOrName")
		g.w(g.tname())
		g.glue("::")
		g.glue(g.lname())
	case 1:
		g.use("expression.methodReference.expression")
		g.w(g.vname(true, 70))
		g.glue("::")
		g.glue(g.lname())
	case 2:
		g.use("expression.methodReference.typeNew")
		g.w(g.tname())
		g.glue("::")
		g.glue("new")
	case 3:
		g.use("expression.methodReference.arrayNew")
		if g.pickW(2, 1) == 1 {
			g.w(g.tname())
		} else {
			g.w(primitives[g.n(len(primitives))])
		}
		g.w("[")
		g.glue("]")
		g.dims(20, "typeType.array")
		g.glue("::")
		g.glue("new")
	case 4:
		g.use("expression.methodReference.this")
		g.w("this")
		g.glue("::")
		g.glue(g.lname())
	case 5:
		g.use("expression.methodReference.super")
		g.w("super")
		g.glue("::")
		g.glue(g.lname())
	case 6:
		g.use("expression.methodReference.genericType")
		g.w(g.tname())
		g.typeArguments()
		g.glue("::")
		if g.pickW(1, 1) == 1 {
			g.use("expression.methodReference.typeNew")
			g.glue("new")
		} else {
			g.glue(g.lname())
		}
	case 7:
		g.use("expression.methodReference.typeArguments")
		g.w(g.tname())
		g.glue("::")
		g.typeArgumentsNoWildcard()
		g.w(g.lname())
	case 8:
		g.use("expression.methodReference.expression")
		g.postfix()
		g.glue("::")
		g.glue(g.lname())
	case 9:
		g.use("expression.methodReference.qualifiedTypeNew")
		g.w(g.tname())
		g.glue(".")
		g.glue(g.tname())
		g.glue("::")
		if g.chance(30) {
			g.use("methodReference.typeArguments")
			g.typeArgumentsNoWildcard()
		}
		g.w("new")
	}
}

// switchExpression : SWITCH parExpression '{' switchLabeledRule* '}'
func (g *gen) switchExpression() { g.switchArrowOrExpr(false) }

func (g *gen) switchArrowOrExpr(asStatement bool) {
	g.depth++
	defer func() { g.depth-- }()
	g.use("switchExpression")
	g.w("switch", "(")
	g.expr()
	g.w(")", "{")
	arrow := asStatement || g.pickW(4, 1) == 0
	k := g.pickW(1, 3, 3, 2)
	for i := 0; i < k; i++ {
		g.w("case")
		switch g.pickW(5, 2, 1, 2, 1, 1) {
		case 0:
			g.use("switchLabeledRule.expressionList")
			g.caseConstant()
		case 1:
			g.use("switchLabeledRule.expressionList")
			g.use("switchLabeledRule.severalConstants")
			g.caseConstant()
			g.w(",")
			g.caseConstant()
		case 2:
			g.use("switchLabeledRule.null")
			g.w("null")
		case 3:
			g.use("guardedPattern.typePattern")
			g.guardedPatternBase()
		case 4:
			g.use("guardedPattern.guard")
			g.guardedPatternBase()
			g.w("&&")
			g.unary()
		case 5:
			g.use("guardedPattern.parenthesized")
			g.w("(")
			g.guardedPatternBase()
			if g.chance(50) {
				g.use("guardedPattern.guard")
				g.w("&&")
				g.unary()
			}
			g.w(")")
			if g.chance(30) {
				g.use("guardedPattern.guardAfterParens")
				g.w("&&")
				g.unary()
			}
		}
		g.switchOutcome(arrow, asStatement)
	}
	if k == 0 || g.chance(70) {
		g.use("switchLabeledRule.default")
		g.w("default")
		g.switchOutcome(arrow, asStatement)
	}
	g.w("}")
}

func (g *gen) caseConstant() {
	switch g.pickW(4, 2, 2, 1) {
	case 0:
		g.w(intLits[g.n(3)])
	case 1:
		g.w([]string{"FOO", "BAR", "Red"}[g.n(3)])
	case 2:
		g.w(strLits[1+g.n(3)])
	case 3:
		g.w("-", "1")
	}
}

func (g *gen) guardedPatternBase() {
	switch g.pickW(6, 1, 1) {
	case 1:
		g.use("variableModifier.final")
		g.w("final")
	case 2:
		g.use("variableModifier.annotation")
		g.annotation(false)
	}
	g.patternVariable()
}

func (g *gen) switchOutcome(arrow, asStatement bool) {
	if arrow {
		g.use("switchLabeledRule.arrow")
		g.w("->")
		switch g.pickW(5, 3, 1) {
		case 0:
			g.use("switchRuleOutcome.expression")
			if asStatement {
				g.statementExpression()
			} else {
				g.expr()
			}
			g.w(";")
		case 1:
			g.use("switchRuleOutcome.block")
			g.w("{")
			g.blockStatements(true)
			if !asStatement && g.chance(60) {
				g.use("statement.yield")
				g.w("yield")
				g.yieldOperand()
				g.w(";")
			}
			g.w("}")
		case 2:
			g.use("switchRuleOutcome.throw")
			g.use("statement.throw")
			g.w("throw", "new", "E", "(", ")", ";")
		}
		return
	}
	g.use("switchLabeledRule.colon")
	g.w(":")
	switch g.pickW(4, 2, 1) {
	case 0:
		g.use("statement.yield")
		g.w("yield")
		g.yieldOperand()
		g.w(";")
	case 1:
		g.use("switchRuleOutcome.block")
		g.w("{")
		g.blockStatements(true)
		g.use("statement.yield")
		g.w("yield")
		g.yieldOperand()
		g.w(";", "}")
	case 2:
		g.use("switchRuleOutcome.fallThrough")
	}
}

func (g *gen) yieldOperand() {
	switch g.pickW(4, 2, 1) {
	case 0:
		g.use("primary.literal")
		g.literal()
	case 1:
		g.use("primary.identifier")
		g.w(g.vname(false, 45))
	case 2:
		g.use("primary.identifier")
		g.use("expression.arithmetic")
		g.w(g.vname(false, 45), "+")
		g.unary()
	}
}
