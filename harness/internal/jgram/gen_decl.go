package jgram

// Declarations: compilation unit, types of every kind, members, parameters.

import "pgregory.net/rapid"

// typeKind is the kind of structural container a type declaration opens: def, or "local" when the declaration
// is a statement of a block.
func (g *gen) typeKind(def string) string {
	if g.pendingLocal {
		g.pendingLocal = false
		return "local"
	}
	return def
}

func (g *gen) compilationUnit() {
	switch g.pickW(40, 1, 1, 1, 1, 1, 1, 1, 2) {
	case 8:
		// one class holding nothing but the bulk members: the counts of the file are exactly the drawn ones
		g.use("compilationUnit.bulkOnly")
		g.use("compilationUnit.noPackage")
		g.use("typeDeclaration.class")
		g.use("classDeclaration")
		g.w("class", g.tname(), "{")
		g.bulkMembersOf(g.pickW(5, 2, 2, 2, 1))
		g.w("}")
		return
	case 5:
		// package declaration and nothing else
		g.use("compilationUnit.packageOnly")
		g.use("packageDeclaration")
		g.w("package")
		g.qualifiedName(3)
		g.w(";")
		return
	case 6:
		// imports (with or without package declaration) but no type
		g.use("compilationUnit.importsOnly")
		if g.chance(50) {
			g.use("packageDeclaration")
			g.w("package")
			g.qualifiedName(3)
			g.w(";")
		}
		for i, k := 0, 1+g.n(3); i < k; i++ {
			g.importDeclaration()
		}
		return
	case 7:
		// only empty type declarations
		g.use("compilationUnit.semisOnly")
		for i, k := 0, 1+g.n(3); i < k; i++ {
			g.use("typeDeclaration.semi")
			g.w(";")
		}
		return
	case 1:
		g.use("compilationUnit.empty")
		return
	case 2:
		g.use("compilationUnit.onlyComment")
		g.w(commentShapes[g.n(len(commentShapes))])
		return
	case 3:
		g.moduleDeclaration()
		return
	case 4:
		g.use("compilationUnit.packageInfo")
		g.use("packageDeclaration.annotated")
		g.annotation(false)
		g.w("package")
		g.qualifiedName(3)
		g.w(";")
		return
	}
	switch g.pickW(15, 3, 1) {
	case 0:
		g.use("packageDeclaration")
		g.w("package")
		g.qualifiedName(3)
		g.w(";")
	case 1:
		g.use("compilationUnit.noPackage")
	case 2:
		// the package of the two ordinary files of the 3-file project
		g.use("packageDeclaration")
		g.use("packageDeclaration.ofNeighbours")
		g.w("package", "zz")
		g.glue(".")
		g.glue("nb")
		g.w(";")
	}
	k := g.pickW(3, 3, 2, 1)
	for i := 0; i < k; i++ {
		g.importDeclaration()
	}
	if g.rich() && rapid.IntRange(0, 29).Draw(g.t, "manyImports") == 29 {
		// more imports than any small fixed capacity; now and then the same one again
		g.use("many.imports")
		n := g.manyCount(true)
		for i := 0; i < n; i++ {
			if i > 0 && g.chance(10) {
				g.use("importDeclaration.duplicate")
				g.w("import", "a")
				g.glue(".")
				g.glue("b")
				g.glue(".")
				g.glue("Dup")
				g.w(";")
				continue
			}
			g.importDeclaration()
		}
	}
	if g.spring && g.rich() && g.chance(30) {
		// NbService is the annotated interface of the 3-file project; classes of this unit implement it
		g.use("importDeclaration.neighbour")
		g.nbService = true
		g.w("import", "zz")
		g.glue(".")
		g.glue("nb")
		g.glue(".")
		g.glue("NbService")
		g.w(";")
	}
	n := 1 + g.pickW(6, 3, 2, 1)
	if g.rich() && rapid.IntRange(0, 39).Draw(g.t, "manyTypes") == 39 {
		g.use("many.topLevelTypes")
		n = g.manyCount(false)
	}
	if n > 1 {
		g.use("compilationUnit.severalTypes")
	}
	for i := 0; i < n; i++ {
		g.maybeComment()
		if g.pickW(12, 1) == 1 {
			g.use("typeDeclaration.semi")
			g.w(";")
		}
		g.typeDeclaration(true)
	}
}

func (g *gen) importDeclaration() {
	g.w("import")
	switch g.pickW(10, 4, 4, 2, 1, 1, 1, 1) {
	case 0:
		g.use("importDeclaration.single")
		g.qualifiedName(3)
		g.glue(".")
		name := g.tname()
		if len(g.imported) > 0 && g.chance(12) {
			// the simple name of an earlier import again, from another package
			g.use("importDeclaration.sameSimpleName")
			name = g.imported[len(g.imported)-1]
		}
		g.glue(name)
		g.imported = append(g.imported, name)
	case 1:
		g.use("importDeclaration.wildcard")
		g.qualifiedName(3)
		g.glue(".")
		g.glue("*")
	case 2:
		g.use("importDeclaration.static")
		g.w("static")
		g.qualifiedName(2)
		g.glue(".")
		g.glue(g.tname())
		g.glue(".")
		g.glue(g.sname())
	case 3:
		g.use("importDeclaration.staticWildcard")
		g.w("static")
		g.qualifiedName(2)
		g.glue(".")
		g.glue(g.tname())
		g.glue(".")
		g.glue("*")
	case 4:
		// a type of the unnamed package: the name has a single segment
		g.use("importDeclaration.single")
		g.use("importDeclaration.singleSegment")
		name := g.tname()
		g.w(name)
		g.imported = append(g.imported, name)
	case 5:
		g.use("importDeclaration.static")
		g.use("importDeclaration.singleSegment")
		g.w("static", g.tname())
		g.glue(".")
		g.glue(g.sname())
	case 6:
		g.use("importDeclaration.single")
		g.use("importDeclaration.neighbour")
		g.w("zz")
		g.glue(".")
		g.glue("nb")
		g.glue(".")
		name := []string{"NbAlpha", "NbOmega", "NbService", "NbBody"}[g.n(4)]
		g.glue(name)
		g.imported = append(g.imported, name)
	case 7:
		g.use("importDeclaration.wildcard")
		g.use("importDeclaration.neighbour")
		g.w("zz")
		g.glue(".")
		g.glue("nb")
		g.glue(".")
		g.glue("*")
	}
	g.w(";")
}

func (g *gen) moduleDeclaration() {
	g.use("moduleDeclaration")
	if g.chance(30) {
		g.use("moduleDeclaration.open")
		g.w("open")
	}
	g.w("module")
	g.qualifiedName(3)
	g.w("{")
	k := g.n(5)
	for i := 0; i < k; i++ {
		switch g.n(5) {
		case 0:
			g.use("moduleDirective.requires")
			g.w("requires")
			switch g.n(3) {
			case 1:
				g.use("requiresModifier.transitive")
				g.w("transitive")
			case 2:
				g.use("requiresModifier.static")
				g.w("static")
			}
			g.qualifiedName(3)
		case 1:
			g.use("moduleDirective.exports")
			g.w("exports")
			g.qualifiedName(3)
			if g.chance(40) {
				g.w("to")
				g.qualifiedName(2)
			}
		case 2:
			g.use("moduleDirective.opens")
			g.w("opens")
			g.qualifiedName(3)
			if g.chance(40) {
				g.w("to")
				g.qualifiedName(2)
			}
		case 3:
			g.use("moduleDirective.uses")
			g.w("uses")
			g.qualifiedName(3)
		case 4:
			g.use("moduleDirective.provides")
			g.w("provides")
			g.qualifiedName(3)
			g.w("with")
			g.qualifiedName(3)
		}
		g.w(";")
	}
	g.w("}")
}

var typeModifiers = []string{"public", "abstract", "final", "static", "strictfp", "protected", "private", "sealed", "non-sealed"}

// typeModifiersList emits modifiers of a type declaration
func (g *gen) typeModifierList(top bool) {
	if g.spring && g.chance(50) {
		g.use("annotation.frameworkName")
		g.use("annotation.marker")
		g.w("@")
		if g.chance(12) {
			g.use("annotation.qualified")
			g.use("annotation.qualifiedFrameworkName")
			g.frameworkPackage()
		}
		g.glue([]string{"RestController", "Controller"}[g.n(2)])
		if g.chance(60) {
			g.frameworkMapping()
		}
	}
	g.stereotype = false
	if g.spring && g.chance(20) {
		// a component of the dependency-injection map: the class then implements an imported interface, when there is one
		g.use("annotation.frameworkName")
		g.use("annotation.stereotype")
		g.stereotype = true
		g.w("@")
		g.glue([]string{"Component", "Repository", "Service"}[g.n(3)])
		if g.chance(30) {
			g.use("annotation.singleValue")
			g.use("elementValue.constant")
			g.use("literal.string")
			g.w("(", `"bean"`, ")")
		} else {
			g.use("annotation.marker")
		}
	}
	g.annotations(25, false)
	switch g.pickW(3, 8, 1, 1, 1, 1) {
	case 1:
		g.use("classOrInterfaceModifier.public")
		g.w("public")
	case 2:
		g.use("classOrInterfaceModifier.public")
		g.use("classOrInterfaceModifier.abstract")
		g.w("public", "abstract")
	case 3:
		g.use("classOrInterfaceModifier.final")
		g.w("final")
		if g.chance(30) {
			g.use("classOrInterfaceModifier.annotationAfterKeyword")
			g.annotation(false)
		}
	case 4:
		if top {
			g.use("classOrInterfaceModifier.strictfp")
			g.w("strictfp")
		} else {
			g.use("classOrInterfaceModifier.static")
			g.w([]string{"static", "private", "protected"}[g.n(3)], "static")
		}
	case 5:
		g.use("classOrInterfaceModifier.sealedOrNonSealed")
		g.w([]string{"sealed", "non-sealed"}[g.n(2)])
	}
}

func (g *gen) typeDeclaration(top bool) {
	g.depth++
	defer func() { g.depth-- }()
	g.fuel--
	g.typeModifierList(top)
	switch g.pickW(10, 3, 3, 2, 2) {
	case 0:
		g.use("typeDeclaration.class")
		g.classDeclaration()
	case 1:
		g.use("typeDeclaration.interface")
		g.interfaceDeclaration()
	case 2:
		g.use("typeDeclaration.enum")
		g.enumDeclaration()
	case 3:
		g.use("typeDeclaration.record")
		g.recordDeclaration()
	case 4:
		g.use("typeDeclaration.annotationType")
		g.annotationTypeDeclaration()
	}
}

func (g *gen) classDeclaration() {
	g.use("classDeclaration")
	name := g.tname()
	g.cls = append(g.cls, name)
	defer func() { g.cls = g.cls[:len(g.cls)-1] }()
	defer g.release(g.mark()) // the fields of the class
	stereotype := g.stereotype
	g.stereotype = false
	g.enter(g.typeKind("named"))
	defer g.leave()
	g.w("class", name)
	if g.pickW(4, 1) == 1 {
		g.use("classDeclaration.typeParameters")
		g.typeParameters()
	}
	if g.pickW(3, 1) == 1 {
		g.use("classDeclaration.extends")
		g.w("extends")
		g.refType(true)
	}
	implementsNb := g.nbService && g.chance(60)
	if implementsNb {
		g.use("classDeclaration.implements")
		g.use("classDeclaration.implementsNeighbour")
		g.w("implements", "NbService")
		if stereotype {
			g.use("classDeclaration.stereotypeImplementsImported")
		}
	} else if stereotype && len(g.imported) > 0 && g.chance(70) {
		// @Component class Impl implements <imported interface> (, more)
		g.use("classDeclaration.implements")
		g.use("classDeclaration.stereotypeImplementsImported")
		g.w("implements", g.imported[g.n(len(g.imported))])
		for i := 0; i < 2 && g.chance(30); i++ {
			g.use("typeList.several")
			g.w(",")
			g.refType(true)
		}
	} else if g.pickW(3, 1) == 1 {
		g.use("classDeclaration.implements")
		g.w("implements")
		g.typeList()
	}
	if g.pickW(12, 1) == 1 {
		g.use("classDeclaration.permits")
		g.w("permits")
		g.typeList()
	}
	if implementsNb {
		// the interface's annotated method first, then an ordinary body
		g.depth++
		g.w("{")
		g.memberModifiers("method")
		g.w("String", "serve")
		m := g.mark()
		g.formalParameters(false)
		g.block(false)
		g.release(m)
		for i, k := 0, g.pickW(3, 3, 2, 1); i < k; i++ {
			g.classBodyDeclaration("class")
		}
		g.w("}")
		g.depth--
		return
	}
	g.classBody("class")
}

func (g *gen) classBody(kind string) {
	g.depth++
	defer func() { g.depth-- }()
	defer g.release(g.mark()) // the fields of the body
	if kind == "anonymous" {
		g.enter("anonymous")
		defer g.leave()
	}
	g.w("{")
	k := g.pickW(2, 3, 4, 4, 3, 3, 2, 2, 1)
	for i := 0; i < k; i++ {
		g.classBodyDeclaration(kind)
	}
	g.w("}")
}

func (g *gen) memberModifiers(kind string) {
	// annotations first, in the middle, or none
	if g.spring && kind == "method" && g.chance(40) {
		g.frameworkMapping()
	}
	g.annotations(20, false)
	if kind == "ctor" {
		switch g.pickW(3, 6, 1) {
		case 1:
			g.use("modifier.accessKeyword")
			g.w([]string{"public", "private", "protected"}[g.n(3)])
		case 2:
			g.use("modifier.annotationAfterKeyword")
			g.w("public")
			g.annotation(false)
		}
		return
	}
	switch g.pickW(4, 8, 2, 2, 1, 1, 1, 1) {
	case 1:
		g.use("modifier.accessKeyword")
		g.w([]string{"public", "private", "protected"}[g.n(3)])
	case 2:
		g.use("modifier.accessKeyword")
		g.use("modifier.static")
		g.w("public", "static")
	case 3:
		g.use("modifier.static")
		g.use("modifier.final")
		g.w("static", "final")
	case 4:
		g.use("modifier.annotationAfterKeyword")
		g.w("public")
		g.annotation(false)
	case 5:
		switch kind {
		case "field":
			g.use("modifier.transientVolatile")
			g.w([]string{"transient", "volatile"}[g.n(2)])
		case "method":
			g.use("modifier.synchronizedStrictfp")
			g.w([]string{"synchronized", "strictfp"}[g.n(2)])
		}
	case 6:
		g.use("modifier.final")
		g.w("final")
	case 7:
		g.use("modifier.accessKeyword")
		g.use("modifier.annotationAfterKeyword")
		g.w("private")
		g.annotation(false)
		g.w("static")
	}
}

func (g *gen) classBodyDeclaration(kind string) {
	g.depth++
	defer func() { g.depth-- }()
	g.fuel--
	g.maybeComment()
	handler := 0
	if g.spring {
		handler = 4
	}
	switch g.pickW(12, 8, 4, 1, 2, 2, 3, 1, 1, 2, 1, 2, 2, handler) {
	case 13:
		g.handlerMethod()
	case 10:
		g.nestedChain()
	case 11:
		g.manyMembers()
	case 12:
		g.nestCombo()
	case 9:
		g.bulkMembers()
	case 0:
		g.use("memberDeclaration.method")
		g.memberModifiers("method")
		g.methodDeclaration(false)
	case 1:
		g.use("memberDeclaration.field")
		g.memberModifiers("field")
		g.typeType(true, true)
		g.variableDeclarators("field")
		g.w(";")
	case 2:
		if kind == "anonymous" || len(g.cls) == 0 {
			g.use("classBodyDeclaration.block")
			g.block(false)
			return
		}
		g.memberModifiers("ctor")
		if g.pickW(5, 1) == 1 {
			g.use("memberDeclaration.genericConstructor")
			g.typeParameters()
		} else {
			g.use("memberDeclaration.constructor")
		}
		g.w(g.cls[len(g.cls)-1])
		m := g.mark()
		g.formalParameters(true)
		g.throwsClause()
		g.block(true)
		g.release(m)
	case 3:
		g.use("classBodyDeclaration.semi")
		g.w(";")
	case 4:
		g.use("classBodyDeclaration.staticBlock")
		g.w("static")
		g.block(false)
	case 5:
		g.use("classBodyDeclaration.block")
		g.block(false)
	case 6:
		g.nestedType()
	case 7:
		g.use("memberDeclaration.genericMethod")
		g.memberModifiers("method")
		g.typeParameters()
		g.methodDeclaration(false)
	case 8:
		g.use("memberDeclaration.method")
		g.use("methodDeclaration.noBody")
		if g.pickW(1, 1) == 1 {
			g.use("modifier.native")
			g.w("public", "native")
		} else {
			g.use("modifier.abstract")
			g.w("abstract")
		}
		g.methodDeclaration(true)
	}
}

func (g *gen) nestedType() {
	g.typeModifierList(false)
	switch g.pickW(5, 2, 2, 1, 1) {
	case 0:
		g.use("memberDeclaration.class")
		g.classDeclaration()
	case 1:
		g.use("memberDeclaration.interface")
		g.interfaceDeclaration()
	case 2:
		g.use("memberDeclaration.enum")
		g.enumDeclaration()
	case 3:
		g.use("memberDeclaration.record")
		g.recordDeclaration()
	case 4:
		g.use("memberDeclaration.annotationType")
		g.annotationTypeDeclaration()
	}
}

func (g *gen) throwsClause() {
	if g.pickW(5, 1) == 1 {
		g.use("throws")
		g.w("throws")
		k := 1 + g.pickW(3, 1)
		for i := 0; i < k; i++ {
			if i > 0 {
				g.w(",")
			}
			if g.pickW(3, 1) == 1 {
				g.qualifiedName(2)
				g.glue(".")
				g.glue(g.tname())
			} else {
				g.w(g.tname())
			}
		}
		if k > 1 {
			g.use("qualifiedNameList.several")
		}
	}
}

// methodDeclaration : typeTypeOrVoid identifier formalParameters ('[' ']')* (THROWS qualifiedNameList)? methodBody
func (g *gen) methodDeclaration(noBody bool) {
	if g.pickW(1, 1) == 0 {
		g.use("typeTypeOrVoid.void")
		g.w("void")
	} else {
		g.use("typeTypeOrVoid.type")
		g.typeType(true, true)
	}
	g.w(g.lname())
	defer g.release(g.mark()) // the parameters
	g.formalParameters(false)
	g.dims(4, "methodDeclaration.dims")
	g.throwsClause()
	if noBody {
		g.w(";")
		return
	}
	g.block(false)
}

// formalParameters : '(' ( receiverParameter? | receiverParameter (',' formalParameterList)? | formalParameterList? ) ')'
func (g *gen) formalParameters(ctor bool) {
	g.w("(")
	switch g.pickW(5, 8, 1, 1) {
	case 0:
		g.use("formalParameters.empty")
	case 1:
		g.formalParameterList(true)
	case 2:
		g.use("receiverParameter")
		g.receiverParameter(ctor)
	case 3:
		g.use("receiverParameter")
		g.use("receiverParameter.withParameters")
		g.receiverParameter(ctor)
		g.w(",")
		g.formalParameterList(true)
	}
	g.w(")")
}

func (g *gen) receiverParameter(ctor bool) {
	if g.chance(20) {
		g.use("typeType.annotated")
		g.annotation(false)
	}
	name := g.tname()
	g.w(name)
	if g.chance(20) {
		g.typeArguments()
	}
	if ctor || g.chance(15) {
		g.use("receiverParameter.qualifiedThis")
		g.w(name)
		g.glue(".")
		g.glue("this")
	} else {
		g.w("this")
	}
}

func (g *gen) formalParameterList(allowVarargs bool) {
	g.use("formalParameterList")
	k := g.pickW(5, 3, 2, 1, 1, 1, 1)
	varargs := allowVarargs && g.pickW(6, 1) == 1
	if k == 0 && !varargs {
		k = 1
	}
	if k >= 6 {
		g.use("formalParameterList.sixOrMore")
	}
	for i := 0; i < k; i++ {
		if i > 0 {
			g.w(",")
		}
		g.use("formalParameter")
		g.variableModifiers()
		g.typeType(true, true)
		name := g.lname()
		g.w(name)
		if g.dimsN(5, "variableDeclaratorId.dims") > 0 {
			g.lastShape = "array"
		}
		g.declare(name, "parameter")
	}
	if varargs {
		if k > 0 {
			g.w(",")
		}
		g.use("lastFormalParameter")
		g.variableModifiers()
		g.typeType(false, true)
		if g.chance(15) {
			g.use("lastFormalParameter.annotatedEllipsis")
			g.annotation(false)
		}
		name := g.lname()
		g.w("...", name)
		g.declareAs(name, "parameter", "array", false)
	}
}

func (g *gen) interfaceDeclaration() {
	g.use("interfaceDeclaration")
	g.stereotype = false
	g.enter(g.typeKind("interface"))
	defer g.leave()
	g.w("interface", g.tname())
	if g.pickW(4, 1) == 1 {
		g.use("interfaceDeclaration.typeParameters")
		g.typeParameters()
	}
	if g.pickW(3, 1) == 1 {
		g.use("interfaceDeclaration.extends")
		g.w("extends")
		g.typeList()
	}
	if g.pickW(12, 1) == 1 {
		g.use("interfaceDeclaration.permits")
		g.w("permits")
		g.typeList()
	}
	g.depth++
	defer func() { g.depth-- }()
	defer g.release(g.mark()) // the constants of the interface
	g.w("{")
	k := g.pickW(2, 3, 3, 3, 2, 2, 1)
	for i := 0; i < k; i++ {
		g.interfaceBodyDeclaration()
	}
	g.w("}")
}

func (g *gen) interfaceBodyDeclaration() {
	g.depth++
	defer func() { g.depth-- }()
	g.fuel--
	g.maybeComment()
	switch g.pickW(10, 4, 3, 2, 2, 1, 2, 1, 2) {
	case 8:
		// the grammar's modifier rule also offers these keywords in front of an interface member
		g.use("interfaceBodyDeclaration.keywordModifier")
		g.annotations(10, false)
		if g.chance(30) {
			g.w("public")
		}
		if g.pickW(2, 1) == 0 {
			g.use("interfaceMemberDeclaration.method")
			g.w([]string{"synchronized", "native", "strictfp synchronized"}[g.n(3)])
			g.interfaceCommonBody(g.chance(50))
		} else {
			g.use("interfaceMemberDeclaration.const")
			g.w([]string{"volatile", "transient", "static transient"}[g.n(3)])
			g.typeType(false, true)
			name := g.lname()
			g.w(name, "=")
			g.declare(name, "field")
			g.variableInitializer()
			g.w(";")
		}
	case 0:
		g.use("interfaceMemberDeclaration.method")
		g.annotations(20, false)
		if g.chance(30) {
			g.use("interfaceMethodModifier.publicAbstract")
			g.w([]string{"public", "abstract", "public abstract"}[g.n(3)])
		}
		g.interfaceCommonBody(true)
	case 1:
		g.use("interfaceMemberDeclaration.const")
		g.annotations(10, false)
		if g.chance(30) {
			g.w([]string{"public", "static", "final", "public static final"}[g.n(4)])
		}
		g.typeType(false, true)
		shape, shapeAnn := g.lastShape, g.lastAnn
		k := 1 + g.pickW(5, 1)
		for i := 0; i < k; i++ {
			if i > 0 {
				g.w(",")
			}
			name := g.lname()
			g.w(name)
			g.dims(8, "constantDeclarator.dims")
			g.w("=")
			g.declareAs(name, "field", shape, shapeAnn)
			g.variableInitializer()
		}
		g.w(";")
	case 2:
		g.use("interfaceMemberDeclaration.method")
		g.use("interfaceMethodModifier.default")
		g.annotations(15, false)
		g.w("default")
		g.interfaceCommonBody(false)
	case 3:
		g.use("interfaceMemberDeclaration.method")
		g.use("interfaceMethodModifier.static")
		g.w([]string{"static", "public static", "private", "private static", "strictfp"}[g.n(5)])
		g.interfaceCommonBody(false)
	case 4:
		g.use("interfaceMemberDeclaration.genericMethod")
		if g.chance(50) {
			g.use("interfaceMethodModifier.default")
			g.w("default")
			g.typeParameters()
			g.interfaceCommonBody(false)
		} else {
			g.typeParameters()
			g.interfaceCommonBody(true)
		}
	case 5:
		g.use("interfaceBodyDeclaration.semi")
		g.w(";")
	case 6:
		g.use("interfaceMemberDeclaration.nestedType")
		g.nestedType()
	case 7:
		g.use("interfaceMemberDeclaration.method")
		g.use("interfaceCommonBodyDeclaration.annotatedAfterModifiers")
		g.w("public")
		g.annotation(false)
		g.interfaceCommonBody(true)
	}
}

func (g *gen) interfaceCommonBody(noBody bool) {
	g.methodDeclaration(noBody)
}

func (g *gen) enumDeclaration() {
	g.use("enumDeclaration")
	name := g.tname()
	g.cls = append(g.cls, name)
	defer func() { g.cls = g.cls[:len(g.cls)-1] }()
	defer g.release(g.mark()) // the fields of the enum
	g.stereotype = false
	g.enter(g.typeKind("named"))
	defer g.leave()
	g.w("enum", name)
	if g.pickW(3, 1) == 1 {
		g.use("enumDeclaration.implements")
		g.w("implements")
		g.typeList()
	}
	g.depth++
	defer func() { g.depth-- }()
	g.w("{")
	k := g.pickW(1, 3, 3, 2)
	for i := 0; i < k; i++ {
		if i > 0 {
			g.w(",")
		}
		g.use("enumConstant")
		if g.chance(15) {
			g.use("enumConstant.annotated")
			g.annotation(false)
		}
		g.w([]string{"A", "B", "RED", "Ünï", "x"}[g.n(5)])
		if g.pickW(3, 1) == 1 {
			g.use("enumConstant.arguments")
			g.arguments()
		}
		if g.pickW(5, 1) == 1 {
			g.use("enumConstant.classBody")
			g.classBody("anonymous")
		}
	}
	if k == 0 {
		g.use("enumDeclaration.noConstants")
	}
	if g.chance(20) {
		g.use("enumDeclaration.trailingComma")
		g.w(",")
	}
	if g.pickW(2, 3) == 1 {
		g.use("enumBodyDeclarations")
		g.w(";")
		n := g.pickW(2, 3, 2, 1)
		for i := 0; i < n; i++ {
			g.classBodyDeclaration("enum")
		}
	}
	g.w("}")
}

func (g *gen) recordDeclaration() {
	g.use("recordDeclaration")
	name := g.tname()
	g.cls = append(g.cls, name)
	defer func() { g.cls = g.cls[:len(g.cls)-1] }()
	defer g.release(g.mark()) // the components and fields of the record
	g.stereotype = false
	g.enter(g.typeKind("named"))
	defer g.leave()
	g.w("record", name)
	if g.pickW(4, 1) == 1 {
		g.use("recordDeclaration.typeParameters")
		g.typeParameters()
	}
	g.w("(")
	k := g.pickW(2, 3, 3, 1)
	for i := 0; i < k; i++ {
		if i > 0 {
			g.w(",")
		}
		g.use("recordComponent")
		g.typeType(true, true)
		cname := g.lname()
		g.w(cname)
		g.declare(cname, "recordComponent")
	}
	if k == 0 {
		g.use("recordHeader.empty")
	}
	g.w(")")
	if g.pickW(3, 1) == 1 {
		g.use("recordDeclaration.implements")
		g.w("implements")
		g.typeList()
	}
	g.depth++
	defer func() { g.depth-- }()
	g.w("{")
	n := g.pickW(3, 3, 2, 1)
	for i := 0; i < n; i++ {
		g.classBodyDeclaration("record")
	}
	g.w("}")
}

func (g *gen) annotationTypeDeclaration() {
	g.use("annotationTypeDeclaration")
	g.stereotype = false
	g.enter(g.typeKind("interface"))
	defer g.leave()
	g.w("@")
	g.glue("interface")
	g.w(g.tname())
	g.depth++
	defer func() { g.depth-- }()
	g.w("{")
	k := g.pickW(2, 3, 3, 2, 1)
	for i := 0; i < k; i++ {
		g.fuel--
		switch g.pickW(8, 3, 2, 1, 1) {
		case 0:
			g.use("annotationMethodRest")
			g.annotations(10, false)
			if g.chance(20) {
				g.w([]string{"public", "abstract", "public abstract"}[g.n(3)])
			} else if g.chance(15) {
				g.use("annotationTypeElementDeclaration.keywordModifier")
				g.w([]string{"synchronized", "native", "volatile", "transient", "static final"}[g.n(5)])
			}
			g.typeType(false, true)
			g.w(g.lname(), "(", ")")
			if g.pickW(1, 1) == 1 {
				g.use("defaultValue")
				g.w("default")
				g.elementValue()
			}
			g.w(";")
		case 1:
			g.use("annotationConstantRest")
			g.typeType(false, true)
			g.w(g.lname(), "=")
			g.variableInitializer()
			g.w(";")
		case 2:
			g.use("annotationTypeElementRest.nestedType")
			switch g.pickW(2, 1, 1, 1, 1) {
			case 0:
				g.classDeclaration()
			case 1:
				g.interfaceDeclaration()
			case 2:
				g.enumDeclaration()
			case 3:
				g.annotationTypeDeclaration()
			case 4:
				g.recordDeclaration()
			}
			if g.chance(30) {
				g.use("annotationTypeElementRest.trailingSemi")
				g.w(";")
			}
		case 3:
			g.use("annotationTypeElementDeclaration.semi")
			g.w(";")
		case 4:
			g.use("annotationMethodRest")
			g.use("defaultValue")
			g.w("String", "[", "]", g.lname(), "(", ")", "default", "{", "}", ";")
		}
	}
	g.w("}")
}

// bulkMembers: members whose size reaches the thresholds of the bad-smell pass (20 methods that are not
// getters or setters, 8 ifs / switches in a method, a method of more than 30 lines, an if whose
// condition spans 3 lines or more), each at the threshold, one below and above. At most once per unit.
func (g *gen) bulkMembers() { g.bulkMembersOf(g.pickW(2, 2, 2, 2, 1)) }

func (g *gen) bulkMembersOf(kind int) {
	if g.bulkDone {
		g.use("memberDeclaration.method")
		g.w("void", g.lname(), "(", ")", "{", "}")
		return
	}
	g.bulkDone = true
	g.use("memberDeclaration.method")
	switch kind {
	case 0:
		g.use("bulk.manyMethods")
		n := []int{20, 19, 21, 20, 26}[g.n(5)]
		for i := 0; i < n; i++ {
			if m := []string{"public", "private", "", "static"}[i%4]; m != "" {
				g.w(m)
			}
			g.w("void", "op"+string(rune('a'+i%26))+string(rune('A'+i/26)), "(", ")", "{", "}")
		}
		if g.chance(25) {
			g.w("public", "int", "getX", "(", ")", "{", "return", "0", ";", "}")
			g.w("public", "void", "setX", "(", "int", "x", ")", "{", "}")
		}
	case 1:
		g.use("bulk.manyIfs")
		g.use("statement.if")
		n := []int{8, 7, 9, 12}[g.n(4)]
		g.w("void", g.lname(), "(", ")", "{")
		for i := 0; i < n; i++ {
			g.w("if", "(", g.sname(), ")", "{", "}")
			if g.chance(20) {
				g.use("statement.ifElse")
				g.w("else", "{", "}")
			}
		}
		g.w("}")
	case 2:
		g.use("bulk.manySwitches")
		g.use("statement.switch")
		n := []int{8, 7, 9}[g.n(3)]
		g.w("int", g.lname(), "(", "int", "k", ")", "{")
		for i := 0; i < n; i++ {
			g.w("switch", "(", "k", ")", "{")
			if g.chance(50) {
				g.use("switchBlockStatementGroup")
				g.use("switchLabel.constantExpression")
				g.use("statement.break")
				g.w("case", "1", ":", "break", ";")
			}
			g.w("}")
		}
		g.w("return", "k", ";", "}")
	case 3:
		g.use("bulk.longMethod")
		g.use("statement.expression")
		n := []int{31, 30, 29, 32, 45}[g.n(5)]
		g.w("void", g.lname(), "(", ")", "{")
		for i := 0; i < n-1; i++ {
			g.w("k", "++", ";")
		}
		g.w("}")
	case 4:
		g.use("bulk.multiLineIfCondition")
		g.use("statement.if")
		n := []int{3, 2, 4, 6}[g.n(4)]
		g.w("void", g.lname(), "(", ")", "{", "if", "(", "a")
		for i := 0; i < n; i++ {
			g.w("&&\n", "b")
		}
		g.w(")", "{", "}", "}")
	}
}
