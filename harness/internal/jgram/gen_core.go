package jgram

// Grammar-directed generator of Java compilation units over the productions of the shipped
// JavaParser.g4 — core: emission, labels, names, literals, annotations, types.
//
// Every unit is valid Java syntax by construction (JLS 17 incl. the JEP 406 preview patterns
// the shipped grammar knows) and stays inside what the shipped grammar accepts; the check
// additionally filters with the shipped parser. Each production alternative used is recorded
// as a label "rule.alternative".

import (
	"strings"

	"pgregory.net/rapid"
)

type gen struct {
	t      *rapid.T
	toks   []string // "\x00" prefix = glue to the previous token (no blank)
	labels map[string]int
	fuel   int
	depth  int
	cls    []string // names of the enclosing named classes (constructors use the innermost)
	spring bool     // this unit prefers annotation names the tool reacts to
	// added later (zero value = the plain variant)
	layout     int    // 0 LF | 1 CRLF | 2 no final newline | 3 everything on as few lines as possible | 4 CR only
	eofComment string // a comment after the last token, ending the file without newline
	bulkDone   bool   // the unit already has its bulk member
	nbService  bool   // the unit imports zz.nb.NbService of the 3-file project and implements it
	// declarations and their uses (see scope.go part below)
	scope     []declared // variables declared so far that are visible at the current position, innermost last
	imported  []string   // simple names of the unit's single-type imports
	lastShape string     // shape of the type emitted last by typeType / refType
	lastAnn   bool       // ... and whether it began with a type annotation
	tdepth    int        // nesting of the type being emitted (type arguments of type arguments ...)
	lastUse   *declared  // the primary emitted last is this declared variable (nil: it is something else)
	// added by the checklist audit (zero value = the plain variant)
	maxDepth     int      // depth limit of the structure (0 = the usual 9); a deep unit nests anonymous / local / named types and lambdas in each other
	nest         []string // the enclosing structural containers, outermost first: named | anonymous | enumConstantBody | local | lambda | interface
	sep          string   // what separates two tokens in the rendered text ("" = one blank)
	lead         string   // white space in front of the first token
	trail        string   // white space after the last token (before a comment that ends the file)
	manyDone     bool     // the unit already has its long list
	chainDone    bool     // the unit already has its chain of nested types
	stereotype   bool     // the modifiers emitted last hold @Component / @Repository / @Service
	pendingLocal bool     // the type declaration that follows is a local one
	comboDone    bool     // the unit already has its combination of nested containers
}

// enter records that a structural container begins and labels the combination with the containers around it.
func (g *gen) enter(kind string) {
	named, anon, lambda := 0, 0, 0
	for _, k := range g.nest {
		switch k {
		case "named", "local", "interface":
			named++
		case "anonymous", "enumConstantBody":
			anon++
		case "lambda":
			lambda++
		}
	}
	last := ""
	if len(g.nest) > 0 {
		last = g.nest[len(g.nest)-1]
	}
	switch kind {
	case "named", "interface", "local":
		switch {
		case named == 2:
			g.use("nesting.namedDepth3")
		case named == 3:
			g.use("nesting.namedDepth4")
		case named > 3:
			g.use("nesting.namedDepth5orMore")
		}
		if anon > 0 {
			g.use("nesting.namedInAnonymous")
		}
		if lambda > 0 {
			g.use("nesting.namedInLambda")
		}
		if kind == "interface" && named > 0 {
			g.use("nesting.interfaceInType")
		}
	case "anonymous", "enumConstantBody":
		switch {
		case anon == 1:
			g.use("nesting.anonymousInAnonymous")
		case anon > 1:
			g.use("nesting.anonymousDepth3orMore")
		}
		if lambda > 0 {
			g.use("nesting.anonymousInLambda")
		}
		if last == "local" {
			g.use("nesting.anonymousInLocal")
		}
	case "lambda":
		switch {
		case lambda == 1:
			g.use("nesting.lambdaInLambda")
		case lambda > 1:
			g.use("nesting.lambdaDepth3orMore")
		}
		if anon > 0 {
			g.use("nesting.lambdaInAnonymous")
		}
	}
	g.nest = append(g.nest, kind)
}

func (g *gen) leave() { g.nest = g.nest[:len(g.nest)-1] }

// limit is the nesting depth up to which alternatives other than the plainest are drawn.
func (g *gen) limit() int {
	if g.maxDepth > 0 {
		return g.maxDepth
	}
	return 9
}

// declared is a variable the unit has declared: a use site may name it instead of a name from the pool,
// so that the tool's symbol tables (parameters, local variables, fields) are hit on purpose.
type declared struct {
	name  string
	kind  string // parameter | local | field | forVariable | catchParameter | resource | lambdaParameter | patternVariable | recordComponent
	shape string // shape of the declared type: simple, primitive, typeArguments, qualified, qualifiedTypeArguments, nested, nestedTypeArguments, innerOfGeneric, innerOfGenericTypeArguments, array, var, untyped
	ann   bool   // the declared type began with a type annotation
}

func (g *gen) mark() int { return len(g.scope) }

func (g *gen) release(m int) { g.scope = g.scope[:m] }

// declare records name as a variable of the given kind whose type is the one emitted last.
func (g *gen) declare(name, kind string) { g.declareAs(name, kind, g.lastShape, g.lastAnn) }

func (g *gen) declareAs(name, kind, shape string, ann bool) {
	for _, k := range ctxKeywords {
		if k == name { // never used as a simple name inside expressions
			return
		}
	}
	g.scope = append(g.scope, declared{name: name, kind: kind, shape: shape, ann: ann})
}

// vname is a simple name in an expression: a variable declared earlier and still visible (one of the six
// innermost; 0 = the innermost), else a name from the pool as before. resolved: the position is one whose
// declared type the full pass looks up (receiver of a call, target of a method reference). pct: how often
// (in 100) a declared variable is taken when there is one.
func (g *gen) vname(resolved bool, pct int) string {
	g.lastUse = nil
	if len(g.scope) == 0 || !g.chance(pct) {
		return g.sname()
	}
	k := len(g.scope)
	if k > 6 {
		k = 6
	}
	d := g.scope[len(g.scope)-1-g.n(k)]
	if resolved && g.chance(50) {
		// rather an object of a library type than a counter: the innermost variable whose declared type is
		// more than a simple name, when there is one
		for i := len(g.scope) - 1; i >= 0; i-- {
			if sh := g.scope[i].shape; sh != "simple" && sh != "primitive" && sh != "untyped" && sh != "var" {
				d = g.scope[i]
				break
			}
		}
	}
	g.lastUse = &d
	g.use("use.declaredVariable")
	switch d.kind {
	case "parameter":
		g.use("use.ofParameter")
	case "local":
		g.use("use.ofLocal")
	case "field":
		g.use("use.ofField")
	case "forVariable":
		g.use("use.ofForVariable")
	case "catchParameter":
		g.use("use.ofCatchParameter")
	case "resource":
		g.use("use.ofResource")
	case "lambdaParameter":
		g.use("use.ofLambdaParameter")
	case "patternVariable":
		g.use("use.ofPatternVariable")
	case "recordComponent":
		g.use("use.ofRecordComponent")
	default:
		panic("c09: unknown kind of declared variable " + d.kind)
	}
	if resolved {
		g.resolvedUse(&d)
	}
	return d.name
}

// resolvedUse labels a use whose declared type the tool resolves, by the shape of that type.
func (g *gen) resolvedUse(d *declared) {
	if d == nil {
		return
	}
	g.use("receiver.declared")
	if d.ann {
		g.use("receiver.declaredAs.annotatedType")
	}
	switch d.shape {
	case "simple":
		g.use("receiver.declaredAs.simple")
	case "primitive":
		g.use("receiver.declaredAs.primitive")
	case "typeArguments":
		g.use("receiver.declaredAs.typeArguments")
	case "qualified":
		g.use("receiver.declaredAs.qualified")
	case "qualifiedTypeArguments":
		g.use("receiver.declaredAs.qualifiedTypeArguments")
	case "nested":
		g.use("receiver.declaredAs.nested")
	case "nestedTypeArguments":
		g.use("receiver.declaredAs.nestedTypeArguments")
	case "innerOfGeneric":
		g.use("receiver.declaredAs.innerOfGeneric")
	case "innerOfGenericTypeArguments":
		g.use("receiver.declaredAs.innerOfGenericTypeArguments")
	case "array":
		g.use("receiver.declaredAs.array")
	case "var":
		g.use("receiver.declaredAs.var")
	case "untyped":
		g.use("receiver.declaredAs.untyped")
	default:
		panic("c09: unknown shape of a declared type " + d.shape)
	}
}

// typeUseName is a type name at a use site: now and then the simple name of one of the unit's imports or
// the name of an enclosing class (the names the full pass resolves), else def.
func (g *gen) typeUseName(def string) string {
	switch g.pickW(16, 3, 2) {
	case 1:
		if len(g.imported) > 0 {
			g.use("typeName.imported")
			return g.imported[g.n(len(g.imported))]
		}
	case 2:
		if len(g.cls) > 0 {
			g.use("typeName.enclosingClass")
			return g.cls[len(g.cls)-1-g.n(len(g.cls))]
		}
	}
	return def
}

func newGen(t *rapid.T) *gen {
	return &gen{t: t, labels: map[string]int{}}
}

// n draws 0..k-1; 0 is always the plainest alternative (shrinking target).
func (g *gen) n(k int) int {
	if k <= 1 {
		return 0
	}
	return rapid.IntRange(0, k-1).Draw(g.t, "c")
}

// chance is true with probability pct/100; shrinks to false.
func (g *gen) chance(pct int) bool {
	return rapid.IntRange(0, 99).Draw(g.t, "p") >= 100-pct
}

// pickW draws an index with the given weights; out of fuel or too deep it returns 0.
func (g *gen) pickW(w ...int) int {
	if g.fuel <= 0 || g.depth > g.limit() {
		return 0
	}
	total := 0
	for _, x := range w {
		total += x
	}
	r := rapid.IntRange(0, total-1).Draw(g.t, "w")
	for i, x := range w {
		if r < x {
			return i
		}
		r -= x
	}
	return 0
}

// pickT is pickW for the shape of a type: the outermost type of a declaration is drawn even when the unit is
// out of fuel or deep (a type is a few tokens and cannot recurse: its type arguments are then plain), a type
// nested in type arguments only while the unit is rich, and never below three levels.
func (g *gen) pickT(w ...int) int {
	if g.tdepth > 2 || (g.tdepth > 0 && !g.rich()) {
		return 0
	}
	total := 0
	for _, x := range w {
		total += x
	}
	r := rapid.IntRange(0, total-1).Draw(g.t, "w")
	for i, x := range w {
		if r < x {
			return i
		}
		r -= x
	}
	return 0
}

func (g *gen) rich() bool { return g.fuel > 0 && g.depth <= g.limit() }

func (g *gen) use(label string) { g.labels[label]++ }

func (g *gen) w(toks ...string) {
	g.toks = append(g.toks, toks...)
}

func (g *gen) glue(tok string) { g.toks = append(g.toks, "\x00"+tok) }

// comment shapes sprinkled between tokens (the todo scan reads them)
var commentShapes = []string{
	"/* c */", "//\n", "/**/", "// TODO: fix this\n", "/* TODO */", "// FIXME\n", "/** doc\n * TODO(bob): later\n */",
	"// TODO(a.b+c@d): y\n", "//todo:::\n", "// TODO ()\n", "/* fixme(x)*/", "// заметка TODO 漢字\n", "/* ünï */", "//TODO\n",
	"// # not python\n", "/* * */", "// todo(me) : (you)\n", "/*TODO(a):*/", "// FIXME: ſ ı\n", "/***/",
	// boundary lengths of the text after the marker, markers cut short or run on, assignee brackets of every shape
	"//a\n", "//ab\n", "//abc\n", "//abcd\n", "// done\n", "//abcde\n", "/*ab*/", "/*a*/", "// T\n", "// TO\n", "// TOD\n", "// FIXM\n", "//FIX\n",
	"// TODOS\n", "//todoist x\n", "// FIXMEE\n", "// TODO(\n", "// TODO(a\n", "// TODO)\n", "// TODO(a)\n", "//TODO(a)b\n", "// TODO(a):\n", "// TODO :\n", "// TODO:\n",
	"// TODO\t(tab) x\n", "// TODO(ünï) x\n", "// TODO(a b) c\n", "// TODO((a)) b\n", "// TODO(a)(b)\n", "// TODO() x\n", "// f\u0131xme x\n", "// \uff34\uff2f\uff24\uff2f x\n",
	"/*TODO*/", "/*FIXME*/", "/* TODO(x) */", "/** TODO */", "/*\n * FIXME(bob): multi\n * line\n */", "/* TODO\n*/", "/*\n TODO */", "/* TODO: a */ /* FIXME: b */",
	"// TODO TODO FIXME\n", "// TODO: // nested\n", "// TODO: /* nested */\n", "/* TODO: // nested */", "// TODO: \"quoted\" 'c'\n", "//  \t \n",
}

func (g *gen) maybeComment() {
	if g.fuel > 0 && rapid.IntRange(0, 39).Draw(g.t, "cm") == 39 {
		g.use("hidden.comment")
		g.w(commentShapes[g.n(len(commentShapes))])
	}
}

func (g *gen) render() string {
	var sb strings.Builder
	paren := 0
	nl := true
	for _, tk := range g.toks {
		glued := strings.HasPrefix(tk, "\x00")
		if glued {
			tk = tk[1:]
		}
		if !glued && !nl {
			if g.sep != "" {
				sb.WriteString(g.sep)
			} else {
				sb.WriteByte(' ')
			}
		}
		sb.WriteString(tk)
		nl = strings.HasSuffix(tk, "\n")
		switch tk {
		case "(":
			paren++
		case ")":
			if paren > 0 {
				paren--
			}
		case "{", "}", ";":
			if paren == 0 && g.layout != 3 {
				sb.WriteByte('\n')
				nl = true
			}
		}
	}
	text := sb.String()
	switch g.layout {
	case 1:
		text = strings.ReplaceAll(text, "\n", "\r\n")
	case 2:
		text = strings.TrimRight(text, "\n")
	case 4:
		text = strings.ReplaceAll(text, "\n", "\r")
	}
	text = g.lead + text + g.trail
	if g.eofComment != "" {
		if text != "" && !strings.HasSuffix(text, "\n") && !strings.HasSuffix(text, "\r") {
			text += " "
		}
		text += g.eofComment
	}
	return text
}

// layoutAndTail draws the layout of the rendered text and the comment that may end the file. It is
// called after the unit has been generated, so that the structure shrinks independently of it.
func (g *gen) layoutAndTail() {
	switch rapid.IntRange(0, 15).Draw(g.t, "layout") {
	case 12:
		g.use("layout.crlf")
		g.layout = 1
	case 13:
		g.use("layout.noFinalNewline")
		g.layout = 2
	case 14:
		g.use("layout.fewLines")
		g.layout = 3
	case 15:
		g.use("layout.crOnly")
		g.layout = 4
	}
	if rapid.IntRange(0, 9).Draw(g.t, "eofComment") == 9 {
		g.use("hidden.commentAtEndOfFile")
		g.eofComment = strings.TrimSuffix(commentShapes[g.n(len(commentShapes))], "\n")
	}
	// added by the checklist audit, each behind its own draw: what separates the tokens, white space around the
	// text, one very long line
	switch rapid.IntRange(0, 24).Draw(g.t, "spacing") {
	case 20:
		g.use("layout.tabs")
		g.sep = "\t"
	case 21:
		g.use("layout.runsOfBlanks")
		g.sep = "     "
	case 22:
		g.use("layout.formFeed")
		g.sep = "\f"
	case 23:
		g.use("layout.mixedWhiteSpace")
		g.sep = " \t \f "
	case 24:
		g.use("layout.blankLinesBetweenTokens")
		g.sep = "\n\n"
	}
	switch rapid.IntRange(0, 19).Draw(g.t, "edges") {
	case 17:
		g.use("layout.leadingBlankLines")
		g.lead = []string{"\n", "\n\n\n", " \t\n", "\r\n\r\n", "\f\n  "}[g.n(5)]
	case 18:
		g.use("layout.trailingWhiteSpace")
		g.trail = []string{"\n\n", "  ", "\t\n \n", "\r\n\r\n", "\f"}[g.n(5)]
	case 19:
		g.use("layout.leadingBlankLines")
		g.use("layout.trailingWhiteSpace")
		g.lead, g.trail = "\n\n", "\n\n\n"
	}
	if rapid.IntRange(0, 29).Draw(g.t, "longLine") == 29 {
		// a line longer than the usual buffer sizes (4096, 65536 bytes), as comment in front of the unit
		n := []int{4200, 66000}[g.pick2(3, 1)]
		switch g.n(4) {
		case 0:
			g.use("layout.veryLongLine")
			g.lead += "// " + strings.Repeat("x", n) + "\n"
		case 1:
			g.use("layout.veryLongLine")
			g.lead += "// TODO " + strings.Repeat("long ", n/5) + "\n"
		case 2:
			g.use("layout.veryLongLine")
			g.lead += "/* " + strings.Repeat("y", n) + " */\n"
		case 3:
			g.use("layout.veryLongLine")
			g.lead += "// TODO(" + strings.Repeat("a", n) + ") x\n"
		}
		if n > 65536 {
			g.use("layout.veryLongLine.over64k")
		}
	}
}

// pick2 draws an index with the given weights whatever the fuel and depth are (layout and project draws).
func (g *gen) pick2(w ...int) int {
	total := 0
	for _, x := range w {
		total += x
	}
	r := rapid.IntRange(0, total-1).Draw(g.t, "w2")
	for i, x := range w {
		if r < x {
			return i
		}
		r -= x
	}
	return 0
}

// ---------------------------------------------------------------------------------------
// names

var (
	lowerNames = []string{"a", "b", "x", "foo", "bar", "value", "i", "it", "$v", "_u", "x1", "getName", "setName", "isOk", "nullable", "get", "set", "is", "main", "test", "of", "переменная", "ünï", "变量", "𝒳y", "ſ", "émile",
		"getter", "settle", "issue", "get1", "get_", "getX", "setX", "isX", "ge", "se", "g", "$", "$$", "$get", "_set", "gett", "sets", "iss", "ping", "pong", "serve", "handle", "run", "toString", "equals", "hashCode", "length", "out", "println",
		// added by the checklist audit: names that contain the words the tool looks for in expression texts, case variants of type names, a very long name
		"mythis", "xsuper", "Foo", "FOO", "nbAlpha", "todo", longLowerName}
	upperNames = []string{"A", "B", "Foo", "Bar", "T", "Outer", "String", "Object", "List", "E", "Ünï", "Класс", "漢字", "Ω", "Élan", "$T", "_K", "İ",
		"NbAlpha", "NbOmega", "NbService", "Test", "Tests", "FooTest", "Util", "StringUtils", "FooService", "Get", "Set", "System", "Thread", "X", "$", "Z9",
		// added by the checklist audit: case variants of variable names, names of the annotations the tool looks for, a very long name
		"foo", "FOO", "This", "Super", "Override", "RestController", longUpperName}
	ctxKeywords = []string{"module", "open", "requires", "exports", "opens", "to", "uses", "provides", "with", "transitive", "yield", "sealed", "permits", "record", "var"}
	pkgParts    = []string{"a", "b", "com", "example", "util", "x1", "пакет", "to", "open", "with", "zz", "nb", "test", "java", "lang"}
)

// a name longer than any fixed-size buffer one might think of (300 characters)
var (
	longLowerName = "a" + strings.Repeat("VeryLongName", 25)
	longUpperName = "A" + strings.Repeat("veryLongName", 25)
)

// lname is a variable / field / method / parameter name in a declaring position or after '.'
func (g *gen) lname() string {
	switch g.pickW(12, 3, 2) {
	case 1:
		s := lowerNames[g.n(len(lowerNames))]
		if s[0] >= 0x80 || strings.ContainsAny(s, "ſ") {
			g.use("identifier.nonAscii")
		}
		return s
	case 2:
		g.use("identifier.contextualKeyword")
		return ctxKeywords[g.n(len(ctxKeywords))]
	}
	return lowerNames[g.n(7)]
}

// sname is a simple name used inside expressions (never a contextual keyword)
func (g *gen) sname() string {
	if g.pickW(8, 2) == 1 {
		s := lowerNames[g.n(len(lowerNames))]
		if s[0] >= 0x80 {
			g.use("identifier.nonAscii")
		}
		return s
	}
	return lowerNames[g.n(7)]
}

// tname is a type name
func (g *gen) tname() string {
	if g.pickW(8, 2) == 1 {
		s := upperNames[g.n(len(upperNames))]
		if s[0] >= 0x80 {
			g.use("identifier.nonAscii")
		}
		return s
	}
	return upperNames[g.n(8)]
}

func (g *gen) qualifiedName(max int) {
	k := 1 + g.n(max)
	for i := 0; i < k; i++ {
		if i > 0 {
			g.glue(".")
			g.glue(pkgParts[g.n(len(pkgParts))])
		} else {
			g.w(pkgParts[g.n(len(pkgParts))])
		}
	}
	if k > 1 {
		g.use("qualifiedName.dotted")
	}
}

// ---------------------------------------------------------------------------------------
// literals

var (
	intLits    = []string{"0", "1", "42", "1_000", "7L", "0x1F", "0XcafeL", "0x1_F", "017", "0_7", "00", "0b101", "0B1_0l", "2147483647", "9__9"}
	floatLits  = []string{"1.0", "1.", ".5", "1e3", "1.5e-3f", "2D", "3f", "1_0.0_1", "0x1.8p1", "0x.8P-2f", "0x1p3", "1E+2d"}
	charLits   = []string{"'a'", "'\\n'", "'\\''", "'\\\\'", "'\\u0041'", "'\\uuu0041'", "'\\177'", "'\\0'", "'é'", "'漢'", "'\"'", "'#'", "' '", "'\\t'"}
	strLits    = []string{`""`, `"s"`, `"a b"`, `"a\tb\"c\\"`, `"\101é"`, `"é漢字😀"`, `"// not a comment"`, `"/* nor this */"`, `"#"`, `"TODO"`, `"'"`, `"null"`, `"x.y(z)"`, `"{}"`, `"\0"`}
	textBlocks = []string{
		"\"\"\"\n   hello\n   \"\"\"", "\"\"\"\n\"\"\"", "\"\"\" \t\n  a \"quoted\" \\\" b\n  \"\"\"", "\"\"\"\n  é漢字 \\n \\\n  x\"\"\"",
		"\"\"\"\n  // TODO in text\n  /* x */\n  \"\"\"", "\"\"\"\n  line #\n  # \n  \"\"\"", "\"\"\"\n  a ' b `c`\n  \"\"\"",
		// added by the checklist audit: lines that look like comments of the todo scan's lexer, with every marker shape; an unbalanced backtick; a comment opener without end
		"\"\"\"\n  # TODO: in text\n  #FIXME(bob) x\n  #TODO\n  #\n  \"\"\"", "\"\"\"\n  # todo(a\n  ## FIXME ()\n  #\t\n  \"\"\"", "\"\"\"\n  one ` backtick\n  \"\"\"", "\"\"\"\n  /* TODO opened in text\n  \"\"\"", "\"\"\"\n  //\n  //TODO\n  // FIXME(\n  \"\"\"",
	}
)

func (g *gen) literal() {
	switch g.pickW(6, 3, 2, 2, 2, 1, 1, 1, 1, 1) {
	case 0:
		g.use("integerLiteral.decimal")
		g.w(intLits[g.n(3)])
	case 1:
		g.use("literal.string")
		s := strLits[g.n(len(strLits))]
		for _, r := range s {
			if r >= 0x80 {
				g.use("literal.nonAscii")
				break
			}
		}
		g.w(s)
	case 2:
		s := intLits[g.n(len(intLits))]
		switch {
		case strings.HasPrefix(strings.ToLower(s), "0x"):
			g.use("integerLiteral.hex")
		case strings.HasPrefix(strings.ToLower(s), "0b"):
			g.use("integerLiteral.binary")
		case len(s) > 1 && s[0] == '0':
			g.use("integerLiteral.octal")
		default:
			g.use("integerLiteral.decimal")
		}
		g.w(s)
	case 3:
		s := floatLits[g.n(len(floatLits))]
		if strings.HasPrefix(s, "0x") {
			g.use("floatLiteral.hexFloat")
		} else {
			g.use("floatLiteral.float")
		}
		g.w(s)
	case 4:
		g.use("literal.char")
		s := charLits[g.n(len(charLits))]
		for _, r := range s {
			if r >= 0x80 {
				g.use("literal.nonAscii")
				break
			}
		}
		g.w(s)
	case 5:
		g.use("literal.bool")
		g.w([]string{"true", "false"}[g.n(2)])
	case 6:
		g.use("literal.null")
		g.w("null")
	case 7:
		g.use("literal.textBlock")
		g.w(textBlocks[g.n(len(textBlocks))])
	case 8:
		g.use("literal.string")
		g.w(`"s"`)
	case 9:
		g.use("literal.bool")
		g.w("true")
	}
}

// ---------------------------------------------------------------------------------------
// annotations

// names the analysed tool reacts to (Spring MVC, DI, JUnit); any name is valid Java
var frameworkAnnotations = []string{"RestController", "Controller", "RequestMapping", "GetMapping", "PostMapping", "PutMapping", "DeleteMapping",
	"RequestBody", "PathVariable", "Valid", "Component", "Repository", "Service", "ServiceMethod", "Autowired", "Test", "Ignore", "Override"}

// annotation emits one annotation. alt: allow the `pkg.@Name` form (valid Java only in front
// of a type).
func (g *gen) annotation(alt bool) (usedAlt bool) {
	g.depth++
	defer func() { g.depth-- }()
	g.fuel--
	if alt && g.pickW(5, 1) == 1 {
		usedAlt = true
		g.use("annotation.altQualifiedName")
		g.qualifiedName(2)
		g.glue(".")
		g.glue("@")
		g.glue(g.tname())
	} else {
		g.w("@")
		if g.pickW(5, 1) == 1 {
			g.use("annotation.qualified")
			if g.spring && g.chance(35) {
				// a name the tool reacts to, written with its package
				g.use("annotation.qualifiedFrameworkName")
				g.frameworkPackage()
				g.glue(frameworkAnnotations[g.n(len(frameworkAnnotations))])
			} else {
				g.qualifiedName(2)
				g.glue(".")
				g.glue(g.tname())
			}
		} else {
			if g.spring && g.pickW(1, 3) == 1 {
				g.use("annotation.frameworkName")
				g.glue(frameworkAnnotations[g.n(len(frameworkAnnotations))])
			} else {
				g.glue([]string{"Ann", "Override", "Deprecated", "A", "Foo", "Ünï", "Test"}[g.pickW(3, 2, 1, 1, 1, 1, 1)])
			}
		}
	}
	switch g.pickW(6, 2, 4, 4) {
	case 0:
		g.use("annotation.marker")
	case 1:
		g.use("annotation.emptyParens")
		g.w("(", ")")
	case 2:
		g.use("annotation.singleValue")
		g.w("(")
		g.elementValue()
		g.w(")")
	case 3:
		g.use("annotation.pairs")
		g.w("(")
		k := 1 + g.n(3)
		for i := 0; i < k; i++ {
			if i > 0 {
				g.w(",")
			}
			g.w([]string{"value", "name", "k", "method", "path", "with"}[g.n(6)], "=")
			g.elementValue()
		}
		g.w(")")
	}
	return usedAlt
}

// frameworkPackage emits the package of the framework annotations, glued to the `@` before it and with the dot after it
func (g *gen) frameworkPackage() {
	for _, part := range [][]string{{"org", "springframework", "web", "bind", "annotation"}, {"org", "springframework", "stereotype"}, {"org", "junit"}, {"spring"}}[g.n(4)] {
		g.glue(part)
		g.glue(".")
	}
}

// frameworkMapping: a request-mapping annotation with an arbitrary (valid) argument form
func (g *gen) frameworkMapping() {
	g.use("annotation.frameworkName")
	g.w("@")
	if g.chance(12) {
		g.use("annotation.qualified")
		g.use("annotation.qualifiedFrameworkName")
		g.frameworkPackage()
	}
	name := []string{"RequestMapping", "GetMapping", "PostMapping", "PutMapping", "DeleteMapping"}[g.pickW(3, 2, 1, 1, 1)]
	g.glue(name)
	form := g.pickW(2, 4, 4)
	if name == "RequestMapping" && form == 1 && g.chance(40) {
		form = 2 // @RequestMapping(value = "/p", method = RequestMethod.GET) is the usual way to write it
	}
	switch form {
	case 0:
		g.use("annotation.marker")
	case 1:
		g.use("annotation.singleValue")
		g.w("(")
		g.elementValue()
		g.w(")")
	case 2:
		g.use("annotation.pairs")
		g.w("(")
		k := 1 + g.n(2)
		for i := 0; i < k; i++ {
			if i > 0 {
				g.w(",")
			}
			key := []string{"value", "method", "path", "produces"}[g.n(4)]
			if name == "RequestMapping" && g.chance(40) {
				key = "method"
			}
			g.w(key, "=")
			alt := g.pickW(3, 2, 3)
			if key == "method" && alt == 0 && g.chance(50) {
				alt = 1 + g.n(2) // the verb is a RequestMethod constant or an array of them rather than any element value
			}
			switch alt {
			case 1:
				g.use("elementValue.qualifiedConstant")
				g.w("RequestMethod")
				g.glue(".")
				g.glue([]string{"GET", "POST", "PUT", "DELETE", "PATCH"}[g.n(5)])
			case 2:
				// the array notations of the same thing: method = {RequestMethod.GET}, value = {"/a", "/b"}, {}, {X,}
				g.use("elementValue.array")
				g.use("elementValue.mappingArray")
				g.w("{")
				n := g.n(4)
				for j := 0; j < n; j++ {
					if j > 0 {
						g.w(",")
					}
					if key == "method" || g.chance(30) {
						g.use("elementValue.qualifiedConstant")
						if g.chance(70) {
							g.w("RequestMethod")
							g.glue(".")
							g.glue([]string{"GET", "POST", "PUT", "DELETE", "PATCH"}[g.n(5)])
						} else {
							g.w([]string{"GET", "POST", "PUT"}[g.n(3)])
						}
					} else {
						g.use("elementValue.constant")
						g.use("literal.string")
						g.w([]string{`"/p"`, `""`, `"/a/{id}"`, `"/"`, `"{x}"`}[g.n(5)])
					}
				}
				if n == 0 {
					g.use("elementValueArrayInitializer.empty")
				}
				if g.chance(20) {
					g.use("elementValueArrayInitializer.trailingComma")
					g.w(",")
				}
				g.w("}")
			default:
				g.elementValue()
			}
		}
		g.w(")")
	}
}

func (g *gen) elementValue() {
	g.depth++
	defer func() { g.depth-- }()
	g.fuel--
	switch g.pickW(5, 2, 2, 2, 3, 2, 1, 2, 2) {
	case 7:
		g.use("elementValue.simpleConstantName")
		g.w([]string{"P", "K", "PATH", "x", "Ω"}[g.n(5)])
	case 8:
		g.use("elementValue.constant")
		g.use("literal.string")
		g.w([]string{`"/p"`, `""`, `"/a/{id}"`, `"/"`}[g.n(4)])
	case 0:
		g.use("elementValue.constant")
		g.literal()
	case 1:
		g.use("elementValue.qualifiedConstant")
		g.w(g.tname())
		g.glue(".")
		g.glue([]string{"GET", "MAX", "value", "K"}[g.n(4)])
	case 2:
		g.use("elementValue.annotation")
		g.annotation(false)
	case 3:
		g.use("elementValue.expression")
		g.ternary()
	case 4:
		g.use("elementValue.array")
		g.w("{")
		k := g.n(4)
		for i := 0; i < k; i++ {
			if i > 0 {
				g.w(",")
			}
			g.elementValue()
		}
		if k == 0 {
			g.use("elementValueArrayInitializer.empty")
		}
		if g.chance(20) {
			g.use("elementValueArrayInitializer.trailingComma")
			g.w(",")
		}
		g.w("}")
	case 5:
		g.use("elementValue.classLiteral")
		g.w(g.tname())
		g.glue(".")
		g.glue("class")
	case 6:
		g.use("elementValue.negative")
		g.w("-", "1")
	}
}

func (g *gen) annotations(pct int, alt bool) {
	for i := 0; i < 3 && g.rich() && g.chance(pct); i++ {
		g.annotation(alt)
	}
}

// ---------------------------------------------------------------------------------------
// types

var primitives = []string{"int", "boolean", "long", "double", "char", "byte", "short", "float"}

// typeType emits a type. ann: type annotations allowed here; arr: array dimensions allowed.
func (g *gen) typeType(ann, arr bool) {
	g.depth++
	defer func() { g.depth-- }()
	g.fuel--
	kind := -1
	annotated := false
	if ann && g.rich() && g.chance(8) {
		g.use("typeType.annotated")
		annotated = true
		if g.annotation(true) {
			kind = 0 // `pkg.@Ann Name`: the annotation qualifies a simple type name
		}
		for i := 0; i < 2 && g.chance(25); i++ {
			g.use("typeType.severalAnnotations")
			g.annotation(false)
		}
	}
	if kind < 0 {
		kind = g.pickT(6, 4, 3, 3, 1, 3)
	}
	g.tdepth++
	defer func() { g.tdepth-- }()
	shape := "simple"
	switch kind {
	case 0:
		g.use("classOrInterfaceType.simple")
		g.w(g.typeUseName([]string{"String", "Object", "Foo", "T"}[g.n(4)]))
	case 1:
		g.use("typeType.primitive")
		g.w(primitives[g.n(len(primitives))])
		shape = "primitive"
	case 2:
		g.use("classOrInterfaceType.typeArguments")
		g.w(g.typeUseName(g.tname()))
		g.typeArguments()
		shape = "typeArguments"
	case 3:
		shape = g.qualifiedType(45)
	case 4:
		shape = g.innerOfGenericType(50)
	case 5:
		shape = g.nestedTypeName(50)
	}
	if arr && g.rich() && g.chance(15) {
		g.use("typeType.array")
		shape = "array"
		k := 1 + g.n(2)
		for i := 0; i < k; i++ {
			if ann && g.chance(10) {
				g.use("typeType.annotatedDims")
				g.annotation(false)
			}
			g.w("[")
			g.glue("]")
		}
	}
	g.lastShape, g.lastAnn = shape, annotated
}

// qualifiedType: `a.b.T`, `a.b.T<X>` (the first '<' comes after a dot), `a.b.Outer.Inner<X>`
func (g *gen) qualifiedType(pctArgs int) string {
	g.use("classOrInterfaceType.qualified")
	g.qualifiedName(2)
	g.glue(".")
	g.glue(g.tname())
	if g.chance(15) {
		g.use("classOrInterfaceType.qualifiedNested")
		g.glue(".")
		g.glue(g.tname())
	}
	if g.chance(pctArgs) {
		g.use("classOrInterfaceType.qualifiedTypeArguments")
		g.typeArguments()
		return "qualifiedTypeArguments"
	}
	return "qualified"
}

// innerOfGenericType: `A<X>.B`, `A<X>.B<Y>`
func (g *gen) innerOfGenericType(pctArgs int) string {
	g.use("classOrInterfaceType.innerOfGeneric")
	g.w(g.typeUseName(g.tname()))
	g.typeArguments()
	g.glue(".")
	g.glue(g.tname())
	if g.chance(pctArgs) {
		g.use("classOrInterfaceType.innerOfGenericTypeArguments")
		g.typeArguments()
		return "innerOfGenericTypeArguments"
	}
	return "innerOfGeneric"
}

// nestedTypeName: a member type named through its outer type, `Map.Entry`, `Map.Entry<K, V>`
func (g *gen) nestedTypeName(pctArgs int) string {
	g.use("classOrInterfaceType.nested")
	g.w(g.typeUseName(g.tname()))
	g.glue(".")
	g.glue(g.tname())
	if g.chance(pctArgs) {
		g.use("classOrInterfaceType.nestedTypeArguments")
		g.typeArguments()
		return "nestedTypeArguments"
	}
	return "nested"
}

// refType is a class or interface type (no primitives, no arrays): extends/implements/throws-like places
func (g *gen) refType(ann bool) {
	g.depth++
	defer func() { g.depth-- }()
	g.fuel--
	kind := -1
	annotated := false
	if ann && g.rich() && g.chance(6) {
		g.use("typeType.annotated")
		annotated = true
		if g.annotation(true) {
			kind = 0
		}
		for i := 0; i < 2 && g.chance(25); i++ {
			g.use("typeType.severalAnnotations")
			g.annotation(false)
		}
	}
	if kind < 0 {
		kind = g.pickT(6, 3, 2, 1, 2)
	}
	g.tdepth++
	defer func() { g.tdepth-- }()
	shape := "simple"
	switch kind {
	case 0:
		g.use("classOrInterfaceType.simple")
		g.w(g.typeUseName(g.tname()))
	case 1:
		g.use("classOrInterfaceType.typeArguments")
		g.w(g.typeUseName(g.tname()))
		g.typeArguments()
		shape = "typeArguments"
	case 2:
		shape = g.qualifiedType(45)
	case 3:
		shape = g.innerOfGenericType(30)
	case 4:
		shape = g.nestedTypeName(50)
	}
	g.lastShape, g.lastAnn = shape, annotated
}

func (g *gen) typeArguments() {
	g.use("typeArguments")
	g.glue("<")
	k := 1 + g.n(2)
	for i := 0; i < k; i++ {
		if i > 0 {
			g.w(",")
		}
		g.typeArgument()
	}
	g.glue(">")
}

func (g *gen) typeArgument() {
	g.depth++
	defer func() { g.depth-- }()
	switch g.pickW(6, 1, 2, 1, 1) {
	case 0:
		g.use("typeArgument.type")
		g.refOrArrayType()
	case 1:
		g.use("typeArgument.wildcard")
		g.w("?")
	case 2:
		g.use("typeArgument.wildcardExtends")
		g.w("?", "extends")
		g.refOrArrayType()
	case 3:
		g.use("typeArgument.wildcardSuper")
		g.w("?", "super")
		g.refOrArrayType()
	case 4:
		g.use("typeArgument.annotatedWildcard")
		g.annotation(false)
		g.w("?")
	}
}

// refOrArrayType: a reference type or an array type (legal as type argument)
func (g *gen) refOrArrayType() {
	if g.pickW(6, 1) == 1 {
		g.use("typeType.array")
		g.use("typeType.primitive")
		g.w(primitives[g.n(len(primitives))], "[")
		g.glue("]")
		return
	}
	g.refType(true)
	if g.rich() && g.chance(10) {
		g.use("typeType.array")
		g.w("[")
		g.glue("]")
	}
}

func (g *gen) typeList() {
	k := 1 + g.n(3)
	for i := 0; i < k; i++ {
		if i > 0 {
			g.w(",")
		}
		g.refType(true)
	}
	if k > 1 {
		g.use("typeList.several")
	}
}

func (g *gen) typeParameters() {
	g.use("typeParameters")
	g.w("<")
	k := 1 + g.n(2)
	for i := 0; i < k; i++ {
		if i > 0 {
			g.w(",")
		}
		if g.chance(10) {
			g.use("typeParameter.annotated")
			g.annotation(false)
		}
		g.w([]string{"T", "U", "K", "V", "Ünï"}[g.n(5)])
		if g.chance(40) {
			g.use("typeParameter.bound")
			g.w("extends")
			if g.chance(15) {
				g.use("typeParameter.boundAnnotated")
				g.annotation(false)
			}
			g.refType(false)
			for j := 0; j < 2 && g.chance(30); j++ {
				g.use("typeBound.intersection")
				g.w("&")
				g.refType(false)
			}
		}
	}
	g.w(">")
}

func (g *gen) dims(pct int, label string) { g.dimsN(pct, label) }

// dimsN is dims and tells how many dimensions it has written.
func (g *gen) dimsN(pct int, label string) int {
	n := 0
	for i := 0; i < 2 && g.chance(pct); i++ {
		g.use(label)
		g.w("[")
		g.glue("]")
		n++
	}
	return n
}
