package jgram

// Statements and blocks.

func (g *gen) block(ctorBody bool) {
	g.depth++
	defer func() { g.depth-- }()
	defer g.release(g.mark()) // the local variables of the block
	g.w("{")
	if ctorBody && g.pickW(3, 2) == 1 {
		g.explicitConstructorCall()
	}
	g.blockStatements(false)
	g.w("}")
}

func (g *gen) explicitConstructorCall() {
	switch g.pickW(3, 3, 1, 1, 1, 1) {
	case 0:
		g.use("methodCall.this")
		g.w("this")
		g.arguments()
	case 1:
		g.use("methodCall.super")
		g.w("super")
		g.arguments()
	case 2:
		g.use("primary.genericThisCall")
		g.nonWildcardTypeArguments()
		g.w("this")
		g.arguments()
	case 3:
		g.use("primary.genericSuperCall")
		g.use("explicitGenericInvocationSuffix.super")
		g.nonWildcardTypeArguments()
		g.w("super")
		g.arguments()
	case 4:
		g.use("expression.qualifiedSuperCall")
		g.use("methodCall.super")
		g.w(g.vname(false, 45))
		g.glue(".")
		g.glue("super")
		g.arguments()
	case 5:
		g.use("expression.qualifiedGenericSuperCall")
		g.use("explicitGenericInvocationSuffix.super")
		g.w(g.vname(false, 45))
		g.glue(".")
		g.nonWildcardTypeArguments()
		g.w("super")
		g.arguments()
	}
	g.w(";")
}

func (g *gen) blockStatements(inSwitchExpr bool) {
	k := g.pickW(2, 3, 4, 3, 3, 2, 1)
	for i := 0; i < k; i++ {
		g.blockStatement()
	}
}

func (g *gen) blockStatement() {
	g.depth++
	defer func() { g.depth-- }()
	g.fuel--
	g.maybeComment()
	switch g.pickW(10, 5, 1, 1) {
	case 0:
		g.statement()
	case 1:
		g.use("blockStatement.localVariableDeclaration")
		g.localVariableDeclaration()
		g.w(";")
	case 2:
		g.use("blockStatement.localTypeDeclaration")
		switch g.pickW(3, 1, 1, 1) {
		case 1:
			g.use("classOrInterfaceModifier.final")
			g.w("final")
		case 2:
			g.use("classOrInterfaceModifier.abstract")
			g.w("abstract")
		case 3:
			g.use("classOrInterfaceModifier.annotation")
			g.annotation(false)
		}
		g.pendingLocal = true
		switch g.pickW(4, 1, 1) {
		case 0:
			g.use("localTypeDeclaration.class")
			g.classDeclaration()
		case 1:
			g.use("localTypeDeclaration.interface")
			g.interfaceDeclaration()
		case 2:
			g.use("localTypeDeclaration.record")
			g.recordDeclaration()
		}
	case 3:
		g.use("statement.semi")
		g.w(";")
	}
}

func (g *gen) variableModifiers() {
	switch g.pickW(8, 2, 1, 1, 1, 1) {
	case 1:
		g.use("variableModifier.final")
		g.w("final")
	case 2:
		g.use("variableModifier.annotation")
		g.annotation(false)
	case 3:
		g.use("variableModifier.final")
		g.use("variableModifier.annotation")
		g.w("final")
		g.annotation(false)
	case 4:
		g.use("variableModifier.final")
		g.use("variableModifier.annotation")
		g.use("variableModifier.annotationBeforeFinal")
		g.annotation(false)
		g.w("final")
	case 5:
		g.use("variableModifier.annotation")
		g.use("variableModifier.severalAnnotations")
		g.annotation(false)
		g.annotation(false)
	}
}

func (g *gen) localVariableDeclaration() {
	g.variableModifiers()
	if g.pickW(5, 1) == 1 {
		g.use("localVariableDeclaration.var")
		name := g.lname()
		g.w("var", name, "=")
		g.expr()
		g.declareAs(name, "local", "var", false)
		return
	}
	g.use("localVariableDeclaration.typed")
	g.typeType(true, true)
	g.variableDeclarators("local")
}

// variableDeclarators: the declarators of a field or local variable declaration whose type has just been
// emitted; every name becomes a declared variable of that kind (visible from its own initialiser on).
func (g *gen) variableDeclarators(kind string) {
	shape, ann := g.lastShape, g.lastAnn
	k := 1 + g.pickW(6, 1, 1)
	for i := 0; i < k; i++ {
		if i > 0 {
			g.w(",")
		}
		name := g.lname()
		g.w(name)
		if g.dimsN(8, "variableDeclaratorId.dims") > 0 {
			g.declareAs(name, kind, "array", ann)
		} else {
			g.declareAs(name, kind, shape, ann)
		}
		if g.pickW(1, 2) == 1 {
			g.use("variableDeclarator.initializer")
			g.w("=")
			g.variableInitializer()
		}
	}
	if k > 1 {
		g.use("variableDeclarators.several")
	}
}

// statementExpression: the expression forms Java allows as a statement
func (g *gen) statementExpression() {
	switch g.pickW(6, 5, 1, 1, 2, 2, 1) {
	case 0:
		g.use("primary.identifier")
		g.use("expression.dotMethodCall")
		g.w(g.vname(true, 70))
		g.glue(".")
		g.glue(g.lname())
		g.arguments()
	case 1:
		g.assignment()
	case 2:
		g.use("expression.prefixIncDec")
		g.w([]string{"++", "--"}[g.n(2)])
		g.lhs()
	case 3:
		g.use("expression.postfixIncDec")
		g.lhs()
		g.w([]string{"++", "--"}[g.n(2)])
	case 4:
		g.use("methodCall.identifier")
		g.w(g.sname())
		g.arguments()
	case 5:
		g.creator()
		if g.chance(30) {
			g.use("expression.dotMethodCall")
			g.glue(".")
			g.glue(g.lname())
			g.arguments()
		}
	case 6:
		// any postfix chain ending in a call
		g.postfixCall()
	}
}

func (g *gen) postfixCall() {
	switch g.pickW(2, 2, 1) {
	case 0:
		g.use("primary.super")
		g.w("super")
	case 1:
		g.use("primary.this")
		g.w("this")
	case 2:
		g.use("primary.parenthesized")
		g.w("(")
		g.expr()
		g.w(")")
	}
	g.use("expression.dotMethodCall")
	g.glue(".")
	g.glue(g.lname())
	g.arguments()
}

func (g *gen) parExpression() {
	g.w("(")
	g.expr()
	g.w(")")
}

func (g *gen) statement() {
	switch g.pickW(12, 4, 3, 3, 2, 2, 2, 2, 3, 2, 1, 1, 1, 1, 1, 1, 2, 1, 1) {
	case 0:
		g.use("statement.expression")
		g.statementExpression()
		g.w(";")
	case 1:
		g.use("statement.return")
		g.w("return")
		if g.pickW(1, 3) == 1 {
			g.expr()
		}
		g.w(";")
	case 2:
		g.use("statement.if")
		g.w("if")
		g.parExpression()
		g.statementOrBlock()
		if g.pickW(2, 1) == 1 {
			g.use("statement.ifElse")
			g.w("else")
			g.statementOrBlock()
		}
	case 3:
		g.forStatement()
	case 4:
		g.use("statement.while")
		g.w("while")
		g.parExpression()
		g.statementOrBlock()
	case 5:
		g.tryStatement()
	case 6:
		g.switchStatement()
	case 7:
		g.use("statement.block")
		g.block(false)
	case 8:
		g.use("statement.throw")
		g.w("throw")
		g.expr()
		g.w(";")
	case 9:
		g.use("statement.do")
		g.w("do")
		g.statementOrBlock()
		g.w("while")
		g.parExpression()
		g.w(";")
	case 10:
		g.use("statement.assert")
		g.w("assert")
		g.expr()
		if g.chance(40) {
			g.use("statement.assertMessage")
			g.w(":")
			g.expr()
		}
		g.w(";")
	case 11:
		g.use("statement.synchronized")
		g.w("synchronized")
		g.parExpression()
		g.block(false)
	case 12:
		g.use("statement.break")
		g.w("break")
		if g.chance(30) {
			g.use("statement.breakLabel")
			g.w("lbl")
		}
		g.w(";")
	case 13:
		g.use("statement.continue")
		g.w("continue")
		if g.chance(30) {
			g.use("statement.continueLabel")
			g.w("lbl")
		}
		g.w(";")
	case 14:
		g.use("statement.labeled")
		g.w([]string{"lbl", "outer", "ünï"}[g.n(3)], ":")
		g.statementOrBlock()
	case 15:
		g.use("statement.semi")
		g.w(";")
	case 16:
		g.use("statement.switchExpression")
		g.switchArrowOrExpr(true)
		if g.chance(30) {
			g.w(";")
		}
	case 17:
		g.use("statement.expression")
		g.use("expression.dotExplicitGenericInvocation")
		g.w(g.vname(true, 70))
		g.glue(".")
		g.nonWildcardTypeArguments()
		g.w(g.lname())
		g.arguments()
		g.w(";")
	case 18:
		g.use("statement.expression")
		g.use("expression.dotSuperSuffix")
		g.use("superSuffix.methodCall")
		g.w(g.tname())
		g.glue(".")
		g.glue("super")
		g.glue(".")
		g.glue(g.lname())
		g.arguments()
		g.w(";")
	}
}

func (g *gen) statementOrBlock() {
	g.depth++
	defer func() { g.depth-- }()
	if g.pickW(3, 1) == 1 {
		g.statement()
	} else {
		g.use("statement.block")
		g.block(false)
	}
}

func (g *gen) forStatement() {
	defer g.release(g.mark()) // the variables of the header
	g.w("for", "(")
	switch g.pickW(4, 3, 1, 1) {
	case 0:
		g.use("forControl.classic")
		g.use("forInit.localVariableDeclaration")
		g.w("int", "i", "=", "0", ";", "i", "<", "n", ";", "i", "++")
	case 1:
		g.use("enhancedForControl")
		g.variableModifiers()
		if g.pickW(3, 1) == 1 {
			g.use("enhancedForControl.var")
			g.w("var")
			g.lastShape, g.lastAnn = "var", false
		} else {
			g.typeType(true, true)
		}
		shape, ann := g.lastShape, g.lastAnn
		name := g.lname()
		g.w(name)
		if g.dimsN(8, "variableDeclaratorId.dims") > 0 {
			shape = "array"
		}
		g.w(":")
		g.expr()
		g.declareAs(name, "forVariable", shape, ann)
	case 2:
		g.use("forControl.classic")
		g.use("forControl.allEmpty")
		g.w(";", ";")
	case 3:
		g.use("forControl.classic")
		switch g.pickW(1, 2, 2) {
		case 1:
			g.use("forInit.localVariableDeclaration")
			g.localVariableDeclaration()
		case 2:
			g.use("forInit.expressionList")
			g.statementExpression()
			if g.chance(40) {
				g.w(",")
				g.statementExpression()
			}
		}
		g.w(";")
		if g.chance(70) {
			g.expr()
		}
		g.w(";")
		if g.chance(70) {
			g.use("forControl.update")
			g.statementExpression()
			if g.chance(40) {
				g.w(",")
				g.statementExpression()
			}
		}
	}
	g.w(")")
	g.statementOrBlock()
}

func (g *gen) catchClause() {
	g.use("catchClause")
	defer g.release(g.mark()) // the exception parameter
	g.w("catch", "(")
	g.variableModifiers()
	shape := "simple"
	k := 1 + g.pickW(4, 2, 1)
	for i := 0; i < k; i++ {
		if i > 0 {
			g.w("|")
		}
		if g.pickW(3, 1) == 1 {
			g.qualifiedName(2)
			g.glue(".")
			g.glue(g.tname())
			shape = "qualified"
		} else {
			g.w(g.typeUseName(g.tname()))
		}
	}
	if k > 1 {
		g.use("catchType.multi")
	}
	name := g.lname()
	g.w(name, ")")
	g.declareAs(name, "catchParameter", shape, false)
	g.block(false)
}

func (g *gen) tryStatement() {
	defer g.release(g.mark()) // the resources
	g.w("try")
	switch g.pickW(4, 2, 2, 3) {
	case 0:
		g.use("statement.tryCatch")
		g.block(false)
		g.catchClause()
		if g.chance(30) {
			g.catchClause()
		}
	case 1:
		g.use("statement.tryCatch")
		g.use("finallyBlock")
		g.block(false)
		g.catchClause()
		g.w("finally")
		g.block(false)
	case 2:
		g.use("statement.tryFinally")
		g.use("finallyBlock")
		g.block(false)
		g.w("finally")
		g.block(false)
	case 3:
		g.use("statement.tryWithResources")
		g.w("(")
		k := 1 + g.pickW(4, 2, 1)
		for i := 0; i < k; i++ {
			if i > 0 {
				g.w(";")
			}
			switch g.pickW(4, 2, 2) {
			case 0:
				g.use("resource.typed")
				g.variableModifiers()
				g.refType(false)
				shape := g.lastShape
				name := g.lname()
				g.w(name, "=")
				g.expr()
				g.declareAs(name, "resource", shape, false)
			case 1:
				g.use("resource.var")
				g.variableModifiers()
				name := g.lname()
				g.w("var", name, "=")
				g.expr()
				g.declareAs(name, "resource", "var", false)
			case 2:
				g.use("resource.identifier")
				g.w(g.vname(false, 45))
			}
		}
		if g.chance(25) {
			g.use("resourceSpecification.trailingSemi")
			g.w(";")
		}
		g.w(")")
		g.block(false)
		if g.chance(40) {
			g.catchClause()
		}
		if g.chance(30) {
			g.use("finallyBlock")
			g.w("finally")
			g.block(false)
		}
	}
}

// classic switch statement: SWITCH parExpression '{' switchBlockStatementGroup* switchLabel* '}'
func (g *gen) switchStatement() {
	g.use("statement.switch")
	g.w("switch")
	g.parExpression()
	g.w("{")
	k := g.pickW(1, 3, 3, 1)
	for i := 0; i < k; i++ {
		g.use("switchBlockStatementGroup")
		labels := 1 + g.pickW(4, 2)
		for j := 0; j < labels; j++ {
			g.switchLabel()
		}
		n := 1 + g.pickW(3, 2, 1)
		for j := 0; j < n; j++ {
			g.blockStatement()
		}
	}
	if g.chance(25) {
		g.use("statement.switch.trailingLabels")
		g.switchLabel()
	}
	g.w("}")
}

func (g *gen) switchLabel() {
	switch g.pickW(5, 3, 2, 1, 1) {
	case 0:
		g.use("switchLabel.constantExpression")
		g.w("case")
		g.caseConstant()
	case 1:
		g.use("switchLabel.default")
		g.w("default")
	case 2:
		g.use("switchLabel.enumConstantName")
		g.w("case", []string{"FOO", "BAR", "Red", "Ünï"}[g.n(4)])
	case 3:
		g.use("switchLabel.typePattern")
		g.w("case")
		g.patternVariable()
	case 4:
		g.use("switchLabel.constantExpression")
		g.w("case", g.tname())
		g.glue(".")
		g.glue("FOO")
	}
	g.w(":")
}
