package jgram

// Shapes added by the checklist audit: long lists (more elements than any small fixed capacity: past 8, 16, 32,
// 64) in every place where the tool appends to a slice or fills a table, and chains of types nested in each
// other with members before and after the inner type. Each is drawn at most once per unit.

import (
	"strconv"
	"strings"

	"pgregory.net/rapid"
)

// drawDepthLimit makes about every eighth unit a deep one: alternatives other than the plainest are drawn further
// down, so that anonymous, local and named types and lambdas nest in each other (classes nesting.* count the
// combinations).
func (g *gen) drawDepthLimit() {
	if rapid.IntRange(0, 7).Draw(g.t, "deep") == 7 {
		g.use("unit.deepNesting")
		g.maxDepth = []int{13, 16, 20}[rapid.IntRange(0, 2).Draw(g.t, "depthLimit")]
	}
}

// unitPaths: places of the unit in the analysed directory. Sorted walks visit "0/..." before and "sub/..." after the
// ordinary files; the Java passes skip test files by design (the todo scan reads them).
var unitPaths = []string{"sub/M_Unit.java", "0/M_Unit.java", "src/main/java/zz/nb/M_Unit.java", "M Unit ünï.java", "Ünï dir/深/M.java",
	"pkg.java/M_Unit.java", ".java", "0/1/2/3/4/5/6/7/8/9/10/11/12/M_Unit.java", "M_Unit.java.java", "src/test/java/zz/M_Unit.java", "M_UnitTest.java", "-p.java"}

// drawPlace draws where the unit lives in the analysed directory ("" = M_Unit.java between the ordinary files)
// and whether the project holds a second file with the same text.
func (g *gen) drawPlace() (path string, twice bool) {
	if rapid.IntRange(0, 5).Draw(g.t, "placed") == 5 {
		path = unitPaths[rapid.IntRange(0, len(unitPaths)-1).Draw(g.t, "path")]
		switch {
		case strings.Contains(path, "Test.java") || strings.Contains(path, "src/test/java/"):
			g.use("project.unitIsTestFile")
		case strings.Contains(path, "/"):
			g.use("project.unitInSubdirectory")
		default:
			g.use("project.unitFileName")
		}
	}
	if rapid.IntRange(0, 7).Draw(g.t, "twice") == 7 {
		g.use("project.unitTwice")
		twice = true
	}
	return path, twice
}

// manyCount is the length of a long list: just past 8, 16, 32 or 64 (big: the list is cheap to parse).
func (g *gen) manyCount(big bool) int {
	n := []int{9, 17, 8, 16, 33}[g.n(5)]
	if big && g.chance(25) {
		n = []int{65, 64, 130}[g.n(3)]
	}
	switch {
	case n > 64:
		g.use("many.over64")
	case n > 32:
		g.use("many.over32")
	case n > 16:
		g.use("many.over16")
	case n > 8:
		g.use("many.over8")
	}
	return n
}

func ident(prefix string, i int) string { return prefix + strconv.Itoa(i) }

// plainMember is what a once-per-unit shape falls back to when the unit already has one.
func (g *gen) plainMember() {
	g.use("memberDeclaration.method")
	g.use("typeTypeOrVoid.void")
	g.use("formalParameters.empty")
	g.w("void", g.lname(), "(", ")", "{", "}")
}

// manyMembers emits one class member (or a few) holding a long list.
func (g *gen) manyMembers() {
	if g.manyDone {
		g.plainMember()
		return
	}
	g.manyDone = true
	switch g.pickW(3, 2, 2, 2, 2, 2, 2, 2, 2, 2, 2, 2, 2, 2, 2, 2, 2, 2) {
	case 0:
		// n field declarations of class types, then a method calling through the first and the last
		g.use("many.fields")
		g.use("memberDeclaration.field")
		n := g.manyCount(true)
		typ := []string{"String", "Foo", "java.util.List<String>", "Map.Entry<K, V>"}[g.n(4)]
		for i := 0; i < n; i++ {
			g.w("private", typ, ident("f", i), ";")
		}
		g.use("memberDeclaration.method")
		g.w("void", g.lname(), "(", ")", "{", "f0")
		g.glue(".")
		g.glue("a")
		g.glue("(")
		g.w(")", ";", ident("f", n-1))
		g.glue(".")
		g.glue("b")
		g.glue("(")
		g.w(")", ";", "}")
	case 1:
		// one declaration with n declarators
		g.use("many.declarators")
		g.use("memberDeclaration.field")
		g.use("variableDeclarators.several")
		n := g.manyCount(true)
		g.w([]string{"int", "String", "Foo"}[g.n(3)])
		for i := 0; i < n; i++ {
			if i > 0 {
				g.w(",")
			}
			g.w(ident("d", i))
			if i%3 == 1 {
				g.use("variableDeclarator.initializer")
				g.w("=", "null")
			}
		}
		g.w(";")
	case 2:
		// a method with n parameters (the last may be a varargs parameter) and a call of it with n arguments
		g.use("many.parameters")
		g.use("memberDeclaration.method")
		g.use("formalParameterList")
		g.use("formalParameterList.sixOrMore")
		n := g.manyCount(false)
		varargs := g.chance(30)
		g.w("void", "wide", "(")
		for i := 0; i < n; i++ {
			if i > 0 {
				g.w(",")
			}
			g.use("formalParameter")
			if varargs && i == n-1 {
				g.use("lastFormalParameter")
				g.w("String", "...", ident("p", i))
			} else {
				g.w([]string{"int", "String", "Foo", "java.util.List<String>"}[i%4], ident("p", i))
			}
		}
		g.w(")", "{", "wide")
		g.glue("(")
		for i := 0; i < n; i++ {
			if i > 0 {
				g.w(",")
			}
			g.w(ident("p", i))
		}
		g.use("expressionList")
		g.w(")", ";", "p1")
		g.glue(".")
		g.glue("m")
		g.glue("(")
		g.w(")", ";", "}")
	case 3:
		// a call with n arguments of mixed kinds
		g.use("many.arguments")
		g.use("memberDeclaration.method")
		g.use("expressionList")
		n := g.manyCount(true)
		g.w("void", g.lname(), "(", ")", "{", g.vname(true, 50))
		g.glue(".")
		g.glue(g.lname())
		g.glue("(")
		for i := 0; i < n; i++ {
			if i > 0 {
				g.w(",")
			}
			switch i % 5 {
			case 0:
				g.w(ident("x", i))
			case 1:
				g.w(strconv.Itoa(i))
			case 2:
				g.w(`"s"`)
			case 3:
				g.w("Foo")
				g.glue(".")
				g.glue("K")
			case 4:
				g.w("f")
				g.glue("(")
				g.w(")")
			}
		}
		g.w(")", ";", "}")
	case 4:
		// a member with n annotations, of every argument form
		g.use("many.annotations")
		g.use("memberDeclaration.method")
		n := g.manyCount(false)
		for i := 0; i < n; i++ {
			switch i % 4 {
			case 0:
				g.use("annotation.marker")
				g.w("@")
				g.glue(ident("A", i))
			case 1:
				g.use("annotation.singleValue")
				g.w("@")
				g.glue(ident("A", i))
				g.w("(", `"v"`, ")")
			case 2:
				g.use("annotation.pairs")
				g.w("@")
				g.glue(ident("A", i))
				g.w("(", "k", "=", "1", ",", "value", "=", `"w"`, ")")
			case 3:
				g.use("annotation.qualified")
				g.w("@")
				g.glue("a")
				g.glue(".")
				g.glue(ident("A", i))
			}
		}
		if g.chance(50) {
			g.w("public")
		}
		g.w("void", g.lname(), "(", ")", "{", "}")
	case 5:
		// n local variables, declared and used
		g.use("many.locals")
		g.use("memberDeclaration.method")
		g.use("blockStatement.localVariableDeclaration")
		g.use("localVariableDeclaration.typed")
		n := g.manyCount(true)
		g.w("void", g.lname(), "(", ")", "{")
		for i := 0; i < n; i++ {
			g.w([]string{"Foo", "String", "int", "a.b.T<X>"}[i%4], ident("v", i), "=", "null", ";")
		}
		for i := 0; i < n; i += 7 {
			g.w(ident("v", i))
			g.glue(".")
			g.glue("use")
			g.glue("(")
			g.w(")", ";")
		}
		g.w("}")
	case 6:
		// a chain of n calls
		g.use("many.chainedCalls")
		g.use("memberDeclaration.method")
		g.use("expression.dotMethodCall")
		g.use("expression.chainedCall")
		n := g.manyCount(false)
		g.w("void", g.lname(), "(", ")", "{", g.vname(true, 50))
		for i := 0; i < n; i++ {
			g.glue(".")
			g.glue(ident("c", i))
			g.glue("(")
			if i%4 == 3 {
				g.w(`"a.b()"`)
			}
			g.w(")")
		}
		g.w(";", "}")
	case 7:
		// one expression with n operands
		g.use("many.operands")
		g.use("memberDeclaration.field")
		g.use("expression.arithmetic")
		n := g.manyCount(true)
		g.w("String", g.lname(), "=")
		for i := 0; i < n; i++ {
			if i > 0 {
				g.w("+")
			}
			if i%2 == 0 {
				g.w(`"s"`)
			} else {
				g.w(ident("x", i))
			}
		}
		g.w(";")
	case 8:
		// a switch statement with n groups
		g.use("many.cases")
		g.use("memberDeclaration.method")
		g.use("statement.switch")
		g.use("switchBlockStatementGroup")
		g.use("switchLabel.constantExpression")
		n := g.manyCount(false)
		g.w("int", g.lname(), "(", "int", "k", ")", "{", "switch", "(", "k", ")", "{")
		for i := 0; i < n; i++ {
			g.w("case", strconv.Itoa(i), ":", "return", strconv.Itoa(i), ";")
		}
		g.use("switchLabel.default")
		g.w("default", ":", "return", "k", ";", "}", "}")
	case 9:
		// a try statement with n catch clauses, the last one with n alternatives
		g.use("many.catches")
		g.use("memberDeclaration.method")
		g.use("statement.tryCatch")
		g.use("catchClause")
		g.use("catchType.multi")
		n := g.manyCount(false)
		g.w("void", g.lname(), "(", ")", "{", "try", "{", "}")
		for i := 0; i < n; i++ {
			g.w("catch", "(", ident("E", i), "e", ")", "{", "e")
			g.glue(".")
			g.glue("log")
			g.glue("(")
			g.w(")", ";", "}")
		}
		g.w("catch", "(")
		for i := 0; i < n; i++ {
			if i > 0 {
				g.w("|")
			}
			if i%3 == 2 {
				g.w("a")
				g.glue(".")
				g.glue(ident("X", i))
			} else {
				g.w(ident("X", i))
			}
		}
		g.w("e", ")", "{", "}", "}")
	case 10:
		// an array initialiser with n elements
		g.use("many.arrayElements")
		g.use("memberDeclaration.field")
		g.use("variableInitializer.array")
		g.use("arrayInitializer")
		n := g.manyCount(true)
		g.w("int", "[")
		g.glue("]")
		g.w(g.lname(), "=", "{")
		for i := 0; i < n; i++ {
			if i > 0 {
				g.w(",")
			}
			g.w(strconv.Itoa(i))
		}
		g.w("}", ";")
	case 11:
		// a member enum with n constants, every fourth with arguments, every fifth with a body
		g.use("many.enumConstants")
		g.use("memberDeclaration.enum")
		g.use("enumDeclaration")
		g.use("enumConstant")
		n := g.manyCount(true)
		g.w("enum", g.tname(), "{")
		for i := 0; i < n; i++ {
			if i > 0 {
				g.w(",")
			}
			g.w(ident("C", i))
			if i%4 == 1 {
				g.use("enumConstant.arguments")
				g.glue("(")
				g.w(strconv.Itoa(i), ")")
			}
			if i%5 == 2 {
				g.use("enumConstant.classBody")
				g.w("{", "void", "m", "(", ")", "{", "}", "}")
			}
		}
		g.use("enumBodyDeclarations")
		g.w(";", "String", "label", ";", "void", "m", "(", ")", "{", "label")
		g.glue(".")
		g.glue("trim")
		g.glue("(")
		g.w(")", ";", "}", "}")
	case 12:
		// a generic method with n type parameters, called with n explicit type arguments; a field type with n type arguments
		g.use("many.typeArguments")
		g.use("memberDeclaration.genericMethod")
		g.use("typeParameters")
		g.use("typeArguments")
		g.use("expression.dotExplicitGenericInvocation")
		n := g.manyCount(false)
		g.w("<")
		for i := 0; i < n; i++ {
			if i > 0 {
				g.w(",")
			}
			g.w(ident("T", i))
		}
		g.w(">", "void", "gen", "(", ")", "{", "this")
		g.glue(".")
		g.w("<")
		for i := 0; i < n; i++ {
			if i > 0 {
				g.w(",")
			}
			g.w(ident("T", i))
		}
		g.glue(">")
		g.w("gen", "(", ")", ";", "}")
		g.use("memberDeclaration.field")
		g.w("Wide")
		g.glue("<")
		for i := 0; i < n; i++ {
			if i > 0 {
				g.w(",")
			}
			g.w([]string{"String", "?", "a.b.T<X>", "? extends Foo"}[i%4])
		}
		g.glue(">")
		g.w("wide", ";")
	case 13:
		// n blocks nested in each other, a local variable in each, used in the innermost
		g.use("many.nestedBlocks")
		g.use("memberDeclaration.method")
		g.use("statement.block")
		n := g.manyCount(false)
		g.w("void", g.lname(), "(", ")", "{")
		for i := 0; i < n; i++ {
			g.w("{", "Foo", ident("b", i), "=", "null", ";")
		}
		g.w("b0")
		g.glue(".")
		g.glue("m")
		g.glue("(")
		g.w(")", ";")
		for i := 0; i < n; i++ {
			g.w("}")
			if i == n/2 {
				g.w(ident("b", 0))
				g.glue(".")
				g.glue("k")
				g.glue("(")
				g.w(")", ";")
			}
		}
		g.w("}")
	case 14:
		// a member class that implements n interfaces and a member interface that extends n
		g.use("many.superTypes")
		g.use("memberDeclaration.class")
		g.use("classDeclaration")
		g.use("classDeclaration.implements")
		g.use("typeList.several")
		n := g.manyCount(false)
		g.w("class", g.tname(), "implements")
		for i := 0; i < n; i++ {
			if i > 0 {
				g.w(",")
			}
			g.w([]string{ident("I", i), "a.b." + ident("I", i), ident("I", i) + "<String>", "Outer." + ident("I", i)}[i%4])
		}
		g.w("{", "}")
		g.use("memberDeclaration.interface")
		g.use("interfaceDeclaration")
		g.use("interfaceDeclaration.extends")
		g.w("interface", g.tname(), "extends")
		for i := 0; i < n; i++ {
			if i > 0 {
				g.w(",")
			}
			g.w(ident("J", i))
		}
		g.w("{", "}")
	case 15:
		// n anonymous classes one after the other: in a method, then as field initialisers, then a field of a class type
		g.use("many.anonymousClasses")
		g.use("memberDeclaration.method")
		g.use("creator.class")
		g.use("classCreatorRest.classBody")
		n := g.manyCount(false)
		g.w("void", g.lname(), "(", ")", "{")
		for i := 0; i < n; i++ {
			g.w("new", ident("R", i), "(", ")", "{", "void", "run", "(", ")", "{", "}", "}", ";")
		}
		g.w("}")
		g.use("memberDeclaration.field")
		for i := 0; i < n; i++ {
			g.w("Object", ident("o", i), "=", "new", "Object", "(", ")", "{", "String", "s", ";", "}", ";")
		}
		g.w("String", "after", ";", "void", "useAfter", "(", ")", "{", "after")
		g.glue(".")
		g.glue("trim")
		g.glue("(")
		g.w(")", ";", "}")
	case 16:
		// n member types side by side, of every kind, then a field and a method of the enclosing class
		g.use("many.memberTypes")
		g.use("memberDeclaration.class")
		g.use("memberDeclaration.interface")
		g.use("memberDeclaration.enum")
		g.use("memberDeclaration.record")
		n := g.manyCount(false)
		for i := 0; i < n; i++ {
			switch i % 4 {
			case 0:
				g.w("class", ident("M", i), "{", "String", "s", ";", "void", "m", "(", ")", "{", "}", "}")
			case 1:
				g.w("interface", ident("M", i), "{", "void", "m", "(", ")", ";", "}")
			case 2:
				g.w("enum", ident("M", i), "{", "A", "{", "}", ",", "B", "}")
			case 3:
				g.w("record", ident("M", i), "(", "int", "x", ")", "{", "}")
			}
		}
		g.w("Foo", "last", ";", "void", "useLast", "(", ")", "{", "last")
		g.glue(".")
		g.glue("m")
		g.glue("(")
		g.w(")", ";", "}")
	case 17:
		// n lambdas and method references one after the other, and lambdas nested n/4 deep
		g.use("many.lambdas")
		g.use("memberDeclaration.method")
		g.use("lambdaParameters.identifier")
		g.use("lambdaBody.expression")
		n := g.manyCount(false)
		g.w("void", g.lname(), "(", ")", "{")
		for i := 0; i < n; i++ {
			if i%3 == 2 {
				g.use("expression.methodReference.typeOrName")
				g.w("run", "(", ident("K", i))
				g.glue("::")
				g.glue("m")
				g.w(")", ";")
			} else {
				g.w("run", "(", ident("x", i), "->", ident("x", i))
				g.glue(".")
				g.glue("m")
				g.glue("(")
				g.w(")", ")", ";")
			}
		}
		g.w("run", "(")
		for i := 0; i < n/4; i++ {
			g.w(ident("y", i), "->")
		}
		g.w("y0")
		g.glue(".")
		g.glue("m")
		g.glue("(")
		g.w(")", ")", ";", "}")
	}
}

// nestedChain: types declared in each other, k levels below the current one, each level with a member before
// the inner type and a field of a class type plus a method calling through it after the inner type has ended
// (the tool's tables must then be those of the outer type again).
func (g *gen) nestedChain() {
	if g.chainDone {
		g.plainMember()
		return
	}
	g.chainDone = true
	g.use("nesting.chain")
	g.chainLevel([]int{2, 1, 3, 4, 6}[g.n(5)], 0)
}

func (g *gen) chainLevel(below, level int) {
	name := ident("N", level)
	kind := g.pickW(6, 2, 1, 1, 1)
	if g.chance(20) {
		g.use("modifier.static")
		g.w("static")
	}
	iface := false
	switch kind {
	case 0:
		g.use("memberDeclaration.class")
		g.use("classDeclaration")
		g.enter("named")
		g.w("class", name)
		if g.chance(25) {
			g.use("classDeclaration.extends")
			g.w("extends", []string{"Base", "a.b.Base<X>", "Outer.Base"}[g.n(3)])
		}
		g.w("{")
	case 1:
		g.use("memberDeclaration.interface")
		g.use("interfaceDeclaration")
		g.enter("interface")
		iface = true
		g.w("interface", name, "{")
	case 2:
		g.use("memberDeclaration.enum")
		g.use("enumDeclaration")
		g.use("enumConstant")
		g.use("enumBodyDeclarations")
		g.enter("named")
		g.w("enum", name, "{", "ONE")
		if g.chance(50) {
			g.use("enumConstant.classBody")
			g.w("{", "}")
		}
		g.w(";")
	case 3:
		g.use("memberDeclaration.record")
		g.use("recordDeclaration")
		g.use("recordComponent")
		g.enter("named")
		g.w("record", name, "(", "Foo", "c", ")", "{")
	case 4:
		g.use("memberDeclaration.annotationType")
		g.use("annotationTypeDeclaration")
		g.enter("interface")
		g.w("@")
		g.glue("interface")
		g.w(name, "{")
		g.use("annotationTypeElementRest.nestedType")
	}
	annotationType := kind == 4
	before := ident("before", level)
	switch {
	case annotationType:
		g.use("annotationConstantRest")
		g.w("String", before, "=", `""`, ";")
	case iface:
		g.use("interfaceMemberDeclaration.const")
		g.w("String", before, "=", `""`, ";")
	case kind == 3:
		g.use("memberDeclaration.field")
		g.w("static", "String", before, ";")
	default:
		g.use("memberDeclaration.field")
		g.w("String", before, ";")
	}
	if below > 0 {
		if annotationType {
			// an annotation type holds classes, interfaces, enums, annotation types and records directly
			g.chainLevel(below-1, level+1)
		} else {
			if iface {
				g.use("interfaceMemberDeclaration.nestedType")
			}
			g.chainLevel(below-1, level+1)
		}
	} else if !annotationType {
		// the innermost type: a method with a local and an anonymous class
		g.use("nesting.chainInnermost")
		if iface {
			g.use("interfaceMemberDeclaration.method")
			g.use("interfaceMethodModifier.default")
			g.w("default")
		} else {
			g.use("memberDeclaration.method")
		}
		g.w("void", "innermost", "(", ")", "{", before)
		g.glue(".")
		g.glue("trim")
		g.glue("(")
		g.w(")", ";")
		if g.chance(50) {
			g.use("creator.class")
			g.use("classCreatorRest.classBody")
			g.enter("anonymous")
			g.w("new", "Object", "(", ")", "{", "String", "inAnonymous", ";", "}", ";")
			g.leave()
		}
		g.w("}")
	}
	after := ident("after", level)
	afterType := []string{"Foo", "String", "a.b.T<X>", "Map.Entry<K, V>"}[g.n(4)]
	switch {
	case annotationType:
		g.use("annotationMethodRest")
		g.w("String", after, "(", ")", ";")
	case iface:
		g.use("interfaceMemberDeclaration.const")
		g.use("interfaceMemberDeclaration.method")
		g.use("interfaceMethodModifier.default")
		g.w(afterType, after, "=", "null", ";", "default", "void", ident("useAfter", level), "(", ")", "{", after)
		g.glue(".")
		g.glue("m")
		g.glue("(")
		g.w(")", ";", "}")
	default:
		g.use("memberDeclaration.field")
		g.use("memberDeclaration.method")
		mod := "private"
		if kind == 3 {
			mod = "static"
		}
		g.w(mod, afterType, after, ";", "void", ident("useAfter", level), "(", ")", "{", after)
		g.glue(".")
		g.glue("m")
		g.glue("(")
		g.w(")", ";", before)
		g.glue(".")
		g.glue("k")
		g.glue("(")
		g.w(")", ";", "}")
	}
	g.w("}")
	g.leave()
}

// nestCombo: two to five structural containers (anonymous classes, lambdas, local classes, member classes of those)
// nested in each other in a drawn order, starting in a method body, a field initialiser or an initialiser block.
// Every container declares something before the inner container and uses something after it has ended, and the
// enclosing class gets a field of a class type and a method calling through it after the whole combination (the
// tool's tables must then be those of the enclosing class again). At most once per unit.
func (g *gen) nestCombo() {
	if g.comboDone {
		g.plainMember()
		return
	}
	g.comboDone = true
	g.use("nesting.combo")
	k := 2 + g.pickW(3, 3, 2, 1)
	switch g.pickW(4, 3, 1, 1, 1) {
	case 0:
		g.use("memberDeclaration.method")
		g.w("void", g.lname(), "(", "Foo", "p", ")", "{")
		g.comboStmt(k)
		g.w("p")
		g.glue(".")
		g.glue("m")
		g.glue("(")
		g.w(")", ";", "}")
	case 1:
		g.use("nesting.comboInFieldInitializer")
		g.use("memberDeclaration.field")
		g.use("variableDeclarator.initializer")
		g.w("Object", g.lname(), "=")
		g.comboExpr(k)
		g.w(";")
	case 2:
		g.use("nesting.comboInInitializerBlock")
		g.use("classBodyDeclaration.block")
		g.w("{")
		g.comboStmt(k)
		g.w("}")
	case 3:
		g.use("nesting.comboInInitializerBlock")
		g.use("classBodyDeclaration.staticBlock")
		g.w("static", "{")
		g.comboStmt(k)
		g.w("}")
	case 4:
		// as argument of a call in a field initialiser of a class type
		g.use("nesting.comboInFieldInitializer")
		g.use("memberDeclaration.field")
		g.use("variableDeclarator.initializer")
		g.w("Foo", g.lname(), "=", "Foo")
		g.glue(".")
		g.glue("of")
		g.glue("(")
		g.comboExpr(k)
		g.w(")", ";")
	}
	g.use("memberDeclaration.field")
	g.use("memberDeclaration.method")
	typ := []string{"Foo", "String", "a.b.T<X>", "Map.Entry<K, V>"}[g.n(4)]
	early := g.chance(40)
	if early {
		// the method comes first: it uses a field that is declared after it
		g.use("structure.useBeforeDeclaration")
	} else {
		g.w(typ, "afterCombo", ";")
	}
	g.w("void", "useAfterCombo", "(", ")", "{", "afterCombo")
	g.glue(".")
	g.glue("m")
	g.glue("(")
	g.w(")", ";", "}")
	if early {
		g.w(typ, "afterCombo", ";")
	}
}

// comboExpr: an expression that is a container (k > 0) or the innermost call.
func (g *gen) comboExpr(k int) {
	if k <= 0 {
		g.use("expression.dotMethodCall")
		g.w(g.vname(true, 60))
		g.glue(".")
		g.glue(g.lname())
		g.glue("(")
		g.w(")")
		return
	}
	switch g.pickW(4, 4, 1) {
	case 0, 2:
		g.use("creator.class")
		g.use("classCreatorRest.classBody")
		g.enter("anonymous")
		g.w("new", []string{"Object", "Runnable", "Foo<String>", "a.b.Base", "Outer.Inner"}[g.n(5)], "(", ")", "{")
		g.comboBody(k - 1)
		g.w("}")
		g.leave()
	case 1:
		g.enter("lambda")
		v := ident("l", k)
		if g.chance(30) {
			g.use("lambdaParameters.formalParameterList")
			g.w("(", "Foo", v, ")", "->")
		} else {
			g.use("lambdaParameters.identifier")
			g.w(v, "->")
		}
		if g.chance(50) {
			g.use("lambdaBody.expression")
			g.comboExpr(k - 1)
		} else {
			g.use("lambdaBody.block")
			g.w("{")
			g.comboStmt(k - 1)
			g.w(v)
			g.glue(".")
			g.glue("m")
			g.glue("(")
			g.w(")", ";", "}")
		}
		g.leave()
	}
}

// comboBody: the members of a class body that holds the next container.
func (g *gen) comboBody(k int) {
	if k < 0 {
		k = 0
	}
	f := ident("f", k)
	g.use("memberDeclaration.field")
	g.w([]string{"Foo", "String", "java.util.List<String>"}[g.n(3)], f, ";")
	switch g.pickW(4, 2, 1, 2) {
	case 0:
		g.use("memberDeclaration.method")
		g.w("public", "void", ident("run", k), "(", ")", "{")
		g.comboStmt(k)
		g.w(f)
		g.glue(".")
		g.glue("m")
		g.glue("(")
		g.w(")", ";", "}")
	case 1:
		g.use("memberDeclaration.field")
		g.use("variableDeclarator.initializer")
		g.w("Object", ident("g", k), "=")
		g.comboExpr(k)
		g.w(";")
	case 2:
		g.use("classBodyDeclaration.block")
		g.w("{")
		g.comboStmt(k)
		g.w("}")
	case 3:
		// a member class of the container holds the next one
		g.use("memberDeclaration.class")
		g.use("classDeclaration")
		g.enter("named")
		g.w("class", ident("In", k), "{")
		g.comboBody(k - 1)
		g.w("}")
		g.leave()
	}
	g.use("memberDeclaration.field")
	g.w("Foo", ident("after", k), ";")
}

// comboStmt: statements that hold the next container (k > 0) or the innermost declaration and call.
func (g *gen) comboStmt(k int) {
	v := ident("v", k)
	g.use("blockStatement.localVariableDeclaration")
	g.use("localVariableDeclaration.typed")
	g.w([]string{"Foo", "String", "a.b.T<X>"}[g.n(3)], v, "=", "null", ";")
	if k > 0 {
		switch g.pickW(3, 3, 3, 1) {
		case 0:
			g.use("blockStatement.localTypeDeclaration")
			g.use("localTypeDeclaration.class")
			g.use("classDeclaration")
			g.enter("local")
			g.w("class", ident("L", k), "{")
			g.comboBody(k - 1)
			g.w("}")
			g.leave()
		case 1:
			g.use("statement.expression")
			g.use("methodCall.identifier")
			g.w("run", "(")
			g.comboExpr(k)
			g.w(")", ";")
		case 2:
			g.w("Object", ident("o", k), "=")
			g.comboExpr(k)
			g.w(";")
		case 3:
			g.use("statement.return")
			g.w("return")
			g.comboExpr(k)
			g.w(";")
			return
		}
	}
	g.use("statement.expression")
	g.use("expression.dotMethodCall")
	g.w(v)
	g.glue(".")
	g.glue("m")
	g.glue("(")
	g.w(")", ";")
}

// handlerMethod: a request handler as controllers usually write it (framework units only): a mapping annotation in
// any of its argument forms, parameters annotated @RequestBody / @PathVariable / @Valid in every position the
// grammar allows, a parameter type that is a class of the unit, an imported one or one of the ordinary files.
func (g *gen) handlerMethod() {
	g.use("memberDeclaration.method")
	g.use("api.handlerMethod")
	g.frameworkMapping()
	if g.chance(70) {
		g.use("modifier.accessKeyword")
		g.w("public")
	}
	g.use("typeTypeOrVoid.type")
	g.w([]string{"String", "void", "ResponseEntity<Foo>", "a.b.T<X>", "int", "NbBody"}[g.n(6)])
	g.w(g.lname())
	defer g.release(g.mark())
	g.w("(")
	k := g.pickW(2, 4, 3, 1)
	if k > 0 {
		g.use("formalParameterList")
	}
	for i := 0; i < k; i++ {
		if i > 0 {
			g.w(",")
		}
		g.use("formalParameter")
		typ := g.typeUseName([]string{"Foo", "NbBody", "String", "long", "a.b.Dto", "java.util.List<Foo>", "Map.Entry<K, V>"}[g.n(7)])
		name := ident("arg", i)
		switch g.pickW(4, 2, 1, 1, 1, 1, 1) {
		case 0:
			g.use("api.requestBodyParameter")
			g.use("variableModifier.annotation")
			g.w("@")
			g.glue("RequestBody")
			g.w(typ, name)
		case 1:
			g.use("variableModifier.annotation")
			g.w("@")
			g.glue("PathVariable")
			g.w("(", `"id"`, ")", typ, name)
		case 2:
			g.use("api.requestBodyParameter")
			g.use("variableModifier.annotation")
			g.use("variableModifier.severalAnnotations")
			g.w("@")
			g.glue("Valid")
			g.w("@")
			g.glue("RequestBody")
			g.w(typ, name)
		case 3:
			g.use("api.requestBodyParameter")
			g.use("variableModifier.final")
			g.use("variableModifier.annotation")
			g.w("final", "@")
			g.glue("RequestBody")
			g.w("(", "required", "=", "false", ")", typ, name)
		case 4:
			g.use("api.requestBodyParameter")
			g.use("variableModifier.annotation")
			g.use("annotation.qualified")
			g.use("annotation.qualifiedFrameworkName")
			g.w("@")
			g.frameworkPackage()
			g.glue("RequestBody")
			g.w(typ, name)
		case 5:
			g.w(typ, name)
		case 6:
			g.use("api.requestBodyParameter")
			g.use("variableModifier.annotation")
			g.use("variableDeclaratorId.dims")
			g.w("@")
			g.glue("RequestBody")
			g.w(typ, name, "[")
			g.glue("]")
		}
		g.declareAs(name, "parameter", "simple", false)
	}
	if k == 0 {
		g.use("formalParameters.empty")
	}
	g.w(")")
	g.throwsClause()
	g.block(false)
}
