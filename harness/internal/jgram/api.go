package jgram

import "pgregory.net/rapid"

// Unit is one generated compilation unit; Labels are the grammar productions used.
type Unit struct {
	Text   string
	Labels map[string]int
	Path   string // where the unit lives in the analysed directory ("" = the plain place)
	Twice  bool   // the project holds a second file with the same text
}

// Gen draws a compilation unit over the productions of the shipped JavaParser.g4.
func Gen(t *rapid.T) Unit {
	g := newGen(t)
	g.fuel = rapid.IntRange(0, 500).Draw(t, "fuel")
	g.spring = rapid.IntRange(0, 2).Draw(t, "framework") == 2
	g.drawDepthLimit()
	g.compilationUnit()
	g.layoutAndTail()
	u := Unit{Labels: g.labels}
	u.Path, u.Twice = g.drawPlace()
	u.Text = g.render()
	return u
}

// AllLabels lists every label the generator can use.
func AllLabels() []string { return allLabels }

// CommentShapes are the comment texts the generator puts between tokens.
func CommentShapes() []string { return commentShapes }
