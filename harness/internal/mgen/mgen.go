// Package mgen generates small abstract code models (classes, methods, calls) and
// converts them to coca's core_domain structures. The abstract form is what is stored in
// replay files and what the reference models of C03/C04/C13/C18 are computed from.
package mgen

import (
	"fmt"
	"sort"

	"github.com/modernizing/coca/pkg/domain/core_domain"
	"pgregory.net/rapid"
)

type Call struct {
	Pkg  string `json:"pkg"`
	Node string `json:"node"` // "" = empty receiver (skipped by the tool)
	Func string `json:"func"` // "" = constructor form
	Type string `json:"type,omitempty"`
}

func (c Call) Full() string {
	if c.Func == "" {
		return c.Pkg + "." + c.Node
	}
	return c.Pkg + "." + c.Node + "." + c.Func
}

type Method struct {
	Name  string `json:"name"`
	Ctor  bool   `json:"ctor,omitempty"` // a constructor (named like its class)
	Calls []Call `json:"calls,omitempty"`
}

type Class struct {
	Pkg        string   `json:"pkg"`
	Name       string   `json:"name"`
	Type       string   `json:"type,omitempty"`
	Extend     string   `json:"extend,omitempty"`
	Implements []string `json:"implements,omitempty"`
	FieldCalls []Call   `json:"fieldCalls,omitempty"`
	Methods    []Method `json:"methods,omitempty"`
}

func (c Class) Full() string { return c.Pkg + "." + c.Name }

type Model struct {
	Classes []Class `json:"classes"`
}

// ToCoca converts to the tool's model.
func (m Model) ToCoca() []core_domain.CodeDataStruct {
	var out []core_domain.CodeDataStruct
	for _, c := range m.Classes {
		ds := core_domain.CodeDataStruct{NodeName: c.Name, Package: c.Pkg, Type: c.Type, Extend: c.Extend,
			Implements: c.Implements, FilePath: c.Pkg + "/" + c.Name + ".java"}
		if ds.Type == "" {
			ds.Type = "Class"
		}
		for _, fc := range c.FieldCalls {
			ds.FunctionCalls = append(ds.FunctionCalls, core_domain.CodeCall{Package: fc.Pkg, NodeName: fc.Node, FunctionName: fc.Func, Type: "field"})
		}
		for _, mm := range c.Methods {
			f := core_domain.CodeFunction{Name: mm.Name, ReturnType: "void", IsConstructor: mm.Ctor}
			if mm.Ctor {
				f.ReturnType = ""
			}
			for _, cc := range mm.Calls {
				f.FunctionCalls = append(f.FunctionCalls, core_domain.CodeCall{Package: cc.Pkg, NodeName: cc.Node, FunctionName: cc.Func, Type: cc.Type})
			}
			ds.Functions = append(ds.Functions, f)
		}
		out = append(out, ds)
	}
	return out
}

// Methods lists the full names of all declared methods in declaration order.
func (m Model) Methods() []string {
	var out []string
	for _, c := range m.Classes {
		for _, mm := range c.Methods {
			out = append(out, c.Full()+"."+mm.Name)
		}
	}
	return out
}

// Calls maps each declared method to the full names of its recorded calls with a
// non-empty receiver, in order (what the statement calls "a call recorded in the model").
func (m Model) Calls() map[string][]string {
	out := map[string][]string{}
	for _, c := range m.Classes {
		for _, mm := range c.Methods {
			key := c.Full() + "." + mm.Name
			var list []string
			for _, cc := range mm.Calls {
				if cc.Node != "" {
					list = append(list, cc.Full())
				}
			}
			out[key] = list
		}
	}
	return out
}

// Options steer the generator.
type Options struct {
	MaxClasses int
	MaxMethods int
	MaxCalls   int
	Quotes     bool // names may contain a double quote
	Arch       bool // also generate extends/implements/field calls
}

var pkgs = []string{"a", "b", "a.b", "ab", "a.c", "bc", "c"}
var extPkgs = []string{"java.util", "org.ext", "x"}

// Gen draws a model.
func Gen(t *rapid.T, o Options) Model {
	if o.MaxClasses == 0 {
		o.MaxClasses = 5
	}
	if o.MaxMethods == 0 {
		o.MaxMethods = 4
	}
	if o.MaxCalls == 0 {
		o.MaxCalls = 4
	}
	nc := rapid.IntRange(1, o.MaxClasses).Draw(t, "nClasses")
	if o.Quotes {
		o.Quotes = rapid.IntRange(0, 5).Draw(t, "quotedModel") == 5
	}
	// shape 0: any call target; 1: only later methods (acyclic, so that call trees can fit a budget)
	shape := rapid.IntRange(0, 2).Draw(t, "shape")
	var m Model
	seen := map[string]bool{}
	for i := 0; i < nc; i++ {
		pkg := rapid.SampledFrom(pkgs).Draw(t, "pkg")
		name := fmt.Sprintf("C%d", i)
		if o.Quotes && rapid.IntRange(0, 3).Draw(t, "q") == 3 {
			name = name + "\"q"
		}
		if seen[pkg+"."+name] {
			continue
		}
		seen[pkg+"."+name] = true
		c := Class{Pkg: pkg, Name: name}
		nm := rapid.IntRange(0, o.MaxMethods).Draw(t, "nMethods")
		for j := 0; j < nm; j++ {
			mn := fmt.Sprintf("m%d", j)
			if o.Quotes && rapid.IntRange(0, 5).Draw(t, "q") == 5 {
				mn = mn + "\"x"
			}
			c.Methods = append(c.Methods, Method{Name: mn})
		}
		if rapid.IntRange(0, 3).Draw(t, "hasCtor") == 3 {
			// a constructor is a function like any other for the call relation
			c.Methods = append(c.Methods, Method{Name: name, Ctor: true})
		}
		m.Classes = append(m.Classes, c)
	}
	declared := m.Methods()
	type ref struct{ ci, mi int }
	var refs []ref
	for ci, c := range m.Classes {
		for mi := range c.Methods {
			refs = append(refs, ref{ci, mi})
		}
	}
	_ = declared
	// density knob: sparse graphs fit the budget, dense ones do not
	density := rapid.IntRange(1, o.MaxCalls).Draw(t, "density")
	for ci := range m.Classes {
		for mi := range m.Classes[ci].Methods {
			n := rapid.IntRange(0, density).Draw(t, "nCalls")
			if n == 0 && rapid.Bool().Draw(t, "atLeastOne") {
				n = 1
			}
			for k := 0; k < n; k++ {
				kind := rapid.IntRange(0, 19).Draw(t, "kind")
				var call Call
				switch {
				case kind < 13 && len(refs) > 0: // declared method (possibly itself)
					r := rapid.SampledFrom(refs).Draw(t, "target")
					if shape == 1 {
						self := 0
						for i, x := range refs {
							if x.ci == ci && x.mi == mi {
								self = i
							}
						}
						if self == len(refs)-1 {
							continue
						}
						r = refs[rapid.IntRange(self+1, len(refs)-1).Draw(t, "later")]
					}
					tc := m.Classes[r.ci]
					call = Call{Pkg: tc.Pkg, Node: tc.Name, Func: tc.Methods[r.mi].Name}
				case kind < 15: // undeclared method of a declared class
					tc := rapid.SampledFrom(m.Classes).Draw(t, "tclass")
					call = Call{Pkg: tc.Pkg, Node: tc.Name, Func: "undeclared"}
				case kind < 17: // external
					call = Call{Pkg: rapid.SampledFrom(extPkgs).Draw(t, "xpkg"), Node: "Ext", Func: "run"}
				case kind < 18: // empty receiver
					call = Call{Pkg: "", Node: "", Func: "orphan"}
				default: // constructor form
					tc := rapid.SampledFrom(m.Classes).Draw(t, "tclass")
					call = Call{Pkg: tc.Pkg, Node: tc.Name, Func: ""}
				}
				m.Classes[ci].Methods[mi].Calls = append(m.Classes[ci].Methods[mi].Calls, call)
			}
		}
	}
	return m
}

// SortedCopy returns a sorted copy of a string slice.
func SortedCopy(in []string) []string {
	out := append([]string(nil), in...)
	sort.Strings(out)
	return out
}
