// Package pbt is the glue between rapid, the property checks and the python driver
// (bin/check): registration of properties, seeding, journalling of the case being
// executed, saving of the (shrunk) failing case as a library-free replay file,
// measurement of what the generators produced, known-finding feature switches.
package pbt

import (
	"encoding/binary"
	"encoding/json"
	"flag"
	"fmt"
	"hash/fnv"
	"os"
	"path/filepath"
	"regexp"
	"runtime/debug"
	"sort"
	"strconv"
	"strings"
	"sync"
	"testing"

	"pgregory.net/rapid"
)

// Verdict is what a check says about one case.
type Verdict struct {
	Violation  string   // "" = the property held on this case
	NonTrivial bool     // non-trivial by the property's stated rule
	Classes    []string // generator-distribution labels
	Canon      string   // canonical form used for distinctness ("" = JSON of the case)
	Skip       bool     // the case is outside the domain after all (generator rejection); counted
}

// Fail builds a violating verdict.
func Fail(format string, a ...interface{}) Verdict {
	return Verdict{Violation: fmt.Sprintf(format, a...)}
}

type prop struct {
	name     string
	quick    int
	thorough int
	run      func(t *rapid.T)
	replay   func(raw json.RawMessage) (Verdict, error)
	stats    *stats
}

type stats struct {
	mu          sync.Mutex
	Evaluations int            `json:"evaluations"`
	NonTrivial  int            `json:"nontrivial"`
	Skipped     int            `json:"skipped"`
	Classes     map[string]int `json:"classes"`
	Samples     []interface{}  `json:"samples"`
	hashes      map[uint64]struct{}
}

var (
	registry   []*prop
	propertyID string
)

// SetProperty names the property served by this test package (e.g. "C03").
func SetProperty(id string) { propertyID = id }

var (
	ruleText    string
	assumptions []string
)

// Describe records, for the evidence file, how cases are generated and what makes one
// non-trivial, and what the check assumes.
func Describe(rule string, assume ...string) {
	ruleText = rule + ruleMore
	assumptions = assume
}

var ruleMore string

// DescribeMore appends the description of a further sub-check to the rule (in whatever order the init
// functions of the package run).
func DescribeMore(rule string) {
	ruleMore += " " + rule
	if ruleText != "" {
		ruleText += " " + rule
	}
}

// Register adds one generated check. gen draws a JSON-serialisable case from rapid,
// check judges it (and must be a pure function of the case and of the code under test).
func Register[C any](name string, quick, thorough int, gen func(t *rapid.T) C, check func(c C) Verdict) {
	p := &prop{name: name, quick: quick, thorough: thorough,
		stats: &stats{Classes: map[string]int{}, hashes: map[uint64]struct{}{}}}
	p.run = func(t *rapid.T) {
		c := gen(t)
		raw, err := json.Marshal(c)
		if err != nil {
			panic("pbt: case not serialisable: " + err.Error())
		}
		journal(p.name, raw)
		v := check(c)
		p.stats.record(p.name, raw, v)
		if v.Violation != "" {
			saveFailure(p.name, raw, v.Violation)
			t.Fatalf("%s", v.Violation)
		}
	}
	p.replay = func(raw json.RawMessage) (Verdict, error) {
		var c C
		if err := json.Unmarshal(raw, &c); err != nil {
			return Verdict{}, err
		}
		return check(c), nil
	}
	registry = append(registry, p)
}

func (s *stats) record(name string, raw []byte, v Verdict) {
	s.mu.Lock()
	defer s.mu.Unlock()
	s.Evaluations++
	if v.Skip {
		s.Skipped++
		return
	}
	for _, c := range v.Classes {
		s.Classes[c]++
	}
	if !v.NonTrivial {
		return
	}
	s.NonTrivial++
	h := fnv.New64a()
	h.Write([]byte(name))
	h.Write([]byte{0})
	if v.Canon != "" {
		h.Write([]byte(v.Canon))
	} else {
		h.Write(raw)
	}
	key := h.Sum64()
	if _, seen := s.hashes[key]; !seen {
		s.hashes[key] = struct{}{}
		if len(s.Samples) < 3 {
			var sample interface{}
			if len(raw) > 6000 {
				sample = string(raw[:6000]) + "…(truncated)"
			} else {
				_ = json.Unmarshal(raw, &sample)
			}
			s.Samples = append(s.Samples, sample)
		}
	}
}

func envInt(name string, def int) int {
	if v, err := strconv.Atoi(os.Getenv(name)); err == nil {
		return v
	}
	return def
}

// Tier returns "quick" or "thorough".
func Tier() string {
	if os.Getenv("VERIF_TIER") == "thorough" {
		return "thorough"
	}
	return "quick"
}

// Root is the /verif directory.
func Root() string {
	if r := os.Getenv("VERIF_ROOT"); r != "" {
		return r
	}
	return "/verif"
}

func journal(name string, raw []byte) {
	path := os.Getenv("VERIF_JOURNAL")
	if path == "" {
		return
	}
	_ = os.WriteFile(path, envelope(name, raw, "process died while executing this case"), 0644)
}

func envelope(name string, raw []byte, msg string) []byte {
	out, _ := json.Marshal(map[string]interface{}{
		"property": propertyID, "prop": name, "msg": msg, "case": json.RawMessage(raw),
	})
	return out
}

func saveFailure(name string, raw []byte, msg string) {
	path := os.Getenv("VERIF_FAIL_OUT")
	if path == "" {
		return
	}
	// rapid re-runs the minimal failing case last, so the last write is the shrunk case
	_ = os.WriteFile(path, envelope(name, raw, msg), 0644)
}

// FuzzFail is for native fuzz targets: it saves the failing case as a replay envelope of the
// named sub-check (the driver turns it into a VIOLATION) and fails the fuzz iteration.
func FuzzFail(t *testing.T, propName string, c interface{}, msg string) {
	raw, err := json.Marshal(c)
	if err == nil {
		saveFailure(propName, raw, msg)
	}
	t.Fatalf("%s", msg)
}

// Main runs every registered property with rapid. Seeds, case counts and shard come from
// the environment (VERIF_SEED, VERIF_TIER, VERIF_SHARD, VERIF_SCALE, VERIF_ONLY).
func Main(t *testing.T) {
	debug.SetMaxStack(64 << 20)
	seed := envInt("VERIF_SEED", 1)
	shard := envInt("VERIF_SHARD", 0)
	s := seed*1000 + shard
	if s < 0 {
		s = -s
	}
	if s == 0 {
		s = 1
	}
	scale := envInt("VERIF_SCALE", 100) // percent
	_ = flag.Set("rapid.seed", strconv.Itoa(s))
	_ = flag.Set("rapid.nofailfile", "true")
	only := os.Getenv("VERIF_ONLY")
	defer flushEvidence()
	for _, p := range registry {
		if only != "" && !strings.Contains(","+only+",", ","+p.name+",") {
			continue
		}
		n := p.quick
		if Tier() == "thorough" {
			n = p.thorough
		}
		n = n * scale / 100
		if n < 1 {
			n = 1
		}
		_ = flag.Set("rapid.checks", strconv.Itoa(n))
		p := p
		t.Run(p.name, func(t *testing.T) {
			rapid.Check(t, p.run)
		})
		if t.Failed() {
			return // first failure ends the run; the driver reports it
		}
	}
}

type evidenceOut struct {
	Property    string            `json:"property"`
	Rule        string            `json:"rule"`
	Assumptions []string          `json:"assumptions"`
	Props       map[string]*stats `json:"props"`
	Excluded    map[string]int    `json:"excluded"`
	Extra       map[string]int    `json:"extra"`
}

func flushEvidence() {
	path := os.Getenv("VERIF_EV_OUT")
	if path == "" {
		return
	}
	out := evidenceOut{Property: propertyID, Rule: ruleText, Assumptions: assumptions, Props: map[string]*stats{}, Excluded: excludedCount, Extra: extraCount}
	var all []uint64
	for _, p := range registry {
		out.Props[p.name] = p.stats
		for h := range p.stats.hashes {
			all = append(all, h)
		}
	}
	sort.Slice(all, func(i, j int) bool { return all[i] < all[j] })
	buf := make([]byte, 8*len(all))
	for i, h := range all {
		binary.LittleEndian.PutUint64(buf[8*i:], h)
	}
	raw, _ := json.Marshal(out)
	_ = os.WriteFile(path, raw, 0644)
	_ = os.WriteFile(path+".hashes", buf, 0644)
}

// Replay runs the check named in the replay file $VERIF_REPLAY on the case stored there.
func Replay(t *testing.T) {
	debug.SetMaxStack(64 << 20)
	path := os.Getenv("VERIF_REPLAY")
	if path == "" {
		t.Skip("VERIF_REPLAY not set")
	}
	data, err := os.ReadFile(path)
	if err != nil {
		t.Fatalf("REPLAY-ERROR cannot read %s: %v", path, err)
	}
	var env struct {
		Prop string          `json:"prop"`
		Case json.RawMessage `json:"case"`
	}
	if err := json.Unmarshal(data, &env); err != nil {
		t.Fatalf("REPLAY-ERROR bad replay file %s: %v", path, err)
	}
	for _, p := range registry {
		if p.name == env.Prop {
			v, err := p.replay(env.Case)
			if err != nil {
				t.Fatalf("REPLAY-ERROR bad case in %s: %v", path, err)
			}
			if v.Violation != "" {
				fmt.Printf("REPLAY-VIOLATION %s\n", strings.ReplaceAll(v.Violation, "\n", "\n    "))
				t.Fail()
			}
			return
		}
	}
	t.Fatalf("REPLAY-ERROR unknown prop %q in %s", env.Prop, path)
}

// ---------------------------------------------------------------------------------------
// known findings: generator feature switches

type finding struct {
	Property string `json:"property"`
	Status   string `json:"status"`
	Feature  string `json:"feature"`
}

var (
	findingsOnce  sync.Once
	excludedSet   = map[string]bool{}
	excludedCount = map[string]int{}
	extraCount    = map[string]int{}
	countMu       sync.Mutex
)

func loadFindings() {
	data, err := os.ReadFile(filepath.Join(Root(), "known_findings.json"))
	if err != nil {
		return
	}
	var doc struct {
		Findings []finding `json:"findings"`
	}
	if json.Unmarshal(data, &doc) != nil {
		return
	}
	for _, f := range doc.Findings {
		if f.Status == "known" && f.Feature != "" && f.Property == propertyID {
			excludedSet[f.Feature] = true
		}
	}
}

// Excluded reports whether the generator feature is switched off because a *known*
// (recorded, unrepaired) finding of this property is tied to it. Every query that
// answers true is counted in the evidence.
func Excluded(feature string) bool {
	findingsOnce.Do(loadFindings)
	if os.Getenv("VERIF_NO_EXCLUDE") != "" {
		return false
	}
	if excludedSet[feature] {
		countMu.Lock()
		excludedCount[feature]++
		countMu.Unlock()
		return true
	}
	return false
}

// InReplay reports whether a saved case is being replayed (TestReplay) rather than generated: a
// check that keeps the input class of a known finding out of the generated search must still
// judge the pinned case of that finding.
func InReplay() bool { return os.Getenv("VERIF_REPLAY") != "" }

// Count adds to a free-form evidence counter.
func Count(name string, n int) {
	countMu.Lock()
	extraCount[name] += n
	countMu.Unlock()
}

// ---------------------------------------------------------------------------------------

var unstable = regexp.MustCompile(`0x[0-9a-f]+|goroutine \d+|\+0x[0-9a-f]+`)

// Call runs f and converts a panic of the code under test into a message.
func Call(f func()) (panicked string) {
	defer func() {
		if r := recover(); r != nil {
			stack := string(debug.Stack())
			// keep the frames below the panic
			if i := strings.Index(stack, "panic("); i >= 0 {
				stack = stack[i:]
			}
			if len(stack) > 1800 {
				stack = stack[:1800]
			}
			// addresses and goroutine numbers differ from run to run; rapid wants a stable message
			stack = unstable.ReplaceAllString(stack, "…")
			panicked = fmt.Sprintf("panic: %v\n%s", r, stack)
		}
	}()
	f()
	return ""
}
