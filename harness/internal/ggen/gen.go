package ggen

import (
	"fmt"
	"regexp"
	"strings"
	"time"

	"pgregory.net/rapid"
)

// Options bound the generator. Feature switches that are off are never produced.
type Options struct {
	MaxCommits int // default 12
	MaxPaths   int // live files per lane, default 5
	Merges     bool
	Empty      bool
	Binary     bool

	BracketHex        bool // subject token "[abc1234]" (a bracketed hex-looking word)
	RepeatAuthor      bool // the author's name again inside the subject
	RepeatDate        bool // the commit's own date string again inside the subject
	NumericSpacePaths bool // path components that begin with a number followed by a blank ("1 intro.md")
	PlainSubjects     bool // only words and conventional prefixes in subjects
	NoMoveUpRename    bool // no rename that git prints as `dir/{sub => }/file`
	NoFullPathRename  bool // no rename that git prints as `old => new` (paths without a common directory)

	// Widening options added later. All default to off, and with all of them off the
	// sequence of draws (hence every existing seed and shrink path) is unchanged.
	ExecFiles         bool // an added file may be executable: git prints `create mode 100755`, `delete mode 100755`
	BigFiles          bool // an added file may have 100-1400 lines: numstat figures of three and four digits
	AffixNames        bool // file names that are a prefix / a suffix of another name in the pool (f.txt.orig, xf.txt)
	BulkAdds          bool // a commit may add 9-24 further files at once, whatever MaxPaths says
	PunctAuthors      bool // author names with - ' . [ ] ( ) @ inside
	LeadingBlankPaths bool // path components that begin with a blank (" lead.txt", "a/ x/f.txt")
	MaxAuthors        int  // distinct author draws per history, default 4
	ModeChanges       bool // a modification may flip the executable bit, with or without a content change (` mode change 100644 => 100755 path`)

	// ToolSubjects: whatever kind a commit is (ordinary, empty, squash, on the side lane, true merge), its
	// subject may be one that git or a hosting service writes: the merge subjects (Merge branch 'x' [into y],
	// Merge branches, Merge tag, Merge commit, Merge pull request #n from u/b, Merge remote-tracking branch,
	// Merge <hex> into <hex>, Merged in b (pull request #n), Merged PR n: ..) and the other generated ones
	// (Revert "..", Reapply "..", fixup! / squash! / amend! .., Squashed commit of the following:, Initial
	// commit, WIP on main: <hex> .., index on main: .., Bump x from 1.2.3 to 1.2.4, Create / Update / Delete /
	// Rename <file>, Release v1.2.3, title (#n)). Without it only true merges carry "Merge branch 'side'".
	ToolSubjects bool
	// SquashMerges: an open side lane may be taken over by a squash commit (one parent, the side lane's net
	// change as its diff) instead of a merge commit; the side lane stays unmerged. Needs Merges.
	SquashMerges bool

	// Options added after seed C14-r4 (blanks at the edges of log lines). All default to off, and with all of
	// them off the sequence of draws is unchanged.
	//
	// TrailingBlankPaths: path components that END with one or two blanks ("notes ", "old /keep ", "g.txt  "),
	// components with a blank at both ends (" x "), "twins" = a new path that differs from a path of the tree
	// (possibly one touched in the same commit) only by a blank appended to one of its components, and - only
	// together with LeadingBlankPaths, because such a name also begins with a blank - components that consist of
	// blanks only (files " ", "  "; directories "a/   /f.txt"). git prints all of these as they are (nothing to C-quote).
	TrailingBlankPaths bool
	// BlankRunPaths: path components with a run of two blanks inside ("two  blanks.md", "d  ir", "read  me.txt"
	// next to "read me.txt").
	BlankRunPaths bool
	// EmptySubjects: a commit may have no message at all (`git commit --allow-empty-message -m ""`): %s is
	// empty and the commit line ends with the blank that follows the date.
	EmptySubjects bool

	// Option added after seed C14-r5 (paths git prints C-quoted). Defaults to off, and with it off the sequence
	// of draws is unchanged.
	//
	// QuotedPaths: one history in four also draws its directories, file names and rename components from pools of
	// names git prints in C notation between double quotes (core.quotepath at its default): bytes above 0x7f
	// (UTF-8 sequences of two, three and four bytes, a combining accent next to the precomposed letter), a double
	// quote, a backslash (also text that itself reads like the notation: `\303\244.txt`, `a\tb`), a tab, a line
	// break, CR, BEL, ESC, DEL. numstat and summary lines then carry `"sp\303\244t.txt"`, a rename that involves
	// such a path is printed as `old => new` with both full paths, each quoted where it needs it (no braces).
	// Invalid UTF-8 stays out (a case is stored as JSON, which cannot hold it).
	QuotedPaths bool
}

var (
	authorPool = []string{"Ann Lee", "Bob 2", "Zoë Ünï", "李雷", "R2D2", "Ann", "007", "van der Berg 3"}

	dirPool        = []string{"", "a", "a/sub", "src", "src/main/java", "d ir", "my docs/sub dir", "a/b/a/b", "lib", "a/b"}
	dirPoolNumeric = []string{"1 2", "x/10 20/y"}
	namePool       = []string{"f.txt", "g.txt", "main.go", "README.md", "read me.txt", "x_y-z.json", "Makefile", "data.bin"}
	namePoolNum    = []string{"1 intro.md", "2020 12 notes.txt", "7 8"}
	compPool       = []string{"sub", "b", "new dir", "core", "v2"}

	convTypes  = []string{"feat", "fix", "docs", "refactor", "chore", "test", "Fix", "build_2"}
	convScopes = []string{"", "core", "api v2", "a/b", "read me"}
	plainWords = []string{"update", "files", "add", "tests", "readme", "cleanup", "bump", "and", "the", "move"}

	tokBrackets   = []string{"[WIP]", "[JIRA-123]", "[skip ci]", "[x]"}
	tokBracketHex = []string{"[abc1234]", "[deadbeef]", "[0123456789ab]", "[fffff]"}
	tokHex        = []string{"abc1234", "deadbeef", "1234567"}
	tokArrow      = []string{"a -> b", "x => y", "->", "=>"}
	// (eighth seed batch: times of day with a zone offset and ISO timestamps, as a log taken with --date=iso shows
	// them behind the day; none of them holds a colon followed by a blank)
	tokDate       = []string{"2019-12-31", "1999-01-01", "23:59:58 +0100", "00:00:00 +0000", "12:30:00 -0800", "2019-12-31T23:59:59+01:00", "10:15:30"}
	tokColon      = []string{"note:", "re: x", "::", "a:b"}
	tokMisc       = []string{"#123", "(#45)", "100%", "src/main.go", `"quoted"`, "it's", "{a => b}", "naïve", "修复", "1 2", "two  blanks"}

	authorPoolPunct = []string{"Jean-Luc O'Neil", "dependabot[bot]", "J. R. Smith", "x (y) z", "a@b", "Ann-Lee"}
	namePoolAffix   = []string{"f.txt.orig", "xf.txt", "Makefile.am", "main.go.bak", "a-main.go"}
	dirPoolBlank    = []string{" x", "a/ lead"}
	namePoolBlank   = []string{" lead.txt", " 1 x.md"}

	// blanks at the end of a component; the last entries of every pool are near-twins of plain pool entries
	dirPoolTrail  = []string{"old ", "a/b ", "t  /sub", "a "}
	namePoolTrail = []string{"notes ", "keep  ", "Makefile ", "g.txt  ", "f.txt "}
	compPoolTrail = []string{"kept ", "sub "}
	// blanks at both ends / nothing but blanks (these also begin with a blank). A file name is never a
	// directory name as well, also not after blanks have been appended to either (a merge must not meet a file
	// where the other lane has a directory): files of one or two blanks, directories of three, and no name
	// here or above that is a directory component elsewhere once the blanks at its end are cut.
	dirPoolOnlyBlank  = []string{"   ", "a/   ", " in /sub"}
	namePoolOnlyBlank = []string{" y ", "  ", " "}
	compPoolOnlyBlank = []string{"   "}
	// a run of blanks inside a component
	dirPoolRun  = []string{"d  ir"}
	namePoolRun = []string{"two  blanks.md", "read  me.txt"}

	// names git prints in C notation (QuotedPaths). As above no file name is a directory component as well.
	dirPoolQuoted  = []string{"d\u00e4", "a/s\u00fcb dir", "\u6587\u6863/sub", "tab\tdir", "q\"d", "a/back\\dir", "nl\nd/x", "a/b/\u00e9"}
	namePoolQuoted = []string{"sp\u00e4t.txt", "\u6587\u6863.md", "na\u00efve file.txt", "\U0001F600.md", "\u00e9.txt", "e\u0301.txt", "say \"hi\".txt", "\"all\"",
		"back\\slash.txt", "\\303\\244.txt", "a\\tb", "a\tb", "tab\there.txt", "line\nbreak.txt", "cr\r.txt", "bell\a.sh", "esc\x1b[0m.txt", "del\x7f.bin", "\u00fc"}
	compPoolQuoted = []string{"ne\u00fc", "q\"c", "c\\d"}

	branchPool  = []string{"side", "feature/x", "fix-123", "release/1.2", "hotfix/2019-12-31", "dependabot/npm_and_yarn/lodash-4.17.21", "main", "master", "b"}
	tagPool     = []string{"v1.0", "v1.2.3", "release-2", "1.0.0-rc.1"}
	userPool    = []string{"octocat", "ann-lee", "dependabot", "r2d2"}
	remotePool  = []string{"origin", "upstream", "fork"}
	urlPool     = []string{"https://github.com/org/repo", "github.com:org/repo", "ssh://git@host:7999/p/r.git", "../other repo"}
	versionPool = []string{"1.2.3", "1.2.4", "4.17.20", "4.17.21", "0.9", "2.0.0-beta.1"}
	pkgPool     = []string{"lodash", "golang.org/x/text", "actions/checkout", "junit:junit"}
	filePool    = []string{"README.md", "main.go", "f.txt", "a/sub/f.txt", "read me.txt", ".gitignore", "Makefile"}

	zonePool  = []string{"+0000", "+0800", "-0700", "+0530"}
	clockPool = []string{"12:00:00", "00:30:00", "23:45:10"}
)

func (o Options) withDefaults() Options {
	if o.MaxCommits == 0 {
		o.MaxCommits = 12
	}
	if o.MaxPaths == 0 {
		o.MaxPaths = 5
	}
	if o.MaxAuthors == 0 {
		o.MaxAuthors = 4
	}
	return o
}

type genState struct {
	t        *rapid.T
	o        Options
	st       *state
	fresh    int
	grave    []string // paths deleted or renamed away earlier: candidates for re-creation
	authors  []string
	day      int
	lastDate string
	quoted   bool // this history also draws from the pools of names git prints C-quoted (Options.QuotedPaths)
}

func join(dir, name string) string {
	if dir == "" {
		return name
	}
	if name == "" {
		return dir
	}
	return dir + "/" + name
}

func splitPath(p string) (string, string) {
	i := strings.LastIndex(p, "/")
	if i < 0 {
		return "", p
	}
	return p[:i], p[i+1:]
}

func (g *genState) dirs() []string {
	out := dirPool
	if g.o.NumericSpacePaths {
		out = append(append([]string{}, out...), dirPoolNumeric...)
	}
	if g.o.LeadingBlankPaths {
		out = append(append([]string{}, out...), dirPoolBlank...)
	}
	if g.o.BlankRunPaths {
		out = append(append([]string{}, out...), dirPoolRun...)
	}
	if g.o.TrailingBlankPaths {
		out = append(append([]string{}, out...), dirPoolTrail...)
		if g.o.LeadingBlankPaths {
			out = append(out, dirPoolOnlyBlank...)
		}
	}
	if g.quoted {
		out = append(append([]string{}, out...), dirPoolQuoted...)
	}
	return out
}

// comps is the pool of single directory components a rename puts in.
func (g *genState) comps() []string {
	out := compPool
	if g.o.TrailingBlankPaths {
		out = append(append([]string{}, out...), compPoolTrail...)
		if g.o.LeadingBlankPaths {
			out = append(out, compPoolOnlyBlank...)
		}
	}
	if g.quoted {
		out = append(append([]string{}, out...), compPoolQuoted...)
	}
	return out
}

func (g *genState) names() []string {
	out := namePool
	if g.o.NumericSpacePaths {
		out = append(append([]string{}, out...), namePoolNum...)
	}
	if g.o.AffixNames {
		out = append(append([]string{}, out...), namePoolAffix...)
	}
	if g.o.LeadingBlankPaths {
		out = append(append([]string{}, out...), namePoolBlank...)
	}
	if g.o.BlankRunPaths {
		out = append(append([]string{}, out...), namePoolRun...)
	}
	if g.o.TrailingBlankPaths {
		out = append(append([]string{}, out...), namePoolTrail...)
		if g.o.LeadingBlankPaths {
			out = append(out, namePoolOnlyBlank...)
		}
	}
	if g.quoted {
		out = append(append([]string{}, out...), namePoolQuoted...)
	}
	return out
}

func (g *genState) authorNames() []string {
	if g.o.PunctAuthors {
		return append(append([]string{}, authorPool...), authorPoolPunct...)
	}
	return authorPool
}

// free makes candidate p usable in tree work: when it is occupied or already touched in
// this commit, a fresh name in the same directory is taken instead.
func (g *genState) free(p string, work Tree, touched map[string]bool) string {
	for try := 0; conflicts(work, p) || touched[p]; try++ {
		dir, _ := splitPath(p)
		g.fresh++
		if try >= 2 {
			// the directory itself is taken by a file (a file " " and a directory " " once names may consist
			// of blanks): a fresh directory at the root
			dir = fmt.Sprintf("d%d", g.fresh)
		}
		p = join(dir, fmt.Sprintf("n%d.txt", g.fresh))
	}
	return p
}

func (g *genState) newPath(work Tree, touched map[string]bool) string {
	t := g.t
	if len(g.grave) > 0 && rapid.IntRange(0, 4).Draw(t, "recreate") == 4 {
		p := rapid.SampledFrom(g.grave).Draw(t, "oldPath")
		if !conflicts(work, p) && !touched[p] {
			return p
		}
	}
	if g.o.TrailingBlankPaths && len(work) > 0 && rapid.IntRange(0, 7).Draw(t, "twin") == 7 {
		// the twin of a path of the tree (also of one this commit has just added or touched): the same path
		// with one or two blanks appended to one of its components, the last one more often than not
		paths := work.Paths()
		parts := strings.Split(paths[rapid.IntRange(0, len(paths)-1).Draw(t, "twinOf")], "/")
		at := len(parts) - 1 - rapid.IntRange(0, len(parts)-1).Draw(t, "twinComponent")
		blankOnly := strings.TrimRight(parts[at], " ") == "" // longer runs of blanks are directory names
		parts[at] += strings.Repeat(" ", rapid.IntRange(1, 2).Draw(t, "twinBlanks"))
		if p := strings.Join(parts, "/"); !blankOnly && !conflicts(work, p) && !touched[p] {
			return p
		}
	}
	dir := rapid.SampledFrom(g.dirs()).Draw(t, "dir")
	name := rapid.SampledFrom(g.names()).Draw(t, "name")
	return g.free(join(dir, name), work, touched)
}

func (g *genState) renameTarget(p string, work Tree, touched map[string]bool) string {
	t := g.t
	dir, name := splitPath(p)
	var parts []string
	if dir != "" {
		parts = strings.Split(dir, "/")
	}
	kind := rapid.IntRange(0, 8).Draw(t, "renameKind")
	cand := ""
	switch kind {
	case 0: // other name, same directory
		cand = join(dir, rapid.SampledFrom(g.names()).Draw(t, "name"))
	case 1: // other directory, same name
		cand = join(rapid.SampledFrom(g.dirs()).Draw(t, "dir"), name)
	case 2: // to the root
		cand = name
	case 3: // one directory up
		if len(parts) > 0 {
			cand = join(strings.Join(parts[:len(parts)-1], "/"), name)
		}
	case 4: // one directory down
		cand = join(join(dir, rapid.SampledFrom(g.comps()).Draw(t, "comp")), name)
	case 5: // other directory and other name
		cand = join(rapid.SampledFrom(g.dirs()).Draw(t, "dir"), rapid.SampledFrom(g.names()).Draw(t, "name"))
	case 6: // first directory component replaced
		if len(parts) > 0 {
			q := append([]string{rapid.SampledFrom(g.comps()).Draw(t, "comp")}, parts[1:]...)
			cand = join(strings.Join(q, "/"), name)
		}
	case 7: // some directory component replaced
		if len(parts) > 0 {
			i := rapid.IntRange(0, len(parts)-1).Draw(t, "compAt")
			q := append([]string{}, parts...)
			q[i] = rapid.SampledFrom(g.comps()).Draw(t, "comp")
			cand = join(strings.Join(q, "/"), name)
		}
	case 8: // a directory put in front
		cand = join(join(rapid.SampledFrom(g.comps()).Draw(t, "comp"), dir), name)
	}
	if cand == "" || cand == p {
		cand = join(dir, rapid.SampledFrom(g.names()).Draw(t, "name"))
	}
	cand = g.free(cand, work, touched)
	// feature switches tied to known findings: avoid a notation by going one directory down instead
	for !g.renameAllowed(p, cand) {
		d, n := splitPath(cand)
		cand = g.free(join(join(d, "sub"), n), work, touched)
		if strings.Count(cand, "/") > 12 {
			break
		}
	}
	return cand
}

func (g *genState) renameAllowed(from, to string) bool {
	pr := PrintRename(from, to)
	if g.o.NoMoveUpRename && strings.Contains(pr, " => }") {
		return false
	}
	if g.o.NoFullPathRename && !strings.Contains(pr, "{") {
		return false
	}
	return true
}

// subject draws a subject line and, when it has a conventional-commit prefix, its type.
// A subject without prefix starts with a plain word followed by a blank or the end, so it
// never reads as "type: text" or "type(scope): text".
func (g *genState) subject(author, date string) (string, string) {
	t := g.t
	o := g.o
	var sb strings.Builder
	typ := ""
	if rapid.IntRange(0, 9).Draw(t, "conventional") >= 6 {
		typ = rapid.SampledFrom(convTypes).Draw(t, "type")
		sb.WriteString(typ)
		if sc := rapid.SampledFrom(convScopes).Draw(t, "scope"); sc != "" {
			sb.WriteString("(" + sc + ")")
		}
		sb.WriteString(": ")
	}
	first := rapid.SampledFrom(plainWords).Draw(t, "word")
	if typ == "" && !o.PlainSubjects && rapid.IntRange(0, 6).Draw(t, "firstSpecial") == 6 {
		// a subject may also begin with a special token (none of these contains ':' or '(')
		pool := append(append(append([]string{}, tokBrackets...), tokHex...), tokDate...)
		pool = append(pool, "#123", "100%", `"quoted"`, "修复")
		if o.BracketHex {
			pool = append(pool, tokBracketHex...)
		}
		if o.RepeatAuthor {
			pool = append(pool, author)
		}
		if o.RepeatDate {
			pool = append(pool, date)
		}
		first = rapid.SampledFrom(pool).Draw(t, "tok")
	}
	sb.WriteString(first)
	n := rapid.IntRange(0, 4).Draw(t, "tokens")
	for i := 0; i < n; i++ {
		class := 0
		if !o.PlainSubjects {
			class = rapid.IntRange(0, 12).Draw(t, "tokenClass")
		}
		tok := ""
		switch class {
		case 0, 1, 2:
			tok = rapid.SampledFrom(plainWords).Draw(t, "word")
		case 3:
			tok = rapid.SampledFrom(tokBrackets).Draw(t, "tok")
		case 4:
			tok = rapid.SampledFrom(tokHex).Draw(t, "tok")
		case 5:
			tok = rapid.SampledFrom(tokArrow).Draw(t, "tok")
		case 6:
			tok = rapid.SampledFrom(tokDate).Draw(t, "tok")
		case 7:
			tok = rapid.SampledFrom(tokColon).Draw(t, "tok")
		case 8, 9:
			tok = rapid.SampledFrom(tokMisc).Draw(t, "tok")
		case 10:
			if o.BracketHex {
				tok = rapid.SampledFrom(tokBracketHex).Draw(t, "tok")
			}
		case 11:
			if o.RepeatAuthor {
				tok = author
			}
		case 12:
			if o.RepeatDate {
				tok = date
			}
		}
		if tok == "" {
			tok = rapid.SampledFrom(plainWords).Draw(t, "word")
		}
		sb.WriteString(" " + tok)
	}
	return sb.String(), typ
}

// mergeLikeSubject draws a subject of the kind git and the hosting services write for a merge. Such a
// subject says nothing about the commit's parents: `git merge --squash`, `git cherry-pick -m 1`, a rebase
// of a merge or a hand-written message put it on an ordinary commit, and a true merge may carry any text.
func (g *genState) mergeLikeSubject() string {
	t := g.t
	branch := func() string { return rapid.SampledFrom(branchPool).Draw(t, "branch") }
	hex := func() string { return rapid.SampledFrom(tokHex).Draw(t, "tok") }
	s := ""
	switch rapid.IntRange(0, 10).Draw(t, "mergeForm") {
	case 0:
		s = "Merge branch '" + branch() + "'"
	case 1:
		s = "Merge branch '" + branch() + "' into " + branch()
	case 2:
		s = "Merge branch '" + branch() + "' of " + rapid.SampledFrom(urlPool).Draw(t, "url")
		if rapid.Bool().Draw(t, "into") {
			s += " into " + branch()
		}
	case 3:
		s = "Merge branches '" + branch() + "' and '" + branch() + "'"
		if rapid.Bool().Draw(t, "into") {
			s += " into " + branch()
		}
	case 4:
		s = "Merge tag '" + rapid.SampledFrom(tagPool).Draw(t, "tag") + "'"
		if rapid.Bool().Draw(t, "into") {
			s += " into " + branch()
		}
	case 5:
		s = "Merge commit '" + hex() + "'"
		if rapid.Bool().Draw(t, "into") {
			s += " into " + branch()
		}
	case 6:
		s = fmt.Sprintf("Merge pull request #%d from %s/%s", rapid.IntRange(1, 1200).Draw(t, "number"),
			rapid.SampledFrom(userPool).Draw(t, "user"), branch())
	case 7:
		s = "Merge remote-tracking branch '" + rapid.SampledFrom(remotePool).Draw(t, "remote") + "/" + branch() + "'"
		if rapid.Bool().Draw(t, "into") {
			s += " into " + branch()
		}
	case 8: // the test merge GitHub makes for a pull request
		s = "Merge " + hex() + " into " + hex()
	case 9: // Bitbucket
		s = fmt.Sprintf("Merged in %s (pull request #%d)", branch(), rapid.IntRange(1, 1200).Draw(t, "number"))
	case 10: // Azure DevOps
		s = fmt.Sprintf("Merged PR %d: %s", rapid.IntRange(1, 1200).Draw(t, "number"), g.plainText())
	}
	return s
}

// plainText is one to three plain words.
func (g *genState) plainText() string {
	t := g.t
	s := rapid.SampledFrom(plainWords).Draw(t, "word")
	for i, n := 0, rapid.IntRange(0, 2).Draw(t, "moreWords"); i < n; i++ {
		s += " " + rapid.SampledFrom(plainWords).Draw(t, "word")
	}
	return s
}

// generatedSubject draws one of the other subjects tools write. quoted is the subject such a message cites
// (that of an earlier commit when there is one that may be repeated here, else plain words).
func (g *genState) generatedSubject(quoted string) string {
	t := g.t
	hex := func() string { return rapid.SampledFrom(tokHex).Draw(t, "tok") }
	file := func() string { return rapid.SampledFrom(filePool).Draw(t, "file") }
	s := ""
	switch rapid.IntRange(0, 13).Draw(t, "generatedForm") {
	case 0:
		s = `Revert "` + quoted + `"`
	case 1:
		s = `Reapply "` + quoted + `"`
	case 2:
		s = `Revert "Revert "` + quoted + `""`
	case 3:
		s = rapid.SampledFrom([]string{"fixup! ", "squash! ", "amend! ", "fixup! fixup! "}).Draw(t, "autosquash") + quoted
	case 4:
		s = "Squashed commit of the following:"
	case 5:
		s = "Initial commit"
	case 6:
		s = "WIP on " + rapid.SampledFrom(branchPool).Draw(t, "branch") + ": " + hex() + " " + quoted
	case 7:
		s = "index on " + rapid.SampledFrom(branchPool).Draw(t, "branch") + ": " + hex() + " " + quoted
	case 8:
		s = "Bump " + rapid.SampledFrom(pkgPool).Draw(t, "pkg") + " from " + rapid.SampledFrom(versionPool).Draw(t, "version") +
			" to " + rapid.SampledFrom(versionPool).Draw(t, "version")
	case 9:
		s = rapid.SampledFrom([]string{"Create", "Update", "Delete", "Add files via upload to"}).Draw(t, "webVerb") + " " + file()
	case 10:
		s = "Rename " + file() + " to " + file()
	case 11:
		s = rapid.SampledFrom([]string{"Release ", "Version ", ""}).Draw(t, "releaseWord") + rapid.SampledFrom(tagPool).Draw(t, "tag")
	case 12: // the title a hosting service gives a squash-merged pull request
		s = quoted + fmt.Sprintf(" (#%d)", rapid.IntRange(1, 1200).Draw(t, "number"))
	case 13:
		s = "Cherry-pick " + hex() + ": " + quoted
	}
	return s
}

// quotable picks the subject a generated message cites: that of an earlier commit when one exists whose
// text may stand in this commit's subject under the feature switches, else plain words.
func (g *genState) quotable(c Commit, earlier []Commit) string {
	t := g.t
	var ok []string
	for _, e := range earlier {
		if !g.o.RepeatAuthor && strings.Contains(e.Subject, c.Author) {
			continue
		}
		if !g.o.RepeatDate && strings.Contains(e.Subject, c.Date) {
			continue
		}
		if len(e.Subject) > 120 {
			continue // citations of citations do not grow without bound
		}
		if e.Subject == "" {
			continue // `fixup! ` would end with a blank, which git strips from a subject
		}
		ok = append(ok, e.Subject)
	}
	if len(ok) > 0 && rapid.IntRange(0, 2).Draw(t, "quoteEarlier") > 0 {
		return ok[rapid.IntRange(0, len(ok)-1).Draw(t, "quotedCommit")]
	}
	return g.plainText()
}

// ops draws the operations of one commit on tree work. Only paths accepted by own may be
// modified, deleted or renamed (the side branch works on the files it created itself, so that
// a merge never leaves the same lines in two files and every rename pairing stays unambiguous).
func (g *genState) ops(work Tree, own func(string) bool) []Op {
	t := g.t
	n := rapid.IntRange(1, 3).Draw(t, "nOps")
	if rapid.IntRange(0, 9).Draw(t, "manyOps") == 9 {
		n += 2
	}
	work = work.clone()
	touched := map[string]bool{}
	var ops []Op
	for i := 0; i < n; i++ {
		var avail []string
		for _, p := range work.Paths() {
			if !touched[p] && own(p) {
				avail = append(avail, p)
			}
		}
		kind := 0
		if len(avail) > 0 {
			// 0,1 add; 2,3,4 modify; 5 delete; 6,7,8 rename
			kind = rapid.IntRange(0, 8).Draw(t, "opKind")
			if kind <= 1 && len(work) >= g.o.MaxPaths {
				kind = 2
			}
		} else if len(work) >= g.o.MaxPaths+3 {
			break
		}
		switch {
		case kind <= 1:
			p := g.newPath(work, touched)
			op := Op{Kind: "add", Path: p, Lines: rapid.IntRange(1, 12).Draw(t, "lines")}
			if g.o.Binary && rapid.IntRange(0, 6).Draw(t, "binary") == 6 {
				op.Binary = true
			}
			if g.o.BigFiles && rapid.IntRange(0, 11).Draw(t, "big") == 11 {
				op.Lines = rapid.IntRange(100, 1400).Draw(t, "bigLines")
			}
			if g.o.ExecFiles && rapid.IntRange(0, 4).Draw(t, "exec") == 4 {
				op.Exec = true
			}
			touched[p] = true
			work[p] = &File{Lines: make([]string, op.Lines), Binary: op.Binary}
			ops = append(ops, op)
		case kind <= 4:
			p := rapid.SampledFrom(avail).Draw(t, "path")
			f := work[p]
			l := len(f.Lines)
			op := Op{Kind: "modify", Path: p}
			op.Ins = rapid.IntRange(0, 5).Draw(t, "ins")
			op.Drop = rapid.IntRange(0, l).Draw(t, "drop")
			if op.Drop+op.Ins == 0 {
				op.Ins = 1
			}
			if f.Binary && l-op.Drop+op.Ins == 0 {
				op.Ins = 1
			}
			op.DropAt = rapid.IntRange(0, l-op.Drop).Draw(t, "dropAt")
			op.InsAt = rapid.IntRange(0, l-op.Drop).Draw(t, "insAt")
			if g.o.ModeChanges {
				// 0-5 content only, 6 content and mode, 7 mode only
				switch rapid.IntRange(0, 7).Draw(t, "chmod") {
				case 6:
					op.Chmod = true
				case 7:
					op.Chmod = true
					op.Drop, op.Ins, op.DropAt, op.InsAt = 0, 0, 0, 0
				}
			}
			touched[p] = true
			work[p] = &File{Lines: make([]string, l-op.Drop+op.Ins), Binary: f.Binary}
			ops = append(ops, op)
		case kind == 5:
			p := rapid.SampledFrom(avail).Draw(t, "path")
			touched[p] = true
			delete(work, p)
			g.grave = append(g.grave, p)
			ops = append(ops, Op{Kind: "delete", Path: p})
		default:
			p := rapid.SampledFrom(avail).Draw(t, "path")
			f := work[p]
			l := len(f.Lines)
			touched[p] = true
			delete(work, p)
			to := g.renameTarget(p, work, touched)
			touched[to] = true
			op := Op{Kind: "rename", Path: p, To: to}
			// 0-3 unchanged, 4-6 light edit, 7-8 half rewritten, 9 rewritten
			switch level := rapid.IntRange(0, 9).Draw(t, "renameEdit"); {
			case level <= 3:
			case level <= 6:
				op.Ins = rapid.IntRange(0, 2).Draw(t, "ins")
				op.Drop = rapid.IntRange(0, min(l, 2)).Draw(t, "drop")
			case level <= 8:
				op.Drop = rapid.IntRange(0, l).Draw(t, "drop")
				op.Ins = rapid.IntRange(0, l+1).Draw(t, "ins")
			default:
				op.Drop = l
				op.Ins = rapid.IntRange(1, 4).Draw(t, "ins")
			}
			if l-op.Drop+op.Ins == 0 {
				op.Ins = 1 // an empty file is never a rename target (git would pair empty files freely)
			}
			op.DropAt = rapid.IntRange(0, l-op.Drop).Draw(t, "dropAt")
			op.InsAt = rapid.IntRange(0, l-op.Drop).Draw(t, "insAt")
			work[to] = &File{Lines: make([]string, l-op.Drop+op.Ins), Binary: f.Binary}
			g.grave = append(g.grave, p)
			ops = append(ops, op)
		}
	}
	if g.o.BulkAdds && rapid.IntRange(0, 11).Draw(t, "bulk") == 11 {
		// an import of many files in one commit (MaxPaths does not apply to it)
		k := rapid.IntRange(9, 24).Draw(t, "bulkFiles")
		for i := 0; i < k; i++ {
			p := g.newPath(work, touched)
			op := Op{Kind: "add", Path: p, Lines: rapid.IntRange(1, 3).Draw(t, "lines")}
			touched[p] = true
			work[p] = &File{Lines: make([]string, op.Lines)}
			ops = append(ops, op)
		}
	}
	return ops
}

// Gen draws a history: every operation is valid for the tree it applies to.
func Gen(t *rapid.T, o Options) History {
	o = o.withDefaults()
	g := &genState{t: t, o: o, st: newState()}
	nAuthors := rapid.IntRange(1, o.MaxAuthors).Draw(t, "nAuthors")
	for i := 0; i < nAuthors; i++ {
		g.authors = append(g.authors, rapid.SampledFrom(g.authorNames()).Draw(t, "authorName"))
	}
	n := rapid.IntRange(1, o.MaxCommits).Draw(t, "nCommits")
	if o.QuotedPaths {
		g.quoted = rapid.IntRange(0, 3).Draw(t, "quotedPaths") == 3
	}
	var h History
	for i := 0; i < n; i++ {
		c := Commit{Author: rapid.SampledFrom(g.authors).Draw(t, "author")}
		g.day += rapid.IntRange(0, 3).Draw(t, "days") * rapid.IntRange(0, 13).Draw(t, "daysScale")
		c.Date = time.Date(2015, 1, 1, 0, 0, 0, 0, time.UTC).AddDate(0, 0, g.day).Format("2006-01-02")
		c.Clock = rapid.SampledFrom(clockPool).Draw(t, "clock")
		c.Zone = rapid.SampledFrom(zonePool).Draw(t, "zone")
		c.Subject, c.Type = g.subject(c.Author, c.Date)
		// what kind of commit: 0-6 plain on main, 7 empty, 8-9 side lane / merge
		kind := rapid.IntRange(0, 9).Draw(t, "commitKind")
		side := func() {
			c.Lane = 1
			tree, fork := g.st.lanes[1], g.st.fork
			if !g.st.sideOpen {
				tree, fork = g.st.lanes[0], g.st.lanes[0]
			}
			if rapid.IntRange(0, 9).Draw(t, "emptySide") < 9 || !o.Empty {
				c.Ops = g.ops(tree, func(p string) bool { return fork[p] != tree[p] })
			}
		}
		switch {
		case kind == 7 && o.Empty:
			// empty commit on main
		case o.Merges && g.st.sideOpen && (kind == 5 || kind == 6):
			c.Merge = true
			if o.SquashMerges && rapid.IntRange(0, 2).Draw(t, "squash") == 2 {
				c.Merge, c.Squash = false, true
			}
		case o.Merges && g.st.tips[0] >= 0 && kind >= 8:
			side()
		default:
			c.Ops = g.ops(g.st.lanes[0], func(string) bool { return true })
		}
		if c.Merge && rapid.IntRange(0, 2).Draw(t, "mergeSubject") < 2 {
			c.Subject, c.Type = "Merge branch 'side'", ""
		}
		if o.ToolSubjects {
			// 0-8 the subject drawn above, 9-10 a merge subject, 11 another generated subject; a squash commit
			// carries a merge subject more often than not
			w := rapid.IntRange(0, 11).Draw(t, "toolSubject")
			if c.Squash && w >= 3 && w <= 8 {
				w = 9
			}
			switch {
			case w == 9 || w == 10:
				c.Subject, c.Type = g.mergeLikeSubject(), ""
			case w == 11:
				c.Subject, c.Type = g.generatedSubject(g.quotable(c, h.Commits)), ""
			}
			if w >= 9 && reConv.MatchString(c.Subject) {
				// a conventional subject cited at the front (`feat: x (#12)`) keeps its type
				c.Type = reConvType.FindString(c.Subject)
			}
		}
		if o.EmptySubjects && rapid.IntRange(0, 15).Draw(t, "emptySubject") == 15 {
			c.Subject, c.Type = "", ""
		}
		for {
			err := g.st.apply(c)
			if err == nil {
				break
			}
			// git's content hash is weak: two unrelated short files may collide and make a rename pairing
			// ambiguous. Such a commit is written with fewer operations instead.
			if len(c.Ops) > 1 && strings.Contains(err.Error(), "rename source") {
				c.Ops = c.Ops[:len(c.Ops)-1]
				continue
			}
			panic("ggen: generator produced an invalid operation list: " + err.Error())
		}
		h.Commits = append(h.Commits, c)
	}
	return h
}

// GenHashes draws distinct abbreviated hashes (7-10 hex digits) for n commits.
func GenHashes(t *rapid.T, n int) []string {
	seen := map[string]bool{}
	var out []string
	for len(out) < n {
		h := rapid.StringMatching(`[0-9a-f]{7,10}`).Draw(t, "hash")
		if seen[h] {
			h = fmt.Sprintf("%s%x", h[:6], len(out)+1)
			if seen[h] {
				continue
			}
		}
		seen[h] = true
		out = append(out, h)
	}
	return out
}

// ---------------------------------------------------------------------------------------
// feature detection, used for the evidence classes of the checks

var (
	reBracketHex  = regexp.MustCompile(`\[[0-9a-f|]{5,12}\]`)
	reBracket     = regexp.MustCompile(`\[[^\]]*\]`)
	reHexWord     = regexp.MustCompile(`(^|\s)[0-9a-f]{7,8}(\s|$)`)
	reDate        = regexp.MustCompile(`\d{4}-\d{2}-\d{2}`)
	reNumericPath = regexp.MustCompile(`(^|/)\d+ `)
	reConv        = regexp.MustCompile(`^\w+(\([^)]*\))?: `)
	reConvType    = regexp.MustCompile(`^\w+`)
	reMergeLike   = regexp.MustCompile(`^(Merge|Merged) `)
	reGenerated   = regexp.MustCompile(`^(Revert "|Reapply "|fixup! |squash! |amend! |Squashed commit of|Initial commit$|WIP on |index on |Bump |Create |Update |Delete |Add files via upload|Rename |Release |Version |Cherry-pick )|^v?\d+\.\d+\S*$|^release-\d+$`)
)

// commonDir is the longest directory prefix two paths share ("" = none).
func commonDir(a, b string) string {
	pfx := 0
	for i := 0; i < len(a) && i < len(b) && a[i] == b[i]; i++ {
		if a[i] == '/' {
			pfx = i
		}
	}
	return a[:pfx]
}

// trimComponents removes the blanks at the end of every component of a path.
func trimComponents(p string) string {
	parts := strings.Split(p, "/")
	for i := range parts {
		parts[i] = strings.TrimRight(parts[i], " ")
	}
	return strings.Join(parts, "/")
}

// Features lists the generator features present in a simulated history.
func Features(sim *Sim) []string {
	set := map[string]bool{}
	log := sim.Log()
	for i, c := range log {
		s := c.Commit.Subject
		if len(c.Parents) > 1 {
			set["merge_commit"] = true
			switch {
			case s == "Merge branch 'side'":
			case s == "":
				set["merge_commit_empty_subject"] = true
			case reMergeLike.MatchString(s):
				set["merge_commit_other_merge_subject"] = true
			case reGenerated.MatchString(s):
				set["merge_commit_generated_subject"] = true
			}
			continue
		}
		if len(c.Entries) == 0 {
			set["empty_commit"] = true
		}
		if s == "" {
			set["subject_empty"] = true
			if len(c.Entries) > 0 {
				set["subject_empty_on_commit_with_changes"] = true
			}
		}
		if c.Commit.Squash {
			set["squash_commit"] = true
			if len(c.Entries) == 0 {
				set["squash_commit_without_changes"] = true
			}
		}
		if reMergeLike.MatchString(s) {
			set["subject_merge_like"] = true
			switch {
			case len(c.Entries) == 0:
				set["subject_merge_like_on_commit_without_changes"] = true
			case c.Commit.Squash:
				set["subject_merge_like_on_squash_commit"] = true
			default:
				set["subject_merge_like_on_ordinary_commit_with_changes"] = true
			}
			if len(c.Entries) > 0 && i == len(log)-1 {
				set["subject_merge_like_on_last_commit_with_changes"] = true
			}
			if len(c.Entries) > 0 && i == 0 {
				set["subject_merge_like_on_first_commit"] = true
			}
		} else if reGenerated.MatchString(s) {
			set["subject_generated"] = true
			if strings.Contains(s, `"`) || strings.Contains(s, "! ") {
				set["subject_generated_cites_a_subject"] = true
			}
		}
		if reBracketHex.MatchString(s) {
			set["subject_bracketed_hex"] = true
		} else if reBracket.MatchString(s) {
			set["subject_brackets"] = true
		}
		if reHexWord.MatchString(s) {
			set["subject_hex_word"] = true
		}
		if strings.Contains(s, c.Commit.Author) {
			set["subject_repeats_author"] = true
		}
		if strings.Contains(s, c.Commit.Date) {
			set["subject_repeats_date"] = true
		} else if reDate.MatchString(s) {
			set["subject_other_date"] = true
		}
		if strings.Contains(s, "->") || strings.Contains(s, "=>") {
			set["subject_arrow"] = true
		}
		if strings.Contains(strings.TrimPrefix(s, reConv.FindString(s)), ":") {
			set["subject_colon"] = true
		}
		if reConv.MatchString(s) {
			set["subject_conventional"] = true
		}
		if strings.ContainsAny(c.Commit.Author, "-'.[]()@") {
			set["author_punctuation"] = true
		}
		if len(c.Entries) >= 10 {
			set["commit_with_changes>=10"] = true
		}
		for i, e := range c.Entries {
			for _, f := range c.Entries[i+1:] {
				a, b := e.Printed(), f.Printed()
				if strings.HasPrefix(a, b) || strings.HasPrefix(b, a) {
					set["paths_prefix_of_each_other_in_commit"] = true
				}
				if strings.HasSuffix(a, b) || strings.HasSuffix(b, a) {
					set["paths_suffix_of_each_other_in_commit"] = true
				}
				if a != b && strings.TrimRight(a, " ") == strings.TrimRight(b, " ") {
					set["paths_differ_only_by_trailing_blanks_in_commit"] = true
				} else if a != b && e.Kind != 'R' && f.Kind != 'R' && trimComponents(a) == trimComponents(b) {
					set["paths_differ_only_by_blanks_at_component_ends_in_commit"] = true
				}
			}
		}
		for _, r := range c.Commit.Author {
			if r > 127 {
				set["author_non_ascii"] = true
			}
			if r >= '0' && r <= '9' {
				set["author_digit"] = true
			}
			if r == ' ' {
				set["author_space"] = true
			}
		}
		for _, e := range c.Entries {
			for _, p := range []string{e.Old, e.New} {
				if strings.Contains(p, " ") {
					set["path_space"] = true
				}
				if reNumericPath.MatchString(p) {
					set["path_numeric_space"] = true
				}
				if strings.Count(p, "/") >= 2 {
					set["path_nested"] = true
				}
			}
			// paths git prints in C notation between double quotes
			qOld, qNew := e.Old != "" && QuoteC(e.Old) != e.Old, e.New != "" && QuoteC(e.New) != e.New
			if qOld || qNew {
				set["path_c_quoted"] = true
				switch e.Kind {
				case 'A':
					set["path_c_quoted_create"] = true
				case 'D':
					set["path_c_quoted_delete"] = true
				case 'M':
					set["path_c_quoted_modify"] = true
					if e.ModeChange != "" {
						set["path_c_quoted_mode_change"] = true
					}
				case 'R':
					switch {
					case qOld && qNew:
						set["rename_c_quoted_both_paths"] = true
					case qOld:
						set["rename_c_quoted_old_path_only"] = true
					default:
						set["rename_c_quoted_new_path_only"] = true
					}
					if pfx := commonDir(e.Old, e.New); pfx != "" {
						// without the quoting git would have printed `pfx/{old => new}`
						set["rename_c_quoted_in_common_directory_no_braces"] = true
					}
				}
				if e.Binary {
					set["path_c_quoted_binary"] = true
				}
				for _, f := range c.Entries {
					if f.Printed() == f.Old || f.Printed() == f.New {
						set["path_c_quoted_next_to_plain_path_in_commit"] = true
					}
				}
				for _, p := range []string{e.Old, e.New} {
					for i := 0; i < len(p); i++ {
						switch b := p[i]; {
						case b >= 0x80:
							set["path_non_ascii"] = true
						case b == '"':
							set["path_double_quote"] = true
						case b == '\\':
							set["path_backslash"] = true
						case b == '\t':
							set["path_tab"] = true
						case b == '\n':
							set["path_line_break"] = true
						case b < 0x20 || b == 0x7f:
							set["path_other_control_character"] = true
						}
					}
					if p != "" && QuoteC(p) != p && strings.HasSuffix(p, " ") {
						set["path_c_quoted_ends_with_blank"] = true
					}
				}
			}
			if e.Binary {
				set["binary"] = true
			}
			if e.Exec {
				set["executable_file_"+e.Mode()] = true
			}
			if e.ModeChange != "" {
				if e.Added+e.Deleted == 0 {
					set["mode_change_only"] = true
				} else {
					set["mode_change_with_edit"] = true
				}
			}
			if e.Added >= 100 || e.Deleted >= 100 {
				set["numstat_3_digits"] = true
			}
			if e.Added >= 1000 || e.Deleted >= 1000 {
				set["numstat_4_digits"] = true
			}
			for _, p := range []string{e.Old, e.New} {
				if p == "" {
					continue
				}
				if strings.HasSuffix(p, " ") {
					set["path_trailing_blank"] = true
				}
				if strings.Contains(p, " /") {
					set["path_component_trailing_blank"] = true
				}
				if strings.TrimRight(p, " ") == "" {
					set["path_only_blanks"] = true
					if len(c.Entries) > 1 {
						set["path_only_blanks_in_commit_with_other_changes"] = true
					}
				}
				for _, comp := range strings.Split(p, "/") {
					if strings.TrimRight(comp, " ") == "" {
						set["path_component_only_blanks"] = true
					} else if strings.Contains(strings.Trim(comp, " "), "  ") {
						set["path_blank_run_inside_component"] = true
					}
				}
			}
			for _, p := range []string{e.Old, e.New} {
				if strings.HasPrefix(p, " ") {
					set["path_leading_blank"] = true
				} else if strings.Contains(p, "/ ") {
					set["path_component_leading_blank"] = true
				}
			}
			switch e.Kind {
			case 'D':
				set["delete"] = true
			case 'M':
				set["modify"] = true
			case 'R':
				set["rename"] = true
				pr := e.Printed()
				od, _ := splitPath(e.Old)
				nd, _ := splitPath(e.New)
				switch {
				case !strings.Contains(pr, "{"):
					set["rename_full_path"] = true
				case strings.Contains(pr, "{ => "):
					set["rename_into_subdir"] = true
				case strings.Contains(pr, " => }"):
					set["rename_move_up"] = true
				case od == nd:
					set["rename_in_dir"] = true
				default:
					set["rename_brace_dirs"] = true
				}
				if nd == "" {
					set["rename_to_root"] = true
				}
				if e.Score < 100 {
					set["rename_with_edit"] = true
				}
			}
		}
	}
	if len(log) > 0 {
		if len(log[0].Entries) == 0 {
			set["first_commit_without_changes"] = true
		}
		last := log[len(log)-1]
		if len(last.Entries) == 0 {
			set["last_commit_without_changes"] = true
		}
	}
	// a rename op that git shows as delete + create (similarity below 50 %)
	for _, c := range log {
		for _, op := range c.Commit.Ops {
			if op.Kind != "rename" {
				continue
			}
			found := false
			for _, e := range c.Entries {
				if e.Kind == 'R' && e.Old == op.Path {
					found = true
				}
			}
			if !found {
				set["rename_below_threshold"] = true
			}
		}
	}
	for _, c := range sim.Commits {
		if !c.Reachable {
			set["unmerged_side_commits"] = true
		}
	}
	var out []string
	for k := range set {
		out = append(out, k)
	}
	return out
}

// Special reports the subject/path/operation features that make a history non-trivial for C14.
func Special(features []string) bool {
	for _, f := range features {
		switch f {
		case "rename", "delete", "binary", "path_space", "subject_bracketed_hex", "subject_brackets", "subject_hex_word",
			"subject_repeats_author", "subject_repeats_date", "subject_other_date", "subject_arrow", "subject_colon",
			"subject_merge_like", "subject_generated", "path_c_quoted":
			return true
		}
	}
	return false
}
