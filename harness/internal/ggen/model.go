// Package ggen generates git histories from an abstract operation list and gives their
// ground truth. A History is turned
//
//	(a) into a real repository, built by the installed `git` in a scratch directory with
//	    author/committer names and dates fixed through environment variables (realgit.go), and
//	(b) into the text `git log --pretty=format:'[%h] %aN %ad %s' --date=short --numstat
//	    --reverse --summary` prints for it, by a format emulator (Emulate).
//
// Both are derived from one simulation of the operation list (Simulate): file trees per
// commit with line-level bookkeeping, a tree diff with the rename pairing git performs
// (exact match, then similarity of at least 50 % by git's span-hash estimate) and git's
// `pfx/{old => new}/sfx` rename notation. The emulator is only trusted after it has been
// compared byte for byte with real git (Validate / SelfTest); a mismatch is a harness
// error, never a property violation.
package ggen

import (
	"fmt"
	"sort"
	"strings"
)

// Op is one file operation of a commit.
//
//	add:    new file Path with Lines fresh lines (Binary: lines contain NUL bytes)
//	modify: remove Drop lines at DropAt, then insert Ins fresh lines at InsAt
//	delete: remove Path
//	rename: move Path to To, then edit like modify (Drop/Ins may both be 0)
type Op struct {
	Kind   string `json:"kind"`
	Path   string `json:"path"`
	To     string `json:"to,omitempty"`
	Binary bool   `json:"binary,omitempty"`
	Exec   bool   `json:"exec,omitempty"`  // add only: the file is executable (mode 100755); edits and renames keep the mode
	Chmod  bool   `json:"chmod,omitempty"` // modify: the executable bit is flipped (Drop and Ins may both be 0 then); rename: the moved file's executable bit is flipped as well (never set by Gen; a check may set it on the drawn history)
	Lines  int    `json:"lines,omitempty"`
	DropAt int    `json:"drop_at,omitempty"`
	Drop   int    `json:"drop,omitempty"`
	InsAt  int    `json:"ins_at,omitempty"`
	Ins    int    `json:"ins,omitempty"`
}

// Commit is one commit of the operation list. Lane 0 is the main branch, lane 1 a side
// branch that forks from the main tip with its first commit and ends with a Merge commit
// (a commit on lane 0 with two parents and no Ops). Date/Clock/Zone are the author date.
type Commit struct {
	Author  string `json:"author"`
	Date    string `json:"date"`  // YYYY-MM-DD, as the author's local date
	Clock   string `json:"clock"` // HH:MM:SS
	Zone    string `json:"zone"`  // +hhmm / -hhmm
	Subject string `json:"subject"`
	Type    string `json:"type,omitempty"` // conventional-commit type of Subject ("" = none)
	Lane    int    `json:"lane,omitempty"`
	Merge   bool   `json:"merge,omitempty"`
	// Squash: a commit on lane 0 with ONE parent and no Ops whose tree is the one a merge of the open side
	// lane would give (`git merge --squash side && git commit`); the side lane is abandoned afterwards (its
	// commits stay unreachable). It is an ordinary non-merge commit whose diff is the side lane's net change.
	Squash bool `json:"squash,omitempty"`
	Ops    []Op `json:"ops,omitempty"`
	// Body: further paragraphs of the commit message (`git commit -m Subject -m Body`); `git log` with %s
	// never prints them. Only used when Subject is not empty. Never set by Gen; a check may set it on the
	// drawn history.
	Body string `json:"body,omitempty"`
}

// History is the abstract operation list: the ground truth of everything derived from it.
type History struct {
	Commits []Commit `json:"commits"`
}

// File is the content of one file: a list of newline-terminated lines.
type File struct {
	Lines  []string
	Binary bool
	Exec   bool
}

// ModeString is the file mode as git prints it in --summary lines.
func (f *File) ModeString() string {
	if f != nil && f.Exec {
		return "100755"
	}
	return "100644"
}

func (f *File) Bytes() []byte {
	return []byte(strings.Join(f.Lines, ""))
}

// Tree maps slash-separated paths to files. Trees are never mutated after a commit.
type Tree map[string]*File

func (t Tree) clone() Tree {
	c := make(Tree, len(t))
	for k, v := range t {
		c[k] = v
	}
	return c
}

// Paths returns the sorted paths of the tree.
func (t Tree) Paths() []string {
	var out []string
	for p := range t {
		out = append(out, p)
	}
	sort.Strings(out)
	return out
}

// Entry is one line of the diff of a commit against its first parent, as git sees it.
type Entry struct {
	Kind    byte   // 'A' added, 'D' deleted, 'M' modified, 'R' renamed
	Old     string // path before (D, M, R)
	New     string // path after (A, M, R)
	Added   int    // 0 for binary
	Deleted int
	Binary  bool
	Score   int  // rename similarity percent as printed
	Exec    bool // the created / deleted file is executable
	// ModeChange is "100644 => 100755" (or the reverse) for a modified (or renamed) file whose executable
	// bit was flipped; git adds a ` mode change` line to the summary block (without the path after a rename line)
	ModeChange string
}

// Printed is the path column of the numstat line (a path that holds a byte git does not print as it is comes
// in C notation between double quotes, see QuoteC; for every other path this is the path itself).
func (e Entry) Printed() string {
	switch e.Kind {
	case 'R':
		return PrintRenameC(e.Old, e.New)
	case 'D':
		return QuoteC(e.Old)
	}
	return QuoteC(e.New)
}

// Mode is the create/delete mode the --summary block attaches to the path ("" otherwise).
func (e Entry) Mode() string {
	switch e.Kind {
	case 'A':
		return "create"
	case 'D':
		return "delete"
	}
	return ""
}

// SimCommit is one simulated commit.
type SimCommit struct {
	Index     int
	Commit    Commit
	Parents   []int // indices of parent commits (first parent first)
	Tree      Tree
	Entries   []Entry // diff against the first parent in git's output order; nil for merges
	Reachable bool    // reachable from the final main tip
}

// Sim is the simulation of a whole history.
type Sim struct {
	Commits []SimCommit
	Head    int // index of the final main tip
}

// Log returns the reachable commits in the order of `git log --reverse`. Committer dates
// increase strictly with the commit index, so that order is the index order.
func (s *Sim) Log() []SimCommit {
	var out []SimCommit
	for _, c := range s.Commits {
		if c.Reachable {
			out = append(out, c)
		}
	}
	return out
}

// HeadTree is the tree of the final main tip.
func (s *Sim) HeadTree() Tree { return s.Commits[s.Head].Tree }

var fillers = []string{
	"alpha", "beta gamma", "x", "return nil", "the quick brown fox", "}", "import (", "0123456789 0123456789 0123456789",
	"func main() {", "lorem ipsum dolor sit amet consectetur", "// TODO", "value := compute(a, b, c)", "-- ++ --", "é ü 漢字",
}

// state is the interpreter of an operation list; the generator drives it step by step so
// that every drawn operation is valid for the tree it applies to.
type state struct {
	serial   int
	lanes    [2]Tree
	tips     [2]int // commit index of the lane tip, -1 = none
	fork     Tree   // tree of the main tip at the time lane 1 forked
	sideOpen bool
	commits  []SimCommit
}

func newState() *state {
	return &state{lanes: [2]Tree{{}, nil}, tips: [2]int{-1, -1}}
}

func (s *state) newLines(n int, binary bool) []string {
	out := make([]string, 0, n)
	for i := 0; i < n; i++ {
		s.serial++
		text := fmt.Sprintf("%d %s", s.serial, fillers[(s.serial*7+s.serial/3)%len(fillers)])
		if binary {
			text = "\x00\xfe" + text
		}
		out = append(out, text+"\n")
	}
	return out
}

func clamp(v, lo, hi int) int {
	if v < lo {
		return lo
	}
	if v > hi {
		return hi
	}
	return v
}

func (s *state) edit(f *File, op Op) *File {
	lines := append([]string(nil), f.Lines...)
	at := clamp(op.DropAt, 0, len(lines))
	n := clamp(op.Drop, 0, len(lines)-at)
	lines = append(lines[:at], lines[at+n:]...)
	ins := clamp(op.InsAt, 0, len(lines))
	fresh := s.newLines(clamp(op.Ins, 0, 1<<20), f.Binary)
	out := make([]string, 0, len(lines)+len(fresh))
	out = append(out, lines[:ins]...)
	out = append(out, fresh...)
	out = append(out, lines[ins:]...)
	return &File{Lines: out, Binary: f.Binary, Exec: f.Exec}
}

// conflicts reports whether path p cannot be added to tree t (occupied, or a directory of
// an existing file, or below an existing file).
func conflicts(t Tree, p string) bool {
	if _, ok := t[p]; ok {
		return true
	}
	for q := range t {
		if strings.HasPrefix(q, p+"/") || strings.HasPrefix(p, q+"/") {
			return true
		}
	}
	return false
}

// apply executes one commit of the operation list.
func (s *state) apply(c Commit) error {
	idx := len(s.commits)
	sc := SimCommit{Index: idx, Commit: c}
	switch {
	case c.Merge && c.Squash:
		return fmt.Errorf("commit %d: both merge and squash", idx)
	case c.Merge || c.Squash:
		if !s.sideOpen || c.Lane != 0 || len(c.Ops) > 0 {
			return fmt.Errorf("commit %d: merge without an open side lane, or with ops", idx)
		}
		merged := s.lanes[0].clone()
		side := s.lanes[1]
		// every path the side lane changed since the fork is taken from the side lane
		for p, f := range side {
			if s.fork[p] != f {
				merged[p] = f
			}
		}
		for p := range s.fork {
			if _, ok := side[p]; !ok {
				delete(merged, p)
			}
		}
		for p := range merged {
			rest := merged.clone()
			delete(rest, p)
			if conflicts(rest, p) {
				return fmt.Errorf("commit %d: merge gives a file/directory conflict at %q", idx, p)
			}
		}
		sc.Parents = []int{s.tips[0], s.tips[1]}
		sc.Tree = merged
		if c.Squash {
			entries, err := diffTrees(s.lanes[0], merged)
			if err != nil {
				return fmt.Errorf("commit %d: %v", idx, err)
			}
			sc.Parents, sc.Entries = []int{s.tips[0]}, entries
		}
		s.lanes[0], s.tips[0] = merged, idx
		s.sideOpen, s.lanes[1], s.tips[1], s.fork = false, nil, -1, nil
	default:
		lane := c.Lane
		if lane != 0 && lane != 1 {
			return fmt.Errorf("commit %d: lane %d", idx, lane)
		}
		if lane == 1 && !s.sideOpen {
			if s.tips[0] < 0 {
				return fmt.Errorf("commit %d: side lane before the first main commit", idx)
			}
			s.sideOpen, s.lanes[1], s.tips[1], s.fork = true, s.lanes[0], s.tips[0], s.lanes[0]
		}
		before := s.lanes[lane]
		after := before.clone()
		touched := map[string]bool{}
		touch := func(p string) error {
			if touched[p] {
				return fmt.Errorf("commit %d: path %q touched twice", idx, p)
			}
			touched[p] = true
			return nil
		}
		for _, op := range c.Ops {
			if err := touch(op.Path); err != nil {
				return err
			}
			switch op.Kind {
			case "add":
				if conflicts(after, op.Path) || op.Lines < 1 {
					return fmt.Errorf("commit %d: cannot add %q", idx, op.Path)
				}
				after[op.Path] = &File{Lines: s.newLines(op.Lines, op.Binary), Binary: op.Binary, Exec: op.Exec}
			case "modify":
				f, ok := after[op.Path]
				if !ok {
					return fmt.Errorf("commit %d: modify of missing %q", idx, op.Path)
				}
				nf := s.edit(f, op)
				if op.Chmod {
					nf.Exec = !nf.Exec
				}
				after[op.Path] = nf
			case "delete":
				if _, ok := after[op.Path]; !ok {
					return fmt.Errorf("commit %d: delete of missing %q", idx, op.Path)
				}
				delete(after, op.Path)
			case "rename":
				f, ok := after[op.Path]
				if !ok {
					return fmt.Errorf("commit %d: rename of missing %q", idx, op.Path)
				}
				if err := touch(op.To); err != nil {
					return err
				}
				delete(after, op.Path)
				if conflicts(after, op.To) {
					return fmt.Errorf("commit %d: rename target %q conflicts", idx, op.To)
				}
				moved := s.edit(f, op)
				if op.Chmod {
					moved.Exec = !moved.Exec
				}
				after[op.To] = moved
			default:
				return fmt.Errorf("commit %d: unknown op %q", idx, op.Kind)
			}
		}
		if s.tips[lane] >= 0 {
			sc.Parents = []int{s.tips[lane]}
		}
		entries, err := diffTrees(before, after)
		if err != nil {
			return fmt.Errorf("commit %d: %v", idx, err)
		}
		sc.Tree, sc.Entries = after, entries
		s.lanes[lane], s.tips[lane] = after, idx
	}
	s.commits = append(s.commits, sc)
	return nil
}

func (s *state) finish() (*Sim, error) {
	if s.tips[0] < 0 {
		return nil, fmt.Errorf("history without a commit on the main lane")
	}
	sim := &Sim{Commits: s.commits, Head: s.tips[0]}
	stack := []int{sim.Head}
	for len(stack) > 0 {
		i := stack[len(stack)-1]
		stack = stack[:len(stack)-1]
		if sim.Commits[i].Reachable {
			continue
		}
		sim.Commits[i].Reachable = true
		stack = append(stack, sim.Commits[i].Parents...)
	}
	return sim, nil
}

// Simulate interprets an operation list.
func Simulate(h History) (*Sim, error) {
	s := newState()
	for _, c := range h.Commits {
		if err := s.apply(c); err != nil {
			return nil, err
		}
	}
	return s.finish()
}

// ---------------------------------------------------------------------------------------
// tree diff as git computes it (diff-tree -r -M)

func isBinary(data []byte) bool {
	n := len(data)
	if n > 8000 {
		n = 8000
	}
	for _, b := range data[:n] {
		if b == 0 {
			return true
		}
	}
	return false
}

func sameLines(a, b []string) bool {
	if len(a) != len(b) {
		return false
	}
	for i := range a {
		if a[i] != b[i] {
			return false
		}
	}
	return true
}

// lineDiff returns (added, deleted) of a minimal line diff (longest common subsequence).
func lineDiff(a, b []string) (int, int) {
	n, m := len(a), len(b)
	prev := make([]int, m+1)
	cur := make([]int, m+1)
	for i := 1; i <= n; i++ {
		for j := 1; j <= m; j++ {
			switch {
			case a[i-1] == b[j-1]:
				cur[j] = prev[j-1] + 1
			case prev[j] >= cur[j-1]:
				cur[j] = prev[j]
			default:
				cur[j] = cur[j-1]
			}
		}
		prev, cur = cur, prev
	}
	lcs := prev[m]
	return m - lcs, n - lcs
}

const (
	maxScore     = 60000.0
	minimumScore = 30000
	hashBase     = 107927
)

// spanHash is git's diffcore-delta fingerprint: bytes per hash of every span (a line, or
// 64 bytes, whichever ends first).
func spanHash(data []byte, text bool) map[uint32]int {
	out := map[uint32]int{}
	var accum1, accum2 uint32
	n := 0
	for i := 0; i < len(data); i++ {
		c := uint32(data[i])
		old1 := accum1
		if text && c == '\r' && i+1 < len(data) && data[i+1] == '\n' {
			continue
		}
		accum1 = (accum1 << 7) ^ (accum2 >> 25)
		accum2 = (accum2 << 7) ^ (old1 >> 25)
		accum1 += c
		n++
		if n < 64 && c != '\n' {
			continue
		}
		out[(accum1+accum2*0x61)%hashBase] += n
		n = 0
		accum1, accum2 = 0, 0
	}
	return out
}

// similarity is git's estimate_similarity on a 0..60000 scale.
func similarity(src, dst []byte) int {
	maxSize, baseSize := len(src), len(dst)
	if baseSize > maxSize {
		maxSize, baseSize = baseSize, maxSize
	}
	delta := maxSize - baseSize
	if float64(maxSize)*(maxScore-minimumScore) < float64(delta)*maxScore {
		return 0
	}
	if len(dst) == 0 {
		return 0
	}
	a := spanHash(src, !isBinary(src))
	b := spanHash(dst, !isBinary(dst))
	copied := 0
	for h, n := range a {
		if m := b[h]; m < n {
			copied += m
		} else {
			copied += n
		}
	}
	return int(float64(copied) * maxScore / float64(maxSize))
}

func diffTrees(before, after Tree) ([]Entry, error) {
	var deleted, added []string
	var out []Entry
	for _, p := range before.Paths() {
		if _, ok := after[p]; !ok {
			deleted = append(deleted, p)
		}
	}
	for _, p := range after.Paths() {
		old, ok := before[p]
		if !ok {
			added = append(added, p)
			continue
		}
		cur := after[p]
		if old == cur || (sameLines(old.Lines, cur.Lines) && old.Exec == cur.Exec) {
			continue
		}
		e := Entry{Kind: 'M', Old: p, New: p}
		if old.Exec != cur.Exec {
			e.ModeChange = old.ModeString() + " => " + cur.ModeString()
		}
		fillCounts(&e, old, cur)
		out = append(out, e)
	}
	// rename pairing: exact content first, then similarity >= 50 %. The generator keeps
	// every pairing unambiguous (all lines are globally unique, added files are not empty).
	usedSrc := map[string]string{}
	pair := map[string]string{} // new path -> old path
	score := map[string]int{}
	// phase 1, as git does it: files whose content is unchanged are paired first and leave the pool, so a
	// weak-hash collision between an unrelated deleted file and a moved one cannot make the move ambiguous
	for _, a := range added {
		var exact []string
		for _, d := range deleted {
			if _, taken := usedSrc[d]; !taken && sameLines(before[d].Lines, after[a].Lines) {
				exact = append(exact, d)
			}
		}
		if len(exact) > 1 {
			return nil, fmt.Errorf("ambiguous rename sources %v for %q", exact, a)
		}
		if len(exact) == 1 {
			usedSrc[exact[0]] = a
			pair[a] = exact[0]
			score[a] = int(maxScore)
		}
	}
	// phase 2: similarity >= 50 % among what is left
	for _, a := range added {
		if _, done := pair[a]; done {
			continue
		}
		var cands []string
		var best int
		for _, d := range deleted {
			if prev, taken := usedSrc[d]; taken && score[prev] == int(maxScore) && sameLines(before[d].Lines, after[prev].Lines) {
				continue // left the pool in phase 1
			}
			sc := similarity(before[d].Bytes(), after[a].Bytes())
			if sc >= minimumScore {
				cands = append(cands, d)
				best = sc
			}
		}
		if len(cands) > 1 {
			return nil, fmt.Errorf("ambiguous rename sources %v for %q", cands, a)
		}
		if len(cands) == 1 {
			if prev, taken := usedSrc[cands[0]]; taken {
				return nil, fmt.Errorf("rename source %q matches both %q and %q", cands[0], prev, a)
			}
			usedSrc[cands[0]] = a
			pair[a] = cands[0]
			score[a] = best
		}
	}
	for _, d := range deleted {
		if _, ok := usedSrc[d]; ok {
			continue
		}
		e := Entry{Kind: 'D', Old: d, Exec: before[d].Exec}
		fillCounts(&e, before[d], &File{})
		out = append(out, e)
	}
	for _, a := range added {
		if src, ok := pair[a]; ok {
			e := Entry{Kind: 'R', Old: src, New: a, Score: int(float64(score[a]) * 100 / maxScore)}
			if before[src].Exec != after[a].Exec {
				e.ModeChange = before[src].ModeString() + " => " + after[a].ModeString()
			}
			fillCounts(&e, before[src], after[a])
			out = append(out, e)
			continue
		}
		e := Entry{Kind: 'A', New: a, Exec: after[a].Exec}
		fillCounts(&e, &File{}, after[a])
		out = append(out, e)
	}
	// git's order: by path (byte order of the full path), a rename at its new path
	key := func(e Entry) string {
		if e.Kind == 'D' {
			return e.Old
		}
		return e.New
	}
	sort.SliceStable(out, func(i, j int) bool { return key(out[i]) < key(out[j]) })
	return out, nil
}

func fillCounts(e *Entry, old, cur *File) {
	if isBinary(old.Bytes()) || isBinary(cur.Bytes()) {
		e.Binary = true
		return
	}
	e.Added, e.Deleted = lineDiff(old.Lines, cur.Lines)
}

// QuoteC is git's quote_c_style with core.quotepath at its default (true): a path that holds a control
// character, DEL, a double quote, a backslash or a byte above 0x7f is printed between double quotes with
// \a \b \t \n \v \f \r \" \\ for the bytes that have such a spelling and three octal digits for every other
// such byte (each byte of a UTF-8 sequence on its own); any other path is printed as it is.
func QuoteC(p string) string {
	need := false
	for i := 0; i < len(p); i++ {
		if b := p[i]; b < 0x20 || b >= 0x7f || b == '"' || b == '\\' {
			need = true
			break
		}
	}
	if !need {
		return p
	}
	var sb strings.Builder
	sb.WriteByte('"')
	for i := 0; i < len(p); i++ {
		switch b := p[i]; {
		case b == '\a':
			sb.WriteString(`\a`)
		case b == '\b':
			sb.WriteString(`\b`)
		case b == '\t':
			sb.WriteString(`\t`)
		case b == '\n':
			sb.WriteString(`\n`)
		case b == '\v':
			sb.WriteString(`\v`)
		case b == '\f':
			sb.WriteString(`\f`)
		case b == '\r':
			sb.WriteString(`\r`)
		case b == '"':
			sb.WriteString(`\"`)
		case b == '\\':
			sb.WriteString(`\\`)
		case b < 0x20 || b >= 0x7f:
			fmt.Fprintf(&sb, "\\%03o", b)
		default:
			sb.WriteByte(b)
		}
	}
	sb.WriteByte('"')
	return sb.String()
}

// PrintRenameC is git's pprint_rename for any two paths: when one of them needs C-style quoting git gives up
// the brace notation and prints both full paths, each quoted on its own where it needs it:
// `"d\303\244/f.txt" => "d\303\244/g.txt"`, `plain.txt => "pl\303\244n.txt"`; otherwise PrintRename.
func PrintRenameC(a, b string) string {
	if qa, qb := QuoteC(a), QuoteC(b); qa != a || qb != b {
		return qa + " => " + qb
	}
	return PrintRename(a, b)
}

// PrintRename is git's pprint_rename: `a => b`, `pfx/{a => b}`, `{a => b}/sfx`,
// `pfx/{a => b}/sfx` (paths that need no C-style quoting).
func PrintRename(a, b string) string {
	la, lb := len(a), len(b)
	pfx := 0
	for i := 0; i < la && i < lb && a[i] == b[i]; i++ {
		if a[i] == '/' {
			pfx = i + 1
		}
	}
	adjust := 0
	if pfx > 0 {
		adjust = 1
	}
	sfx := 0
	// positions la / lb stand for the terminating NUL of the C strings
	at := func(s string, i int) byte {
		if i == len(s) {
			return 0
		}
		return s[i]
	}
	i, j := la, lb
	for pfx-adjust <= i && pfx-adjust <= j && at(a, i) == at(b, j) {
		if at(a, i) == '/' {
			sfx = la - i
		}
		i--
		j--
		if i < 0 || j < 0 {
			break
		}
	}
	amid := la - pfx - sfx
	bmid := lb - pfx - sfx
	if amid < 0 {
		amid = 0
	}
	if bmid < 0 {
		bmid = 0
	}
	var sb strings.Builder
	if pfx+sfx > 0 {
		sb.WriteString(a[:pfx])
		sb.WriteByte('{')
	}
	sb.WriteString(a[pfx : pfx+amid])
	sb.WriteString(" => ")
	sb.WriteString(b[pfx : pfx+bmid])
	if pfx+sfx > 0 {
		sb.WriteByte('}')
		sb.WriteString(a[la-sfx:])
	}
	return sb.String()
}

// ---------------------------------------------------------------------------------------
// expected parse result and the format emulator

// Change is one expected file change of a commit.
type Change struct {
	File    string `json:"file"`
	Added   int    `json:"added"`
	Deleted int    `json:"deleted"`
	Mode    string `json:"mode"`
}

// Expected is one commit the parsed list must contain.
type Expected struct {
	Rev     string
	Author  string
	Date    string
	Subject string
	Type    string // conventional-commit type, "" = none
	Changes []Change
	Entries []Entry
}

// Expect lists, in log order, the non-merge commits that change at least one file. hashes
// are the abbreviated hashes of Sim.Log(), in that order.
func Expect(sim *Sim, hashes []string) []Expected {
	var out []Expected
	for i, c := range sim.Log() {
		if len(c.Parents) > 1 || len(c.Entries) == 0 {
			continue
		}
		e := Expected{Rev: hashes[i], Author: c.Commit.Author, Date: c.Commit.Date, Subject: c.Commit.Subject, Type: c.Commit.Type, Entries: c.Entries}
		for _, d := range c.Entries {
			e.Changes = append(e.Changes, Change{File: d.Printed(), Added: d.Added, Deleted: d.Deleted, Mode: d.Mode()})
		}
		out = append(out, e)
	}
	return out
}

// Emulate prints the history the way
// `git log --pretty=format:'[%h] %aN %ad %s' --date=short --numstat --reverse --summary` does.
func Emulate(sim *Sim, hashes []string) string {
	var sb strings.Builder
	for i, c := range sim.Log() {
		if i > 0 {
			sb.WriteByte('\n')
		}
		fmt.Fprintf(&sb, "[%s] %s %s %s", hashes[i], c.Commit.Author, c.Commit.Date, c.Commit.Subject)
		if len(c.Parents) > 1 || len(c.Entries) == 0 {
			continue
		}
		sb.WriteByte('\n')
		for _, e := range c.Entries {
			if e.Binary {
				fmt.Fprintf(&sb, "-\t-\t%s\n", e.Printed())
			} else {
				fmt.Fprintf(&sb, "%d\t%d\t%s\n", e.Added, e.Deleted, e.Printed())
			}
		}
		for _, e := range c.Entries {
			switch e.Kind {
			case 'A':
				fmt.Fprintf(&sb, " create mode %s %s\n", (&File{Exec: e.Exec}).ModeString(), QuoteC(e.New))
			case 'D':
				fmt.Fprintf(&sb, " delete mode %s %s\n", (&File{Exec: e.Exec}).ModeString(), QuoteC(e.Old))
			case 'R':
				fmt.Fprintf(&sb, " rename %s (%d%%)\n", e.Printed(), e.Score)
				if e.ModeChange != "" {
					// after a rename line git prints the mode change without the path
					fmt.Fprintf(&sb, " mode change %s\n", e.ModeChange)
				}
			case 'M':
				if e.ModeChange != "" {
					fmt.Fprintf(&sb, " mode change %s %s\n", e.ModeChange, QuoteC(e.New))
				}
			}
		}
	}
	return sb.String()
}
