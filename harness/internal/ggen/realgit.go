package ggen

import (
	"bytes"
	"fmt"
	"os"
	"os/exec"
	"path/filepath"
	"strconv"
	"strings"
)

// LogArgs is the `git log` invocation whose output coca parses (cmd/git.go, without the
// stray quotes of the pinned tree).
var LogArgs = []string{"log", "--pretty=format:[%h] %aN %ad %s", "--date=short", "--numstat", "--reverse", "--summary"}

// Repo is a real repository built from a History.
type Repo struct {
	Dir    string   // work tree
	Home   string   // empty HOME used for every git call
	Full   []string // full hash per commit of the history (index = commit index)
	Hashes []string // abbreviated hashes of Sim.Log(), in log order
	LogOut string   // output of LogArgs
}

// HermeticEnv makes git ignore the machine's configuration.
func HermeticEnv(home string) []string {
	return []string{"HOME=" + home, "XDG_CONFIG_HOME=" + home, "GIT_CONFIG_NOSYSTEM=1", "GIT_CONFIG_GLOBAL=/dev/null",
		"GIT_TERMINAL_PROMPT=0", "LC_ALL=C", "TZ=UTC", "GIT_PAGER=cat"}
}

// HarnessFatal reports a defect of the harness itself (not of the code under test) and ends
// the process: the driver maps that to "inconclusive", never to a violation.
func HarnessFatal(format string, a ...interface{}) {
	fmt.Printf("HARNESS-ERROR (not a violation): "+format+"\n", a...)
	os.Exit(3)
}

func (r *Repo) git(extraEnv []string, args ...string) (string, error) {
	cmd := exec.Command("git", args...)
	cmd.Dir = r.Dir
	cmd.Env = append(append(os.Environ(), HermeticEnv(r.Home)...), extraEnv...)
	var out, errb bytes.Buffer
	cmd.Stdout, cmd.Stderr = &out, &errb
	if err := cmd.Run(); err != nil {
		return out.String(), fmt.Errorf("git %s: %v: %s", strings.Join(args, " "), err, errb.String())
	}
	return out.String(), nil
}

// Remove deletes the repository.
func (r *Repo) Remove() {
	_ = os.RemoveAll(filepath.Dir(r.Dir))
}

func writeTree(dir string, t Tree) error {
	entries, err := os.ReadDir(dir)
	if err != nil {
		return err
	}
	for _, e := range entries {
		if e.Name() == ".git" {
			continue
		}
		if err := os.RemoveAll(filepath.Join(dir, e.Name())); err != nil {
			return err
		}
	}
	for p, f := range t {
		full := filepath.Join(dir, filepath.FromSlash(p))
		if err := os.MkdirAll(filepath.Dir(full), 0755); err != nil {
			return err
		}
		perm := os.FileMode(0644)
		if f.Exec {
			perm = 0755
		}
		if err := os.WriteFile(full, f.Bytes(), perm); err != nil {
			return err
		}
		if f.Exec {
			// WriteFile applies the umask; the executable bit is what git records
			if err := os.Chmod(full, 0755); err != nil {
				return err
			}
		}
	}
	return nil
}

// Build creates the repository of a simulated history under base (a scratch directory the
// caller owns): every commit is made by `git commit` with author and committer identity
// and dates fixed through the environment. Committer dates increase by one minute per
// commit, so `git log` walks the commits in reverse creation order.
func Build(base string, sim *Sim) (*Repo, error) {
	root, err := os.MkdirTemp(base, "ggen-")
	if err != nil {
		return nil, err
	}
	r := &Repo{Dir: filepath.Join(root, "repo"), Home: filepath.Join(root, "home")}
	for _, d := range []string{r.Dir, r.Home} {
		if err := os.MkdirAll(d, 0755); err != nil {
			return nil, err
		}
	}
	fail := func(err error) (*Repo, error) {
		r.Remove()
		return nil, err
	}
	if _, err := r.git(nil, "init", "-q", "-b", "main", "."); err != nil {
		return fail(err)
	}
	config := "[gc]\n\tauto = 0\n[commit]\n\tgpgsign = false\n[core]\n\tautocrlf = false\n\tfilemode = true\n[advice]\n\tdetachedHead = false\n"
	if err := appendFile(filepath.Join(r.Dir, ".git", "config"), config); err != nil {
		return fail(err)
	}
	lane := 0
	sideOpen := false
	for _, c := range sim.Commits {
		env := []string{
			"GIT_AUTHOR_NAME=" + c.Commit.Author, "GIT_AUTHOR_EMAIL=author@example.org",
			"GIT_AUTHOR_DATE=" + c.Commit.Date + "T" + c.Commit.Clock + " " + c.Commit.Zone,
			"GIT_COMMITTER_NAME=Committer Bot", "GIT_COMMITTER_EMAIL=bot@example.org",
			"GIT_COMMITTER_DATE=" + strconv.Itoa(1900000000+60*c.Index) + " +0000",
		}
		want := c.Commit.Lane
		if want == 1 && !sideOpen {
			// first commit of the side lane: the branch starts at the main tip
			if _, err := r.git(nil, "branch", "-f", "side", r.Full[c.Parents[0]]); err != nil {
				return fail(err)
			}
			sideOpen = true
		}
		if len(c.Parents) == 2 || c.Commit.Squash {
			sideOpen = false
		}
		if want != lane {
			name := "main"
			if want == 1 {
				name = "side"
			}
			// move HEAD only; index and work tree are rewritten below anyway
			if _, err := r.git(nil, "symbolic-ref", "HEAD", "refs/heads/"+name); err != nil {
				return fail(err)
			}
			lane = want
		}
		if err := writeTree(r.Dir, c.Tree); err != nil {
			return fail(err)
		}
		if _, err := r.git(nil, "add", "-A", "."); err != nil {
			return fail(err)
		}
		if len(c.Parents) == 2 {
			if err := os.WriteFile(filepath.Join(r.Dir, ".git", "MERGE_HEAD"), []byte(r.Full[c.Parents[1]]+"\n"), 0644); err != nil {
				return fail(err)
			}
			// keep both parents even when the main tip is an ancestor of the side tip (git merge --no-ff)
			if err := os.WriteFile(filepath.Join(r.Dir, ".git", "MERGE_MODE"), []byte("no-ff"), 0644); err != nil {
				return fail(err)
			}
		}
		commitArgs := []string{"commit", "-q", "--allow-empty", "--allow-empty-message", "--no-verify", "-m", c.Commit.Subject}
		if c.Commit.Body != "" && c.Commit.Subject != "" {
			commitArgs = append(commitArgs, "-m", c.Commit.Body)
		}
		if _, err := r.git(env, commitArgs...); err != nil {
			return fail(err)
		}
		full, err := r.git(nil, "rev-parse", "HEAD")
		if err != nil {
			return fail(err)
		}
		r.Full = append(r.Full, strings.TrimSpace(full))
	}
	if lane != 0 {
		if _, err := r.git(nil, "symbolic-ref", "HEAD", "refs/heads/main"); err != nil {
			return fail(err)
		}
		if err := writeTree(r.Dir, sim.HeadTree()); err != nil {
			return fail(err)
		}
		if _, err := r.git(nil, "add", "-A", "."); err != nil {
			return fail(err)
		}
	}
	// abbreviated hashes from plumbing, independent of `git log`
	args := []string{"rev-list", "--no-walk=unsorted", "--abbrev-commit"}
	for _, c := range sim.Log() {
		args = append(args, r.Full[c.Index])
	}
	short, err := r.git(nil, args...)
	if err != nil {
		return fail(err)
	}
	r.Hashes = strings.Fields(short)
	if len(r.Hashes) != len(sim.Log()) {
		return fail(fmt.Errorf("rev-list --abbrev-commit gave %d names for %d commits", len(r.Hashes), len(sim.Log())))
	}
	r.LogOut, err = r.git(nil, LogArgs...)
	if err != nil {
		return fail(err)
	}
	return r, nil
}

func appendFile(path, text string) error {
	f, err := os.OpenFile(path, os.O_APPEND|os.O_WRONLY, 0644)
	if err != nil {
		return err
	}
	defer f.Close()
	_, err = f.WriteString(text)
	return err
}

// Validate compares the simulation with the real repository: the head commit, the parents,
// per commit the figures of `git diff-tree --numstat -M` (an independent plumbing command,
// one commit at a time), and the emulated log text byte for byte. A non-nil error is a
// harness defect.
func Validate(sim *Sim, r *Repo) error {
	head, err := r.git(nil, "rev-parse", "HEAD")
	if err != nil {
		return err
	}
	if strings.TrimSpace(head) != r.Full[sim.Head] {
		return fmt.Errorf("HEAD is %s, the simulation's main tip is commit %d = %s", strings.TrimSpace(head), sim.Head, r.Full[sim.Head])
	}
	for _, c := range sim.Commits {
		line, err := r.git(nil, "rev-list", "--parents", "-n", "1", r.Full[c.Index])
		if err != nil {
			return err
		}
		got := strings.Fields(line)
		var want []string
		want = append(want, r.Full[c.Index])
		for _, p := range c.Parents {
			want = append(want, r.Full[p])
		}
		if strings.Join(got, " ") != strings.Join(want, " ") {
			return fmt.Errorf("commit %d: parents in git %v, in the simulation %v", c.Index, got, want)
		}
		if len(c.Parents) > 1 {
			continue
		}
		out, err := r.git(nil, "diff-tree", "--root", "-r", "--no-commit-id", "--numstat", "-M", r.Full[c.Index])
		if err != nil {
			return err
		}
		var want2 []string
		for _, e := range c.Entries {
			if e.Binary {
				want2 = append(want2, "-\t-\t"+e.Printed())
			} else {
				want2 = append(want2, fmt.Sprintf("%d\t%d\t%s", e.Added, e.Deleted, e.Printed()))
			}
		}
		got2 := strings.Split(strings.TrimRight(out, "\n"), "\n")
		if out == "" {
			got2 = nil
		}
		if strings.Join(got2, "\n") != strings.Join(want2, "\n") {
			return fmt.Errorf("commit %d (%s): diff-tree --numstat -M says\n%s\nthe simulation says\n%s", c.Index, c.Commit.Subject, strings.Join(got2, "\n"), strings.Join(want2, "\n"))
		}
	}
	files, err := r.git(nil, "ls-tree", "-r", "--name-only", "HEAD")
	if err != nil {
		return err
	}
	// ls-tree prints a path that needs it in C notation, like the diff machinery (the order is that of the raw bytes)
	var headPaths []string
	for _, p := range sim.HeadTree().Paths() {
		headPaths = append(headPaths, QuoteC(p))
	}
	if got, want := strings.TrimRight(files, "\n"), strings.Join(headPaths, "\n"); got != want {
		return fmt.Errorf("files at HEAD in git:\n%s\nin the simulation:\n%s", got, want)
	}
	if emu := Emulate(sim, r.Hashes); emu != r.LogOut {
		return fmt.Errorf("format emulator disagrees with git log.\n--- git log ---\n%s\n--- emulator ---\n%s\n--- end ---", r.LogOut, emu)
	}
	return nil
}
