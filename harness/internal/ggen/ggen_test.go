package ggen

import (
	"os"
	"sort"
	"strconv"
	"testing"

	"pgregory.net/rapid"
)

// TestSelf is a development aid (go test ./internal/ggen); the checks call SelfTest themselves.
// GGEN_N sets the number of drawn histories, GGEN_FROM the first seed.
func TestSelf(t *testing.T) {
	base, err := os.MkdirTemp("", "ggen-self-")
	if err != nil {
		t.Fatal(err)
	}
	defer os.RemoveAll(base)
	n, from := 40, 1
	if v, err := strconv.Atoi(os.Getenv("GGEN_N")); err == nil {
		n = v
	}
	if v, err := strconv.Atoi(os.Getenv("GGEN_FROM")); err == nil {
		from = v
	}
	if err := SelfTest(base, 0); err != nil {
		t.Fatal(err)
	}
	g := rapid.Custom(func(t *rapid.T) History { return Gen(t, AllFeatures) })
	counts := map[string]int{}
	for i := from; i < from+n; i++ {
		h := g.Example(i)
		sim, err := Simulate(h)
		if err != nil {
			t.Fatalf("seed %d: %v", i, err)
		}
		repo, err := Build(base, sim)
		if err != nil {
			t.Fatalf("seed %d: %v", i, err)
		}
		err = Validate(sim, repo)
		repo.Remove()
		if err != nil {
			t.Fatalf("seed %d: %v", i, err)
		}
		for _, f := range Features(sim) {
			counts[f]++
		}
	}
	var keys []string
	for k := range counts {
		keys = append(keys, k)
	}
	sort.Strings(keys)
	for _, k := range keys {
		t.Logf("%-32s %d", k, counts[k])
	}
}
