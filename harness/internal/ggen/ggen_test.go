package ggen

import (
	"os"
	"sort"
	"strconv"
	"strings"
	"testing"

	"pgregory.net/rapid"
)

// TestSelf is a development aid (go test ./internal/ggen); the checks call SelfTest themselves.
// GGEN_N sets the number of drawn histories, GGEN_FROM the first seed.
func TestSelf(t *testing.T) {
	base, err := os.MkdirTemp("", "ggen-self-")
	if err != nil {
		t.Fatal(err)
	}
	defer os.RemoveAll(base)
	n, from := 40, 1
	if v, err := strconv.Atoi(os.Getenv("GGEN_N")); err == nil {
		n = v
	}
	if v, err := strconv.Atoi(os.Getenv("GGEN_FROM")); err == nil {
		from = v
	}
	if err := SelfTest(base, 0); err != nil {
		t.Fatal(err)
	}
	g := rapid.Custom(func(t *rapid.T) History { return Gen(t, AllFeatures) })
	counts := map[string]int{}
	for i := from; i < from+n; i++ {
		h := g.Example(i)
		sim, err := Simulate(h)
		if err != nil {
			t.Fatalf("seed %d: %v", i, err)
		}
		repo, err := Build(base, sim)
		if err != nil {
			t.Fatalf("seed %d: %v", i, err)
		}
		err = Validate(sim, repo)
		repo.Remove()
		if err != nil {
			t.Fatalf("seed %d: %v", i, err)
		}
		for _, f := range Features(sim) {
			counts[f]++
		}
	}
	var keys []string
	for k := range counts {
		keys = append(keys, k)
	}
	sort.Strings(keys)
	for _, k := range keys {
		t.Logf("%-32s %d", k, counts[k])
	}
}

// TestToolSubjectsAndSquash: the options added for tool-written subjects and squash commits. Every drawn
// history is built with real git and compared with simulation and emulator; subjects keep the invariants
// the checks state (one line, no blank at either end, Type = the conventional prefix if there is one).
func TestToolSubjectsAndSquash(t *testing.T) {
	base, err := os.MkdirTemp("", "ggen-tool-")
	if err != nil {
		t.Fatal(err)
	}
	defer os.RemoveAll(base)
	o := AllFeatures
	o.ToolSubjects, o.SquashMerges = true, true
	o.ExecFiles, o.ModeChanges, o.AffixNames, o.PunctAuthors = true, true, true, true
	n := 100
	if v, err := strconv.Atoi(os.Getenv("GGEN_N")); err == nil {
		n = v
	}
	g := rapid.Custom(func(t *rapid.T) History { return Gen(t, o) })
	counts := map[string]int{}
	for i := 1; i <= n; i++ {
		h := g.Example(i)
		for _, c := range h.Commits {
			s := c.Subject
			if s == "" || s != strings.TrimSpace(s) || strings.ContainsAny(s, "\t\n\r") {
				t.Fatalf("seed %d: subject %q", i, s)
			}
			want := ""
			if reConv.MatchString(s) {
				want = reConvType.FindString(s)
			}
			if c.Type != want {
				t.Fatalf("seed %d: subject %q has type %q, want %q", i, s, c.Type, want)
			}
			if c.Squash && (c.Merge || c.Lane != 0 || len(c.Ops) > 0) {
				t.Fatalf("seed %d: squash commit %+v", i, c)
			}
		}
		sim, err := Simulate(h)
		if err != nil {
			t.Fatalf("seed %d: %v", i, err)
		}
		for _, c := range sim.Commits {
			if c.Commit.Squash && len(c.Parents) != 1 {
				t.Fatalf("seed %d: squash commit with parents %v", i, c.Parents)
			}
		}
		repo, err := Build(base, sim)
		if err != nil {
			t.Fatalf("seed %d: %v", i, err)
		}
		err = Validate(sim, repo)
		repo.Remove()
		if err != nil {
			t.Fatalf("seed %d: %v", i, err)
		}
		for _, f := range Features(sim) {
			counts[f]++
		}
	}
	for _, k := range []string{"squash_commit", "subject_merge_like_on_ordinary_commit_with_changes", "subject_generated", "merge_commit_other_merge_subject"} {
		if counts[k] == 0 {
			t.Errorf("feature %s never drawn in %d histories", k, n)
		}
	}
	var keys []string
	for k := range counts {
		keys = append(keys, k)
	}
	sort.Strings(keys)
	for _, k := range keys {
		t.Logf("%-52s %d", k, counts[k])
	}
}
