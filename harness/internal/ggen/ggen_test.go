package ggen

import (
	"os"
	"sort"
	"strconv"
	"strings"
	"testing"
	"unicode/utf8"

	"pgregory.net/rapid"
)

// TestSelf is a development aid (go test ./internal/ggen); the checks call SelfTest themselves.
// GGEN_N sets the number of drawn histories, GGEN_FROM the first seed.
func TestSelf(t *testing.T) {
	base, err := os.MkdirTemp("", "ggen-self-")
	if err != nil {
		t.Fatal(err)
	}
	defer os.RemoveAll(base)
	n, from := 40, 1
	if v, err := strconv.Atoi(os.Getenv("GGEN_N")); err == nil {
		n = v
	}
	if v, err := strconv.Atoi(os.Getenv("GGEN_FROM")); err == nil {
		from = v
	}
	if err := SelfTest(base, 0); err != nil {
		t.Fatal(err)
	}
	g := rapid.Custom(func(t *rapid.T) History { return Gen(t, AllFeatures) })
	counts := map[string]int{}
	for i := from; i < from+n; i++ {
		h := g.Example(i)
		sim, err := Simulate(h)
		if err != nil {
			t.Fatalf("seed %d: %v", i, err)
		}
		repo, err := Build(base, sim)
		if err != nil {
			t.Fatalf("seed %d: %v", i, err)
		}
		err = Validate(sim, repo)
		repo.Remove()
		if err != nil {
			t.Fatalf("seed %d: %v", i, err)
		}
		for _, f := range Features(sim) {
			counts[f]++
		}
	}
	var keys []string
	for k := range counts {
		keys = append(keys, k)
	}
	sort.Strings(keys)
	for _, k := range keys {
		t.Logf("%-32s %d", k, counts[k])
	}
}

// TestToolSubjectsAndSquash: the options added for tool-written subjects and squash commits. Every drawn
// history is built with real git and compared with simulation and emulator; subjects keep the invariants
// the checks state (one line, no blank at either end, Type = the conventional prefix if there is one).
func TestToolSubjectsAndSquash(t *testing.T) {
	base, err := os.MkdirTemp("", "ggen-tool-")
	if err != nil {
		t.Fatal(err)
	}
	defer os.RemoveAll(base)
	o := AllFeatures
	o.ToolSubjects, o.SquashMerges = true, true
	o.ExecFiles, o.ModeChanges, o.AffixNames, o.PunctAuthors = true, true, true, true
	n := 100
	if v, err := strconv.Atoi(os.Getenv("GGEN_N")); err == nil {
		n = v
	}
	g := rapid.Custom(func(t *rapid.T) History { return Gen(t, o) })
	counts := map[string]int{}
	for i := 1; i <= n; i++ {
		h := g.Example(i)
		for _, c := range h.Commits {
			s := c.Subject
			if s == "" || s != strings.TrimSpace(s) || strings.ContainsAny(s, "\t\n\r") {
				t.Fatalf("seed %d: subject %q", i, s)
			}
			want := ""
			if reConv.MatchString(s) {
				want = reConvType.FindString(s)
			}
			if c.Type != want {
				t.Fatalf("seed %d: subject %q has type %q, want %q", i, s, c.Type, want)
			}
			if c.Squash && (c.Merge || c.Lane != 0 || len(c.Ops) > 0) {
				t.Fatalf("seed %d: squash commit %+v", i, c)
			}
		}
		sim, err := Simulate(h)
		if err != nil {
			t.Fatalf("seed %d: %v", i, err)
		}
		for _, c := range sim.Commits {
			if c.Commit.Squash && len(c.Parents) != 1 {
				t.Fatalf("seed %d: squash commit with parents %v", i, c.Parents)
			}
		}
		repo, err := Build(base, sim)
		if err != nil {
			t.Fatalf("seed %d: %v", i, err)
		}
		err = Validate(sim, repo)
		repo.Remove()
		if err != nil {
			t.Fatalf("seed %d: %v", i, err)
		}
		for _, f := range Features(sim) {
			counts[f]++
		}
	}
	for _, k := range []string{"squash_commit", "subject_merge_like_on_ordinary_commit_with_changes", "subject_generated", "merge_commit_other_merge_subject"} {
		if counts[k] == 0 {
			t.Errorf("feature %s never drawn in %d histories", k, n)
		}
	}
	var keys []string
	for k := range counts {
		keys = append(keys, k)
	}
	sort.Strings(keys)
	for _, k := range keys {
		t.Logf("%-52s %d", k, counts[k])
	}
}

// TestBlankEdges: the options added for blanks at the edges of log lines (paths whose components end with
// blanks or consist of blanks, twins, runs of blanks inside a component, commits without a message). Every
// drawn history is built with real git and compared with simulation and emulator. With the options off the
// generator draws exactly what it drew before (same value for the same seed).
func TestBlankEdges(t *testing.T) {
	base, err := os.MkdirTemp("", "ggen-blank-")
	if err != nil {
		t.Fatal(err)
	}
	defer os.RemoveAll(base)
	o := AllFeatures
	o.LeadingBlankPaths, o.ToolSubjects, o.SquashMerges, o.ExecFiles, o.ModeChanges, o.AffixNames, o.BulkAdds = true, true, true, true, true, true, true
	o.TrailingBlankPaths, o.BlankRunPaths, o.EmptySubjects = true, true, true
	n := 80
	if v, err := strconv.Atoi(os.Getenv("GGEN_N")); err == nil {
		n = v
	}
	g := rapid.Custom(func(t *rapid.T) History { return Gen(t, o) })
	counts := map[string]int{}
	for i := 1; i <= n; i++ {
		h := g.Example(i)
		for _, c := range h.Commits {
			s := c.Subject
			if s != strings.TrimSpace(s) || strings.ContainsAny(s, "\t\n\r") {
				t.Fatalf("seed %d: subject %q", i, s)
			}
		}
		sim, err := Simulate(h)
		if err != nil {
			t.Fatalf("seed %d: %v", i, err)
		}
		repo, err := Build(base, sim)
		if err != nil {
			t.Fatalf("seed %d: %v", i, err)
		}
		err = Validate(sim, repo)
		repo.Remove()
		if err != nil {
			t.Fatalf("seed %d: %v", i, err)
		}
		for _, f := range Features(sim) {
			counts[f]++
		}
	}
	for _, k := range []string{"path_trailing_blank", "path_component_trailing_blank", "path_only_blanks", "path_component_only_blanks",
		"path_blank_run_inside_component", "paths_differ_only_by_trailing_blanks_in_commit", "subject_empty_on_commit_with_changes"} {
		if counts[k] == 0 {
			t.Errorf("feature %s never drawn in %d histories", k, n)
		}
	}
	var keys []string
	for k := range counts {
		keys = append(keys, k)
	}
	sort.Strings(keys)
	for _, k := range keys {
		t.Logf("%-60s %d", k, counts[k])
	}
	// options off: the old generator, draw for draw
	off := AllFeatures
	off.LeadingBlankPaths = true
	for i := 1; i <= 30; i++ {
		a := rapid.Custom(func(t *rapid.T) History { return Gen(t, off) }).Example(i)
		for _, c := range a.Commits {
			if c.Subject == "" {
				t.Fatalf("seed %d: empty subject with the option off", i)
			}
			for _, op := range c.Ops {
				for _, p := range []string{op.Path, op.To} {
					if strings.HasSuffix(p, " ") || strings.Contains(p, " /") || strings.Contains(p, "  ") {
						t.Fatalf("seed %d: path %q with the options off", i, p)
					}
				}
			}
		}
	}
}

// TestQuotedPaths: the option added for paths git prints in C notation. QuoteC against hand-checked output of
// git 2.39; every drawn history is built with real git and compared with simulation and emulator (numstat and
// summary lines, ls-tree); every pool entry is valid UTF-8 and does need the quoting. With the option off the
// generator draws exactly what it drew before.
func TestQuotedPaths(t *testing.T) {
	for in, want := range map[string]string{
		"plain file.txt": "plain file.txt", "sp\u00e4t.txt": `"sp\303\244t.txt"`, "\U0001F600.md": `"\360\237\230\200.md"`, `q"uote.txt`: `"q\"uote.txt"`,
		`back\slash`: `"back\\slash"`, `\303\244`: `"\\303\\244"`, "t\tb/x": `"t\tb/x"`, "new\nline": `"new\nline"`, "ctl\x01\x7f\x1b.txt": `"ctl\001\177\033.txt"`,
		"a\a\b\v\f\r": `"a\a\b\v\f\r"`, "d\u00e4/f.txt ": `"d\303\244/f.txt "`,
	} {
		if got := QuoteC(in); got != want {
			t.Errorf("QuoteC(%q) = %s, want %s", in, got, want)
		}
	}
	if got, want := PrintRenameC("d\u00e4/f.txt", "d\u00e4/g.txt"), `"d\303\244/f.txt" => "d\303\244/g.txt"`; got != want {
		t.Errorf("PrintRename = %s, want %s", got, want)
	}
	if got, want := PrintRenameC("a/plain.txt", "a/pl\u00e4n.txt"), `a/plain.txt => "a/pl\303\244n.txt"`; got != want {
		t.Errorf("PrintRename = %s, want %s", got, want)
	}
	for _, pool := range [][]string{dirPoolQuoted, namePoolQuoted, compPoolQuoted} {
		for _, n := range pool {
			if !utf8.ValidString(n) || QuoteC(n) == n || strings.Contains(n, "\x00") {
				t.Errorf("pool entry %q", n)
			}
		}
	}
	base, err := os.MkdirTemp("", "ggen-quoted-")
	if err != nil {
		t.Fatal(err)
	}
	defer os.RemoveAll(base)
	o := AllFeatures
	o.LeadingBlankPaths, o.ToolSubjects, o.SquashMerges, o.ExecFiles, o.ModeChanges, o.AffixNames, o.BulkAdds = true, true, true, true, true, true, true
	o.TrailingBlankPaths, o.BlankRunPaths, o.EmptySubjects = true, true, true
	off := o
	o.QuotedPaths = true
	n := 120
	if v, err := strconv.Atoi(os.Getenv("GGEN_N")); err == nil {
		n = v
	}
	g := rapid.Custom(func(t *rapid.T) History { return Gen(t, o) })
	counts := map[string]int{}
	for i := 1; i <= n; i++ {
		h := g.Example(i)
		sim, err := Simulate(h)
		if err != nil {
			t.Fatalf("seed %d: %v", i, err)
		}
		feats := Features(sim)
		quoted := false
		for _, f := range feats {
			counts[f]++
			quoted = quoted || f == "path_c_quoted"
		}
		if !quoted && i > 30 {
			continue // the histories without such a path are the old ones: a sample of them is enough
		}
		repo, err := Build(base, sim)
		if err != nil {
			t.Fatalf("seed %d: %v", i, err)
		}
		err = Validate(sim, repo)
		repo.Remove()
		if err != nil {
			t.Fatalf("seed %d: %v", i, err)
		}
		counts["built with git"]++
	}
	for _, k := range []string{"path_c_quoted_create", "path_c_quoted_delete", "path_c_quoted_modify", "rename_c_quoted_both_paths", "rename_c_quoted_old_path_only",
		"rename_c_quoted_new_path_only", "path_non_ascii", "path_double_quote", "path_backslash", "path_tab", "path_line_break", "path_other_control_character"} {
		if counts[k] == 0 {
			t.Errorf("feature %s never drawn in %d histories", k, n)
		}
	}
	var keys []string
	for k := range counts {
		keys = append(keys, k)
	}
	sort.Strings(keys)
	for _, k := range keys {
		if strings.Contains(k, "quoted") || strings.HasPrefix(k, "path_") || k == "built with git" {
			t.Logf("%-60s %d", k, counts[k])
		}
	}
	// option off: the old generator, draw for draw (no path that needs quoting)
	for i := 1; i <= 40; i++ {
		a := rapid.Custom(func(t *rapid.T) History { return Gen(t, off) }).Example(i)
		for _, c := range a.Commits {
			for _, op := range c.Ops {
				for _, p := range []string{op.Path, op.To} {
					if QuoteC(p) != p {
						t.Fatalf("seed %d: path %q with the option off", i, p)
					}
				}
			}
		}
	}
}

// TestNamesAndDirectoriesDisjoint: no file name of the pools is a directory component of the pools, also not
// after blanks have been appended to either (twins), so that the two lanes of a history never hold a file and
// a directory of the same name.
func TestNamesAndDirectoriesDisjoint(t *testing.T) {
	files := map[string]string{}
	for _, pool := range [][]string{namePool, namePoolNum, namePoolAffix, namePoolBlank, namePoolTrail, namePoolOnlyBlank, namePoolRun, namePoolQuoted} {
		for _, n := range pool {
			files[strings.TrimRight(n, " ")] = n
			if strings.TrimRight(n, " ") == "" && len(n) > 2 {
				t.Errorf("file name of %d blanks", len(n))
			}
		}
	}
	for _, pool := range [][]string{dirPool, dirPoolNumeric, dirPoolBlank, dirPoolTrail, dirPoolOnlyBlank, dirPoolRun, compPool, compPoolTrail, compPoolOnlyBlank, dirPoolQuoted, compPoolQuoted} {
		for _, d := range pool {
			for _, comp := range strings.Split(d, "/") {
				if comp == "" {
					continue
				}
				key := strings.TrimRight(comp, " ")
				if key == "" {
					if len(comp) < 3 {
						t.Errorf("directory name of %d blanks", len(comp))
					}
					continue
				}
				if n, ok := files[key]; ok {
					t.Errorf("directory component %q and file name %q", comp, n)
				}
			}
		}
	}
}
