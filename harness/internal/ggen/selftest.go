package ggen

import (
	"fmt"

	"pgregory.net/rapid"
)

// AllFeatures switches every generator feature on.
var AllFeatures = Options{Merges: true, Empty: true, Binary: true, BracketHex: true, RepeatAuthor: true, RepeatDate: true, NumericSpacePaths: true}

// fixed is a hand-written history that walks through every operation kind and every
// rename notation; it is part of every self-test.
func fixed() History {
	c := func(author, date, subject string, ops ...Op) Commit {
		return Commit{Author: author, Date: date, Clock: "12:00:00", Zone: "+0000", Subject: subject, Ops: ops}
	}
	side := func(cm Commit) Commit { cm.Lane = 1; return cm }
	return History{Commits: []Commit{
		c("Ann Lee", "2020-01-01", "feat: first [abc1234] thing",
			Op{Kind: "add", Path: "a/sub/f.txt", Lines: 8}, Op{Kind: "add", Path: "b.bin", Lines: 3, Binary: true},
			Op{Kind: "add", Path: "d ir/sp ace.txt", Lines: 2}, Op{Kind: "add", Path: "root.txt", Lines: 6},
			Op{Kind: "add", Path: "a/b/c/b/f", Lines: 4}),
		c("Bob 2", "2020-01-02", "move up", Op{Kind: "rename", Path: "a/sub/f.txt", To: "a/f.txt"},
			Op{Kind: "rename", Path: "a/b/c/b/f", To: "a/b/f"}),
		c("Zoë Ünï", "2020-01-03", "fix(core): rename in dir a -> b 2020-01-03", Op{Kind: "rename", Path: "a/f.txt", To: "a/g.txt", Ins: 1, InsAt: 8}),
		c("Ann Lee", "2020-01-04", "to root and from root", Op{Kind: "rename", Path: "a/g.txt", To: "top.txt"}, Op{Kind: "rename", Path: "root.txt", To: "d ir/root.txt"}),
		c("Ann Lee", "2020-01-05", "empty commit"),
		c("Ann Lee", "2020-01-06", "delete and binary modify", Op{Kind: "delete", Path: "d ir/sp ace.txt"}, Op{Kind: "modify", Path: "b.bin", Drop: 1, Ins: 1}),
		side(c("李雷", "2020-01-07", "side work", Op{Kind: "add", Path: "1 intro.md", Lines: 1}, Op{Kind: "modify", Path: "top.txt", Drop: 2, DropAt: 1, Ins: 3, InsAt: 0})),
		c("Ann Lee", "2020-01-08", "across dirs and down", Op{Kind: "rename", Path: "d ir/root.txt", To: "e/x/root.txt", Drop: 1, Ins: 1}, Op{Kind: "rename", Path: "a/b/f", To: "a/b/new dir/f"}),
		c("Ann Lee", "2020-01-09", "rename binary, rewrite rename", Op{Kind: "rename", Path: "b.bin", To: "c.bin"}, Op{Kind: "rename", Path: "e/x/root.txt", To: "e/y/root.txt", Drop: 6, Ins: 5}),
		{Author: "M", Date: "2020-01-10", Clock: "00:30:00", Zone: "+0800", Subject: "Merge branch 'side'", Merge: true},
		c("007", "2020-01-11", "empty the file", Op{Kind: "modify", Path: "top.txt", Drop: 100}),
		c("007", "2020-01-11", "prefix change", Op{Kind: "rename", Path: "a/b/new dir/f", To: "core/b/new dir/f", Drop: 1}),
		side(c("R2D2", "2020-01-12", "never merged", Op{Kind: "add", Path: "lost.txt", Lines: 2})),
		c("Ann", "2020-01-12", "trailing empty"),
	}}
}

// SelfTest builds n+1 histories (the fixed one and n drawn with seeds 1..n from the full
// generator) with real git under base and compares simulation and format emulator with
// it. A non-nil error is a harness defect and must end the run as inconclusive.
func SelfTest(base string, n int) error {
	return SelfTestWith(base, n, AllFeatures)
}

// SelfTestWith is SelfTest with the drawn histories taken from the generator under options o.
func SelfTestWith(base string, n int, o Options) error {
	hs := []History{fixed()}
	g := rapid.Custom(func(t *rapid.T) History { return Gen(t, o) })
	for i := 1; i <= n; i++ {
		hs = append(hs, g.Example(i))
	}
	for i, h := range hs {
		sim, err := Simulate(h)
		if err != nil {
			return fmt.Errorf("self-test history %d: %v", i, err)
		}
		repo, err := Build(base, sim)
		if err != nil {
			return fmt.Errorf("self-test history %d: %v", i, err)
		}
		err = Validate(sim, repo)
		repo.Remove()
		if err != nil {
			return fmt.Errorf("self-test history %d: %v", i, err)
		}
	}
	return nil
}
