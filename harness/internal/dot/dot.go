// Package dot reads the flat edge-list DOT that coca's call/rcall/api commands emit.
// Two readers must both accept a text: gographviz (a real DOT parser, but lenient) and a
// strict line grammar.
package dot

import (
	"fmt"
	"regexp"
	"strings"

	"github.com/awalterschulze/gographviz"
)

type Edge struct{ From, To string }

var edgeLine = regexp.MustCompile(`^"((?:\\.|[^"\\])*)" -> "((?:\\.|[^"\\])*)";$`)

func unescape(s string) string { return strings.ReplaceAll(s, `\"`, `"`) }

// ParseFlat checks that text is `first` + lines + "}" where every non-blank line is either
// one of the allowed attribute lines or an edge line, and returns the edges in order.
func ParseFlat(text string, first string, attrLines ...string) ([]Edge, error) {
	if !strings.HasSuffix(text, "}\n") {
		return nil, fmt.Errorf("does not end with `}\\n`")
	}
	lines := strings.Split(strings.TrimSuffix(text, "\n"), "\n")
	if len(lines) < 2 || strings.TrimRight(lines[0], " ") != first {
		return nil, fmt.Errorf("first line %q, want %q", lines[0], first)
	}
	if lines[len(lines)-1] != "}" {
		return nil, fmt.Errorf("last line %q, want `}`", lines[len(lines)-1])
	}
	var edges []Edge
next:
	for i, l := range lines[1 : len(lines)-1] {
		if strings.TrimSpace(l) == "" {
			continue
		}
		for _, a := range attrLines {
			if l == a {
				continue next
			}
		}
		m := edgeLine.FindStringSubmatch(l)
		if m == nil {
			return nil, fmt.Errorf("line %d is not an edge statement: %q", i+2, l)
		}
		edges = append(edges, Edge{unescape(m[1]), unescape(m[2])})
	}
	return edges, nil
}

// Lenient parses with gographviz.
func Lenient(text string) (err error) {
	defer func() {
		if r := recover(); r != nil {
			err = fmt.Errorf("gographviz panic: %v", r)
		}
	}()
	ast, err := gographviz.ParseString(text)
	if err != nil {
		return err
	}
	g := gographviz.NewGraph()
	return gographviz.Analyse(ast, g)
}
