package jref

import (
	"fmt"
	"sort"
	"strings"

	"github.com/modernizing/coca/pkg/domain/core_domain"
)

// refJudge compares one pass' model of a single file with the reference. pass: identifier | full.
func JudgeDecls(model []core_domain.CodeDataStruct, u Unit, pass string, skipped map[string]int) string {
	full := pass == "full"
	topNames := map[string]int{}
	for _, t := range u.Types {
		topNames[t.Name]++
	}
	for _, t := range u.Types {
		if t.Kind != "class" && t.Kind != "interface" {
			skipped["type.kind."+t.Kind]++
			continue
		}
		if topNames[t.Name] > 1 {
			skipped["type.twiceInFile"]++
			continue
		}
		var got []core_domain.CodeDataStruct
		for _, ds := range model {
			if ds.NodeName == t.Name && ds.Package == u.Pkg {
				got = append(got, ds)
			}
		}
		if t.NestedTypes > 0 && len(got) != 1 {
			// a nested type may bear the name of a top-level one; whether nested types get entries is left open
			named := false
			for _, ds := range got {
				_ = ds
				named = true
			}
			if named && nestedNamed(t, u) {
				skipped["type.nestedNamesake"]++
				continue
			}
		}
		if len(got) != 1 {
			return fmt.Sprintf("%s pass: top-level %s %s.%s has %d entries in the model, want exactly 1", pass, t.Kind, u.Pkg, t.Name, len(got))
		}
		ds := got[0]
		wantKind := map[string]string{"class": "Class", "interface": "Interface"}[t.Kind]
		if ds.Type != wantKind {
			return fmt.Sprintf("%s pass: type %s.%s has kind %q, want %q", pass, u.Pkg, t.Name, ds.Type, wantKind)
		}
		// class-level annotations: names, as a multiset
		var ga, wa []string
		for _, a := range ds.Annotations {
			ga = append(ga, a.Name)
		}
		for _, a := range t.Annotations {
			n := strings.TrimPrefix(a, "@")
			if k := strings.Index(n, "("); k >= 0 {
				n = n[:k]
			}
			wa = append(wa, n)
		}
		sort.Strings(ga)
		sort.Strings(wa)
		if strings.Join(ga, ";") != strings.Join(wa, ";") {
			return fmt.Sprintf("%s pass: type %s.%s has annotations %v, the declaration carries %v", pass, u.Pkg, t.Name, ga, wa)
		}
		// functions
		direct := map[string][]Func{}
		for _, f := range t.Funcs {
			direct[f.Name] = append(direct[f.Name], f)
		}
		gotBy := map[string][]core_domain.CodeFunction{}
		for _, f := range ds.Functions {
			if f.Name == "" {
				continue
			}
			gotBy[f.Name] = append(gotBy[f.Name], f)
			if t.AllNames[f.Name] == 0 {
				return fmt.Sprintf("%s pass: type %s.%s has a function entry %q, but nothing inside the type declares a method or constructor of that name", pass, u.Pkg, t.Name, f.Name)
			}
		}
		names := make([]string, 0, len(direct))
		for n := range direct {
			names = append(names, n)
		}
		sort.Strings(names)
		for _, n := range names {
			if t.DeepNames[n] > 0 {
				skipped["func.nameAlsoDeclaredDeeper"]++
				continue
			}
			if t.Kind == "interface" {
				generic := false
				for _, f := range direct[n] {
					generic = generic || f.Generic
				}
				if generic {
					skipped["func.genericInterfaceMethod"]++ // the quantifier names non-generic interface methods
					continue
				}
			}
			var gf, wf []string
			for _, f := range gotBy[n] {
				gf = append(gf, refKey(f.Name, f.ReturnType, f.IsConstructor, modelParams(f), false))
			}
			anyOpen := false
			for _, f := range direct[n] {
				if f.Varargs || f.Receiver || f.Dims {
					anyOpen = true
				}
				wf = append(wf, refKey(f.Name, f.Ret, f.Ctor, f.Params, false))
			}
			sort.Strings(gf)
			sort.Strings(wf)
			if strings.Join(gf, ";") != strings.Join(wf, ";") {
				return fmt.Sprintf("%s pass: type %s.%s, functions named %q:\n  model    %v\n  declared %v", pass, u.Pkg, t.Name, n, gf, wf)
			}
			if !full {
				continue
			}
			if anyOpen {
				skipped["func.params.varargsOrReceiver"]++
				continue
			}
			gf, wf = nil, nil
			for _, f := range gotBy[n] {
				gf = append(gf, refKey(f.Name, f.ReturnType, f.IsConstructor, modelParams(f), true))
			}
			for _, f := range direct[n] {
				wf = append(wf, refKey(f.Name, f.Ret, f.Ctor, f.Params, true))
			}
			sort.Strings(gf)
			sort.Strings(wf)
			if strings.Join(gf, ";") != strings.Join(wf, ";") {
				return fmt.Sprintf("%s pass: type %s.%s, functions named %q with parameters:\n  model    %v\n  declared %v", pass, u.Pkg, t.Name, n, gf, wf)
			}
		}
	}
	return ""
}

// nestedNamed: some nested declaration inside t (or any other top-level type) could bear t's name; cheap
// over-approximation: the name occurs at least twice as a declared constructor/type name. We simply look
// whether any top-level type has nested types at all.
func nestedNamed(t Type, u Unit) bool {
	for _, x := range u.Types {
		if x.NestedTypes > 0 {
			return true
		}
	}
	return false
}

func modelParams(f core_domain.CodeFunction) []Param {
	var ps []Param
	for _, x := range f.Parameters {
		ps = append(ps, Param{Type: x.TypeType, Name: x.TypeValue})
	}
	return ps
}

func refKey(name, ret string, ctor bool, params []Param, withParams bool) string {
	s := fmt.Sprintf("%s|%s|%v", name, nb(ret), ctor)
	if withParams {
		for _, p := range params {
			s += "|" + nb(p.Type) + " " + p.Name
		}
	}
	return s
}


// JudgeCalls compares, for every direct function of the single top-level class or interface of a file,
// the calls the full-pass model records with the invocations and creations written in its body.
// lines = the text split at \n. Clauses the statement leaves open are skipped and counted.
func JudgeCalls(model []core_domain.CodeDataStruct, u Unit, text string, skipped map[string]int) string {
	lines := strings.Split(text, "\n")
	for _, t := range u.Types {
		if t.Kind != "class" && t.Kind != "interface" {
			continue
		}
		var ds *core_domain.CodeDataStruct
		for i := range model {
			if model[i].NodeName == t.Name && model[i].Package == u.Pkg {
				ds = &model[i]
			}
		}
		if ds == nil {
			continue // JudgeDecls reports it
		}
		for _, f := range t.Funcs {
			if t.AllNames[f.Name] > 1 {
				skipped["calls.functionNameNotUnique"]++
				continue
			}
			var fn *core_domain.CodeFunction
			n := 0
			for k := range ds.Functions {
				if ds.Functions[k].Name == f.Name {
					fn = &ds.Functions[k]
					n++
				}
			}
			if n != 1 {
				continue // JudgeDecls reports it
			}
			if f.CallOutsideBody {
				skipped["calls.invocationInParameterListOrModifiers"]++
				continue
			}
			want := Calls(f.Body)
			open := false
			for _, c := range want {
				if c.Special {
					open = true
				}
			}
			if open {
				skipped["calls.specialForm"]++
				continue
			}
			var got []core_domain.CodeCall
			for _, c := range fn.FunctionCalls {
				if c.Type != "field" {
					got = append(got, c)
				}
			}
			where := fmt.Sprintf("%s.%s.%s (line %d)", u.Pkg, t.Name, f.Name, f.Line)
			// optional forms (method references, array creations): an entry the model records at the place of
			// one is accepted wherever it stands in the list (a method reference is recorded when the expression
			// around it is entered, i.e. before calls written to its left); the others must be the written
			// invocations and creations, in order
			{
				type at struct {
					line, col int
					name      string
				}
				optional := map[at]int{}
				var kept []Call
				for _, e := range want {
					if e.Optional {
						optional[at{e.Line, e.Col, e.Name}]++
					} else {
						kept = append(kept, e)
					}
				}
				var g2 []core_domain.CodeCall
				for _, g := range got {
					name := g.FunctionName
					if g.Type == "CreatorClass" {
						name = g.NodeName
					}
					k := at{g.Position.StartLine, g.Position.StartLinePosition, name}
					if optional[k] > 0 {
						optional[k]--
						skipped["calls.optionalFormRecorded"]++
						continue
					}
					g2 = append(g2, g)
				}
				got, want = g2, kept
			}
			if len(got) != len(want) {
				return fmt.Sprintf("%s: %d calls recorded, %d invocations/creations written\nrecorded: %s\nwritten:  %s", where, len(got), len(want), showGot(got), showWant(want))
			}
			for k, e := range want {
				g := got[k]
				if e.Creation {
					// "each creation carries the created type": the place is not part of the statement (with explicit
					// type arguments, `new <T> Foo()`, or a name on a later line the tool records where `new` stands)
					if g.Type != "CreatorClass" || g.NodeName != e.Name {
						return fmt.Sprintf("%s: call #%d should be the creation of %s (written at %d:%d)\nrecorded: %s\nwritten:  %s", where, k, e.Name, e.Line, e.Col, showGot(got), showWant(want))
					}
					continue
				}
				if g.Type == "CreatorClass" || g.FunctionName != e.Name || g.Position.StartLine != e.Line {
					return fmt.Sprintf("%s: call #%d should be the invocation of %s at %d:%d\nrecorded: %s\nwritten:  %s", where, k, e.Name, e.Line, e.Col, showGot(got), showWant(want))
				}
				l := []rune(strings.TrimSuffix(lines[e.Line-1], "\r"))
				a, b := g.Position.StartLinePosition, g.Position.StopLinePosition
				if a < 0 || b > len(l) || a > b || string(l[a:b]) != e.Name || a != e.Col {
					return fmt.Sprintf("%s: invocation of %s on line %d col %d: recorded columns [%d,%d) do not select the callee identifier\nline: %q", where, e.Name, e.Line, e.Col, a, b, lines[e.Line-1])
				}
			}
		}
	}
	return ""
}

func showGot(got []core_domain.CodeCall) string {
	var s []string
	for _, g := range got {
		if g.Type == "CreatorClass" {
			s = append(s, fmt.Sprintf("new %s@%d:%d", g.NodeName, g.Position.StartLine, g.Position.StartLinePosition))
		} else {
			s = append(s, fmt.Sprintf("%s@%d:%d", g.FunctionName, g.Position.StartLine, g.Position.StartLinePosition))
		}
	}
	return strings.Join(s, " ")
}

func showWant(want []Call) string {
	var s []string
	for _, e := range want {
		p := ""
		if e.Creation {
			p = "new "
		}
		s = append(s, fmt.Sprintf("%s%s@%d:%d", p, e.Name, e.Line, e.Col))
	}
	return strings.Join(s, " ")
}
