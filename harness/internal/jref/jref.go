// Package jref is a reference reader of Java compilation units: it walks the parse tree of the shipped
// grammar by hand (no listener of the code under test is involved) and lists, for any text the shipped
// parser accepts, what the file declares and what its bodies invoke. It is the oracle of the sub-checks
// that judge the model on arbitrary Java (repository fixtures, rewritten fixtures, grammar-generated units)
// rather than on the conventional projects of jgen.
package jref

import (
	"sort"
	"strings"

	"github.com/antlr/antlr4/runtime/Go/antlr/v4"
	parser "github.com/modernizing/coca/languages/java"
)

// Param is one formal parameter as written (type text without blanks).
type Param struct{ Type, Name string }

// Func is a constructor or method declared directly in the body of a type.
type Func struct {
	Name     string
	Ret      string // text of typeTypeOrVoid without blanks; "" for a constructor
	Ctor     bool
	Params   []Param
	Varargs  bool // the list ends in `T... x`
	Receiver bool // the list starts with a receiver parameter `T this`
	Dims     bool // `int f()[]`: brackets behind the parameter list
	Generic  bool // declared with its own type parameters
	Line     int  // line of the identifier (1-based)
	Col      int  // column of the identifier (0-based, in code points)
	Body     antlr.Tree
	// what is written inside the body (nested class bodies and lambda bodies included or not, see Calls)
	Nested bool // the body holds a class body (anonymous or local class) or a lambda
	CallOutsideBody bool // an invocation or creation stands in the parameter list or the modifiers (`@Ann(f())`): no constant, hence no Java that compiles; left open
}

// Type is a top-level type declaration.
type Type struct {
	Kind      string // class | interface | enum | annotation | record
	Name      string
	Extends   string // class: text of the extended type without blanks
	Funcs     []Func // direct members only
	AllNames  map[string]int // every method/constructor name declared anywhere inside the type (members, nested, local and anonymous classes, enum constant bodies), with multiplicity
	DeepNames map[string]int // the same without the direct members
	NestedTypes int // number of class bodies inside the type, at any depth (member, local and anonymous classes, enum constant bodies)
	NamedInner  int // number of named type declarations inside the type (member and local types)
	InnerCreatorBodies int // `outer.new Inner() { ... }`: anonymous subclasses of inner classes (outside the conventional subset)
	Annotations []string
}

// Unit is what one compilation unit declares.
type Unit struct {
	Errors  int
	Pkg     string
	Imports []string
	Types   []Type
	Module  bool
}

type errs struct {
	*antlr.DefaultErrorListener
	n int
}

func (e *errs) SyntaxError(antlr.Recognizer, interface{}, int, int, string, antlr.RecognitionException) {
	e.n++
}

func nb(s string) string { return strings.Join(strings.Fields(s), "") }

// Parse reads text with the shipped lexer and parser. Errors > 0 means the text is outside the domain.
func Parse(text string) Unit {
	ec := &errs{DefaultErrorListener: antlr.NewDefaultErrorListener()}
	lexer := parser.NewJavaLexer(antlr.NewInputStream(text))
	lexer.RemoveErrorListeners()
	lexer.AddErrorListener(ec)
	p := parser.NewJavaParser(antlr.NewCommonTokenStream(lexer, 0))
	p.RemoveErrorListeners()
	p.AddErrorListener(ec)
	tree := p.CompilationUnit()
	u := Unit{Errors: ec.n}
	if ec.n > 0 {
		return u
	}
	cu := tree.(*parser.CompilationUnitContext)
	if cu.ModuleDeclaration() != nil {
		u.Module = true
		return u
	}
	if pd := cu.PackageDeclaration(); pd != nil {
		u.Pkg = pd.(*parser.PackageDeclarationContext).QualifiedName().GetText()
	}
	for _, id := range cu.AllImportDeclaration() {
		u.Imports = append(u.Imports, id.(*parser.ImportDeclarationContext).QualifiedName().GetText())
	}
	for _, td := range cu.AllTypeDeclaration() {
		t := td.(*parser.TypeDeclarationContext)
		var ty Type
		switch {
		case t.ClassDeclaration() != nil:
			c := t.ClassDeclaration().(*parser.ClassDeclarationContext)
			ty = Type{Kind: "class", Name: c.Identifier().GetText()}
			if c.EXTENDS() != nil && c.TypeType() != nil {
				ty.Extends = nb(c.TypeType().GetText())
			}
			for _, d := range c.ClassBody().(*parser.ClassBodyContext).AllClassBodyDeclaration() {
				if md := d.(*parser.ClassBodyDeclarationContext).MemberDeclaration(); md != nil {
					if f, ok := classMember(md.(*parser.MemberDeclarationContext)); ok {
						ty.Funcs = append(ty.Funcs, f)
					}
				}
			}
		case t.InterfaceDeclaration() != nil:
			c := t.InterfaceDeclaration().(*parser.InterfaceDeclarationContext)
			ty = Type{Kind: "interface", Name: c.Identifier().GetText()}
			for _, d := range c.InterfaceBody().(*parser.InterfaceBodyContext).AllInterfaceBodyDeclaration() {
				if md := d.(*parser.InterfaceBodyDeclarationContext).InterfaceMemberDeclaration(); md != nil {
					if f, ok := interfaceMember(md.(*parser.InterfaceMemberDeclarationContext)); ok {
						ty.Funcs = append(ty.Funcs, f)
					}
				}
			}
		case t.EnumDeclaration() != nil:
			ty = Type{Kind: "enum", Name: t.EnumDeclaration().(*parser.EnumDeclarationContext).Identifier().GetText()}
		case t.AnnotationTypeDeclaration() != nil:
			ty = Type{Kind: "annotation", Name: t.AnnotationTypeDeclaration().(*parser.AnnotationTypeDeclarationContext).Identifier().GetText()}
		case t.RecordDeclaration() != nil:
			ty = Type{Kind: "record", Name: t.RecordDeclaration().(*parser.RecordDeclarationContext).Identifier().GetText()}
		default:
			continue // a stray ';'
		}
		for _, m := range t.AllClassOrInterfaceModifier() {
			if a := m.(*parser.ClassOrInterfaceModifierContext).Annotation(); a != nil {
				ty.Annotations = append(ty.Annotations, nb(a.GetText()))
			}
		}
		ty.AllNames = map[string]int{}
		declaredNames(t, ty.AllNames, &ty.NestedTypes)
		ty.NestedTypes-- // the type itself
		ty.NamedInner = namedTypes(t) - 1
		ty.InnerCreatorBodies = innerCreatorBodies(t)
		ty.DeepNames = map[string]int{}
		for k, v := range ty.AllNames {
			ty.DeepNames[k] = v
		}
		for _, f := range ty.Funcs {
			ty.DeepNames[f.Name]--
			if ty.DeepNames[f.Name] == 0 {
				delete(ty.DeepNames, f.Name)
			}
		}
		u.Types = append(u.Types, ty)
	}
	return u
}

func classMember(m *parser.MemberDeclarationContext) (Func, bool) {
	switch {
	case m.MethodDeclaration() != nil:
		return method(m.MethodDeclaration().(*parser.MethodDeclarationContext), false), true
	case m.GenericMethodDeclaration() != nil:
		return method(m.GenericMethodDeclaration().(*parser.GenericMethodDeclarationContext).MethodDeclaration().(*parser.MethodDeclarationContext), true), true
	case m.ConstructorDeclaration() != nil:
		return ctor(m.ConstructorDeclaration().(*parser.ConstructorDeclarationContext), false), true
	case m.GenericConstructorDeclaration() != nil:
		return ctor(m.GenericConstructorDeclaration().(*parser.GenericConstructorDeclarationContext).ConstructorDeclaration().(*parser.ConstructorDeclarationContext), true), true
	}
	return Func{}, false
}

func interfaceMember(m *parser.InterfaceMemberDeclarationContext) (Func, bool) {
	var c *parser.InterfaceCommonBodyDeclarationContext
	generic := false
	switch {
	case m.InterfaceMethodDeclaration() != nil:
		c = m.InterfaceMethodDeclaration().(*parser.InterfaceMethodDeclarationContext).InterfaceCommonBodyDeclaration().(*parser.InterfaceCommonBodyDeclarationContext)
	case m.GenericInterfaceMethodDeclaration() != nil:
		c = m.GenericInterfaceMethodDeclaration().(*parser.GenericInterfaceMethodDeclarationContext).InterfaceCommonBodyDeclaration().(*parser.InterfaceCommonBodyDeclarationContext)
		generic = true
	default:
		return Func{}, false
	}
	f := Func{Name: c.Identifier().GetText(), Ret: nb(c.TypeTypeOrVoid().GetText()), Generic: generic, Dims: len(c.AllLBRACK()) > 0}
	f.Line, f.Col = c.Identifier().GetStart().GetLine(), c.Identifier().GetStart().GetColumn()
	params(c.FormalParameters().(*parser.FormalParametersContext), &f)
	f.Body = c.MethodBody()
	f.Nested = holdsNested(f.Body)
	f.CallOutsideBody = callsOutside(c, c.FormalParameters()) || annotationsHoldCall(c)
	return f, true
}

func method(c *parser.MethodDeclarationContext, generic bool) Func {
	f := Func{Name: c.Identifier().GetText(), Ret: nb(c.TypeTypeOrVoid().GetText()), Generic: generic, Dims: len(c.AllLBRACK()) > 0}
	f.Line, f.Col = c.Identifier().GetStart().GetLine(), c.Identifier().GetStart().GetColumn()
	params(c.FormalParameters().(*parser.FormalParametersContext), &f)
	f.Body = c.MethodBody()
	f.Nested = holdsNested(f.Body)
	f.CallOutsideBody = callsOutside(c, c.FormalParameters())
	return f
}

// callsOutside: an invocation or creation in the parameter list or among the modifiers of the member.
func callsOutside(decl antlr.Tree, params antlr.Tree) bool {
	if holdsCall(params) {
		return true
	}
	// anywhere else in the declaration but the body (an annotation inside the return type, a throws clause)
	for i := 0; i < decl.GetChildCount(); i++ {
		switch decl.GetChild(i).(type) {
		case *parser.MethodBodyContext, *parser.BlockContext:
			continue
		}
		if holdsCall(decl.GetChild(i)) {
			return true
		}
	}
	// the modifiers are siblings of the memberDeclaration / interfaceMemberDeclaration
	for n := decl.GetParent(); n != nil; n = n.GetParent() {
		switch n.(type) {
		case *parser.ClassBodyDeclarationContext, *parser.InterfaceBodyDeclarationContext:
			for i := 0; i < n.GetChildCount(); i++ {
				if _, ok := n.GetChild(i).(*parser.ModifierContext); ok && holdsCall(n.GetChild(i)) {
					return true
				}
			}
			return false
		case *parser.InterfaceMethodDeclarationContext, *parser.GenericInterfaceMethodDeclarationContext:
			for i := 0; i < n.GetChildCount(); i++ {
				if _, ok := n.GetChild(i).(*parser.InterfaceMethodModifierContext); ok && holdsCall(n.GetChild(i)) {
					return true
				}
			}
		}
	}
	return false
}

func annotationsHoldCall(c *parser.InterfaceCommonBodyDeclarationContext) bool {
	for _, a := range c.AllAnnotation() {
		if holdsCall(a) {
			return true
		}
	}
	return false
}

func holdsCall(node antlr.Tree) bool {
	if node == nil {
		return false
	}
	switch c := node.(type) {
	case *parser.MethodCallContext, *parser.CreatorContext, *parser.InnerCreatorContext:
		return true
	case *parser.ExpressionContext:
		if c.COLONCOLON() != nil {
			return true // a method reference: the tool records it like a call
		}
	}
	for i := 0; i < node.GetChildCount(); i++ {
		if holdsCall(node.GetChild(i)) {
			return true
		}
	}
	return false
}

func ctor(c *parser.ConstructorDeclarationContext, generic bool) Func {
	f := Func{Name: c.Identifier().GetText(), Ctor: true, Generic: generic}
	f.Line, f.Col = c.Identifier().GetStart().GetLine(), c.Identifier().GetStart().GetColumn()
	params(c.FormalParameters().(*parser.FormalParametersContext), &f)
	f.Body = c.Block()
	f.Nested = holdsNested(f.Body)
	f.CallOutsideBody = callsOutside(c, c.FormalParameters())
	return f
}

func params(fp *parser.FormalParametersContext, f *Func) {
	if fp.ReceiverParameter() != nil {
		f.Receiver = true
	}
	l := fp.FormalParameterList()
	if l == nil {
		return
	}
	list := l.(*parser.FormalParameterListContext)
	for _, p := range list.AllFormalParameter() {
		q := p.(*parser.FormalParameterContext)
		id := q.VariableDeclaratorId().(*parser.VariableDeclaratorIdContext)
		if len(id.AllLBRACK()) > 0 {
			f.Dims = true // `String args[]`: what the (type, name) pair is stays open
		}
		f.Params = append(f.Params, Param{Type: nb(q.TypeType().GetText()), Name: id.Identifier().GetText()})
	}
	if list.LastFormalParameter() != nil {
		f.Varargs = true
	}
}

// declaredNames counts every method and constructor name declared below node, and the class bodies met.
func declaredNames(node antlr.Tree, names map[string]int, bodies *int) {
	switch c := node.(type) {
	case *parser.MethodDeclarationContext:
		names[c.Identifier().GetText()]++
	case *parser.ConstructorDeclarationContext:
		names[c.Identifier().GetText()]++
	case *parser.InterfaceCommonBodyDeclarationContext:
		names[c.Identifier().GetText()]++
	case *parser.AnnotationMethodRestContext:
		names[c.Identifier().GetText()]++
	case *parser.ClassBodyContext, *parser.InterfaceBodyContext, *parser.EnumDeclarationContext, *parser.AnnotationTypeBodyContext, *parser.RecordBodyContext:
		*bodies++
	}
	for i := 0; i < node.GetChildCount(); i++ {
		declaredNames(node.GetChild(i), names, bodies)
	}
}

func innerCreatorBodies(node antlr.Tree) int {
	n := 0
	if c, ok := node.(*parser.InnerCreatorContext); ok {
		if r, ok := c.ClassCreatorRest().(*parser.ClassCreatorRestContext); ok && r.ClassBody() != nil {
			n = 1
		}
	}
	for i := 0; i < node.GetChildCount(); i++ {
		n += innerCreatorBodies(node.GetChild(i))
	}
	return n
}

func namedTypes(node antlr.Tree) int {
	n := 0
	switch node.(type) {
	case *parser.ClassDeclarationContext, *parser.InterfaceDeclarationContext, *parser.EnumDeclarationContext, *parser.AnnotationTypeDeclarationContext, *parser.RecordDeclarationContext:
		n = 1
	}
	for i := 0; i < node.GetChildCount(); i++ {
		n += namedTypes(node.GetChild(i))
	}
	return n
}

// Conventional: the unit declares exactly one top-level type, a class or an interface, and no named type
// inside it (the quantifier of C01/C02: one top-level class or interface whose members are fields,
// constructors and methods). Anonymous classes and lambdas in bodies and initialisers are allowed.
func (u Unit) Conventional() bool {
	if u.Errors > 0 || u.Module || len(u.Types) != 1 {
		return false
	}
	t := u.Types[0]
	return (t.Kind == "class" || t.Kind == "interface") && t.NamedInner == 0 && t.InnerCreatorBodies == 0
}

func holdsNested(node antlr.Tree) bool {
	if node == nil {
		return false
	}
	switch node.(type) {
	case *parser.ClassBodyContext, *parser.LambdaExpressionContext, *parser.LocalTypeDeclarationContext:
		return true
	}
	for i := 0; i < node.GetChildCount(); i++ {
		if holdsNested(node.GetChild(i)) {
			return true
		}
	}
	return false
}

// Call is one invocation or object creation written in a body.
type Call struct {
	Name     string // callee identifier; created simple name (last identifier of createdName) for a creation
	Creation bool
	Line     int // 1-based line of the callee identifier
	Col      int // 0-based column of the callee identifier
	Special  bool // this(...) / super(...) / super.m(...) / explicit generic invocation / inner creator: forms the statement leaves open
	Inner    bool // written inside a class body or lambda nested in the function body
	Optional bool // a form the statement does not name (method reference `X::m`, array creation `new T[n]`): may be recorded or not
}

// Calls lists, in source order, the invocations and creations written in a function body.
func Calls(body antlr.Tree) []Call {
	var out []Call
	var walk func(n antlr.Tree, inner bool)
	walk = func(n antlr.Tree, inner bool) {
		if n == nil {
			return
		}
		switch c := n.(type) {
		case *parser.MethodCallContext:
			if id := c.Identifier(); id != nil {
				special := false
				if p, ok := c.GetParent().(*parser.ExplicitGenericInvocationSuffixContext); ok && p != nil {
					special = true
				}
				out = append(out, Call{Name: id.GetText(), Line: id.GetStart().GetLine(), Col: id.GetStart().GetColumn(), Inner: inner, Special: special})
			} else {
				tok := c.GetStart()
				out = append(out, Call{Name: tok.GetText(), Line: tok.GetLine(), Col: tok.GetColumn(), Inner: inner, Special: true})
			}
		case *parser.CreatorContext:
			cn := c.CreatedName().(*parser.CreatedNameContext)
			if cn.PrimitiveType() == nil {
				ids := cn.AllIdentifier()
				last := ids[len(ids)-1]
				first := ids[0]
				out = append(out, Call{Name: last.GetText(), Creation: true, Line: first.GetStart().GetLine(), Col: first.GetStart().GetColumn(), Inner: inner, Special: len(ids) > 1, Optional: c.ClassCreatorRest() == nil})
			}
		case *parser.ExpressionContext:
			if c.COLONCOLON() != nil {
				if id := c.Identifier(); id != nil {
					out = append(out, Call{Name: id.GetText(), Line: id.GetStart().GetLine(), Col: id.GetStart().GetColumn(), Inner: inner, Optional: true})
				}
			}
		case *parser.InnerCreatorContext:
			id := c.Identifier()
			out = append(out, Call{Name: id.GetText(), Creation: true, Line: id.GetStart().GetLine(), Col: id.GetStart().GetColumn(), Inner: inner, Special: true})
		case *parser.ClassBodyContext, *parser.LambdaExpressionContext, *parser.LocalTypeDeclarationContext:
			inner = true
		}
		for i := 0; i < n.GetChildCount(); i++ {
			walk(n.GetChild(i), inner)
		}
	}
	walk(body, false)
	sort.SliceStable(out, func(i, j int) bool {
		if out[i].Line != out[j].Line {
			return out[i].Line < out[j].Line
		}
		return out[i].Col < out[j].Col
	})
	return out
}
