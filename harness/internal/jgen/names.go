package jgen

import (
	"fmt"
	"strings"

	"pgregory.net/rapid"
)

var javaKeywords = map[string]bool{}

func init() {
	for _, k := range strings.Fields(`abstract assert boolean break byte case catch char class const continue default do double
else enum extends final finally float for goto if implements import instanceof int interface long native new package private
protected public return short static strictfp super switch synchronized this throw throws transient try void volatile while
true false null var record sealed permits yield module open requires exports opens to uses provides with transitive non`) {
		javaKeywords[k] = true
	}
}

// Names hands out identifiers that are unique within one generated project.
type Names struct {
	n    int
	used map[string]bool
	// Words (Opts.WordNames): class and method names may carry ordinary English words that the
	// heuristics of the tool react to in other places (Contest, Latest, ...Service, getX, testX)
	Words bool
	// Exotic (Opts.ExoticNames): method, variable and class names may contain the other characters a
	// Java identifier may be written with: `_`, `$` (not in class names) and letters outside ASCII
	Exotic bool
	// Long (Opts.LongLines): method and variable names may be far longer than 40 characters
	Long bool
	// Special (Opts.KeywordNames): names may be contextual keywords and single letters (audit_c01.go)
	Special bool
	// Called: the methods get called in generated bodies (Opts.Bodies)
	Called bool
}

// exoticPieces are put behind, inside or in front of a name (Names.Exotic). The first ones are the plainest.
var exoticPieces = []string{"_", "$", "__", "_tmp", "$impl", "$0", "é", "ü", "ß", "größe", "π", "данные", "値", "名前"}

// exoticClassPieces are the pieces used in class names: no `$` (javac's own separator for nested classes).
var exoticClassPieces = []string{"_", "__", "_v", "É", "é", "ß", "Größe", "Π", "Данные", "値"}

// decorate (Names.Exotic) puts one exotic piece behind the name, behind its first character (always an
// ASCII letter) or, when front is allowed, in front of it.
func (ns *Names) decorate(t *rapid.T, name, label string, pieces []string, front bool) string {
	if !ns.Exotic || rapid.IntRange(0, 3).Draw(t, label+"Exotic") != 3 {
		return name
	}
	piece := rapid.SampledFrom(pieces).Draw(t, label+"ExoticPiece")
	at := 1
	if front {
		at = 2
	}
	w := name + piece
	switch rapid.IntRange(0, at).Draw(t, label+"ExoticAt") {
	case 1:
		w = name[:1] + piece + name[1:]
	case 2:
		w = piece + name
	}
	if ns.used[w] || javaKeywords[w] {
		return name
	}
	ns.used[w] = true
	return w
}

var chunkGen = rapid.StringMatching(`[a-zA-Z0-9]{1,6}`)

// longTail (Names.Long) is a tail of 41..300 characters, rarely of 4100..5200 (longer than the 4096-byte
// buffers of line readers): a short random chunk repeated, so that it costs few draws and shrinks well.
func (ns *Names) longTail(t *rapid.T, label string) string {
	// (rapid favours the ends of a range: `== 19` happens for about one draw in twenty)
	if rapid.IntRange(0, 19).Draw(t, label+"VeryLong") != 19 {
		return ""
	}
	n := 0
	if rapid.IntRange(0, 19).Draw(t, label+"Huge") == 19 {
		n = rapid.IntRange(4100, 5200).Draw(t, label+"HugeLen")
	} else {
		n = rapid.IntRange(41, 300).Draw(t, label+"LongLen")
	}
	chunk := chunkGen.Draw(t, label+"Chunk")
	return strings.Repeat(chunk, n/len(chunk)+1)[:n]
}

// classWords are appended to a class name (after its running number, so that the file name ends in
// the word). None makes the name end in the capitalised "Test" / "Tests" of a test file.
var classWords = []string{"Contest", "Latest", "Protests", "Greatest", "Attest", "Contests", "Shortest", "Fastests",
	"TestHelper", "TestsRunner", "Attestation", "Service", "Util", "Utils", "Main", "Nullable", "Todo"}

// methodWords are put in front of a method name.
var methodWords = []string{"get", "set", "is", "test", "should", "latest", "contest", "main", "check", "util"}

func NewNames() *Names { return &Names{used: map[string]bool{}} }

var tailGen = rapid.StringMatching(`[a-zA-Z0-9]{0,6}`)
var longTailGen = rapid.StringMatching(`[a-zA-Z0-9]{20,36}`)

// fresh builds an identifier: first + optional random tail + running number. The running
// number makes it unique and keeps it from being a keyword.
func (ns *Names) fresh(t *rapid.T, first string, label string) string {
	ns.n++
	tail := ""
	if ns.Long && label != "class" {
		tail = ns.longTail(t, label)
	}
	switch k := rapid.IntRange(0, 11).Draw(t, label+"Shape"); {
	case tail != "":
	case k >= 10:
		tail = longTailGen.Draw(t, label+"LongTail")
	case k >= 5:
		tail = tailGen.Draw(t, label+"Tail")
	}
	name := fmt.Sprintf("%s%s%d", first, tail, ns.n)
	name = sanitize(name)
	for ns.used[name] || javaKeywords[name] {
		name += "x"
	}
	ns.used[name] = true
	return name
}

// sanitize keeps identifiers away from substrings and prefixes that mean something to the tool.
func sanitize(name string) string {
	low := strings.ToLower(name)
	for _, bad := range []string{"null", "test", "util", "service", "main", "todo", "fixme"} {
		for {
			i := strings.Index(low, bad)
			if i < 0 {
				break
			}
			name = name[:i] + "q" + name[i+1:]
			low = strings.ToLower(name)
		}
	}
	for _, p := range []string{"get", "set", "is", "should", "check", "spec", "assert", "verify", "maynotbe"} {
		if strings.HasPrefix(low, p) {
			name = "k" + name
			low = strings.ToLower(name)
		}
	}
	return name
}

// numbered hands out prefix + running number without any draw (bulk parameter lists).
func (ns *Names) numbered(prefix string) string {
	for {
		ns.n++
		name := fmt.Sprintf("%s%d", prefix, ns.n)
		if !ns.used[name] {
			ns.used[name] = true
			return name
		}
	}
}

// Reserve marks a name as taken.
func (ns *Names) Reserve(name string) { ns.used[name] = true }

func (ns *Names) Class(t *rapid.T) string {
	if ns.Special {
		if w := ns.special(t, "class"); w != "" {
			return w
		}
	}
	first := rapid.SampledFrom([]string{"A", "B", "K", "Order", "Repo", "Item", "Z"}).Draw(t, "classFirst")
	n := ns.fresh(t, first, "class")
	n = strings.ToUpper(n[:1]) + n[1:]
	if ns.Words && rapid.IntRange(0, 5).Draw(t, "classWord") >= 4 {
		w := n + rapid.SampledFrom(classWords).Draw(t, "classWordText")
		if !ns.used[w] {
			ns.used[w] = true
			return ns.decorate(t, w, "class", exoticClassPieces, false)
		}
	}
	return ns.decorate(t, n, "class", exoticClassPieces, false)
}

func (ns *Names) Method(t *rapid.T) string {
	if ns.Special {
		if w := ns.special(t, "method"); w != "" {
			return w
		}
	}
	first := rapid.SampledFrom([]string{"m", "run", "calc", "load", "x", "apply"}).Draw(t, "methodFirst")
	n := ns.fresh(t, first, "method")
	if ns.Words && rapid.IntRange(0, 5).Draw(t, "methodWord") >= 4 {
		w := rapid.SampledFrom(methodWords).Draw(t, "methodWordText") + strings.ToUpper(n[:1]) + n[1:]
		if !ns.used[w] && !javaKeywords[w] {
			ns.used[w] = true
			return ns.decorate(t, w, "method", exoticPieces, true)
		}
	}
	return ns.decorate(t, n, "method", exoticPieces, true)
}

func (ns *Names) Var(t *rapid.T) string {
	if ns.Special {
		if w := ns.special(t, "var"); w != "" {
			return w
		}
	}
	first := rapid.SampledFrom([]string{"v", "a", "repo", "it", "p", "tmp"}).Draw(t, "varFirst")
	return ns.decorate(t, ns.fresh(t, first, "var"), "var", exoticPieces, true)
}
