package jgen

import "pgregory.net/rapid"

// Opts.UnqualifiedForeign: unqualified calls that name a method of another class.

// foreignCallee is a method of another class that an unqualified call in the unit may name.
type foreignCallee struct {
	name   string
	target string // pkg.Class.method
	recv   string // inherited | staticimport
}

type staticImp struct {
	text     string
	wildcard bool
}

// staticImports draws the static imports of project classes for the unit and collects, in
// u.foreign, the methods of other classes that an unqualified call may name: the methods the
// project superclass declares and the static methods brought in by the static imports. A name the
// class declares itself (or inherits from its superclass) hides a statically imported one, so such
// a name is never offered as a foreign callee: next to it the on-demand import is a mere decoy.
func (u *unitCtx) staticImports(chosen []int) []staticImp {
	g, t := u.g, u.g.t
	hidden := map[string]bool{}
	for _, m := range u.sig.methods {
		hidden[m.name] = true
	}
	if u.superIdx >= 0 {
		sup := g.sigs[u.superIdx]
		for _, m := range sup.methods {
			if !hidden[m.name] {
				hidden[m.name] = true
				u.foreign = append(u.foreign, foreignCallee{name: m.name, target: sup.full() + "." + m.name, recv: "inherited"})
			}
		}
	}
	var out []staticImp
	offered := map[string]int{} // how many static imports bring the name in (two make a call ambiguous)
	for _, c := range chosen {
		p := g.sigs[c]
		if p.kind != "Class" || c == u.superIdx {
			continue
		}
		// 0-3: no static import (plain); 4: import static pkg.P.*; 5: import static pkg.P.m;
		form := rapid.IntRange(0, 5).Draw(t, "staticImportForm")
		if form < 4 {
			continue
		}
		var callable []methodSig
		seen := map[string]bool{}
		for _, m := range p.methods {
			if m.static && !hidden[m.name] && !seen[m.name] {
				seen[m.name] = true
				callable = append(callable, m)
			}
		}
		if form == 5 && len(callable) > 0 {
			m := rapid.SampledFrom(callable).Draw(t, "staticImportMethod")
			out = append(out, staticImp{text: p.full() + "." + m.name})
			u.feature("static_import_single")
			offered[m.name]++
			u.foreign = append(u.foreign, foreignCallee{name: m.name, target: p.full() + "." + m.name, recv: "staticimport"})
			continue
		}
		out = append(out, staticImp{text: p.full(), wildcard: true})
		u.feature("static_import_on_demand")
		for _, m := range callable {
			offered[m.name]++
			u.foreign = append(u.foreign, foreignCallee{name: m.name, target: p.full() + "." + m.name, recv: "staticimport"})
		}
	}
	kept := u.foreign[:0]
	for _, f := range u.foreign {
		if f.recv == "staticimport" && offered[f.name] > 1 {
			continue
		}
		kept = append(kept, f)
	}
	u.foreign = kept
	return out
}

// foreignCall writes an unqualified call of a method another class declares.
func (u *unitCtx) foreignCall(level, depth int) {
	w := u.w
	f := rapid.SampledFrom(u.foreign).Draw(u.g.t, "foreignCallee")
	line, col := w.Line(), w.Col()
	w.S(f.name)
	u.event(Event{Kind: "call", Name: f.name, Line: line, Col: col, Recv: f.recv, Target: f.target})
	u.feature("unqualified_call_" + f.recv)
	u.args(level, depth, true)
}
