package jgen

import (
	"strings"
	"testing"

	"pgregory.net/rapid"
)

func namesakeOpts(rt *rapid.T) Opts {
	return Opts{Bodies: true, MultiByte: true, Interfaces: true, Wide: true, Anon: true, RichDecl: true, Loops: true, MaxUnits: 4, MaxMethods: 4,
		ScopedReuse: rapid.Bool().Draw(rt, "reuse"), SharedMethodNames: true, UnqualifiedForeign: true,
		ExoticNames: true, WildcardProjectImports: true, TwinNames: true, TwinReferrers: true,
		AnonBodies: true, AssignedCreations: true, CaseTwinNames: true, ScopeEnds: true, CallLayout: true, OwnTypeVars: true, ReturnCalls: true, FieldForms: true, InterfaceBodies: true, FieldChainCalls: true,
		NamesakeImports: true, CallsAfterScopes: true}
}

// Opts.NamesakeImports in the combination the C02 check uses
func TestGeneratedUnitsParseNamesakeImports(t *testing.T) {
	unitsParse(t, namesakeOpts)
}

// meaningOf resolves a simple class name in a unit by the rules of the language: the packages of the
// classes it may mean (one: the name is fine; none: undeclared; two: ambiguous).
func meaningOf(p Project, u UnitTruth, name string) []string {
	if name == u.Name {
		return []string{u.Pkg}
	}
	var found []string
	for _, im := range u.Imports {
		if !im.Static && !im.Wildcard && strings.HasSuffix(im.Text, "."+name) {
			found = append(found, strings.TrimSuffix(im.Text, "."+name))
		}
	}
	if len(found) > 0 {
		return found
	}
	for _, o := range p.Units {
		if o.Pkg == u.Pkg && o.Name == name {
			return []string{o.Pkg}
		}
	}
	seen := map[string]bool{}
	for _, im := range u.Imports {
		if !im.Static && im.Wildcard && !seen[im.Text] {
			seen[im.Text] = true
			for _, o := range p.Units {
				if o.Pkg == im.Text && o.Name == name {
					found = append(found, o.Pkg)
				}
			}
		}
	}
	return found
}

// with imports that mention namesakes, every class name the units use as the type of a field or of a
// receiver still means exactly the class the ground truth expects, no two units collide, and no file
// imports two classes of one simple name or a namesake of its own class
func TestNamesakeImportsStayUnambiguous(t *testing.T) {
	rapid.Check(t, func(rt *rapid.T) {
		p := GenProject(rt, namesakeOpts(rt))
		seenPath, seenClass := map[string]bool{}, map[string]bool{}
		for _, u := range p.Units {
			if seenPath[u.Path] || seenClass[u.FullName()] {
				rt.Fatalf("duplicate unit %s / %s", u.Path, u.FullName())
			}
			seenPath[u.Path], seenClass[u.FullName()] = true, true
		}
		project := map[string]bool{}
		for _, u := range p.Units {
			project[u.Name] = true
		}
		for _, u := range p.Units {
			imported := map[string]string{}
			for _, im := range u.Imports {
				if im.Static || im.Wildcard {
					continue
				}
				simple := im.Text[strings.LastIndex(im.Text, ".")+1:]
				if prev, ok := imported[simple]; ok && prev != im.Text {
					rt.Fatalf("%s imports two classes called %s", u.Path, simple)
				}
				imported[simple] = im.Text
				if simple == u.Name {
					rt.Fatalf("%s imports a namesake of its own class", u.Path)
				}
			}
			for _, f := range u.Fields {
				if project[f.Type] {
					if m := meaningOf(p, u, f.Type); len(m) != 1 {
						rt.Fatalf("%s: field type %s means %v", u.Path, f.Type, m)
					}
				}
			}
			for _, f := range u.Funcs {
				for _, q := range f.Params {
					if project[q.Type] {
						if m := meaningOf(p, u, q.Type); len(m) != 1 {
							rt.Fatalf("%s: parameter type %s means %v", u.Path, q.Type, m)
						}
					}
				}
				for _, e := range f.Events {
					if e.Kind == "new" && project[e.Name] {
						if m := meaningOf(p, u, e.Name); len(m) != 1 {
							rt.Fatalf("%s: created type %s means %v", u.Path, e.Name, m)
						}
					}
					if !e.Resolve || e.Recv == "implicit" || !project[e.ExpNode] {
						continue
					}
					if m := meaningOf(p, u, e.ExpNode); len(m) != 1 || m[0] != e.ExpPkg {
						rt.Fatalf("%s: receiver class %s of %s at %d:%d means %v, expected package %q", u.Path, e.ExpNode, e.Name, e.Line, e.Col, m, e.ExpPkg)
					}
				}
			}
		}
	})
}
