package jgen

import (
	"fmt"
	"strings"

	"pgregory.net/rapid"
)

func nb(s string) string { return strings.ReplaceAll(s, " ", "") }

// params draws a parameter list, writes nothing; returns declared text and infos.
func (u *unitCtx) params(n int, exts []int, typeParam string) (string, []varInfo) {
	g, t := u.g, u.g.t
	var parts []string
	var vars []varInfo
	collab := u.collabFields()
	for k := 0; k < n; k++ {
		name := g.varName("param")
		for _, v := range vars {
			if v.name == name {
				name = g.names.Var(t)
			}
		}
		var vi varInfo
		if len(collab) > 0 && rapid.IntRange(0, 2).Draw(t, "paramIsProjectType") == 0 {
			c := rapid.SampledFrom(collab).Draw(t, "paramClass")
			vi = varInfo{name: name, kind: "param", typ: g.sigs[c].name, cls: c}
			u.used[g.sigs[c].name] = true
		} else {
			typ, usedNames := g.plainType(exts, typeParam)
			for _, un := range usedNames {
				u.used[un] = true
			}
			vi = varInfo{name: name, kind: "param", typ: typ, cls: -1}
			for _, xi := range exts {
				if typ == externals[xi].simple {
					vi.ext, vi.extI = true, xi
				}
			}
		}
		fin := ""
		if rapid.IntRange(0, 6).Draw(t, "finalParam") == 0 {
			fin = "final "
		}
		if g.o.RichDecl && rapid.IntRange(0, 5).Draw(t, "paramAnn") == 0 {
			ann := rapid.SampledFrom([]string{"@NotNull ", "@Named(\"x\") ", "@Size(min = 1, max = 3) "}).Draw(t, "paramAnnText")
			if rapid.Bool().Draw(t, "paramAnnFirst") {
				fin = ann + fin
			} else {
				fin = fin + ann
			}
		}
		parts = append(parts, fin+vi.typ+" "+name)
		vi.typ = nb(vi.typ)
		vars = append(vars, vi)
	}
	sep := rapid.SampledFrom([]string{", ", ",", " , "}).Draw(t, "paramSep")
	if g.o.LongLines && rapid.IntRange(0, 24).Draw(t, "wideParams") == 24 {
		// the all-arguments constructor / bulk setter of a generated data class: 20..120 further parameters
		// (a method takes at most 255 argument slots, a long two of them) on the same line, their types
		// cycling through a few drawn ones, their names numbered
		more := rapid.IntRange(20, 120).Draw(t, "nWideParams")
		var types []string
		for k, nt := 0, rapid.IntRange(1, 4).Draw(t, "nWideTypes"); k < nt; k++ {
			typ, usedNames := g.plainType(exts, typeParam)
			for _, un := range usedNames {
				u.used[un] = true
			}
			types = append(types, typ)
		}
		prefix := rapid.SampledFrom([]string{"f", "arg", "col", "p", "customerAddressLine", "previousBillingPeriodAmount"}).Draw(t, "wideParamPrefix")
		fin := rapid.SampledFrom([]string{"", "", "final "}).Draw(t, "wideParamFinal")
		for k := 0; k < more; k++ {
			vi := varInfo{name: g.names.numbered(prefix), kind: "param", typ: types[k%len(types)], cls: -1}
			parts = append(parts, fin+vi.typ+" "+vi.name)
			vi.typ = nb(vi.typ)
			vars = append(vars, vi)
		}
		u.feature("wide_parameter_list")
	}
	return strings.Join(parts, sep), vars
}

// collabFields lists the project classes this unit already refers to (field types), which
// are therefore imported or in the same package.
func (u *unitCtx) collabFields() []int {
	var out []int
	seen := map[int]bool{}
	for _, f := range u.fields {
		if f.cls >= 0 && !seen[f.cls] {
			seen[f.cls] = true
			out = append(out, f.cls)
		}
	}
	return out
}

func (u *unitCtx) ctor(idx int, exts []int, typeParam string) {
	t := u.g.t
	w := u.w
	n := rapid.IntRange(0, 3).Draw(t, "ctorParams")
	ptext, pvars := u.params(n, exts, typeParam)
	mod := rapid.SampledFrom([]string{"public ", "", "protected ", "private "}).Draw(t, "ctorMod")
	w.S(u.lead() + mod)
	ft := FuncTruth{Name: u.sig.name, IsCtor: true, DeclLine: w.Line(), NameLine: w.Line(), NameCol: w.Col()}
	if mod != "" {
		ft.Modifiers = []string{strings.TrimSpace(mod)}
	}
	for _, v := range pvars {
		ft.Params = append(ft.Params, Param{v.typ, v.name})
	}
	w.S(u.sig.name + "(" + ptext + ")" + u.ctorThrows() + " {")
	u.cur = &ft
	u.scope = append([]varInfo(nil), pvars...)
	u.block(1, true)
	w.S(u.indent + "}")
	ft.EndLine = w.Line()
	u.truth.Funcs = append(u.truth.Funcs, ft)
	u.cur = nil
}

// lead is what precedes a member: the indentation, or one blank in the compact layout.
func (u *unitCtx) lead() string {
	if u.sameLine {
		return " "
	}
	return u.indent
}

var modPerms = [][]string{
	{"public"}, {"private"}, {"protected"}, {}, {"public", "static"}, {"static", "public"}, {"public", "final"},
	{"final", "public"}, {"public", "synchronized"}, {"private", "static", "final"}, {"static", "final", "private"}, {"synchronized"},
}

func (u *unitCtx) method(ms methodSig, exts []int, typeParam string) {
	t := u.g.t
	w := u.w
	ptext, pvars := u.params(ms.nParams, exts, typeParam)
	ft := FuncTruth{Name: ms.name, ReturnType: nb(ms.ret)}
	for _, v := range pvars {
		ft.Params = append(ft.Params, Param{v.typ, v.name})
	}
	if u.sig.kind == "Interface" {
		if u.g.o.InterfaceBodies && u.ifaceBodyMethod(ms, ptext, pvars, &ft) {
			return
		}
		if u.g.o.DeclForms && u.ifaceMethodMore(ms, ptext, pvars, &ft) {
			return
		}
		if strings.Contains(ms.ret, "List") {
			u.used["List"] = true
		}
		mod := rapid.SampledFrom([]string{"", "public "}).Draw(t, "ifaceMod")
		w.S(u.lead() + mod)
		ft.DeclLine = w.Line()
		w.S(ms.ret + " ")
		ft.NameLine, ft.NameCol = w.Line(), w.Col()
		w.S(ms.name + "(" + ptext + ");")
		ft.EndLine = w.Line()
		if mod != "" {
			ft.Modifiers = []string{"public"}
		}
		u.truth.Funcs = append(u.truth.Funcs, ft)
		return
	}
	abstract := u.sig.abstract && rapid.IntRange(0, 3).Draw(t, "abstractMethod") == 0
	var mods []string
	if abstract {
		mods = rapid.SampledFrom([][]string{{"abstract"}, {"public", "abstract"}, {"abstract", "protected"}}).Draw(t, "abstractMods")
	} else {
		mods = append([]string(nil), rapid.SampledFrom(modPerms).Draw(t, "mods")...)
		hasStatic := false
		for _, m := range mods {
			if m == "static" {
				hasStatic = true
			}
		}
		if ms.static && !hasStatic {
			mods = append(mods, "static")
		}
	}
	ft.Modifiers = mods
	if !abstract && !u.sameLine && rapid.IntRange(0, 7).Draw(t, "overrideAnn") == 0 {
		w.S(u.indent + "@Override\n")
	}
	if u.g.o.RichDecl && !u.sameLine && rapid.IntRange(0, 4).Draw(t, "methodAnn") == 0 {
		w.S(u.indent + rapid.SampledFrom([]string{"@SuppressWarnings(\"unchecked\")", "@Timed(value = \"t\", extraTags = {\"a\", \"b\"})", "@Deprecated", "@org.demo.Audited(level = 2)"}).Draw(t, "methodAnnText") + "\n")
	}
	w.S(u.lead())
	if u.g.o.RichDecl && rapid.IntRange(0, 9).Draw(t, "inlineMethodAnn") == 0 {
		w.S("@Deprecated ")
	}
	for _, m := range mods {
		w.S(m + " ")
	}
	generic := !abstract && rapid.IntRange(0, 9).Draw(t, "genericMethod") == 0
	ret := ms.ret
	if generic {
		w.S("<R> ")
		if rapid.Bool().Draw(t, "genericRet") {
			ret = "R"
			ft.ReturnType = "R"
		}
	}
	if strings.Contains(ret, "List") {
		u.used["List"] = true
	}
	ft.DeclLine = w.Line()
	w.S(ret + " ")
	if u.g.o.RichDecl && rapid.IntRange(0, 9).Draw(t, "commentInDecl") == 0 {
		w.S("/* " + u.g.comment("decl") + " */ ")
	}
	ft.NameLine, ft.NameCol = w.Line(), w.Col()
	w.S(ms.name + "(" + ptext + ")")
	if rapid.IntRange(0, 6).Draw(t, "throws") == 0 {
		w.S(" throws Exception")
		if u.g.o.RichDecl && rapid.Bool().Draw(t, "throws2") {
			w.S(", IllegalStateException")
		}
	}
	if abstract {
		w.S(";")
		ft.EndLine = w.Line()
		u.truth.Funcs = append(u.truth.Funcs, ft)
		return
	}
	if rapid.IntRange(0, 7).Draw(t, "methodBraceNextLine") == 0 {
		w.S("\n" + u.indent + "{")
	} else {
		w.S(" {")
	}
	u.cur = &ft
	u.scope = append([]varInfo(nil), pvars...)
	u.blockWithReturn(1, ret)
	w.S(u.indent + "}")
	ft.EndLine = w.Line()
	u.truth.Funcs = append(u.truth.Funcs, ft)
	u.cur = nil
}

func (u *unitCtx) ind(level int) string { return strings.Repeat(u.indent, level+1) }

// block writes the statements of a body whose opening brace has just been written; it ends
// with a newline so that the caller can write the closing brace on its own line.
func (u *unitCtx) block(level int, top bool) {
	u.blockWithReturn(level, "")
}

func (u *unitCtx) blockWithReturn(level int, ret string) {
	t := u.g.t
	w := u.w
	if level == 1 {
		u.curRet = ret
		u.budget = 3
		if u.g.o.Bodies {
			u.budget = rapid.IntRange(0, 15).Draw(t, "bodyBudget")
		}
	}
	saved := len(u.scope)
	n := 0
	if u.budget > 0 {
		n = rapid.IntRange(0, min(u.budget, 6)).Draw(t, "nStmts")
	}
	w.S("\n")
	for k := 0; k < n && u.budget > 0; k++ {
		u.budget--
		w.S(u.ind(level))
		if rapid.IntRange(0, 9).Draw(t, "leadingBlockComment") == 0 {
			w.S("/* " + u.g.comment("lead") + " */ ")
		}
		u.stmt(level)
		if rapid.IntRange(0, 9).Draw(t, "twoOnLine") == 0 && u.budget > 0 {
			u.budget--
			w.S(" ")
			u.simpleStmt(level)
		}
		if rapid.IntRange(0, 9).Draw(t, "trailingComment") == 0 {
			w.S(" " + w.LineComment(u.g.comment("trail")))
		}
		w.S("\n")
	}
	if level == 1 && ret != "" && ret != "void" {
		if !u.returnCall(level) {
			w.S(u.ind(level) + "return " + u.valueOf(ret) + ";\n")
		}
	} else if level > 1 && u.g.o.ReturnCalls {
		u.earlyReturn(level)
	}
	u.scope = u.scope[:saved]
}

func (u *unitCtx) valueOf(ret string) string {
	switch ret {
	case "int":
		return "0"
	case "boolean":
		return "true"
	case "String":
		return "\"" + u.strBody() + "\""
	default:
		return "null"
	}
}

func (u *unitCtx) strBody() string {
	t := u.g.t
	if u.mb && rapid.IntRange(0, 2).Draw(t, "strMB") == 0 {
		return rapid.SampledFrom([]string{"é日本", "naïve → ok", "данные", "☂☂"}).Draw(t, "strMBText")
	}
	if k := rapid.IntRange(0, 5).Draw(t, "strDecoy"); k == 0 {
		if name := u.g.anyMethodName(); name != "" {
			return name + "()" // the name of a project method inside a literal is not a call
		}
	}
	return rapid.SampledFrom([]string{"", "a", "x.call()", "// no comment", "/* none */", "new Foo()", "it's"}).Draw(t, "strText")
}

func (g *gen) anyMethodName() string {
	var all []string
	for _, s := range g.sigs {
		for _, m := range s.methods {
			all = append(all, m.name)
		}
	}
	if len(all) == 0 {
		return ""
	}
	return rapid.SampledFrom(all).Draw(g.t, "decoyMethod")
}

// stmt writes one statement (without the trailing newline).
func (u *unitCtx) stmt(level int) {
	t := u.g.t
	k := rapid.IntRange(0, 13).Draw(t, "stmtKind")
	if level >= 3 && k >= 8 {
		k = k % 8
	}
	if u.g.o.ScopeEnds && level < 3 && rapid.IntRange(0, 9).Draw(t, "scopeEndStmt") == 9 && u.scopeEndStmt(level) {
		return
	}
	if u.g.o.Wide && level < 3 && rapid.IntRange(0, 5).Draw(t, "wideStmt") == 0 {
		u.wideStmt(level)
		return
	}
	switch k {
	case 0, 1, 2, 3, 4, 5, 6, 7:
		u.simpleStmt(level)
	default:
		u.compound(level, k)
		u.callAfterScope(level)
	}
}

// feature notes a generated shape in the unit's truth (once).
func (u *unitCtx) feature(name string) {
	for _, f := range u.truth.Features {
		if f == name {
			return
		}
	}
	u.truth.Features = append(u.truth.Features, name)
}

// bodyOf writes the body of a loop or branch whose header has just been written: a block or,
// with Opts.Loops, a single statement without braces (on the same or on the next line). It
// reports whether the body was written without braces.
func (u *unitCtx) bodyOf(level int) bool {
	t := u.g.t
	w := u.w
	if u.g.o.Loops && rapid.IntRange(0, 4).Draw(t, "bracelessBody") == 4 {
		if rapid.Bool().Draw(t, "bracelessNextLine") {
			w.S("\n" + u.ind(level+1))
		} else {
			w.S(" ")
		}
		u.feature("braceless_body")
		u.bracelessStmt(level + 1)
		return true
	}
	w.S(" {")
	u.blockWithReturn(level+1, "")
	w.S(u.ind(level) + "}")
	return false
}

// bracelessStmt writes a statement that may stand alone as the body of a loop or branch: no
// declaration. Mostly a call; sometimes an assignment or another loop / branch (so that
// `else if` chains and `for (...) if (...) call();` occur).
func (u *unitCtx) bracelessStmt(level int) {
	t := u.g.t
	w := u.w
	k := rapid.IntRange(0, 7).Draw(t, "bracelessKind")
	switch {
	case k >= 6 && level < 3:
		nested := rapid.SampledFrom([]int{8, 13, 10, 9}).Draw(t, "bracelessNested")
		u.feature("braceless_nested")
		u.compound(level, nested)
	case k == 5:
		if v, ok := u.anyVar(func(v varInfo) bool { return v.cls < 0 && !v.ext && v.kind != "foreach" }); ok {
			w.S(v.name + " = ")
			u.expr(level, 1)
			w.S(";")
			return
		}
		fallthrough
	default:
		u.callExpr(level, 0)
		w.S(";")
	}
}

// foreachPlain are the element types of an enhanced for that are not project classes.
var foreachPlain = []string{"int", "String", "long", "char", "int[]", "Object", "double", "Integer", "String[]", "List<String>"}

// compound writes a loop, branch, switch or try statement; k is the statement kind (8..13).
func (u *unitCtx) compound(level int, k int) {
	t := u.g.t
	w := u.w
	loops := u.g.o.Loops
	switch k {
	case 8: // if / else
		w.S("if (")
		u.cond(level)
		w.S(")")
		bare := u.bodyOf(level)
		if rapid.Bool().Draw(t, "else") {
			if bare && rapid.Bool().Draw(t, "elseOnNextLine") {
				w.S("\n" + u.ind(level) + "else")
			} else {
				w.S(" else")
			}
			u.bodyOf(level)
		}
	case 9: // for
		if c := u.collabFields(); loops && len(c) > 0 && rapid.IntRange(0, 2).Draw(t, "forVarProject") == 2 {
			// the loop variable is a local variable of a project class, declared in the for header
			// and visible in the header and the body only
			ci := rapid.SampledFrom(c).Draw(t, "forVarClass")
			xv := u.freshLocal()
			if u.g.o.ScopedReuse {
				// the loop variable may take the name of a field of another class type, which it then
				// shadows in the header and the body, and only there
				var shadow []string
				for _, f := range u.fields {
					inScope := false
					for _, v := range u.scope {
						if v.name == f.name {
							inScope = true
						}
					}
					if (f.ext || f.cls >= 0 && f.cls != ci) && !inScope {
						shadow = append(shadow, f.name)
					}
				}
				if len(shadow) > 0 && rapid.Bool().Draw(t, "forVarShadowsField") {
					xv = rapid.SampledFrom(shadow).Draw(t, "forVarShadowed")
					u.feature("for_init_var_shadows_field")
				}
			}
			w.S("for (" + u.g.sigs[ci].name + " " + xv + " = ")
			u.pending = xv
			if rapid.Bool().Draw(t, "forVarNew") {
				u.newExpr(level, 1, ci)
			} else {
				w.S("null")
			}
			u.pending = ""
			w.S("; " + xv + " != null; " + xv + " = ")
			u.feature("for_init_project_var")
			u.scope = append(u.scope, varInfo{name: xv, kind: "local", typ: u.g.sigs[ci].name, cls: ci, decl: "forinit"})
			if rapid.Bool().Draw(t, "forVarUpdateCall") {
				// the iterator idiom: for (Node n = first; n != null; n = n.next())
				w.S(xv + ".")
				line, col := w.Line(), w.Col()
				e := Event{Kind: "call", Line: line, Col: col, Recv: "local", Decl: "forinit", Resolve: true, ExpPkg: u.g.sigs[ci].pkg, ExpNode: u.g.sigs[ci].name}
				e.Name, e.Target = u.calleeOf(ci)
				w.S(e.Name)
				u.event(e)
				w.S("())")
			} else {
				w.S("null)")
			}
			u.bodyOf(level)
			u.scope = u.scope[:len(u.scope)-1]
			return
		}
		iv := u.g.names.Var(t)
		w.S("for (int " + iv + " = 0; " + iv + " < 3; " + iv + "++)")
		u.scope = append(u.scope, varInfo{name: iv, kind: "local", typ: "int", cls: -1})
		u.bodyOf(level)
		u.scope = u.scope[:len(u.scope)-1]
	case 10: // while
		w.S("while (")
		u.cond(level)
		w.S(")")
		u.bodyOf(level)
	case 11: // switch
		// what the groups declare ends with the switch (Java scoping; not an option: a name used
		// after the switch would refer to something else, or to nothing)
		defer func(saved int) { u.scope = u.scope[:saved] }(len(u.scope))
		w.S("switch (" + fmt.Sprint(rapid.IntRange(0, 3).Draw(t, "switchOn")) + ") {\n")
		w.S(u.ind(level) + "case 1:\n" + u.ind(level+1))
		u.simpleStmt(level + 1)
		w.S("\n" + u.ind(level+1) + "break;\n")
		w.S(u.ind(level) + "default:\n" + u.ind(level+1))
		u.simpleStmt(level + 1)
		w.S("\n" + u.ind(level) + "}")
	case 12: // try
		w.S("try {")
		u.blockWithReturn(level+1, "")
		ev := u.g.names.Var(t)
		w.S(u.ind(level) + "} catch (Exception " + ev + ") {")
		u.blockWithReturn(level+1, "")
		w.S(u.ind(level) + "}")
		if rapid.IntRange(0, 2).Draw(t, "finally") == 0 {
			w.S(" finally {")
			u.blockWithReturn(level+1, "")
			w.S(u.ind(level) + "}")
		}
	default: // for-each over a fresh list
		c := u.collabFields()
		if len(c) == 0 && !loops {
			u.simpleStmt(level)
			return
		}
		elem := 0
		if loops {
			// 0-2: a project class (the plain variant); above: a primitive, array, String, boxed or generic element type
			elem = rapid.IntRange(0, 2+len(foreachPlain)).Draw(t, "foreachElem")
			if elem <= 2 && len(c) == 0 {
				elem = 3
			}
		}
		fin := ""
		if loops && rapid.IntRange(0, 5).Draw(t, "foreachFinal") == 5 {
			fin = "final "
			u.feature("foreach_final_variable")
		}
		if elem > 2 {
			typ := foreachPlain[elem-3]
			if typ == "List<String>" {
				if u.imports["java.util.List"] {
					u.used["List"] = true
				} else {
					typ = "String"
				}
			}
			switch typ {
			case "int", "long", "char", "double":
				u.feature("foreach_primitive_element")
			case "int[]", "String[]":
				u.feature("foreach_array_element")
			default:
				u.feature("foreach_library_element")
			}
			xv := u.freshLocal()
			w.S("for (" + fin + typ + " " + xv + " : ")
			u.expr(level, 2)
			w.S(")")
			u.scope = append(u.scope, varInfo{name: xv, kind: "foreach", typ: nb(typ), cls: -1})
			u.bodyOf(level)
			u.scope = u.scope[:len(u.scope)-1]
			return
		}
		ci := rapid.SampledFrom(c).Draw(t, "foreachClass")
		xv := u.freshLocal()
		w.S("for (" + fin + u.g.sigs[ci].name + " " + xv + " : ")
		u.expr(level, 2)
		w.S(")")
		u.scope = append(u.scope, varInfo{name: xv, kind: "foreach", typ: u.g.sigs[ci].name, cls: ci})
		u.bodyOf(level)
		u.scope = u.scope[:len(u.scope)-1]
	}
}

// wideStmt writes one of the less common statement forms.
func (u *unitCtx) wideStmt(level int) {
	t := u.g.t
	w := u.w
	switch rapid.IntRange(0, 5).Draw(t, "wideStmtKind") {
	case 0: // do-while
		w.S("do")
		u.bodyOf(level)
		w.S(" while (")
		u.cond(level)
		w.S(");")
		u.callAfterScope(level)
	case 1: // try-with-resources: the resource is a variable of the try statement
		c := u.collabFields()
		if len(c) == 0 {
			u.simpleStmt(level)
			return
		}
		ci := rapid.SampledFrom(c).Draw(t, "resourceClass")
		rv := u.freshLocal()
		w.S("try (" + u.g.sigs[ci].name + " " + rv + " = ")
		u.pending = rv // the resource is in scope inside its own initializer
		u.newExpr(level, 1, ci)
		u.pending = ""
		w.S(") {")
		u.scope = append(u.scope, varInfo{name: rv, kind: "local", typ: u.g.sigs[ci].name, cls: ci})
		u.blockWithReturn(level+1, "")
		u.scope = u.scope[:len(u.scope)-1]
		w.S(u.ind(level) + "}")
		u.callAfterScope(level)
	case 2: // synchronized block
		w.S("synchronized (this) {")
		u.blockWithReturn(level+1, "")
		w.S(u.ind(level) + "}")
		u.callAfterScope(level)
	case 3: // throw
		w.S("throw new IllegalStateException(")
		line, col := w.Line(), w.Col()-len("IllegalStateException(")
		u.event(Event{Kind: "new", Name: "IllegalStateException", Line: line, Col: col})
		u.expr(level, 2)
		w.S(");")
	case 4: // several declarators in one declaration
		c := u.collabFields()
		if len(c) == 0 {
			u.simpleStmt(level)
			return
		}
		ci := rapid.SampledFrom(c).Draw(t, "multiDeclClass")
		a, b := u.freshLocal(), ""
		u.scope = append(u.scope, varInfo{name: a, kind: "local", typ: u.g.sigs[ci].name, cls: ci})
		b = u.freshLocal()
		u.scope = append(u.scope, varInfo{name: b, kind: "local", typ: u.g.sigs[ci].name, cls: ci})
		w.S(u.g.sigs[ci].name + " " + a + " = null, " + b + " = null;")
	default: // declaration without initializer, assigned later
		c := u.collabFields()
		if len(c) == 0 {
			u.simpleStmt(level)
			return
		}
		ci := rapid.SampledFrom(c).Draw(t, "lateInitClass")
		a := u.freshLocal()
		w.S(u.g.sigs[ci].name + " " + a + "; " + a + " = ")
		u.pending = a
		u.newExpr(level, 1, u.initClassFor(ci))
		u.pending = ""
		w.S(";")
		u.scope = append(u.scope, varInfo{name: a, kind: "local", typ: u.g.sigs[ci].name, cls: ci})
	}
}

// simpleStmt writes a one-line statement ending in ';'.
func (u *unitCtx) simpleStmt(level int) {
	t := u.g.t
	w := u.w
	if u.g.o.AssignedCreations && rapid.IntRange(0, 7).Draw(t, "assignCreation") == 7 && u.assignCreation(level) {
		return
	}
	switch rapid.IntRange(0, 9).Draw(t, "simpleKind") {
	case 0, 1: // local declaration of a project type
		c := u.collabFields()
		if len(c) > 0 {
			ci := rapid.SampledFrom(c).Draw(t, "localClass")
			name := u.freshLocal()
			fin := ""
			if rapid.IntRange(0, 11).Draw(t, "finalLocal") == 0 && !pbtExcluded("final_local_receiver") {
				fin = "final "
			}
			w.S(fin + u.g.sigs[ci].name + " " + name + " = ")
			u.pending = name // the declared name is in scope inside its own initializer: keep away from it
			if rapid.Bool().Draw(t, "localInitNew") {
				u.newExpr(level, 1, u.initClassFor(ci))
			} else {
				w.S("null")
			}
			u.pending = ""
			w.S(";")
			u.scope = append(u.scope, varInfo{name: name, kind: "local", typ: u.g.sigs[ci].name, cls: ci, final: fin != ""})
			return
		}
		fallthrough
	case 2: // local declaration of a plain type
		name := u.freshLocal()
		typ := rapid.SampledFrom([]string{"int", "String", "boolean", "Object", "long"}).Draw(t, "localPlainType")
		w.S(typ + " " + name + " = ")
		u.pending = name
		u.expr(level, 1)
		u.pending = ""
		w.S(";")
		u.scope = append(u.scope, varInfo{name: name, kind: "local", typ: typ, cls: -1})
	case 3: // assignment
		if v, ok := u.anyVar(func(v varInfo) bool { return v.cls < 0 && !v.ext && v.kind != "foreach" }); ok {
			w.S(v.name + " = ")
			u.expr(level, 1)
			w.S(";")
			return
		}
		fallthrough
	default: // expression statement: a call
		u.callExpr(level, 0)
		w.S(";")
	}
}

func (u *unitCtx) freshLocal() string {
	name := u.g.varName("local")
	for {
		clash := false
		for _, v := range u.scope {
			if v.name == name {
				clash = true
			}
		}
		for _, f := range u.fields {
			if f.name == name && !u.g.o.NameReuse && !u.g.o.ScopedReuse {
				clash = true
			}
		}
		if !clash {
			return name
		}
		name = u.g.names.Var(u.g.t)
	}
}

func (u *unitCtx) anyVar(ok func(varInfo) bool) (varInfo, bool) {
	var cands []varInfo
	for _, v := range u.scope {
		if ok(v) && v.name != u.pending {
			cands = append(cands, v)
		}
	}
	for _, f := range u.fields {
		if ok(f) {
			shadowed := f.name == u.pending
			for _, v := range u.scope {
				if v.name == f.name {
					shadowed = true
				}
			}
			if !shadowed {
				cands = append(cands, f)
			}
		}
	}
	if len(cands) == 0 {
		return varInfo{}, false
	}
	return rapid.SampledFrom(cands).Draw(u.g.t, "var"), true
}

func (u *unitCtx) cond(level int) {
	t := u.g.t
	w := u.w
	switch rapid.IntRange(0, 3).Draw(t, "condKind") {
	case 0:
		w.S("true")
	case 1:
		u.expr(level, 2)
		w.S(" != null")
	case 2:
		u.callExpr(level, 1)
	default:
		w.S("1 < ")
		u.expr(level, 2)
	}
}

// expr writes an expression; depth limits nesting.
func (u *unitCtx) expr(level, depth int) {
	t := u.g.t
	w := u.w
	k := rapid.IntRange(0, 9).Draw(t, "exprKind")
	if depth >= 3 && k >= 5 {
		k = k % 5
	}
	if u.g.o.Wide && depth < 3 && rapid.IntRange(0, 7).Draw(t, "wideExpr") == 0 {
		switch rapid.IntRange(0, 2).Draw(t, "wideExprKind") {
		case 0: // conditional expression
			w.S("(")
			u.cond(level)
			w.S(" ? ")
			u.expr(level, depth+1)
			w.S(" : ")
			u.expr(level, depth+1)
			w.S(")")
		case 1: // cast
			w.S("((Object) ")
			u.expr(level, depth+1)
			w.S(")")
		default: // string concatenation with a call
			w.S("(\"" + u.strBody() + "\" + ")
			u.callExpr(level, depth+1)
			w.S(")")
		}
		return
	}
	switch k {
	case 0:
		w.S(fmt.Sprint(rapid.IntRange(0, 99).Draw(t, "intLit")))
	case 1:
		w.S("\"" + u.strBody() + "\"")
	case 2:
		if v, ok := u.anyVar(func(varInfo) bool { return true }); ok {
			w.S(v.name)
		} else {
			w.S("null")
		}
	case 3:
		w.S(rapid.SampledFrom([]string{"'a'", "'\"'", "'/'", "true", "1.5"}).Draw(t, "otherLit"))
	case 4:
		w.S("(1 + 2)")
	case 5, 6, 7:
		u.callExpr(level, depth+1)
	case 8:
		c := u.collabFields()
		if len(c) > 0 {
			u.newExpr(level, depth+1, rapid.SampledFrom(c).Draw(t, "newClass"))
		} else {
			u.newExpr(level, depth+1, -1)
		}
	default:
		w.S("(")
		u.expr(level, depth+1)
		w.S(rapid.SampledFrom([]string{" + ", " == ", "+"}).Draw(t, "binop"))
		u.expr(level, depth+1)
		w.S(")")
	}
}

func (u *unitCtx) event(e Event) {
	if u.cur != nil {
		u.cur.Events = append(u.cur.Events, e)
	}
}

func (u *unitCtx) args(level, depth int, lambdaOK bool) {
	t := u.g.t
	w := u.w
	n := rapid.IntRange(0, 3).Draw(t, "nArgs")
	if depth >= 3 {
		n = min(n, 1)
	}
	w.S(u.openParen())
	for k := 0; k < n; k++ {
		if k > 0 {
			w.S(rapid.SampledFrom([]string{", ", ",", ",\n" + u.ind(level+2)}).Draw(t, "argSep"))
		}
		if lambdaOK && u.g.o.Anon && depth <= 2 && rapid.IntRange(0, 11).Draw(t, "anonArg") == 0 {
			// an anonymous class: its creation and the calls in its method are written in this body
			w.S("new ")
			line, col := w.Line(), w.Col()
			w.S("Runnable")
			u.event(Event{Kind: "new", Name: "Runnable", Line: line, Col: col})
			if u.g.o.AnonBodies && u.anonBody(level) {
				continue
			}
			w.S("() { public void run() { ")
			u.staticCall(level, 3)
			w.S("; } }")
			continue
		}
		if lambdaOK && rapid.IntRange(0, 9).Draw(t, "lambdaArg") == 0 {
			u.lambdaN++
			lv := fmt.Sprintf("lx%d", u.lambdaN)
			if (u.g.o.NameReuse || u.g.o.ScopedReuse) && rapid.Bool().Draw(t, "lambdaReusedName") {
				// a lambda parameter named like a variable of another method or file
				lv = u.freshLocal()
			}
			w.S(lv + " -> " + lv + ".")
			line, col := w.Line(), w.Col()
			name := rapid.SampledFrom([]string{"trim", "size", "run"}).Draw(t, "lambdaCallee")
			w.S(name)
			u.event(Event{Kind: "call", Name: name, Line: line, Col: col, Recv: "lambda"})
			w.S("()")
			continue
		}
		u.expr(level, depth+1)
	}
	w.S(")")
}

func (u *unitCtx) newExpr(level, depth int, cls int) {
	t := u.g.t
	w := u.w
	w.S(u.newKeyword(level))
	line, col := w.Line(), w.Col()
	if cls >= 0 {
		name := u.g.sigs[cls].name
		u.used[name] = true
		w.S(name)
		u.event(Event{Kind: "new", Name: name, Line: line, Col: col})
		u.args(level, depth, false)
		return
	}
	if u.genericCreation() {
		return
	}
	switch rapid.IntRange(0, 2).Draw(t, "newPlain") {
	case 0:
		w.S("Object")
		u.event(Event{Kind: "new", Name: "Object", Line: line, Col: col})
		w.S("()")
	case 1:
		w.S("StringBuilder")
		u.event(Event{Kind: "new", Name: "StringBuilder", Line: line, Col: col})
		u.args(level, depth, false)
	default:
		w.S("int[" + fmt.Sprint(rapid.IntRange(1, 9).Draw(t, "arrLen")) + "]")
	}
}

// calleeOf picks a callee name for a receiver of project class cls.
func (u *unitCtx) calleeOf(cls int) (string, string) {
	t := u.g.t
	s := u.g.sigs[cls]
	if len(s.methods) > 0 && rapid.IntRange(0, 4).Draw(t, "declaredCallee") > 0 {
		m := rapid.SampledFrom(s.methods).Draw(t, "calleeMethod")
		return m.name, s.full() + "." + m.name
	}
	return rapid.SampledFrom([]string{"toString", "hashCode", "other"}).Draw(t, "otherCallee"), ""
}

// callExpr writes an invocation expression and records its events.
func (u *unitCtx) callExpr(level, depth int) {
	t := u.g.t
	w := u.w
	k := rapid.IntRange(0, 11).Draw(t, "callKind")
	if depth >= 3 && k >= 9 {
		k = 0
	}
	isObj := func(v varInfo) bool { return v.cls >= 0 || v.ext }
	if u.g.o.SuperCallsDeclared && u.superIdx >= 0 && len(u.g.sigs[u.superIdx].methods) > 0 && rapid.IntRange(0, 5).Draw(t, "superDeclaredCall") == 5 {
		// super.m() for a method the project superclass declares
		sup := u.g.sigs[u.superIdx]
		m := rapid.SampledFrom(sup.methods).Draw(t, "superMethod")
		w.S("super.")
		line, col := w.Line(), w.Col()
		w.S(m.name)
		u.event(Event{Kind: "call", Name: m.name, Line: line, Col: col, Recv: "super", Target: sup.full() + "." + m.name})
		u.feature("super_call_of_declared_method")
		u.args(level, depth, true)
		return
	}
	if u.g.o.UnqualifiedForeign && len(u.foreign) > 0 && rapid.IntRange(0, 4).Draw(t, "foreignCall") == 4 {
		u.foreignCall(level, depth)
		return
	}
	if u.g.o.Wide && rapid.IntRange(0, 7).Draw(t, "wideCall") == 0 {
		switch rapid.IntRange(0, 2).Draw(t, "wideCallKind") {
		case 0: // call on a cast expression
			if v, ok := u.anyVar(isObj); ok && v.cls >= 0 {
				w.S("((" + u.g.sigs[v.cls].name + ") " + v.name + ").")
				u.used[u.g.sigs[v.cls].name] = true
				line, col := w.Line(), w.Col()
				name, _ := u.calleeOf(v.cls)
				w.S(name)
				u.event(Event{Kind: "call", Name: name, Line: line, Col: col, Recv: "cast"})
				u.args(level, depth, true)
				return
			}
		case 1: // super call
			w.S("super.")
			line, col := w.Line(), w.Col()
			name := rapid.SampledFrom([]string{"toString", "hashCode", "reset"}).Draw(t, "superCallee")
			w.S(name)
			u.event(Event{Kind: "call", Name: name, Line: line, Col: col, Recv: "super"})
			w.S("()")
			return
		default: // a call whose argument is a lambda with a block body
			if depth < 2 {
				line, col := w.Line(), w.Col()
				own := u.g.sigs[u.i]
				name, target := "helper", ""
				if len(own.methods) > 0 {
					m := rapid.SampledFrom(own.methods).Draw(t, "ownMethod")
					name, target = m.name, own.full()+"."+m.name
				}
				w.S(name)
				u.event(Event{Kind: "call", Name: name, Line: line, Col: col, Recv: "implicit", Resolve: true, ExpPkg: own.pkg, ExpNode: own.name, Target: target})
				u.lambdaN++
				lv := fmt.Sprintf("lb%d", u.lambdaN)
				w.S("(" + lv + " -> { ")
				u.staticCall(level, 3)
				w.S("; " + lv + ".")
				l2, c2 := w.Line(), w.Col()
				w.S("run")
				u.event(Event{Kind: "call", Name: "run", Line: l2, Col: c2, Recv: "lambda"})
				w.S("(); })")
				return
			}
		}
	}
	switch k {
	case 0, 1: // implicit receiver
		name, target := "helper", ""
		own := u.g.sigs[u.i]
		if len(own.methods) > 0 {
			m := rapid.SampledFrom(own.methods).Draw(t, "ownMethod")
			name, target = m.name, own.full()+"."+m.name
		}
		line, col := w.Line(), w.Col()
		w.S(name)
		u.event(Event{Kind: "call", Name: name, Line: line, Col: col, Recv: "implicit", Resolve: true, ExpPkg: own.pkg, ExpNode: own.name, Target: target})
		u.args(level, depth, true)
	case 2: // this.f()
		name := "helper"
		own := u.g.sigs[u.i]
		if len(own.methods) > 0 {
			name = rapid.SampledFrom(own.methods).Draw(t, "ownMethod").name
		}
		w.S("this.")
		line, col := w.Line(), w.Col()
		w.S(name)
		u.event(Event{Kind: "call", Name: name, Line: line, Col: col, Recv: "this"})
		u.args(level, depth, true)
	case 3, 4, 5, 6: // variable receiver: field, parameter, local, for-each variable
		v, ok := u.anyVar(isObj)
		if !ok {
			u.staticCall(level, depth)
			return
		}
		prefix := ""
		if v.kind == "field" && rapid.IntRange(0, 5).Draw(t, "thisField") == 0 {
			prefix = "this."
		}
		w.S(prefix + v.name)
		w.S(rapid.SampledFrom([]string{".", ".", ".", " . ", "\n" + u.ind(level+2) + "."}).Draw(t, "dot"))
		line, col := w.Line(), w.Col()
		e := Event{Kind: "call", Line: line, Col: col, Recv: v.kind, FinalVar: v.final, Decl: v.decl}
		if prefix != "" {
			e.Recv = "thisfield"
		}
		if v.cls >= 0 {
			e.Name, e.Target = u.calleeOf(v.cls)
			if e.Recv == "field" || e.Recv == "param" || e.Recv == "local" {
				e.Resolve, e.ExpPkg, e.ExpNode = true, u.g.sigs[v.cls].pkg, u.g.sigs[v.cls].name
			} else {
				e.Target = ""
			}
		} else {
			e.Name = rapid.SampledFrom([]string{"size", "clear", "isEmpty", "fill"}).Draw(t, "extCallee")
			if e.Recv == "field" || e.Recv == "param" || e.Recv == "local" {
				x := externals[v.extI]
				e.Resolve, e.ExpPkg, e.ExpNode = true, x.imp[:strings.LastIndex(x.imp, ".")], x.simple
			}
		}
		w.S(e.Name)
		u.event(e)
		u.args(level, depth, true)
	case 7, 8: // static receiver
		u.staticCall(level, depth)
	case 9, 10: // chain
		u.callExpr(level, depth+1)
		w.S(rapid.SampledFrom([]string{".", ".", "\n" + u.ind(level+2) + "."}).Draw(t, "chainDot"))
		line, col := w.Line(), w.Col()
		name := rapid.SampledFrom([]string{"then", "build", "trim", "next"}).Draw(t, "chainCallee")
		w.S(name)
		u.event(Event{Kind: "call", Name: name, Line: line, Col: col, Recv: "chain"})
		u.args(level, depth, true)
	default: // call on a fresh object: new T().f()
		c := u.collabFields()
		if len(c) == 0 {
			u.staticCall(level, depth)
			return
		}
		ci := rapid.SampledFrom(c).Draw(t, "newRecvClass")
		u.newExpr(level, depth+1, ci)
		w.S(".")
		line, col := w.Line(), w.Col()
		name, _ := u.calleeOf(ci)
		w.S(name)
		u.event(Event{Kind: "call", Name: name, Line: line, Col: col, Recv: "chain"})
		u.args(level, depth, true)
	}
}

func (u *unitCtx) staticCall(level, depth int) {
	t := u.g.t
	w := u.w
	c := u.collabFields()
	if len(c) > 0 && rapid.Bool().Draw(t, "staticOnProject") {
		ci := rapid.SampledFrom(c).Draw(t, "staticClass")
		name, _ := u.calleeOf(ci)
		w.S(u.g.sigs[ci].name + ".")
		u.used[u.g.sigs[ci].name] = true
		line, col := w.Line(), w.Col()
		w.S(name)
		u.event(Event{Kind: "call", Name: name, Line: line, Col: col, Recv: "static"})
		u.args(level, depth, true)
		return
	}
	if u.g.o.FieldChainCalls && u.systemOutCall(level, depth) {
		return
	}
	recv, name := "Math", "abs"
	switch rapid.IntRange(0, 2).Draw(t, "staticExt") {
	case 0:
		recv, name = "String", "valueOf"
	case 1:
		recv, name = "Objects", "hash"
	}
	w.S(recv + ".")
	line, col := w.Line(), w.Col()
	w.S(name)
	u.event(Event{Kind: "call", Name: name, Line: line, Col: col, Recv: "static"})
	u.args(level, depth, false)
}

// pbtExcluded is set by the test packages (pbt.Excluded) so that jgen does not import pbt.
var pbtExcluded = func(feature string) bool { return false }

// SetExcluded installs the known-finding feature switch.
func SetExcluded(f func(string) bool) { pbtExcluded = f }
