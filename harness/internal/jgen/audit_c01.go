package jgen

import (
	"strings"

	"pgregory.net/rapid"
)

// Shapes added by the checklist audit of C01. Everything in this file is reached only through option
// fields that default to off: Opts.KeywordNames, Opts.TwinNames, Opts.DeclForms, Opts.ManyMembers.

// ---------------------------------------------------------------------------------------
// Opts.KeywordNames: names that are words of newer Java versions (contextual keywords, which the shipped
// grammar accepts wherever an identifier stands) and names of one letter.

// contextualMethodNames may all be declared as methods.
var contextualMethodNames = []string{"record", "open", "to", "with", "module", "uses", "provides", "exports", "requires", "opens", "transitive", "permits", "sealed", "yield", "var"}

// contextualVarNames: `yield` and `var` are left out, a statement that starts with them reads differently.
var contextualVarNames = []string{"record", "open", "to", "with", "module", "uses", "provides", "exports", "requires", "opens", "transitive", "permits", "sealed"}

var oneLetterMethodNames = []string{"f", "g", "h", "m", "p", "q"}
var oneLetterVarNames = []string{"a", "b", "c", "i", "j", "n", "s", "x", "y", "z"}

// oneLetterClassNames stay away from the type parameter names the generator writes (T, R, K, V).
var oneLetterClassNames = []string{"A", "B", "C", "D", "E", "F", "X", "Y", "Z"}

// special hands out, now and then, a contextual keyword or a one-letter name that is still free in the
// project ("" = no: take an ordinary name). label is class | method | var.
func (ns *Names) special(t *rapid.T, label string) string {
	k := rapid.IntRange(0, 11).Draw(t, label+"Special")
	if k < 10 {
		return ""
	}
	var pool []string
	switch {
	case label == "class":
		pool = oneLetterClassNames // a class is never called by a contextual keyword: they are lower-case words
	case label == "method" && k == 10:
		pool = contextualMethodNames
	case label == "method":
		pool = oneLetterMethodNames
	case k == 10:
		pool = contextualVarNames
	default:
		pool = oneLetterVarNames
	}
	w := rapid.SampledFrom(pool).Draw(t, label+"SpecialName")
	if ns.used[w] || (ns.Called && w == "yield") {
		// an unqualified call `yield(x);` is a yield statement for the shipped grammar (and an error for javac)
		return ""
	}
	ns.used[w] = true
	return w
}

// ---------------------------------------------------------------------------------------
// Opts.TwinNames: two classes of one simple name in two packages; a class whose name starts with the
// whole name of another one.

// twin may rename the class being drawn (the classes before it are g.sigs).
func (g *gen) twin(s *classSig, layout string) {
	t := g.t
	k := rapid.IntRange(0, 3).Draw(t, "twinName")
	if k < 2 || len(g.sigs) == 0 {
		return
	}
	other := g.sigs[rapid.IntRange(0, len(g.sigs)-1).Draw(t, "twinNameOf")]
	if other.role != "main" {
		return
	}
	if k == 2 {
		// OrderRepo next to Order: the earlier name is a prefix of this one
		w := other.name + rapid.SampledFrom([]string{"X", "Repo", "2", "Impl"}).Draw(t, "twinNameTail")
		if !g.names.used[w] {
			g.names.Reserve(w)
			s.name = w
		}
		return
	}
	// the same simple name in another package (and hence another directory: not in the flat layout)
	if layout == "flat" || other.pkg == s.pkg {
		return
	}
	if rapid.IntRange(0, 1).Draw(t, "twinCaseVariant") == 1 {
		// OrderDTO next to Orderdto: the same letters in another case
		w := strings.ToUpper(other.name)
		if w == other.name {
			w = other.name[:1] + strings.ToLower(other.name[1:])
		}
		if w != other.name && strings.EqualFold(w, other.name) && !g.names.used[w] {
			g.names.Reserve(w)
			s.name = w
		}
		return
	}
	for _, x := range g.sigs {
		if x.pkg == s.pkg && x.base == other.name {
			return
		}
	}
	s.name = other.name
}

// twinSuper picks, now and then, the superclass that the twin names are about: a class of the unit's own
// package whose simple name a class of another package bears as well, or a class whose name differs from
// the unit's own name only in the case of its letters (-1: no such class, or not this time).
func (g *gen) twinSuper(i int) int {
	own := g.sigs[i]
	if own.kind != "Class" {
		return -1
	}
	for _, j := range g.collaborators(i) {
		c := g.sigs[j]
		if c.kind != "Class" {
			continue
		}
		caseVariant := c.name != own.name && strings.EqualFold(c.name, own.name)
		if caseVariant && pbtExcluded("superclass_name_differs_from_own_name_only_in_case") {
			continue
		}
		if caseVariant || (c.pkg == own.pkg && g.hasNamesake(j)) {
			if rapid.IntRange(0, 2).Draw(g.t, "twinSuper") > 0 {
				return j
			}
			return -1
		}
	}
	return -1
}

// hasNamesake reports whether another class of the project has the simple name of class j.
func (g *gen) hasNamesake(j int) bool {
	for k, x := range g.sigs {
		if k != j && x.name == g.sigs[j].name {
			return true
		}
	}
	return false
}

// untwin keeps the references of unit i unambiguous: of several candidate collaborators with one simple
// name only one stays, the one of the unit's own package if there is one (it needs no import and is what the
// simple name means there) and else the first; a namesake of the unit itself is dropped. A simple name that
// a class of the unit's own package bears - in whatever role - is never used for a class of another package.
func (g *gen) untwin(i int, cands []int) []int {
	own := g.sigs[i]
	best := map[string]int{}
	for _, j := range cands {
		c := g.sigs[j]
		if c.name == own.name {
			continue
		}
		if p, ok := g.prefer[i][c.name]; ok {
			// Opts.NamesakeImports: the unit is meant to refer to this one of the namesakes
			best[c.name] = p
			continue
		}
		if b, ok := best[c.name]; !ok || (c.pkg == own.pkg && g.sigs[b].pkg != own.pkg) {
			best[c.name] = j
		}
	}
	var out []int
	for _, j := range cands {
		c := g.sigs[j]
		if b, ok := best[c.name]; !ok || b != j {
			continue
		}
		if c.pkg != own.pkg {
			shadowed := false
			for k, x := range g.sigs {
				if k != j && x.pkg == own.pkg && x.name == c.name {
					shadowed = true
				}
			}
			if p, ok := g.prefer[i][c.name]; shadowed && !(ok && p == j) {
				// (Opts.NamesakeImports: the preferred namesake is imported by a single-type import, which
				// hides the class of the own package)
				continue
			}
		}
		if c.pkg == own.pkg && g.hasNamesake(j) && pbtExcluded("same_package_reference_with_namesake_in_other_package") {
			continue
		}
		out = append(out, j)
	}
	return out
}

// ---------------------------------------------------------------------------------------
// Opts.DeclForms: further spellings of declarations.

// annotationMore draws one of the further forms of a class-level annotation (ok = false: take a plain one).
func (g *gen) annotationMore() (Ann, string, bool) {
	t := g.t
	if rapid.IntRange(0, 2).Draw(t, "annMore") != 2 {
		return Ann{}, "", false
	}
	one := func(name, v, text string) (Ann, string, bool) {
		return Ann{Name: name, KV: [][2]string{{v, v}}}, text, true
	}
	k := rapid.IntRange(0, 11).Draw(t, "annMoreForm")
	if k >= 10 && pbtExcluded("annotation_as_annotation_argument") {
		k -= 10
	}
	switch k {
	case 0:
		return Ann{Name: "Entity"}, "@Entity()", true
	case 1:
		return one("Priority", "-1", "@Priority(-1)")
	case 2:
		return one("Flag", "true", "@Flag(true)")
	case 3:
		return one("Sep", "','", "@Sep(',')")
	case 4:
		v := `"select a, b from t where a = 1 and (b = ')' or c = \"q\") -- @X(y = 2)"`
		return one("Query", nb(v), "@Query("+v+")")
	case 5:
		return one("Roles", "{Role.ADMIN,Role.USER}", "@Roles({Role.ADMIN, Role.USER})")
	case 6:
		return Ann{Name: "Retry", KV: [][2]string{{"maxAttempts", "3"}, {"backoff", "2*1000L"}, {"on", "java.io.IOException.class"}}},
			"@Retry(maxAttempts = 3, backoff = 2 * 1000L, on = java.io.IOException.class)", true
	case 7:
		return Ann{Name: "com.acme.meta.Tag", KV: [][2]string{{"value", `"x"`}}}, `@com.acme.meta.Tag(value = "x")`, true
	case 8:
		return Ann{Name: "Entity", KV: [][2]string{{"name", `"t_x"`}, {"version", "2"}}}, "@Entity(\n    name = \"t_x\",\n    version = 2\n)", true
	case 9:
		return one("Names", "{}", "@Names({})")
	case 10:
		// an annotation as the argument of another one: only the outer one annotates the class
		return Ann{Name: "Table", KV: [][2]string{{"name", `"t"`}, {"uniqueConstraints", `@UniqueConstraint(columnNames={"a","b"})`}}},
			`@Table(name = "t", uniqueConstraints = @UniqueConstraint(columnNames = {"a", "b"}))`, true
	default:
		v := `{@NamedQuery(name="a",query="b"),@NamedQuery(name="c",query="d")}`
		return one("NamedQueries", v, `@NamedQueries({@NamedQuery(name = "a", query = "b"), @NamedQuery(name = "c", query = "d")})`)
	}
}

// classModsMore draws what may stand between the access modifier and `class` / `interface`: nothing,
// `final` / `strictfp`, or an annotation written among the modifiers (`public @Deprecated final class`).
func (u *unitCtx) classModsMore() string {
	t := u.g.t
	out := ""
	switch rapid.IntRange(0, 7).Draw(t, "inlineClassAnn") {
	case 6:
		out += "@Deprecated "
		u.truth.Annotations = append(u.truth.Annotations, Ann{Name: "Deprecated"})
		u.feature("class_annotation_among_modifiers")
	case 7:
		out += "@Generated(value = \"gen\", date = \"2020-01-01\") "
		u.truth.Annotations = append(u.truth.Annotations, Ann{Name: "Generated", KV: [][2]string{{"value", `"gen"`}, {"date", `"2020-01-01"`}}})
		u.feature("class_annotation_among_modifiers")
	}
	if u.sig.kind == "Class" && !u.sig.abstract {
		switch rapid.IntRange(0, 7).Draw(t, "classModMore") {
		case 6:
			out += "final "
		case 7:
			out += "strictfp "
		}
	}
	return out
}

// typeParamText is the type parameter list of a generic class; the first parameter is always T.
func (g *gen) typeParamText() string {
	if !g.o.DeclForms {
		return "<T>"
	}
	return rapid.SampledFrom([]string{"<T>", "<T>", "<T extends Number>", "<T, V>", "<T extends Comparable<T>>", "<T extends Object & Runnable, V extends T>"}).Draw(g.t, "typeParamForm")
}

// ctorThrows is the throws clause of a constructor ("" without Opts.DeclForms).
func (u *unitCtx) ctorThrows() string {
	if !u.g.o.DeclForms {
		return ""
	}
	return rapid.SampledFrom([]string{"", "", "", " throws Exception", " throws IllegalStateException, java.io.IOException"}).Draw(u.g.t, "ctorThrows")
}

// afterMember is what may follow the closing brace of a member or of the type: a stray `;`.
func (u *unitCtx) afterMember(label string) string {
	if !u.g.o.DeclForms || rapid.IntRange(0, 9).Draw(u.g.t, label) != 9 {
		return ""
	}
	u.feature("stray_semicolon")
	return ";"
}

// ifaceMethodMore writes an interface method in one of its further forms (false: nothing written, take the
// plain form): `default` and `static` methods with a body, the redundant `abstract`, annotations, a throws
// clause. ft carries name, return type and parameters.
func (u *unitCtx) ifaceMethodMore(ms methodSig, ptext string, pvars []varInfo, ft *FuncTruth) bool {
	t := u.g.t
	w := u.w
	k := rapid.IntRange(0, 11).Draw(t, "ifaceMethodForm")
	if k < 6 {
		return false
	}
	if strings.Contains(ms.ret, "List") {
		u.used["List"] = true
	}
	if !u.sameLine && k == 6 {
		w.S(u.indent + rapid.SampledFrom([]string{"@Deprecated", "@Timed(value = \"t\", extraTags = {\"a\", \"b\"})", "@org.demo.Audited(level = 2)"}).Draw(t, "ifaceMethodAnn") + "\n")
	}
	w.S(u.lead())
	mods := [][]string{{}, {"abstract"}, {"public", "abstract"}, {"abstract", "public"}, {"default"}, {"public", "default"}, {"static"}, {"public", "static"}, {"default"}, {"static"}}[rapid.IntRange(0, 9).Draw(t, "ifaceMethodMods")]
	if k == 7 {
		w.S("@Deprecated ")
	}
	body := false
	for _, m := range mods {
		w.S(m + " ")
		if m == "default" || m == "static" {
			body = true
		}
	}
	ft.Modifiers = mods
	ft.DeclLine = w.Line()
	w.S(ms.ret + " ")
	ft.NameLine, ft.NameCol = w.Line(), w.Col()
	w.S(ms.name + "(" + ptext + ")")
	if rapid.IntRange(0, 3).Draw(t, "ifaceThrows") == 0 {
		w.S(rapid.SampledFrom([]string{" throws Exception", " throws java.io.IOException, IllegalStateException"}).Draw(t, "ifaceThrowsText"))
	}
	if !body {
		w.S(";")
		ft.EndLine = w.Line()
		u.truth.Funcs = append(u.truth.Funcs, *ft)
		u.feature("interface_method_with_modifiers")
		return true
	}
	w.S(" {")
	u.cur = ft
	u.scope = append([]varInfo(nil), pvars...)
	u.blockWithReturn(1, ms.ret)
	w.S(u.indent + "}")
	ft.EndLine = w.Line()
	u.truth.Funcs = append(u.truth.Funcs, *ft)
	u.cur = nil
	u.feature("interface_method_with_body")
	return true
}
