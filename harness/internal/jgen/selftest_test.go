package jgen

import (
	"fmt"
	"os"
	"strings"
	"testing"

	"pgregory.net/rapid"
)

func TestGeneratedUnitsParse(t *testing.T) {
	unitsParse(t, func(rt *rapid.T) Opts {
		return Opts{Layout: true, Bodies: true, MultiByte: true, Interfaces: true, ExtraImps: true, Wide: true, Anon: true, RichDecl: true, NameReuse: rapid.Bool().Draw(rt, "reuse")}
	})
}

// the options added for the widened C01 / C02 / C05 generators
func TestGeneratedUnitsParseWidened(t *testing.T) {
	unitsParse(t, func(rt *rapid.T) Opts {
		return Opts{Layout: true, Bodies: true, MultiByte: true, Interfaces: true, Wide: true, Anon: true, RichDecl: true, ScopedReuse: rapid.Bool().Draw(rt, "reuse"),
			WordNames: true, WordDirs: true, ModuleLayout: true, Loops: true, SharedMethodNames: true, WildcardProjectImports: true, SuperCallsDeclared: true}
	})
}

// the options added for the widened C01 (long lines) and C05 (identifier alphabet) generators
func TestGeneratedUnitsParseLongExotic(t *testing.T) {
	unitsParse(t, func(rt *rapid.T) Opts {
		return Opts{Layout: true, Bodies: rapid.Bool().Draw(rt, "bodies"), MultiByte: true, Interfaces: true, Wide: true, RichDecl: true, WordNames: true,
			SharedMethodNames: true, WildcardProjectImports: true, SuperCallsDeclared: true, ExoticNames: rapid.Bool().Draw(rt, "exotic"), LongLines: rapid.Bool().Draw(rt, "long")}
	})
}

func unitsParse(t *testing.T, opts func(rt *rapid.T) Opts) {
	rapid.Check(t, func(rt *rapid.T) {
		p := GenProject(rt, opts(rt))
		for i, u := range p.Units {
			text := p.Files[i].Text
			if errs := SyntaxErrors(text); len(errs) > 0 {
				rt.Fatalf("syntax errors %v in\n%s", errs, text)
			}
			lines := strings.Split(text, "\n")
			for _, f := range u.Funcs {
				l := []rune(lines[f.NameLine-1])
				if string(l[f.NameCol:f.NameCol+len([]rune(f.Name))]) != f.Name {
					rt.Fatalf("name position of %s wrong", f.Name)
				}
				for _, e := range f.Events {
					l := []rune(lines[e.Line-1])
					if n := len([]rune(e.Name)); e.Col+n > len(l) || string(l[e.Col:e.Col+n]) != e.Name {
						rt.Fatalf("event %+v does not select its name in line %q", e, lines[e.Line-1])
					}
				}
			}
		}
	})
}

func TestPrintSample(t *testing.T) {
	if os.Getenv("JGEN_SAMPLE") == "" {
		t.Skip()
	}
	rapid.Check(t, func(rt *rapid.T) {
		p := GenProject(rt, Opts{Layout: true, Bodies: true, MultiByte: true, Interfaces: true, ExtraImps: true})
		for _, f := range p.Files {
			fmt.Printf("=== %s\n%s\n", f.Path, f.Text)
		}
	})
}

func TestNoDuplicateUnits(t *testing.T) {
	rapid.Check(t, func(rt *rapid.T) {
		p := GenProject(rt, Opts{Bodies: true, NameReuse: true, Interfaces: true, DupNames: true, Wide: true, RichDecl: true, ExtraImps: true, MaxUnits: 5})
		seenPath, seenClass := map[string]bool{}, map[string]bool{}
		for _, u := range p.Units {
			if seenPath[u.Path] || seenClass[u.FullName()] {
				rt.Fatalf("duplicate unit %s / %s", u.Path, u.FullName())
			}
			seenPath[u.Path], seenClass[u.FullName()] = true, true
		}
	})
}

// the option added for the widened C02 generator (unqualified calls of inherited / statically imported methods)
func TestGeneratedUnitsParseUnqualifiedForeign(t *testing.T) {
	unitsParse(t, func(rt *rapid.T) Opts {
		return Opts{Bodies: true, MultiByte: true, Interfaces: true, Wide: true, Anon: true, RichDecl: true, Loops: true, MaxUnits: 4, MaxMethods: 4,
			ScopedReuse: rapid.Bool().Draw(rt, "reuse"), SharedMethodNames: true, UnqualifiedForeign: true}
	})
}
