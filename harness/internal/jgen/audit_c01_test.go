package jgen

import (
	"testing"

	"pgregory.net/rapid"
)

// the options added by the checklist audit of C01
func TestGeneratedUnitsParseAuditC01(t *testing.T) {
	unitsParse(t, func(rt *rapid.T) Opts {
		return Opts{Layout: true, Bodies: rapid.Bool().Draw(rt, "bodies"), MultiByte: true, Interfaces: true, Wide: true, RichDecl: true, WordNames: true, WordDirs: true, ModuleLayout: true,
			Loops: true, ExtraImps: rapid.Bool().Draw(rt, "extraImps"), WildcardProjectImports: rapid.Bool().Draw(rt, "wildcards"), ExoticNames: true, LongLines: rapid.Bool().Draw(rt, "long"), MaxUnits: 8,
			KeywordNames: true, TwinNames: true, DeclForms: true, ManyMembers: true}
	})
}

// twin names never make two units of one path or of one qualified name, and a simple name that is
// referred to from a unit denotes one class there
func TestTwinNamesStayUnambiguous(t *testing.T) {
	rapid.Check(t, func(rt *rapid.T) {
		p := GenProject(rt, Opts{Layout: true, Interfaces: true, RichDecl: true, ModuleLayout: true, MaxUnits: 8, TwinNames: true, KeywordNames: true, DeclForms: true})
		seenPath, seenClass := map[string]bool{}, map[string]bool{}
		for _, u := range p.Units {
			if seenPath[u.Path] || seenClass[u.FullName()] {
				rt.Fatalf("duplicate unit %s / %s", u.Path, u.FullName())
			}
			seenPath[u.Path], seenClass[u.FullName()] = true, true
		}
		for _, u := range p.Units {
			imported := map[string]string{}
			for _, im := range u.Imports {
				if im.Static || im.Wildcard {
					continue
				}
				simple := im.Text
				for k := len(simple) - 1; k >= 0; k-- {
					if simple[k] == '.' {
						simple = simple[k+1:]
						break
					}
				}
				if prev, ok := imported[simple]; ok && prev != im.Text {
					rt.Fatalf("%s imports two classes called %s", u.Path, simple)
				}
				imported[simple] = im.Text
				if simple == u.Name {
					rt.Fatalf("%s imports a namesake of its own class", u.Path)
				}
				for _, x := range p.Units {
					if x.Pkg == u.Pkg && x.Name == simple && x.FullName() != im.Text {
						rt.Fatalf("%s imports %s although its own package has a class of that name", u.Path, im.Text)
					}
				}
			}
		}
	})
}
