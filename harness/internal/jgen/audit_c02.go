package jgen

import (
	"fmt"
	"strings"

	"pgregory.net/rapid"
)

// Shapes added by the checklist audit of C02. Everything in this file is reached only through option
// fields that default to off: Opts.AnonBodies, Opts.AssignedCreations, Opts.CaseTwinNames, Opts.ScopeEnds,
// Opts.CallLayout, Opts.OwnTypeVars, Opts.ReturnCalls, Opts.FieldForms, Opts.TwinReferrers.

// ---------------------------------------------------------------------------------------
// Opts.OwnTypeVars: a field of the type of the enclosing class. Parameters, locals, loop variables,
// creations and static calls take their classes from the field types, so all of them follow.

func (u *unitCtx) ownTypeField() {
	t, w := u.g.t, u.w
	if !u.g.o.OwnTypeVars || rapid.IntRange(0, 3).Draw(t, "ownTypeField") != 3 {
		return
	}
	name := u.fieldName()
	u.fields = append(u.fields, varInfo{name: name, kind: "field", typ: u.sig.name, cls: u.i})
	u.used[u.sig.name] = true
	mod := rapid.SampledFrom([]string{"private ", "", "protected "}).Draw(t, "ownTypeFieldMod")
	w.S(u.indent + mod + u.sig.name + " " + name + ";\n")
	u.truth.Fields = append(u.truth.Fields, Param{u.sig.name, name})
	u.feature("own_type_field")
}

// ---------------------------------------------------------------------------------------
// Opts.FieldForms: further spellings of the declaration of a field of a project class.

var fieldAnnotations = []string{"@Autowired", "@Inject", "@Resource(name = \"x\")", "@Autowired(required = false)"}

// classFieldLine writes the declaration of a field of project class c whose name (already listed in
// u.fields), modifiers and initializer the caller has drawn; it returns the further fields declared by
// the same declaration.
func (u *unitCtx) classFieldLine(mod string, c int, name, init string) []Param {
	g, t, w := u.g, u.g.t, u.w
	typ := g.sigs[c].name
	if !g.o.FieldForms {
		w.S(u.indent + mod + typ + " " + name + init + ";\n")
		return nil
	}
	lead := u.indent
	switch rapid.IntRange(0, 5).Draw(t, "classFieldAnn") {
	case 4:
		lead += rapid.SampledFrom(fieldAnnotations).Draw(t, "classFieldAnnText") + " "
		u.feature("annotated_class_field")
	case 5:
		w.S(u.indent + rapid.SampledFrom(fieldAnnotations).Draw(t, "classFieldAnnText") + "\n")
		u.feature("annotated_class_field")
	}
	switch rapid.IntRange(0, 5).Draw(t, "classFieldMod") {
	case 4:
		mod += "static "
		u.feature("static_or_transient_class_field")
	case 5:
		mod += "transient "
		u.feature("static_or_transient_class_field")
	}
	text := lead + mod + typ + " " + name + init
	var more []Param
	if rapid.IntRange(0, 3).Draw(t, "classFieldSecond") == 3 {
		name2 := u.fieldName()
		u.fields = append(u.fields, varInfo{name: name2, kind: "field", typ: typ, cls: c})
		init2 := ""
		if strings.Contains(mod, "final") || rapid.Bool().Draw(t, "classFieldSecondInit") {
			init2 = " = new " + typ + "()"
		}
		text += rapid.SampledFrom([]string{", ", ","}).Draw(t, "classFieldSep") + name2 + init2
		more = append(more, Param{typ, name2})
		u.feature("two_fields_in_one_declaration")
	}
	w.S(text + ";\n")
	return more
}

// ---------------------------------------------------------------------------------------
// Opts.CallLayout: what may stand between the tokens of an invocation or creation.

// openParen is the opening parenthesis of an argument list with what may precede it.
func (u *unitCtx) openParen() string {
	if !u.g.o.CallLayout {
		return "("
	}
	switch rapid.IntRange(0, 11).Draw(u.g.t, "parenGap") {
	case 10:
		u.feature("blank_before_argument_list")
		return " ("
	case 11:
		u.feature("comment_before_argument_list")
		return " /* " + u.g.comment("gap") + " */ ("
	}
	return "("
}

// newKeyword is `new` with what separates it from the created type.
func (u *unitCtx) newKeyword(level int) string {
	if !u.g.o.CallLayout {
		return "new "
	}
	switch rapid.IntRange(0, 11).Draw(u.g.t, "newGap") {
	case 9:
		u.feature("gap_after_new")
		return "new  "
	case 10:
		u.feature("gap_after_new")
		return "new /* " + u.g.comment("gap") + " */ "
	case 11:
		u.feature("gap_after_new")
		return "new\n" + u.ind(level+2)
	}
	return "new "
}

// genericCreation writes, right behind `new `, the creation of a generic library class (false: nothing
// written).
func (u *unitCtx) genericCreation() bool {
	t, w := u.g.t, u.w
	if !u.g.o.CallLayout || !u.imports["java.util.ArrayList"] || rapid.IntRange(0, 3).Draw(t, "genericCreation") != 3 {
		return false
	}
	line, col := w.Line(), w.Col()
	w.S("ArrayList")
	u.used["ArrayList"] = true
	u.event(Event{Kind: "new", Name: "ArrayList", Line: line, Col: col})
	w.S(rapid.SampledFrom([]string{"<>", "<String>", "<>", "<java.lang.Long>", "<int[]>"}).Draw(t, "genericCreationArgs"))
	w.S(u.openParen())
	if rapid.Bool().Draw(t, "genericCreationSized") {
		w.S(fmt.Sprint(rapid.IntRange(0, 99).Draw(t, "intLit")))
	}
	w.S(")")
	u.feature("generic_creation")
	return true
}

// ---------------------------------------------------------------------------------------
// Opts.ReturnCalls: return statements with invocations, early returns.

// returnCall writes the final return statement of a method with a result as an invocation or creation
// (false: nothing written).
func (u *unitCtx) returnCall(level int) bool {
	t, w := u.g.t, u.w
	if !u.g.o.ReturnCalls || rapid.IntRange(0, 2).Draw(t, "returnCall") != 2 {
		return false
	}
	w.S(u.ind(level) + "return ")
	if rapid.IntRange(0, 3).Draw(t, "returnCreation") == 3 {
		c := u.collabFields()
		if len(c) > 0 {
			u.newExpr(level, 1, rapid.SampledFrom(c).Draw(t, "newClass"))
		} else {
			u.newExpr(level, 1, -1)
		}
	} else {
		u.callExpr(level, 0)
	}
	w.S(";\n")
	u.feature("return_with_invocation")
	return true
}

// earlyReturn may end a nested block with a return statement.
func (u *unitCtx) earlyReturn(level int) {
	t, w := u.g.t, u.w
	if rapid.IntRange(0, 7).Draw(t, "earlyReturn") != 7 {
		return
	}
	w.S(u.ind(level) + "return")
	if u.curRet != "" && u.curRet != "void" {
		w.S(" ")
		if rapid.Bool().Draw(t, "earlyReturnCall") {
			u.callExpr(level, 1)
		} else {
			w.S(u.valueOf(u.curRet))
		}
	}
	w.S(";\n")
	u.feature("early_return")
}

// ---------------------------------------------------------------------------------------
// Opts.AssignedCreations: the object a variable is initialised with, or is assigned, need not be of the
// declared class of the variable.

// initClassFor draws the class of the object a variable of class ci is initialised with.
func (u *unitCtx) initClassFor(ci int) int {
	if !u.g.o.AssignedCreations {
		return ci
	}
	var others []int
	for _, c := range u.collabFields() {
		if c != ci {
			others = append(others, c)
		}
	}
	if len(others) == 0 || rapid.IntRange(0, 3).Draw(u.g.t, "initOtherClass") != 3 {
		return ci
	}
	u.feature("initializer_of_another_class")
	return rapid.SampledFrom(others).Draw(u.g.t, "initClass")
}

// callOn writes `v.m(...);` for a variable of a project or library class; depth is that of the arguments.
func (u *unitCtx) callOn(level, depth int, v varInfo) {
	t, w := u.g.t, u.w
	w.S(v.name + ".")
	line, col := w.Line(), w.Col()
	e := Event{Kind: "call", Line: line, Col: col, Recv: v.kind, FinalVar: v.final, Decl: v.decl}
	if v.cls >= 0 {
		e.Name, e.Target = u.calleeOf(v.cls)
		if e.Recv == "field" || e.Recv == "param" || e.Recv == "local" {
			e.Resolve, e.ExpPkg, e.ExpNode = true, u.g.sigs[v.cls].pkg, u.g.sigs[v.cls].name
		} else {
			e.Target = ""
		}
	} else {
		e.Name = rapid.SampledFrom([]string{"size", "clear", "isEmpty", "fill"}).Draw(t, "extCallee")
		if v.ext && (e.Recv == "field" || e.Recv == "param" || e.Recv == "local") {
			x := externals[v.extI]
			e.Resolve, e.ExpPkg, e.ExpNode = true, x.imp[:strings.LastIndex(x.imp, ".")], x.simple
		}
	}
	w.S(e.Name)
	u.event(e)
	u.args(level, depth, true)
	w.S(";")
}

// assignCreation writes `x = new T(...);` for a field, parameter or local x of a project class (false:
// nothing written), now and then followed by a call on x.
func (u *unitCtx) assignCreation(level int) bool {
	t, w := u.g.t, u.w
	v, ok := u.anyVar(func(v varInfo) bool {
		return v.cls >= 0 && !v.final && v.decl == "" && (v.kind == "field" || v.kind == "param" || v.kind == "local")
	})
	if !ok {
		return false
	}
	cj := rapid.SampledFrom(u.collabFields()).Draw(t, "assignedClass")
	if v.kind == "field" && rapid.IntRange(0, 2).Draw(t, "assignThisField") == 0 {
		w.S("this.")
	}
	w.S(v.name + " = ")
	u.newExpr(level, 1, cj)
	w.S(";")
	u.feature("assigned_creation")
	if cj != v.cls {
		u.feature("assigned_creation_of_another_class")
	}
	if rapid.Bool().Draw(t, "assignThenCall") {
		w.S(" ")
		u.callOn(level, 2, v)
	}
	return true
}

// ---------------------------------------------------------------------------------------
// Opts.ScopeEnds: declarations whose scope ends with the statement that holds them.

// scopeEndStmt writes a switch statement one group of which declares a local variable of a project
// class, or an invocation with a lambda whose parameter is typed with a project class. With
// Opts.ScopedReuse the variable may bear the name of a field of another class, which it hides up to the
// end of the switch or lambda; a call on the field follows (false: nothing written).
func (u *unitCtx) scopeEndStmt(level int) bool {
	g, t, w := u.g, u.g.t, u.w
	c := u.collabFields()
	if len(c) == 0 {
		return false
	}
	ci := rapid.SampledFrom(c).Draw(t, "scopeEndClass")
	name := u.freshLocal()
	var hidden *varInfo
	if g.o.ScopedReuse {
		var cands []varInfo
		for _, f := range u.fields {
			inScope := false
			for _, v := range u.scope {
				if v.name == f.name {
					inScope = true
				}
			}
			if (f.ext || f.cls >= 0 && f.cls != ci) && !inScope && f.name != u.pending {
				cands = append(cands, f)
			}
		}
		if len(cands) > 0 && rapid.Bool().Draw(t, "scopeEndHidesField") {
			f := rapid.SampledFrom(cands).Draw(t, "scopeEndHidden")
			name, hidden = f.name, &f
		}
	}
	typ := g.sigs[ci].name
	u.used[typ] = true
	if rapid.Bool().Draw(t, "scopeEndLambda") {
		// helper((Foo x) -> x.m());
		own := g.sigs[u.i]
		callee, target := "helper", ""
		if len(own.methods) > 0 {
			m := rapid.SampledFrom(own.methods).Draw(t, "ownMethod")
			callee, target = m.name, own.full()+"."+m.name
		}
		line, col := w.Line(), w.Col()
		w.S(callee)
		u.event(Event{Kind: "call", Name: callee, Line: line, Col: col, Recv: "implicit", Resolve: true, ExpPkg: own.pkg, ExpNode: own.name, Target: target})
		w.S("((" + rapid.SampledFrom([]string{"", "", "final "}).Draw(t, "lambdaParamFinal") + typ + " " + name + ") -> " + name + ".")
		l2, c2 := w.Line(), w.Col()
		inner, _ := u.calleeOf(ci)
		w.S(inner)
		u.event(Event{Kind: "call", Name: inner, Line: l2, Col: c2, Recv: "lambda"})
		w.S("());")
		u.feature("typed_lambda_parameter")
		if hidden != nil {
			u.feature("typed_lambda_parameter_hides_field")
		}
	} else {
		saved := len(u.scope)
		w.S("switch (" + fmt.Sprint(rapid.IntRange(0, 3).Draw(t, "switchOn")) + ") {\n")
		w.S(u.ind(level) + "case 1:\n" + u.ind(level+1))
		w.S(typ + " " + name + " = ")
		u.pending = name
		if rapid.Bool().Draw(t, "localInitNew") {
			u.newExpr(level+1, 1, ci)
		} else {
			w.S("null")
		}
		u.pending = ""
		w.S(";\n" + u.ind(level+1))
		local := varInfo{name: name, kind: "local", typ: typ, cls: ci}
		u.scope = append(u.scope, local)
		u.callOn(level+1, 2, local)
		w.S("\n" + u.ind(level+1) + "break;\n")
		w.S(u.ind(level) + "default:\n" + u.ind(level+1))
		u.simpleStmt(level + 1)
		w.S("\n" + u.ind(level) + "}")
		u.scope = u.scope[:saved]
		u.feature("switch_group_declaration")
		if hidden != nil {
			u.feature("switch_group_declaration_hides_field")
		}
	}
	if hidden != nil {
		// the field is in sight again
		w.S("\n" + u.ind(level))
		u.callOn(level, 2, *hidden)
	}
	return true
}

// ---------------------------------------------------------------------------------------
// Opts.AnonBodies: richer bodies of the anonymous classes written as arguments.

// anonBody writes what follows `new Runnable` (false: nothing written, the caller writes the plain body).
// Invocations and creations written in the methods of the anonymous class are written in the body of the
// enclosing function and are its events.
func (u *unitCtx) anonBody(level int) bool {
	t, w := u.g.t, u.w
	if rapid.IntRange(0, 2).Draw(t, "anonRich") == 0 {
		return false
	}
	multi := rapid.Bool().Draw(t, "anonMultiLine")
	methods := []string{"run"}
	if rapid.IntRange(0, 3).Draw(t, "anonSecondMethod") == 3 {
		methods = append(methods, "close")
	}
	w.S("() {")
	for _, m := range methods {
		if multi {
			w.S("\n" + u.ind(level+2))
			if rapid.Bool().Draw(t, "anonOverride") {
				w.S("@Override\n" + u.ind(level+2))
			}
		} else {
			w.S(" ")
		}
		w.S("public void " + m + "() {")
		saved := len(u.scope)
		n := rapid.IntRange(1, 3).Draw(t, "anonStmts")
		for k := 0; k < n; k++ {
			if multi {
				w.S("\n" + u.ind(level+3))
			} else {
				w.S(" ")
			}
			u.anonStmt(level + 3)
		}
		u.scope = u.scope[:saved]
		if multi {
			w.S("\n" + u.ind(level+2) + "}")
		} else {
			w.S(" }")
		}
	}
	if multi {
		w.S("\n" + u.ind(level+1) + "}")
	} else {
		w.S(" }")
	}
	u.feature("anonymous_class_body")
	return true
}

// anonStmt writes one statement of a method of an anonymous class: no further anonymous class inside.
func (u *unitCtx) anonStmt(level int) {
	t, w := u.g.t, u.w
	switch rapid.IntRange(0, 5).Draw(t, "anonStmtKind") {
	case 0:
		u.staticCall(level, 3)
		w.S(";")
	case 1, 2:
		// a local variable of the method, initialised with a fresh object and called
		name := u.freshLocal()
		c := u.collabFields()
		if len(c) == 0 {
			w.S("Object " + name + " = new ")
			line, col := w.Line(), w.Col()
			w.S("Object")
			u.event(Event{Kind: "new", Name: "Object", Line: line, Col: col})
			w.S("();")
			u.scope = append(u.scope, varInfo{name: name, kind: "local", typ: "Object", cls: -1})
			u.feature("creation_inside_anonymous_class")
			return
		}
		ci := rapid.SampledFrom(c).Draw(t, "localClass")
		typ := u.g.sigs[ci].name
		w.S(typ + " " + name + " = ")
		if outer := u.pending; outer != "" {
			// inside the initializer of a variable of the enclosing method: two names are being declared,
			// the arguments keep away from both by being none
			w.S(u.newKeyword(level))
			line, col := w.Line(), w.Col()
			w.S(typ)
			u.event(Event{Kind: "new", Name: typ, Line: line, Col: col})
			w.S(u.openParen() + ")")
		} else {
			u.pending = name
			u.newExpr(level, 3, ci)
			u.pending = ""
		}
		w.S("; ")
		local := varInfo{name: name, kind: "local", typ: typ, cls: ci}
		u.scope = append(u.scope, local)
		u.callOn(level, 3, local)
		u.feature("creation_inside_anonymous_class")
	default:
		u.callExpr(level, 3)
		w.S(";")
	}
}

// ---------------------------------------------------------------------------------------
// Opts.CaseTwinNames: a class named like an earlier one in another case.

// caseVariant is name in upper case or, if it is that already, with all letters but the first in lower
// case ("" if neither differs from name).
func caseVariant(name string) string {
	if w := strings.ToUpper(name); w != name {
		return w
	}
	if w := name[:1] + strings.ToLower(name[1:]); w != name {
		return w
	}
	return ""
}

// caseTwin may rename the class being drawn (the classes before it are g.sigs) to the case variant of
// the name of an earlier class, put it into another package if there is one, and make it refer to that
// class.
func (g *gen) caseTwin(s *classSig, pkgs []string) {
	t := g.t
	i := len(g.sigs)
	if i == 0 || rapid.IntRange(0, 7).Draw(t, "caseTwin") != 7 {
		return
	}
	j := rapid.IntRange(0, i-1).Draw(t, "caseTwinOf")
	other := g.sigs[j]
	w := caseVariant(other.name)
	if other.role != "main" || w == "" || g.names.used[w] || javaKeywords[w] {
		return
	}
	var elsewhere []string
	for _, p := range pkgs {
		if p != other.pkg {
			elsewhere = append(elsewhere, p)
		}
	}
	if len(elsewhere) > 0 {
		s.pkg = rapid.SampledFrom(elsewhere).Draw(t, "caseTwinPkg")
	}
	g.names.Reserve(w)
	s.name = w
	if g.mustRef == nil {
		g.mustRef = map[int]int{}
	}
	g.mustRef[i] = j
}

// ---------------------------------------------------------------------------------------
// Opts.TwinReferrers: with Opts.TwinNames, a third class that lives in the package of one of two
// namesakes may be made to refer to its package mate (by the simple name, which there means the mate).

func (g *gen) twinReferrers() {
	t := g.t
	if pbtExcluded("same_package_reference_with_namesake_in_other_package") {
		return
	}
	for i := range g.sigs {
		for j := 0; j < i; j++ {
			a, b := g.sigs[i], g.sigs[j]
			if a.name != b.name || a.pkg == b.pkg || a.role != "main" || b.role != "main" {
				continue
			}
			var cands [][2]int
			for r, x := range g.sigs {
				if r == i || r == j || x.name == a.name {
					continue
				}
				if _, taken := g.mustRef[r]; taken {
					continue
				}
				switch x.pkg {
				case a.pkg:
					cands = append(cands, [2]int{r, i})
				case b.pkg:
					cands = append(cands, [2]int{r, j})
				}
			}
			if len(cands) == 0 || !rapid.Bool().Draw(t, "twinReferrer") {
				continue
			}
			pick := rapid.SampledFrom(cands).Draw(t, "twinReferrerOf")
			if g.mustRef == nil {
				g.mustRef = map[int]int{}
			}
			g.mustRef[pick[0]] = pick[1]
		}
	}
}

// keepRefUnambiguous drops the class ref, which unit i is made to refer to, from the chosen classes again
// when it is not among the classes the unit may refer to by their simple names (Opts.TwinNames: of several
// namesakes only one is, see untwin).
func (g *gen) keepRefUnambiguous(i, ref int, chosen []int) []int {
	if contains(g.collaborators(i), ref) {
		return chosen
	}
	var out []int
	for _, c := range chosen {
		if c != ref {
			out = append(out, c)
		}
	}
	return out
}

// ---------------------------------------------------------------------------------------
// Opts.InterfaceBodies: default and static methods of interfaces.

// ifaceBodyMethod writes an interface method with a body (false: nothing written, take the plain form).
// ft carries name, return type and parameters.
func (u *unitCtx) ifaceBodyMethod(ms methodSig, ptext string, pvars []varInfo, ft *FuncTruth) bool {
	t, w := u.g.t, u.w
	if rapid.IntRange(0, 3).Draw(t, "ifaceBody") != 3 {
		return false
	}
	if strings.Contains(ms.ret, "List") {
		u.used["List"] = true
	}
	mods := rapid.SampledFrom([][]string{{"default"}, {"public", "default"}, {"static"}, {"default"}, {"public", "static"}}).Draw(t, "ifaceBodyMods")
	w.S(u.lead())
	for _, m := range mods {
		w.S(m + " ")
	}
	ft.Modifiers = mods
	ft.DeclLine = w.Line()
	w.S(ms.ret + " ")
	ft.NameLine, ft.NameCol = w.Line(), w.Col()
	w.S(ms.name + "(" + ptext + ") {")
	u.cur = ft
	u.scope = append([]varInfo(nil), pvars...)
	u.blockWithReturn(1, ms.ret)
	w.S(u.indent + "}")
	ft.EndLine = w.Line()
	u.truth.Funcs = append(u.truth.Funcs, *ft)
	u.cur = nil
	u.feature("interface_method_with_body")
	return true
}

// ---------------------------------------------------------------------------------------
// Opts.FieldChainCalls: System.out.println(..) and its like (false: nothing written).

func (u *unitCtx) systemOutCall(level, depth int) bool {
	t, w := u.g.t, u.w
	if rapid.IntRange(0, 3).Draw(t, "systemOut") != 3 {
		return false
	}
	form := rapid.SampledFrom([][2]string{{"System.out", "println"}, {"System.out", "println"}, {"System.err", "printf"}, {"System.out", "print"}, {"java.lang.System.out", "println"}}).Draw(t, "systemOutForm")
	w.S(form[0] + ".")
	line, col := w.Line(), w.Col()
	w.S(form[1])
	u.event(Event{Kind: "call", Name: form[1], Line: line, Col: col, Recv: "fieldchain"})
	u.args(level, depth, false)
	u.feature("call_on_static_field_of_library_class")
	return true
}
