// Package jgen generates conventional Java projects together with their ground truth:
// what is declared where, which invocations are written at which line/column, which
// imports are used. Text is produced in one pass by a position-tracking writer, so every
// recorded position is the position the shipped lexer will see (1-based lines, 0-based
// columns counted in characters, a tab counting as one).
package jgen

import (
	"strings"
	"unicode/utf8"
)

// W is a text writer that knows where it is.
type W struct {
	sb   strings.Builder
	line int // 1-based
	col  int // 0-based, in runes
	flat bool
}

// SetFlat switches the one-line mode: while it is on, every line end written becomes a blank, so the
// text goes on one physical line (and the recorded positions say so).
func (w *W) SetFlat(on bool) { w.flat = on }

// Flat reports whether the one-line mode is on.
func (w *W) Flat() bool { return w.flat }

// LineComment is an end-of-line comment; in the one-line mode, where it would swallow the rest of the
// unit, a block comment.
func (w *W) LineComment(text string) string {
	if w.flat {
		return "/* " + text + " */"
	}
	return "// " + text
}

func NewW() *W { return &W{line: 1} }

// S appends text.
func (w *W) S(s string) *W {
	if w.flat {
		s = strings.ReplaceAll(s, "\n", " ")
	}
	w.sb.WriteString(s)
	for len(s) > 0 {
		r, n := utf8.DecodeRuneInString(s)
		s = s[n:]
		if r == '\n' {
			w.line++
			w.col = 0
		} else {
			w.col++
		}
	}
	return w
}

func (w *W) Line() int      { return w.line }
func (w *W) Col() int       { return w.col }
func (w *W) String() string { return w.sb.String() }
func (w *W) Len() int       { return w.sb.Len() }

// AtLineStart reports whether nothing has been written on the current line yet.
func (w *W) AtLineStart() bool { return w.col == 0 }
