package jgen

import (
	"testing"

	"pgregory.net/rapid"
)

// the options added by the checklist audit of C02, in the combinations the C02 check uses
func TestGeneratedUnitsParseAuditC02(t *testing.T) {
	unitsParse(t, func(rt *rapid.T) Opts {
		return Opts{Bodies: true, MultiByte: true, Interfaces: true, Wide: true, Anon: true, RichDecl: true, Loops: true, MaxUnits: 4, MaxMethods: 4,
			ScopedReuse: rapid.Bool().Draw(rt, "reuse"), SharedMethodNames: true, UnqualifiedForeign: true,
			ExoticNames: true, WildcardProjectImports: true, TwinNames: true, TwinReferrers: true,
			AnonBodies: true, AssignedCreations: true, CaseTwinNames: true, ScopeEnds: true, CallLayout: true, OwnTypeVars: true, ReturnCalls: true, FieldForms: true, InterfaceBodies: true, FieldChainCalls: true}
	})
}

// what a simple class name means in a unit by the rules of the language (the class itself, a single-type
// import, the own package, an on-demand import) is what the events expect
func TestReceiverClassesResolveAsExpected(t *testing.T) {
	rapid.Check(t, func(rt *rapid.T) {
		p := GenProject(rt, Opts{Bodies: true, MultiByte: true, Interfaces: true, Wide: true, Anon: true, RichDecl: true, Loops: true, MaxUnits: 4, MaxMethods: 4,
			ScopedReuse: rapid.Bool().Draw(rt, "reuse"), SharedMethodNames: true, UnqualifiedForeign: true,
			ExoticNames: true, WildcardProjectImports: true, TwinNames: true, TwinReferrers: true,
			AnonBodies: true, AssignedCreations: true, CaseTwinNames: true, ScopeEnds: true, CallLayout: true, OwnTypeVars: true, ReturnCalls: true, FieldForms: true, InterfaceBodies: true, FieldChainCalls: true})
		for _, u := range p.Units {
			for _, f := range u.Funcs {
				for _, e := range f.Events {
					if !e.Resolve || e.Recv == "implicit" {
						continue
					}
					var found []string
					switch {
					case e.ExpNode == u.Name:
						found = []string{u.Pkg}
					default:
						for _, im := range u.Imports {
							if !im.Static && !im.Wildcard && len(im.Text) > len(e.ExpNode) && im.Text[len(im.Text)-len(e.ExpNode)-1:] == "."+e.ExpNode {
								found = append(found, im.Text[:len(im.Text)-len(e.ExpNode)-1])
							}
						}
						if len(found) == 0 {
							for _, o := range p.Units {
								if o.Pkg == u.Pkg && o.Name == e.ExpNode {
									found = append(found, o.Pkg)
								}
							}
						}
						if len(found) == 0 {
							for _, im := range u.Imports {
								if !im.Static && im.Wildcard {
									for _, o := range p.Units {
										if o.Pkg == im.Text && o.Name == e.ExpNode {
											found = append(found, o.Pkg)
										}
									}
								}
							}
						}
					}
					if len(found) != 1 || found[0] != e.ExpPkg {
						rt.Fatalf("%s: receiver class %s of %s at %d:%d means %v, expected package %q", u.Path, e.ExpNode, e.Name, e.Line, e.Col, found, e.ExpPkg)
					}
				}
			}
		}
	})
}
