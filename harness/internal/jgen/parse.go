package jgen

import (
	"github.com/antlr/antlr4/runtime/Go/antlr/v4"
	parser "github.com/modernizing/coca/languages/java"
)

type errListener struct {
	*antlr.DefaultErrorListener
	errs []string
}

func (e *errListener) SyntaxError(_ antlr.Recognizer, _ interface{}, line, column int, msg string, _ antlr.RecognitionException) {
	e.errs = append(e.errs, msg)
}

// SyntaxErrors parses text with the shipped Java grammar.
func SyntaxErrors(text string) []string {
	el := &errListener{DefaultErrorListener: antlr.NewDefaultErrorListener()}
	lexer := parser.NewJavaLexer(antlr.NewInputStream(text))
	lexer.RemoveErrorListeners()
	lexer.AddErrorListener(el)
	p := parser.NewJavaParser(antlr.NewCommonTokenStream(lexer, 0))
	p.RemoveErrorListeners()
	p.AddErrorListener(el)
	p.CompilationUnit()
	return el.errs
}
