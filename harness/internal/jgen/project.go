package jgen

import (
	"fmt"
	"path"
	"sort"
	"strings"

	"pgregory.net/rapid"
)

// Opts steer the project generator.
type Opts struct {
	MaxUnits               int  // default 5
	Layout                 bool // random directory layouts, test files, ignored files, non-Java files (C01)
	Bodies                 bool // method bodies with invocations (C02, C05); otherwise short bodies
	MultiByte              bool // string literals and comments may contain multi-byte characters
	Interfaces             bool // some units are interfaces
	NameReuse              bool // the same variable names with different types in different files/methods (C07)
	ScopedReuse            bool // parameter/local names reused across the methods of a unit with different types, and shadowing fields (C02)
	ExtraImps              bool // imports that are unused / wildcard / static (C06)
	Anon                   bool // anonymous classes as arguments (new Runnable() { public void run() { ... } })
	DupNames               bool // some classes share their simple name with a class of another package and are referenced through a wildcard import (metamorphic checks only)
	Wide                   bool // further statement and expression forms: do-while, try-with-resources, synchronized, throw, ternary, casts, super calls, block lambdas, several declarators
	RichDecl               bool // annotated methods, parameters and fields, comments inside declarations, interface constants, several thrown types, nested generic types
	SharedMethodNames      bool // different classes may declare methods of the same name (decoys for a rename)
	MaxMethods             int  // default 5
	NoCtors                bool
	WordNames              bool // class and method names may carry ordinary words the tool's heuristics react to elsewhere: classes ending in ...test / ...tests (Contest, Latest, Protests), containing Test in the middle, ...Service, ...Util, ...Main; methods getX, setX, isX, testX, mainX (C01)
	WordDirs               bool // package directories whose names contain the letters "test" (com/acme/contest, org/demo/latest/api) (C01)
	Loops                  bool // further loop and branch shapes: enhanced for over primitive / array / String / boxed / generic element types, `final` loop variables, a classic for whose loop variable is a project class, bodies of if / else / for / while / do without braces (hence `else if` chains) (C02)
	WildcardProjectImports bool // a project class of another package may be reached through a wildcard import of its package (alone, or next to the single-type import), among unrelated wildcard imports; simple names stay unique, so the name still denotes one class (C05)
	SuperCallsDeclared     bool // super.m(...) may call a method the project superclass declares (C05)
	ModuleLayout           bool // with Layout: also the multi-module Maven layout (core/src/main/java, contest-api/src/test/java) (C01)
	ExoticNames            bool // method, variable and class names may contain `_`, `$` (not class names) and letters outside ASCII (run$impl, _tmp, größe, 値); packages with digits and underscores (C05)
	LongLines              bool // physical lines of any length: parameter lists of 20-120 further parameters on one line, names of 41-300 and rarely 4100-5200 characters, a member or a whole unit written on one line, long block comments and string literals in front of declarations (C01)
	UnqualifiedForeign     bool // unqualified calls that do not name a method of the class itself: a method inherited from the project superclass, a static method of a project class brought in by `import static pkg.P.m;` or `import static pkg.P.*;`; the on-demand form is also written as a mere decoy next to own methods of the same name (C02)
	KeywordNames           bool // method, variable and field names may be contextual keywords of newer Java versions (record, open, to, with, module, permits, ...) and, like class names, single letters (audit_c01.go) (C01)
	TwinNames              bool // two classes may bear one simple name in two packages (referred to only where the name is unambiguous: from the own package, or through a single-type import where the own package has no such class); a class name may start with the whole name of another class (audit_c01.go) (C01)
	DeclForms              bool // further spellings of declarations: annotation arguments of more kinds (empty list, negative number, char, string with commas / parentheses / escaped quotes, class literal, expression, empty array, nested annotations, arguments over several lines), an annotation / final / strictfp among the class modifiers, bounded and several type parameters, a superclass written with its qualified name, throws clauses of constructors, interface methods that are default / static with a body, redundantly abstract, annotated or throwing, a stray `;` after a member or the type (audit_c01.go) (C01)
	ManyMembers            bool // now and then a type with 13-70 methods (C01)
	AnonBodies             bool // with Anon: the anonymous classes written as arguments may have richer bodies: one or two methods over several lines or on one, holding a creation, a local declaration with a call on it, calls on the parameters / locals / fields of the enclosing method (audit_c02.go) (C02)
	AssignedCreations      bool // a local variable of class type may be initialised with an object of another class, and a field / parameter / local of class type may be assigned one (`x = new Other();`, `this.x = new Other();`), also right before a call on it (audit_c02.go) (C02)
	CaseTwinNames          bool // a class may be named like a class of another package written in another case (Order7 / ORDER7) and then refers to it (audit_c02.go) (C02)
	ScopeEnds              bool // a variable declared in a group of a switch ends with the switch; lambdas with typed parameters `(Foo x) -> x.m()`; with ScopedReuse both may be named like a field they hide, which is called right afterwards (audit_c02.go) (C02)
	CallLayout             bool // a blank or a comment between a callee / created type and its `(`; two blanks, a comment or a line end between `new` and the type; generic creations `new ArrayList<>()`, `new ArrayList<String>(n)` (audit_c02.go) (C02)
	OwnTypeVars            bool // a class may hold a field of its own type, so that parameters, locals, loop variables, creations and static calls of the enclosing class itself occur (audit_c02.go) (C02)
	ReturnCalls            bool // return statements that carry an invocation or creation, and early returns that end a nested block (audit_c02.go) (C02)
	FieldForms             bool // fields of project classes may be annotated (@Autowired on the same or the line before), static / transient / volatile, and declared two to a declaration (`Foo a, b;`) (audit_c02.go) (C02)
	TwinReferrers          bool // with TwinNames: a class of the package of one of two namesakes refers to its package mate (audit_c02.go) (C02)
	InterfaceBodies        bool // methods of interfaces may be `default` or `static` methods with a body (audit_c02.go) (C02)
	FieldChainCalls        bool // calls on a static field of a library class: System.out.println(..), System.err.printf(..) (audit_c02.go) (C02)
	NamesakeImports        bool // with TwinNames and WildcardProjectImports: a simple name that two or more classes bear may be met together with imports that mention a namesake: the class itself or a class of the own package next to an on-demand import of a namesake's package, a single-type import that hides the namesake of the own package or of an on-demand import, a class reached through an on-demand import only whose namesake lives in a package not imported; namesakes are more frequent (namesake_imports.go) (C02)
	CallsAfterScopes       bool // right after a loop, branch, switch, try or synchronized statement, now and then a call on a local variable of class type declared before it (namesake_imports.go) (C02)
}

// Ann is an annotation as the model records it.
type Ann struct {
	Name string      `json:"name"`
	KV   [][2]string `json:"kv,omitempty"`
}

// Param is one (type, name) pair; Type has no blanks (the tool records GetText()).
type Param struct {
	Type string `json:"type"`
	Name string `json:"name"`
}

// Event is one invocation or object creation written in a function body.
type Event struct {
	Kind string `json:"kind"` // "call" | "new"
	Name string `json:"name"` // callee identifier / created simple type name
	Line int    `json:"line"`
	Col  int    `json:"col"`
	Recv string `json:"recv,omitempty"` // implicit this field param local static chain foreach lambda none
	// resolution expectation (only when Resolve): the call must be recorded against ExpPkg / ExpNode
	Resolve bool   `json:"resolve,omitempty"`
	ExpPkg  string `json:"expPkg,omitempty"`
	ExpNode string `json:"expNode,omitempty"`
	// for renames: full name (pkg.Class.method) of the project method this call is meant for, "" if none
	Target   string `json:"target,omitempty"`
	FinalVar bool   `json:"finalVar,omitempty"` // the receiver is a local variable declared `final`
	Decl     string `json:"decl,omitempty"`     // where the receiver variable is declared when not in a plain declaration statement: "forinit" (header of a classic for)
}

// FuncTruth is a declared constructor or method.
type FuncTruth struct {
	Name       string   `json:"name"`
	ReturnType string   `json:"returnType"`
	IsCtor     bool     `json:"isCtor,omitempty"`
	Params     []Param  `json:"params,omitempty"`
	Modifiers  []string `json:"modifiers,omitempty"`
	DeclLine   int      `json:"declLine"` // line of the first token of the return type (or of the constructor name)
	NameLine   int      `json:"nameLine"`
	NameCol    int      `json:"nameCol"`
	EndLine    int      `json:"endLine"`
	Events     []Event  `json:"events,omitempty"`
}

// ImportTruth is one import line.
type ImportTruth struct {
	Text     string `json:"text"` // qualified name as written (without .*)
	Line     int    `json:"line"`
	Static   bool   `json:"static,omitempty"`
	Wildcard bool   `json:"wildcard,omitempty"`
	Verdict  string `json:"verdict,omitempty"` // keep | delete | free (C06)
	Why      string `json:"why,omitempty"`
}

// UnitTruth describes one compilation unit.
type UnitTruth struct {
	Path        string        `json:"path"`
	Role        string        `json:"role"` // main | test | ignored
	Pkg         string        `json:"pkg"`
	Name        string        `json:"name"`
	Kind        string        `json:"kind"`             // Class | Interface
	ExtendsRaw  string        `json:"extendsRaw"`       // text after `extends`, blanks removed
	ExtendsFull string        `json:"extendsFull"`      // what the full pass records when it has the project's identifier list
	Implements  []string      `json:"implements"`       // raw simple names
	Annotations []Ann         `json:"annotations"`      // class-level
	Imports     []ImportTruth `json:"imports"`          // in order
	Funcs       []FuncTruth   `json:"funcs"`            // in source order
	Fields      []Param       `json:"fields,omitempty"` // in source order
	Features    []string      `json:"features,omitempty"`
}

// File is one file of the generated tree.
type File struct {
	Path string `json:"path"`
	Text string `json:"text"`
}

// Project is a generated tree with its ground truth.
type Project struct {
	Files []File      `json:"files"`
	Units []UnitTruth `json:"units"` // one per .java file, in Files order (non-Java files have none)
}

// FullName of a unit's type.
func (u UnitTruth) FullName() string { return u.Pkg + "." + u.Name }

// ---------------------------------------------------------------------------------------

type methodSig struct {
	name    string
	nParams int
	static  bool
	ret     string
}

type classSig struct {
	pkg, name string
	kind      string // Class | Interface
	abstract  bool
	methods   []methodSig
	role      string
	path      string
	base      string // name before a role suffix (Test, Tests, ignore suffix) is appended
}

func (c classSig) full() string { return c.pkg + "." + c.name }

type gen struct {
	t       *rapid.T
	o       Opts
	names   *Names
	sigs    []classSig
	reuse   []string    // pool of reusable variable names (NameReuse)
	mustRef map[int]int // unit -> unit it must refer to through a wildcard import (DupNames)

	prefer map[int]map[string]int // unit -> simple name -> the class of that name the unit refers to (Opts.NamesakeImports)
}

var pkgPool = []string{"com.acme", "com.acme.core", "org.demo", "app", "com.acme.web.api"}

// wordPkgs (Opts.WordDirs) are packages whose directories contain the letters "test" without being test directories.
var wordPkgs = []string{"com.acme.contest", "org.demo.latest.api", "app.attest", "com.protests.core"}

// exoticPkgs (Opts.ExoticNames) are packages with digits and underscores in their names.
var exoticPkgs = []string{"com.acme2.v1_0", "org.demo_x"}

// moduleNames are the modules of the multi-module Maven layout (Opts.ModuleLayout).
var moduleNames = []string{"core", "contest-api"}

type extType struct{ imp, simple string }

var externals = []extType{
	{"java.util.List", "List"}, {"java.util.Map", "Map"}, {"java.io.IOException", "IOException"},
	{"java.util.ArrayList", "ArrayList"}, {"java.util.Optional", "Optional"},
}

// GenProject draws a project.
func GenProject(t *rapid.T, o Opts) Project {
	if o.MaxUnits == 0 {
		o.MaxUnits = 5
	}
	if o.MaxMethods == 0 {
		o.MaxMethods = 5
	}
	g := &gen{t: t, o: o, names: NewNames()}
	g.names.Words = o.WordNames
	g.names.Exotic, g.names.Long = o.ExoticNames, o.LongLines
	g.names.Special = o.KeywordNames
	g.names.Called = o.Bodies
	pkgPool := pkgPool
	if o.ExoticNames {
		pkgPool = append(append([]string(nil), pkgPool...), exoticPkgs...)
	}
	if o.WordDirs {
		pkgPool = append(append([]string(nil), pkgPool...), wordPkgs...)
	}
	if o.NameReuse || o.ScopedReuse {
		g.reuse = []string{"repo", "item", "value", "it"}
	}
	nPk := rapid.IntRange(1, 3).Draw(t, "nPkgs")
	if o.DupNames {
		nPk = 3
	}
	if o.NamesakeImports && o.TwinNames {
		// three packages more often: a file, the class it names and a namesake may live in three of them
		nPk = max(nPk, rapid.IntRange(1, 3).Draw(t, "nPkgsAtLeast"))
	}
	pkgs := append([]string(nil), pkgPool[:0]...)
	start := rapid.IntRange(0, len(pkgPool)-1).Draw(t, "pkgStart")
	for i := 0; i < nPk; i++ {
		pkgs = append(pkgs, pkgPool[(start+i)%len(pkgPool)])
	}
	layout := "nested"
	if o.Layout {
		layouts := []string{"nested", "flat", "maven", "maven", "deep"}
		if o.ModuleLayout {
			layouts = append(layouts, "modules", "modules")
		}
		layout = rapid.SampledFrom(layouts).Draw(t, "layout")
	}
	n := rapid.IntRange(1, o.MaxUnits).Draw(t, "nUnits")
	var p Project
	ignoreDir, ignoreSuffix := "", ""
	if o.Layout && rapid.IntRange(0, 2).Draw(t, "useGitignore") > 0 {
		ignoreDir = rapid.SampledFrom([]string{"gen_out", "skipme", "dist_tmp"}).Draw(t, "ignoreDir")
		ignoreSuffix = rapid.SampledFrom([]string{"Gen", "Stub"}).Draw(t, "ignoreSuffix")
	}
	for i := 0; i < n; i++ {
		s := classSig{pkg: rapid.SampledFrom(pkgs).Draw(t, "pkg"), name: g.names.Class(t), kind: "Class", role: "main"}
		if i > 0 && rapid.IntRange(0, 3).Draw(t, "suffixTwin") == 3 {
			// a class whose name ends with the name of another one (OrderRepo / Repo)
			twin := "X" + g.sigs[rapid.IntRange(0, i-1).Draw(t, "twinOf")].base
			if !g.names.used[twin] {
				g.names.Reserve(twin)
				s.name = twin
			}
		}
		if o.Interfaces && rapid.IntRange(0, 4).Draw(t, "isInterface") == 4 {
			s.kind = "Interface"
		}
		if s.kind == "Class" && rapid.IntRange(0, 7).Draw(t, "isAbstract") == 7 {
			s.abstract = true
		}
		if o.DupNames && i > 0 && rapid.IntRange(0, 2).Draw(t, "dupName") == 0 {
			j := rapid.IntRange(0, i-1).Draw(t, "dupOf")
			if g.sigs[j].pkg != s.pkg {
				clash := false
				for _, x := range g.sigs {
					if x.pkg == s.pkg && x.name == g.sigs[j].name {
						clash = true
					}
				}
				if !clash {
					s.name = g.sigs[j].name
				}
			}
		}
		if o.NamesakeImports && o.TwinNames {
			g.namesakeBoost(&s, layout)
		}
		if o.TwinNames {
			g.twin(&s, layout)
		}
		if o.CaseTwinNames {
			g.caseTwin(&s, pkgs)
		}
		if o.Layout {
			switch rapid.IntRange(0, 9).Draw(t, "role") {
			case 7, 8:
				s.role = "test"
			case 9:
				if ignoreDir != "" {
					s.role = "ignored"
				}
			}
		}
		nm := rapid.IntRange(0, o.MaxMethods).Draw(t, "nMethods")
		if nm == o.MaxMethods && rapid.IntRange(0, 5).Draw(t, "manyMethods") == 5 {
			nm = rapid.IntRange(o.MaxMethods, 12).Draw(t, "nMethodsMany")
			if o.ManyMembers && rapid.IntRange(0, 3).Draw(t, "veryManyMethods") == 3 {
				nm = rapid.IntRange(13, 70).Draw(t, "nMethodsVeryMany")
			}
		}
		for j := 0; j < nm; j++ {
			ms := methodSig{name: g.names.Method(t), nParams: rapid.IntRange(0, 3).Draw(t, "nParams")}
			if j > 0 && rapid.IntRange(0, 9).Draw(t, "overload") == 9 {
				ms.name = s.methods[j-1].name // an overload
				ms.nParams = s.methods[j-1].nParams + 1
			}
			if o.SharedMethodNames && i > 0 && rapid.IntRange(0, 4).Draw(t, "sharedMethodName") == 0 {
				other := g.sigs[rapid.IntRange(0, i-1).Draw(t, "sharedFrom")]
				if len(other.methods) > 0 {
					cand := rapid.SampledFrom(other.methods).Draw(t, "sharedName").name
					dup := false
					for _, x := range s.methods {
						if x.name == cand {
							dup = true
						}
					}
					if !dup {
						ms.name = cand
					}
				}
			}
			ms.static = s.kind == "Class" && rapid.IntRange(0, 5).Draw(t, "static") == 5
			ms.ret = g.returnType(s)
			s.methods = append(s.methods, ms)
		}
		// path
		s.base = s.name
		base := s.name
		dirs := strings.ReplaceAll(s.pkg, ".", "/")
		switch s.role {
		case "test":
			switch rapid.IntRange(0, 2).Draw(t, "testForm") {
			case 0:
				base += "Test"
			case 1:
				base += "Tests"
			default:
				if layout == "maven" || layout == "modules" {
					// recognised by its directory only
				} else {
					base += "Test"
				}
			}
			s.name = base
		case "ignored":
			if rapid.Bool().Draw(t, "ignoredBySuffix") {
				base += ignoreSuffix
				s.name = base
			} else {
				dirs = ignoreDir + "/" + dirs
			}
		}
		switch layout {
		case "flat":
			if s.role == "ignored" && strings.HasPrefix(dirs, ignoreDir+"/") {
				s.path = ignoreDir + "/" + base + ".java"
			} else {
				s.path = base + ".java"
			}
		case "maven", "modules":
			root := "src/main/java/"
			if s.role == "test" {
				root = "src/test/java/"
			}
			if layout == "modules" {
				root = moduleNames[rapid.IntRange(0, len(moduleNames)-1).Draw(t, "module")] + "/" + root
			}
			if s.role == "ignored" && strings.HasPrefix(dirs, ignoreDir+"/") {
				s.path = ignoreDir + "/" + root + strings.TrimPrefix(dirs, ignoreDir+"/") + "/" + base + ".java"
			} else {
				s.path = root + dirs + "/" + base + ".java"
			}
		case "deep":
			s.path = "modules/mod" + fmt.Sprint(i%2) + "/code/" + dirs + "/" + base + ".java"
		default:
			s.path = dirs + "/" + base + ".java"
		}
		g.sigs = append(g.sigs, s)
	}
	if o.DupNames && len(g.sigs) >= 3 && rapid.Bool().Draw(t, "dupTriple") {
		// two classes of the same simple name in two packages and a class of a third package that
		// refers to that name through a wildcard import
		a, b, c := &g.sigs[0], &g.sigs[1], &g.sigs[2]
		if a.kind == "Class" && b.kind == "Class" && a.role == "main" && b.role == "main" && c.role == "main" && c.kind == "Class" {
			order := rapid.Permutation([]int{0, 1, 2}).Draw(t, "triplePkgs")
			ref := rapid.IntRange(0, 1).Draw(t, "tripleRef")
			// the re-packaged triple must not collide with a class generated later
			taken := map[string]bool{}
			for k := 3; k < len(g.sigs); k++ {
				taken[g.sigs[k].full()] = true
			}
			na, nb, nc := pkgs[order[0]]+"."+a.name, pkgs[order[1]]+"."+a.name, pkgs[order[2]]+"."+c.name
			if !taken[na] && !taken[nb] && !taken[nc] && c.name != a.name {
				a.pkg, b.pkg, c.pkg = pkgs[order[0]], pkgs[order[1]], pkgs[order[2]]
				b.name = a.name
				for _, x := range []*classSig{a, b, c} {
					x.path = strings.ReplaceAll(x.pkg, ".", "/") + "/" + x.name + ".java"
				}
				g.mustRef = map[int]int{2: ref}
			}
		}
	}
	if o.TwinReferrers {
		g.twinReferrers()
	}
	if o.NamesakeImports && o.TwinNames {
		g.namesakeReferrers(pkgs, layout)
	}
	for i := range g.sigs {
		text, truth := g.unit(i)
		p.Files = append(p.Files, File{Path: g.sigs[i].path, Text: text})
		p.Units = append(p.Units, truth)
	}
	if ignoreDir != "" {
		dirPattern := ignoreDir + "/"
		if layout != "deep" && !pbtExcluded("gitignore_root_anchored_pattern") {
			// the ignored directory sits at the root of the tree (not in the deep layout), so these all name it
			dirPattern = rapid.SampledFrom([]string{ignoreDir + "/", ignoreDir + "/", "/" + ignoreDir + "/", "/" + ignoreDir}).Draw(t, "ignoreDirPattern")
		}
		text := dirPattern + "\n*" + ignoreSuffix + ".java\n"
		if rapid.IntRange(0, 3).Draw(t, "gitignoreNoise") == 0 {
			text = "# build output\n\n" + dirPattern + "\n\n# generated\n*" + ignoreSuffix + ".java\n"
		}
		p.Files = append(p.Files, File{Path: ".gitignore", Text: text})
	}
	if o.Layout {
		nx := rapid.IntRange(0, 3).Draw(t, "nOther")
		for i := 0; i < nx; i++ {
			name := rapid.SampledFrom([]string{"README.txt", "pom.xml", "App.kt", "Old.javax", "notes.md", "Thing.java.bak"}).Draw(t, "otherFile")
			dir := ""
			if len(g.sigs) > 0 && rapid.Bool().Draw(t, "otherInPkgDir") {
				dir = path.Dir(g.sigs[0].path) + "/"
				if dir == "./" {
					dir = ""
				}
			}
			dup := false
			for _, f := range p.Files {
				if f.Path == dir+name {
					dup = true
				}
			}
			if !dup {
				p.Files = append(p.Files, File{Path: dir + name, Text: "public class NotJava { void m() { x.call(); } }\n"})
			}
		}
	}
	return p
}

func (g *gen) returnType(s classSig) string {
	switch rapid.IntRange(0, 9).Draw(g.t, "retKind") {
	case 0, 1, 2, 3:
		return "void"
	case 4:
		return "int"
	case 5:
		return "String"
	case 6:
		return "boolean"
	case 7:
		return "int[]"
	case 8:
		return "List<String>"
	default:
		return "Object"
	}
}

// visible project classes for unit i: same package, or other package (then imported)
func (g *gen) collaborators(i int) []int {
	var out []int
	for j, s := range g.sigs {
		if j != i && s.role == "main" {
			out = append(out, j)
		}
	}
	if g.o.TwinNames {
		out = g.untwin(i, out)
	}
	return out
}

type varInfo struct {
	name  string
	kind  string // field param local foreach lambda
	typ   string // declared type text (no blanks)
	cls   int    // index into sigs when the declared type is a plain project class name, else -1
	ext   bool   // declared type is a plain imported external class
	extI  int
	final bool
	decl  string // "forinit": declared in the header of a classic for
}

type unitCtx struct {
	g        *gen
	i        int
	sig      classSig
	w        *W
	truth    *UnitTruth
	imports  map[string]bool // single-type imports present
	fields   []varInfo
	indent   string
	used     map[string]bool // simple type names used in the unit (for C06)
	cur      *FuncTruth
	scope    []varInfo // params + locals visible
	depth    int
	mb       bool
	lambdaN  int
	sameLine bool   // the member being written continues the line of the previous one
	pending  string // name of the local variable whose initializer is being written
	budget   int
	superIdx int // index of the project superclass, -1 if none
	foreign  []foreignCallee // methods of other classes that an unqualified call may name (Opts.UnqualifiedForeign)
	curRet   string          // return type of the method being written, "" in a constructor (Opts.ReturnCalls)

	ns namesakeState // Opts.NamesakeImports (namesake_imports.go)
}

func (g *gen) unit(i int) (string, UnitTruth) {
	t := g.t
	s := g.sigs[i]
	u := &unitCtx{g: g, i: i, sig: s, w: NewW(), imports: map[string]bool{}, used: map[string]bool{}, mb: g.o.MultiByte}
	truth := UnitTruth{Path: s.path, Role: s.role, Pkg: s.pkg, Name: s.name, Kind: s.kind}
	u.truth = &truth
	u.indent = rapid.SampledFrom([]string{"    ", "  ", "\t", "        "}).Draw(t, "indent")
	w := u.w
	if g.o.LongLines && rapid.IntRange(0, 9).Draw(t, "flatUnit") == 9 {
		// generated / minified code: the whole unit on one physical line
		w.SetFlat(true)
		u.feature("flat_unit")
	}

	// decide collaborators (project classes this unit refers to) and external types
	collab := g.collaborators(i)
	var chosen []int
	if len(collab) > 0 {
		k := rapid.IntRange(0, min(3, len(collab))).Draw(t, "nCollab")
		perm := rapid.Permutation(collab).Draw(t, "collabPerm")
		chosen = append(chosen, perm[:k]...)
		sort.Ints(chosen)
	}
	forcedWildcard := -1
	if ref, ok := g.mustRef[i]; ok {
		forcedWildcard = ref
		if !contains(chosen, ref) {
			chosen = append(chosen, ref)
			sort.Ints(chosen)
		}
		if g.o.TwinNames && (g.o.CaseTwinNames || g.o.TwinReferrers || g.o.NamesakeImports) {
			chosen = g.keepRefUnambiguous(i, ref, chosen)
		}
	}
	var exts []int
	for xi := range externals {
		if rapid.IntRange(0, 2).Draw(t, "useExt") == 0 {
			exts = append(exts, xi)
		}
	}
	// superclass
	extKind := 0
	if s.kind == "Class" {
		extKind = rapid.IntRange(0, 9).Draw(t, "extendsKind")
	}
	var superIdx = -1
	switch {
	case extKind >= 8 && len(chosen) > 0: // project class
		for _, c := range chosen {
			if g.sigs[c].kind == "Class" {
				superIdx = c
				break
			}
		}
	}
	if g.o.TwinNames {
		if f := g.twinSuper(i); f >= 0 {
			superIdx = f
			if !contains(chosen, f) {
				chosen = append(chosen, f)
				sort.Ints(chosen)
			}
		}
	}
	u.superIdx = superIdx
	// header
	if rapid.IntRange(0, 3).Draw(t, "header") == 0 {
		w.S("/*\n * " + g.comment("header") + "\n */\n")
	}
	if g.o.LongLines && rapid.IntRange(0, 7).Draw(t, "longHeader") == 7 {
		// a long comment line in front of the package declaration
		w.S("/* " + g.padText("header") + " */ ")
		u.feature("long_comment")
	}
	if rapid.IntRange(0, 5).Draw(t, "leadingBlank") == 0 {
		w.S("\n")
	}
	w.S("package " + s.pkg + ";\n")
	if rapid.Bool().Draw(t, "blankAfterPkg") {
		w.S("\n")
	}
	// imports: project classes from other packages, externals
	type impLine struct {
		text             string
		static, wildcard bool
		verdict, why     string
	}
	var imps []impLine
	for _, c := range chosen {
		if g.sigs[c].pkg != s.pkg {
			if g.o.DupNames && (c == forcedWildcard || rapid.Bool().Draw(t, "wildcardImport")) {
				dup := false
				for _, im := range imps {
					if im.text == g.sigs[c].pkg && im.wildcard {
						dup = true
					}
				}
				if !dup {
					imps = append(imps, impLine{text: g.sigs[c].pkg, wildcard: true, verdict: "keep", why: "wildcard"})
				}
				continue
			}
			if g.o.WildcardProjectImports {
				// 0: the single-type import (plain); 1: only a wildcard import of the package; 2: both
				form := rapid.IntRange(0, 2).Draw(t, "projectImportForm")
				if g.o.TwinNames && g.hasNamesake(c) && !g.o.NamesakeImports {
					form = 0 // a namesake is only reached through its single-type import
				}
				if g.o.NamesakeImports && form >= 1 {
					form = u.onDemandForm(c, form)
				}
				if form >= 1 {
					dup := false
					for _, im := range imps {
						if im.text == g.sigs[c].pkg && im.wildcard {
							dup = true
						}
					}
					if !dup {
						imps = append(imps, impLine{text: g.sigs[c].pkg, wildcard: true, verdict: "keep", why: "wildcard"})
					}
					u.feature("wildcard_project_import")
				}
				if form == 1 {
					u.feature("wildcard_only:" + g.sigs[c].full())
					continue
				}
			}
			imps = append(imps, impLine{text: g.sigs[c].full()})
			u.imports[g.sigs[c].full()] = true
		}
	}
	if g.o.NamesakeImports {
		for _, pkg := range u.namesakeOnDemandImports(chosen) {
			imps = append(imps, impLine{text: pkg, wildcard: true, verdict: "keep", why: "wildcard"})
		}
	}
	for _, xi := range exts {
		imps = append(imps, impLine{text: externals[xi].imp})
		u.imports[externals[xi].imp] = true
	}
	if g.o.UnqualifiedForeign {
		for _, si := range u.staticImports(chosen) {
			imps = append(imps, impLine{text: si.text, static: true, wildcard: si.wildcard, verdict: "keep", why: "static import of a project class"})
		}
	}
	if g.o.NamesakeImports {
		for _, cls := range u.namesakeStaticImports(chosen) {
			imps = append(imps, impLine{text: cls, static: true, wildcard: true, verdict: "keep", why: "static import of a project class"})
		}
	}
	if g.o.WildcardProjectImports && rapid.IntRange(0, 4).Draw(t, "unrelatedWildcard") == 4 {
		imps = append(imps, impLine{text: rapid.SampledFrom([]string{"java.util", "org.lib.shared", "java.util.function"}).Draw(t, "unrelatedWildcardPkg"), wildcard: true, verdict: "keep", why: "wildcard"})
	}
	var usage []string // statements / clauses of the extra method that uses the "used" extra imports
	var usageAnn, usageThrows string
	if g.o.ExtraImps {
		nu := rapid.IntRange(0, 4).Draw(t, "nUsedExtraImports")
		for k := 0; k < nu; k++ {
			nm := g.names.Class(t)
			switch rapid.IntRange(0, 15).Draw(t, "usedImportKind") {
			case 11: // instanceof
				usage = append(usage, "boolean io"+fmt.Sprint(k)+" = (this instanceof "+nm+");")
				imps = append(imps, impLine{text: "org.lib." + nm, verdict: "keep", why: "used in instanceof"})
			case 12: // cast
				usage = append(usage, "Object ca"+fmt.Sprint(k)+" = ("+nm+") null;")
				imps = append(imps, impLine{text: "org.lib." + nm, verdict: "keep", why: "used in a cast"})
			case 13: // class literal
				usage = append(usage, "Object cl"+fmt.Sprint(k)+" = "+nm+".class;")
				imps = append(imps, impLine{text: "org.lib." + nm, verdict: "keep", why: "used in a class literal"})
			case 14: // array type
				usage = append(usage, nm+"[] ar"+fmt.Sprint(k)+" = null;")
				imps = append(imps, impLine{text: "org.lib." + nm, verdict: "keep", why: "used as array element type"})
			case 15: // qualifier of a nested type
				usage = append(usage, nm+".Entry ne"+fmt.Sprint(k)+" = null;")
				imps = append(imps, impLine{text: "org.lib." + nm, verdict: "keep", why: "used as qualifier of a nested type"})
			case 9: // qualifier of a method reference
				usage = append(usage, "Runnable mr"+fmt.Sprint(k)+" = "+nm+"::run;")
				imps = append(imps, impLine{text: "org.lib." + nm, verdict: "keep", why: "used as qualifier of a method reference"})
			case 10: // qualifier of a method reference passed as an argument
				usage = append(usage, "java.util.Arrays.asList(1, 2).forEach("+nm+"::accept);")
				imps = append(imps, impLine{text: "org.lib." + nm, verdict: "keep", why: "used as qualifier of a method reference argument"})
			case 7: // receiver of a static field only
				usage = append(usage, "Object c"+fmt.Sprint(k)+" = "+nm+".DEFAULT;")
				imps = append(imps, impLine{text: "org.lib." + nm, verdict: "keep", why: "used as receiver of a static field"})
			case 8: // receiver of a static field that is then called
				usage = append(usage, "long t"+fmt.Sprint(k)+" = "+nm+".SECONDS.toMillis("+fmt.Sprint(k)+");")
				imps = append(imps, impLine{text: "org.lib." + nm, verdict: "keep", why: "used as receiver of a static field with a call"})
			case 0: // annotation
				if usageAnn == "" {
					usageAnn = nm
					imps = append(imps, impLine{text: "org.lib.ann." + nm, verdict: "keep", why: "used as annotation"})
				}
			case 1: // throws
				if usageThrows == "" {
					usageThrows = nm
					imps = append(imps, impLine{text: "org.lib.err." + nm, verdict: "keep", why: "used in throws"})
				}
			case 2: // catch type
				usage = append(usage, "try { int q"+fmt.Sprint(k)+" = 0; } catch ("+nm+" ex"+fmt.Sprint(k)+") { }")
				imps = append(imps, impLine{text: "org.lib.err." + nm, verdict: "keep", why: "used as catch type"})
			case 3: // creation only
				usage = append(usage, "Object o"+fmt.Sprint(k)+" = new "+nm+"();")
				imps = append(imps, impLine{text: "org.lib." + nm, verdict: "keep", why: "used in a creation"})
			case 4: // static receiver only
				usage = append(usage, nm+".create("+fmt.Sprint(k)+");")
				imps = append(imps, impLine{text: "org.lib." + nm, verdict: "keep", why: "used as static receiver"})
			case 5: // generic argument / local type
				usage = append(usage, "java.util.Collection<"+nm+"> g"+fmt.Sprint(k)+" = null;")
				imps = append(imps, impLine{text: "org.lib." + nm, verdict: "keep", why: "used as generic type argument"})
			default: // used static single import
				usage = append(usage, "int s"+fmt.Sprint(k)+" = stat"+nm+"();")
				imps = append(imps, impLine{text: "org.stat.Tool" + fmt.Sprint(k) + ".stat" + nm, static: true, verdict: "keep", why: "used static import"})
			}
		}
		n := rapid.IntRange(0, 4).Draw(t, "nExtraImports")
		for k := 0; k < n; k++ {
			switch rapid.IntRange(0, 4).Draw(t, "extraImportKind") {
			case 0, 1: // unused single-type import: its simple name occurs nowhere else
				nm := g.names.Class(t)
				imps = append(imps, impLine{text: "org.unused." + nm, verdict: "delete", why: "unused"})
			case 2: // wildcard
				imps = append(imps, impLine{text: "org.wild.p" + fmt.Sprint(k), wildcard: true, verdict: "keep", why: "wildcard"})
			case 3: // unused static single import
				imps = append(imps, impLine{text: "org.stat.Helper" + fmt.Sprint(k) + ".make" + fmt.Sprint(k), static: true, verdict: "free", why: "unused static"})
			default: // static wildcard
				imps = append(imps, impLine{text: "org.stat.Consts" + fmt.Sprint(k), static: true, wildcard: true, verdict: "keep", why: "static wildcard"})
			}
		}
	}
	if len(imps) > 1 {
		perm := rapid.Permutation(imps).Draw(t, "importOrder")
		imps = perm
	}
	for _, im := range imps {
		if rapid.IntRange(0, 6).Draw(t, "blankBetweenImports") == 0 {
			w.S("\n")
		}
		line := "import "
		if im.static {
			line += "static "
		}
		line += im.text
		if im.wildcard {
			line += ".*"
		}
		truth.Imports = append(truth.Imports, ImportTruth{Text: im.text, Line: w.Line(), Static: im.static, Wildcard: im.wildcard, Verdict: im.verdict, Why: im.why})
		w.S(line + ";\n")
	}
	if len(imps) > 0 || rapid.Bool().Draw(t, "blankBeforeType") {
		w.S("\n")
	}
	// class-level annotations
	na := rapid.IntRange(0, 2).Draw(t, "nClassAnn")
	for k := 0; k < na; k++ {
		a, text := g.annotation()
		truth.Annotations = append(truth.Annotations, a)
		w.S(text + "\n")
	}
	// declaration line
	decl := ""
	if rapid.IntRange(0, 3).Draw(t, "public") > 0 {
		decl += "public "
	}
	if s.abstract {
		decl += "abstract "
	}
	if g.o.DeclForms {
		decl += u.classModsMore()
	}
	if s.kind == "Class" {
		decl += "class " + s.name
	} else {
		decl += "interface " + s.name
	}
	typeParam := ""
	if rapid.IntRange(0, 5).Draw(t, "typeParam") == 0 {
		typeParam = "T"
		decl += g.typeParamText()
	}
	if s.kind == "Class" {
		switch {
		case superIdx >= 0:
			sup := g.sigs[superIdx]
			decl += " extends " + sup.name
			truth.ExtendsRaw = sup.name
			truth.ExtendsFull = sup.full()
			u.used[sup.name] = true
			if g.o.DeclForms && strings.Contains(sup.pkg, ".") && rapid.IntRange(0, 5).Draw(t, "qualifiedSuper") == 5 {
				// the superclass written with its qualified name
				decl = strings.TrimSuffix(decl, sup.name) + sup.full()
				truth.ExtendsRaw = sup.full()
			}
		case extKind == 7 && contains(exts, 3): // imported external class
			decl += " extends ArrayList<String>"
			truth.ExtendsRaw = "ArrayList<String>"
			truth.ExtendsFull = "ArrayList<String>"
			u.used["ArrayList"] = true
		case extKind == 4 && g.o.DeclForms:
			decl += " extends java.util.ArrayList<String>"
			truth.ExtendsRaw = "java.util.ArrayList<String>"
			truth.ExtendsFull = "java.util.ArrayList<String>"
		case extKind == 6:
			decl += " extends Exception"
			truth.ExtendsRaw = "Exception"
			truth.ExtendsFull = "Exception"
		case extKind == 5 && contains(exts, 3):
			decl += " extends ArrayList"
			truth.ExtendsRaw = "ArrayList"
			truth.ExtendsFull = "java.util.ArrayList"
			u.used["ArrayList"] = true
		}
		var ifaces []int
		for _, c := range chosen {
			if g.sigs[c].kind == "Interface" {
				ifaces = append(ifaces, c)
			}
		}
		if len(ifaces) > 0 && rapid.IntRange(0, 2).Draw(t, "implementsProject") > 0 {
			ic := ifaces[0]
			decl += " implements " + g.sigs[ic].name
			truth.Implements = append(truth.Implements, g.sigs[ic].name)
			u.used[g.sigs[ic].name] = true
		} else if rapid.IntRange(0, 4).Draw(t, "implements") == 0 {
			decl += " implements Runnable"
			truth.Implements = append(truth.Implements, "Runnable")
			if rapid.Bool().Draw(t, "implements2") {
				decl += ", Cloneable"
				truth.Implements = append(truth.Implements, "Cloneable")
			}
		}
	}
	w.S(decl)
	if rapid.IntRange(0, 5).Draw(t, "braceOnNextLine") == 0 {
		w.S("\n{\n")
	} else {
		w.S(" {\n")
	}
	// fields
	if s.kind == "Class" {
		for _, c := range chosen {
			if c == superIdx && rapid.Bool().Draw(t, "skipSuperField") {
				continue
			}
			name := u.fieldName()
			u.fields = append(u.fields, varInfo{name: name, kind: "field", typ: g.sigs[c].name, cls: c})
			u.used[g.sigs[c].name] = true
			mod := rapid.SampledFrom([]string{"private ", "private final ", "", "protected "}).Draw(t, "fieldMod")
			init := ""
			if strings.Contains(mod, "final") || rapid.IntRange(0, 3).Draw(t, "fieldInit") == 0 {
				init = " = new " + g.sigs[c].name + "()"
			}
			moreFields := u.classFieldLine(mod, c, name, init)
			truth.Fields = append(truth.Fields, Param{g.sigs[c].name, name})
			truth.Fields = append(truth.Fields, moreFields...)
		}
		u.ownTypeField()
		nf := rapid.IntRange(0, 3).Draw(t, "nPlainFields")
		for k := 0; k < nf; k++ {
			name := u.fieldName()
			typ, usedNames := g.plainType(exts, typeParam)
			for _, un := range usedNames {
				u.used[un] = true
			}
			vi := varInfo{name: name, kind: "field", typ: strings.ReplaceAll(typ, " ", ""), cls: -1}
			for _, xi := range exts {
				if typ == externals[xi].simple {
					vi.ext, vi.extI = true, xi
				}
			}
			u.fields = append(u.fields, vi)
			mod := rapid.SampledFrom([]string{"private ", "public static final ", "", "private volatile "}).Draw(t, "fieldMod")
			if g.o.RichDecl && rapid.IntRange(0, 4).Draw(t, "fieldAnn") == 0 {
				w.S(u.indent + rapid.SampledFrom([]string{"@Deprecated", "@SuppressWarnings(\"unused\")", "@Column(name = \"c\", length = 10)"}).Draw(t, "fieldAnnText") + "\n")
			}
			init := ""
			if strings.Contains(mod, "final") {
				init = " = " + defaultValue(typ)
			}
			if g.o.LongLines && typ == "String" && rapid.IntRange(0, 3).Draw(t, "longLiteral") == 3 {
				// an embedded query / document / key as one long string literal
				init = " = \"" + g.padText("literal") + "\""
				u.feature("long_literal")
			}
			w.S(u.indent + mod + typ + " " + name + init + ";\n")
			truth.Fields = append(truth.Fields, Param{vi.typ, name})
		}
		if len(u.fields) > 0 {
			w.S("\n")
		}
	}
	if s.kind == "Interface" && g.o.RichDecl && rapid.IntRange(0, 2).Draw(t, "ifaceConst") == 0 {
		name := u.fieldName()
		w.S(u.indent + "int " + strings.ToUpper(name) + " = 3;\n")
		if rapid.Bool().Draw(t, "ifaceConst2") {
			w.S(u.indent + "public static final String " + strings.ToUpper(u.fieldName()) + " = \"" + g.comment("const") + "\";\n")
		}
	}
	// members
	nCtor := 0
	if s.kind == "Class" && !g.o.NoCtors {
		nCtor = rapid.IntRange(0, 2).Draw(t, "nCtors")
	}
	type member struct {
		ctor bool
		idx  int
	}
	var members []member
	for k := 0; k < nCtor; k++ {
		members = append(members, member{ctor: true, idx: k})
	}
	for k := range s.methods {
		members = append(members, member{idx: k})
	}
	if len(members) > 1 && rapid.IntRange(0, 2).Draw(t, "shuffleMembers") == 0 {
		members = rapid.Permutation(members).Draw(t, "memberOrder")
	}
	for mi, m := range members {
		// compact layout: the member starts on the line the previous one ends on
		sameLine := mi > 0 && rapid.IntRange(0, 7).Draw(t, "memberOnSameLine") == 0
		if mi > 0 && !sameLine {
			w.S("\n")
			if rapid.IntRange(0, 2).Draw(t, "blankBetweenMembers") > 0 {
				w.S("\n")
			}
			if rapid.IntRange(0, 5).Draw(t, "memberComment") == 0 {
				w.S(u.indent + w.LineComment(g.comment("member")) + "\n")
			}
		}
		flatMember := false
		if g.o.LongLines && !w.Flat() {
			if rapid.IntRange(0, 24).Draw(t, "longMemberComment") == 24 {
				// a long block comment in front of the member, on its line
				if !sameLine {
					w.S(u.indent)
				}
				w.S("/* " + g.padText("member") + " */")
				sameLine = true
				u.feature("long_comment")
			}
			if rapid.IntRange(0, 15).Draw(t, "flatMember") == 15 {
				// the whole member, annotations and body included, on one physical line
				flatMember = true
				w.SetFlat(true)
				u.feature("flat_member")
			}
		}
		u.sameLine = sameLine
		if m.ctor {
			u.ctor(m.idx, exts, typeParam)
		} else {
			u.method(s.methods[m.idx], exts, typeParam)
		}
		w.S(u.afterMember("semicolonAfterMember"))
		if flatMember {
			w.SetFlat(false)
		}
	}
	if len(members) > 0 {
		w.S("\n")
	}
	if s.kind == "Class" && (len(usage) > 0 || usageAnn != "" || usageThrows != "") {
		w.S("\n")
		if usageAnn != "" {
			w.S(u.indent + "@" + usageAnn + "\n")
		}
		w.S(u.indent)
		name := g.names.Method(t)
		ft := FuncTruth{Name: name, ReturnType: "void", DeclLine: w.Line()}
		w.S("void ")
		ft.NameLine, ft.NameCol = w.Line(), w.Col()
		w.S(name + "()")
		if usageThrows != "" {
			w.S(" throws " + usageThrows)
		}
		w.S(" {\n")
		for _, st := range usage {
			w.S(u.indent + u.indent + st + "\n")
		}
		w.S(u.indent + "}")
		ft.EndLine = w.Line()
		w.S("\n")
		ft.Events = nil
		truth.Funcs = append(truth.Funcs, ft)
		truth.Features = append(truth.Features, "usage_method")
	} else if s.kind == "Interface" {
		// nothing in an interface uses the extra imports: they are unused after all
		for k := range imps {
			if imps[k].verdict == "keep" && strings.HasPrefix(imps[k].why, "used") {
				for j := range truth.Imports {
					if truth.Imports[j].Text == imps[k].text {
						truth.Imports[j].Verdict, truth.Imports[j].Why = "delete", "unused in an interface"
						if imps[k].static {
							truth.Imports[j].Verdict = "free"
						}
					}
				}
			}
		}
	}
	if s.kind == "Class" && len(chosen) > 0 && rapid.IntRange(0, 2).Draw(t, "trailingField") == 0 {
		// a field declared after the members; its initializer belongs to no function
		c := chosen[0]
		name := u.fieldName()
		w.S("\n" + u.indent + "private " + g.sigs[c].name + " " + name + " = new " + g.sigs[c].name + "();\n")
		truth.Fields = append(truth.Fields, Param{g.sigs[c].name, name})
		u.used[g.sigs[c].name] = true
	}
	w.S("}" + u.afterMember("semicolonAfterType") + "\n")
	if rapid.IntRange(0, 4).Draw(t, "noFinalNewline") == 0 {
		// drop the final newline
		text := w.String()
		text = text[:len(text)-1]
		u.finishImports()
		return text, truth
	}
	u.finishImports()
	return w.String(), truth
}

// finishImports gives every ordinary import its verdict from the recorded uses.
func (u *unitCtx) finishImports() {
	for k := range u.truth.Imports {
		im := &u.truth.Imports[k]
		if im.Verdict != "" {
			continue
		}
		simple := im.Text[strings.LastIndex(im.Text, ".")+1:]
		if u.used[simple] {
			im.Verdict, im.Why = "keep", "used"
		} else {
			im.Verdict, im.Why = "delete", "imported but never referenced"
		}
	}
}

func contains(list []int, x int) bool {
	for _, v := range list {
		if v == x {
			return true
		}
	}
	return false
}

func defaultValue(typ string) string {
	switch {
	case typ == "int" || typ == "long":
		return "0"
	case typ == "boolean":
		return "false"
	case typ == "String":
		return "\"\""
	default:
		return "null"
	}
}

func (u *unitCtx) fieldName() string {
	name := u.g.varName("field")
	for {
		clash := false
		for _, f := range u.fields {
			if f.name == name {
				clash = true
			}
		}
		if !clash {
			return name
		}
		name = u.g.names.Var(u.g.t)
	}
}

func (g *gen) varName(kind string) string {
	if (g.o.NameReuse || g.o.ScopedReuse) && rapid.IntRange(0, 1).Draw(g.t, "reuseName") == 0 {
		return rapid.SampledFrom(g.reuse).Draw(g.t, "reusedName")
	}
	return g.names.Var(g.t)
}

// plainType draws a type that is not a project class; returns the text and the simple
// names of imported types it mentions.
func (g *gen) plainType(exts []int, typeParam string) (string, []string) {
	t := g.t
	if g.o.RichDecl && rapid.IntRange(0, 7).Draw(t, "richType") == 0 {
		switch rapid.IntRange(0, 3).Draw(t, "richTypeKind") {
		case 0:
			if contains(exts, 0) && contains(exts, 1) {
				return "Map<String, List<Integer>>", []string{"Map", "List"}
			}
		case 1:
			return "int[][]", nil
		case 2:
			if contains(exts, 0) {
				return "List<String>[]", []string{"List"}
			}
		default:
			return "java.util.Set<String>", nil
		}
	}
	k := rapid.IntRange(0, 12).Draw(t, "plainType")
	switch {
	case k <= 1:
		return "int", nil
	case k == 2:
		return "String", nil
	case k == 3:
		return "boolean", nil
	case k == 4:
		return "int[]", nil
	case k == 5:
		return "String[]", nil
	case k == 6 && contains(exts, 0):
		return "List<String>", []string{"List"}
	case k == 7 && contains(exts, 1):
		return "Map<String, Integer>", []string{"Map"}
	case k == 8 && typeParam != "":
		return typeParam, nil
	case k == 9 && contains(exts, 4):
		return "Optional<String>", []string{"Optional"}
	case k == 10 && contains(exts, 3):
		return "ArrayList", []string{"ArrayList"}
	case k == 11 && contains(exts, 2):
		return "IOException", []string{"IOException"}
	case k == 12 && contains(exts, 4):
		return "Optional", []string{"Optional"}
	}
	return "long", nil
}

// padChunks are repeated to make the long comments and string literals of Opts.LongLines: no quotes,
// backslashes, line ends or comment ends.
var padChunks = []string{"x", "lorem ipsum ", "SELECT a, b FROM t WHERE a = 1 AND ", "0123456789abcdef", "m1(); int k = 2; ", "données ", "日本語"}

// padText draws a text of 500..6000 bytes, rarely of 60000..70000 (longer than the 64 KiB token limit of
// line scanners) and now and then of 1.1 million: one chunk repeated, so that it costs few draws and shrinks well.
func (g *gen) padText(label string) string {
	t := g.t
	n := 0
	if rapid.IntRange(0, 19).Draw(t, label+"PadHuge") == 19 {
		n = rapid.IntRange(60000, 70000).Draw(t, label+"PadHugeLen")
		if rapid.IntRange(0, 5).Draw(t, label+"PadMebibyte") == 5 {
			n = 1100000 // past the mebibyte a line reader with an enlarged buffer takes
		}
	} else {
		n = rapid.IntRange(500, 6000).Draw(t, label+"PadLen")
	}
	chunks := padChunks
	if !g.o.MultiByte {
		chunks = chunks[:5]
	}
	chunk := rapid.SampledFrom(chunks).Draw(t, label+"PadChunk")
	return strings.TrimRight(strings.Repeat(chunk, n/len(chunk)+1), " ")
}

func (g *gen) comment(label string) string {
	t := g.t
	if g.o.MultiByte && rapid.IntRange(0, 2).Draw(t, label+"MB") == 0 {
		return rapid.SampledFrom([]string{"注释 comment", "héllo wörld", "→ see ☂ below", "данные"}).Draw(t, label+"MBText")
	}
	if rapid.IntRange(0, 5).Draw(t, label+"Decoy") == 0 {
		if name := g.anyMethodName(); name != "" {
			return "see " + name + "(1)"
		}
	}
	return rapid.SampledFrom([]string{"plain remark", "x.call() is not a call", "new Foo() in a comment", "import nothing.here;", "42"}).Draw(t, label+"Text")
}

// annotation draws a class-level annotation and its expected model form.
func (g *gen) annotation() (Ann, string) {
	t := g.t
	if g.o.DeclForms {
		if a, text, ok := g.annotationMore(); ok {
			return a, text
		}
	}
	switch rapid.IntRange(0, 5).Draw(t, "annForm") {
	case 0:
		return Ann{Name: "Deprecated"}, "@Deprecated"
	case 1:
		return Ann{Name: "SuppressWarnings", KV: [][2]string{{"\"unchecked\"", "\"unchecked\""}}}, "@SuppressWarnings(\"unchecked\")"
	case 2:
		return Ann{Name: "Entity", KV: [][2]string{{"name", "\"t_x\""}, {"version", "2"}}}, "@Entity(name = \"t_x\", version = 2)"
	case 3:
		return Ann{Name: "Table", KV: [][2]string{{"indexes", "{\"a\",\"b\"}"}}}, "@Table(indexes = {\"a\", \"b\"})"
	case 4:
		return Ann{Name: "org.demo.Marker"}, "@org.demo.Marker"
	default:
		return Ann{Name: "Scope", KV: [][2]string{{"Level.HIGH", "Level.HIGH"}}}, "@Scope(Level.HIGH)"
	}
}
