package jgen

import (
	"strings"

	"pgregory.net/rapid"
)

// Opts.NamesakeImports (with Opts.TwinNames and Opts.WildcardProjectImports; everything in this file is
// reached only through that option, which defaults to off): a simple name that several classes of the
// project bear, met in a file whose imports mention a namesake.
//
// What a simple class name N means in a file of package P (JLS 6.4.1, 7.5): the class the file declares,
// if that is N; else the class of a single-type import `import x.N;`; else the class P.N of the own
// package; else the class q.N of a package imported on demand (`import q.*;`) - if two such packages hold
// an N, the name is ambiguous and the file does not compile. The generator writes only names that mean
// exactly one class by these rules:
//
//   - the class itself, or a class of the own package, next to on-demand imports of packages that hold a
//     namesake (any number of them: the own declaration hides them all)
//   - a class imported by a single-type import where the own package holds a namesake (the import hides
//     it), or where packages imported on demand hold namesakes (the import hides them)
//   - a class reached through an on-demand import only, whose namesakes live in packages the file does
//     not import on demand (and not in the own package)
//
// Never written: a name held by two packages imported on demand that neither the own package nor a
// single-type import decides.

// namesakeBoost may give the class being drawn (the classes before it are g.sigs) the simple name of an
// earlier class of another package, so that namesakes are not as rare as Opts.TwinNames alone makes them.
func (g *gen) namesakeBoost(s *classSig, layout string) {
	t := g.t
	if len(g.sigs) == 0 || rapid.IntRange(0, 2).Draw(t, "namesake") != 2 {
		return
	}
	other := g.sigs[rapid.IntRange(0, len(g.sigs)-1).Draw(t, "namesakeOf")]
	// (another package is another directory: not in the flat layout)
	if other.role != "main" || layout == "flat" || other.pkg == s.pkg {
		return
	}
	for _, x := range g.sigs {
		if x.pkg == s.pkg && (x.base == other.name || x.name == other.name) {
			return
		}
	}
	s.name = other.name
}

// namesakeReferrers makes, now and then, a further class refer to one of two namesakes, wherever it lives:
// in the package of the one it refers to (the name means the package mate), in the package of the other
// one (the name means the imported class, the single-type import hides the package mate), or in a third
// package (single-type or on-demand import).
func (g *gen) namesakeReferrers(pkgs []string, layout string) {
	t := g.t
	referredTo := map[int]bool{}
	for _, v := range g.mustRef {
		referredTo[v] = true
	}
	for i := range g.sigs {
		for j := 0; j < i; j++ {
			a, b := g.sigs[i], g.sigs[j]
			if a.name != b.name || a.pkg == b.pkg || a.role != "main" || b.role != "main" {
				continue
			}
			for r, x := range g.sigs {
				if r == i || r == j || x.name == a.name || x.role != "main" {
					continue
				}
				if _, taken := g.mustRef[r]; taken {
					continue
				}
				if _, taken := g.prefer[r][a.name]; taken {
					continue
				}
				k := rapid.IntRange(0, 2).Draw(t, "namesakeReferrer")
				if k == 0 {
					continue
				}
				target := []int{j, i}[k-1]
				if g.sigs[target].pkg == x.pkg && pbtExcluded("same_package_reference_with_namesake_in_other_package") {
					continue
				}
				if g.prefer == nil {
					g.prefer = map[int]map[string]int{}
				}
				if g.prefer[r] == nil {
					g.prefer[r] = map[string]int{}
				}
				g.prefer[r][a.name] = target
				if x.pkg == a.pkg || x.pkg == b.pkg {
					g.moveElsewhere(r, []string{a.pkg, b.pkg}, pkgs, layout, referredTo)
				}
				if g.mustRef == nil {
					g.mustRef = map[int]int{}
				}
				g.mustRef[r] = target
			}
		}
	}
}

// moveElsewhere may put class r, which lives in one of the packages `not`, into a third package of the
// project: only a class that nothing ties to its package (no namesake, no namesake in another case, no
// class made to refer to it) and only in the nested layout, where the path is the package.
func (g *gen) moveElsewhere(r int, not, pkgs []string, layout string, referredTo map[int]bool) {
	x := &g.sigs[r]
	if layout != "nested" || referredTo[r] || x.path != strings.ReplaceAll(x.pkg, ".", "/")+"/"+x.name+".java" {
		return
	}
	for k, y := range g.sigs {
		if k != r && strings.EqualFold(y.name, x.name) {
			return
		}
	}
	var third []string
	for _, p := range pkgs {
		if !containsStr(not, p) && !containsStr(third, p) {
			third = append(third, p)
		}
	}
	if len(third) == 0 || !rapid.Bool().Draw(g.t, "namesakeReferrerElsewhere") {
		return
	}
	x.pkg = rapid.SampledFrom(third).Draw(g.t, "namesakeReferrerPkg")
	x.path = strings.ReplaceAll(x.pkg, ".", "/") + "/" + x.name + ".java"
}

func containsStr(list []string, s string) bool {
	for _, v := range list {
		if v == s {
			return true
		}
	}
	return false
}

// namesakeState is what a unit notes about its on-demand imports.
type namesakeState struct {
	onDemand    map[string]bool   // project packages the unit imports on demand
	viaOnDemand map[string]string // simple name -> package, for the classes the unit reaches through an on-demand import only
}

// classIn reports whether package pkg holds a class of the simple name.
func (g *gen) classIn(pkg, name string) bool {
	for _, x := range g.sigs {
		if x.pkg == pkg && x.name == name {
			return true
		}
	}
	return false
}

// mayImportOnDemand reports whether an on-demand import of pkg leaves every name that the unit reaches
// through an on-demand import only with one meaning.
func (u *unitCtx) mayImportOnDemand(pkg string) bool {
	for name, from := range u.ns.viaOnDemand {
		if from != pkg && u.g.classIn(pkg, name) {
			return false
		}
	}
	return true
}

// onDemandForm decides how class c of another package, for which import form 1 (on-demand import of its
// package only) or 2 (on-demand next to the single-type import) has been drawn, is imported after all: the
// drawn form where the name of c then means c and no other name of the unit becomes ambiguous, else 0 (the
// single-type import alone). It notes the on-demand import.
func (u *unitCtx) onDemandForm(c int, form int) int {
	g := u.g
	pkg, name := g.sigs[c].pkg, g.sigs[c].name
	if !u.mayImportOnDemand(pkg) {
		return 0
	}
	if form == 1 {
		// nothing else may decide the name, and no second package imported on demand may hold it
		if g.classIn(u.sig.pkg, name) || name == u.sig.name {
			return 0
		}
		for p := range u.ns.onDemand {
			if p != pkg && g.classIn(p, name) {
				return 0
			}
		}
	}
	if u.ns.onDemand == nil {
		u.ns.onDemand, u.ns.viaOnDemand = map[string]bool{}, map[string]string{}
	}
	u.ns.onDemand[pkg] = true
	if form == 1 {
		u.ns.viaOnDemand[name] = pkg
		if g.hasNamesake(c) {
			u.feature("on_demand_only_class_with_namesake_elsewhere")
		}
	}
	return form
}

// namesakeOnDemandImports draws the further on-demand imports of the unit: of packages that hold a
// namesake (or a namesake but for the case of its letters) of the class itself, of a chosen class of the
// own package or of a chosen class imported by a single-type import. Such an import changes the meaning of
// no name in the unit.
func (u *unitCtx) namesakeOnDemandImports(chosen []int) []string {
	g, t := u.g, u.g.t
	type meant struct{ name, pkg string }
	decided := []meant{{u.sig.name, u.sig.pkg}}
	for _, c := range chosen {
		x := g.sigs[c]
		if x.pkg == u.sig.pkg || u.imports[x.full()] {
			decided = append(decided, meant{x.name, x.pkg})
		}
	}
	var out []string
	for _, m := range decided {
		for _, x := range g.sigs {
			if !strings.EqualFold(x.name, m.name) || x.pkg == u.sig.pkg || x.pkg == m.pkg || u.ns.onDemand[x.pkg] {
				continue
			}
			if !u.mayImportOnDemand(x.pkg) {
				continue
			}
			if rapid.IntRange(0, 2).Draw(t, "namesakeOnDemand") == 0 {
				continue
			}
			if u.ns.onDemand == nil {
				u.ns.onDemand, u.ns.viaOnDemand = map[string]bool{}, map[string]string{}
			}
			u.ns.onDemand[x.pkg] = true
			out = append(out, x.pkg)
			u.feature("on_demand_import_of_a_package_with_a_namesake")
		}
	}
	return out
}

// namesakeStaticImports draws the further static imports of the unit, called after staticImports: the
// static members of a class that bears the simple name of the class itself, of a chosen class of the own
// package or of a chosen class imported by a single-type import, imported on demand
// (`import static other.N.*;`). Such an import brings methods into scope, not the class: the simple name
// means what it meant. The unit calls none of these methods; a class one of whose static methods is named
// like a statically imported method the unit does call is left alone (that call would become ambiguous).
func (u *unitCtx) namesakeStaticImports(chosen []int) []string {
	g, t := u.g, u.g.t
	type meant struct{ name, pkg string }
	decided := []meant{{u.sig.name, u.sig.pkg}}
	for _, c := range chosen {
		x := g.sigs[c]
		if x.pkg == u.sig.pkg || u.imports[x.full()] {
			decided = append(decided, meant{x.name, x.pkg})
		}
	}
	called := map[string]bool{}
	for _, f := range u.foreign {
		if f.recv == "staticimport" {
			called[f.name] = true
		}
	}
	var out []string
	for _, m := range decided {
		for _, x := range g.sigs {
			if x.name != m.name || x.pkg == m.pkg || x.kind != "Class" || x.role != "main" || containsStr(out, x.full()) {
				continue
			}
			clash := false
			for _, ms := range x.methods {
				if ms.static && called[ms.name] {
					clash = true
				}
			}
			if clash || rapid.IntRange(0, 2).Draw(t, "namesakeStaticImport") != 2 {
				continue
			}
			out = append(out, x.full())
			u.feature("static_import_on_demand_of_a_namesake")
		}
	}
	return out
}

// ---------------------------------------------------------------------------------------
// Opts.CallsAfterScopes: a statement that opens and closes scopes of its own (loop, branch, switch, try,
// synchronized) is followed, now and then, by a call on a local variable of class type that was declared
// before it - the variable is still in sight and still has its declared type.

func (u *unitCtx) callAfterScope(level int) {
	if !u.g.o.CallsAfterScopes || u.budget <= 0 {
		return
	}
	if rapid.IntRange(0, 3).Draw(u.g.t, "callAfterScope") != 3 {
		return
	}
	v, ok := u.anyVar(func(v varInfo) bool { return (v.cls >= 0 || v.ext) && v.kind == "local" && v.decl == "" })
	if !ok {
		return
	}
	u.budget--
	u.w.S("\n" + u.ind(level))
	u.callOn(level, 2, v)
	u.feature("call_on_earlier_local_right_after_scoped_statement")
}
