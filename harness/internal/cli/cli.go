// Package cli runs the coca binaries that bin/check builds from /repo's working tree
// (settings.json "cli": ["coca", "coca_dep", "coca_go", "coca_py"]) as sub-processes,
// and offers scratch-directory helpers.
package cli

import (
	"bytes"
	"context"
	"fmt"
	"os"
	"os/exec"
	"path/filepath"
	"time"
)

// Result of one CLI invocation.
type Result struct {
	Stdout   string
	Stderr   string
	ExitCode int
	TimedOut bool
}

// Run executes the named binary (coca, coca_dep, coca_go, coca_py) with cwd as working
// directory. Reports land in cwd/coca_reporter. extraEnv entries are "K=V".
func Run(name string, cwd string, extraEnv []string, args ...string) (Result, error) {
	bin := os.Getenv("VERIF_" + upper(name))
	if bin == "" {
		return Result{}, fmt.Errorf("binary %s not built: add it to settings.json \"cli\"", name)
	}
	ctx, cancel := context.WithTimeout(context.Background(), 120*time.Second)
	defer cancel()
	cmd := exec.CommandContext(ctx, bin, args...)
	cmd.Dir = cwd
	cmd.Env = append(os.Environ(), extraEnv...)
	var so, se bytes.Buffer
	cmd.Stdout, cmd.Stderr = &so, &se
	err := cmd.Run()
	res := Result{Stdout: so.String(), Stderr: se.String()}
	if ctx.Err() != nil {
		res.TimedOut = true
		return res, nil
	}
	if ee, ok := err.(*exec.ExitError); ok {
		res.ExitCode = ee.ExitCode()
		return res, nil
	}
	return res, err
}

func upper(s string) string {
	b := []byte(s)
	for i, c := range b {
		if c >= 'a' && c <= 'z' {
			b[i] = c - 32
		}
	}
	return string(b)
}

// Scratch makes a fresh directory under $VERIF_SCRATCH (or the system temp dir); the
// caller removes it with os.RemoveAll when the case is done.
func Scratch(prefix string) string {
	base := os.Getenv("VERIF_SCRATCH")
	if base == "" {
		base = os.TempDir()
	}
	dir, err := os.MkdirTemp(base, prefix)
	if err != nil {
		panic(err)
	}
	return dir
}

// WriteTree writes files (relative path -> content) below root, creating directories.
func WriteTree(root string, files map[string]string) {
	for rel, content := range files {
		p := filepath.Join(root, filepath.FromSlash(rel))
		if err := os.MkdirAll(filepath.Dir(p), 0755); err != nil {
			panic(err)
		}
		if err := os.WriteFile(p, []byte(content), 0644); err != nil {
			panic(err)
		}
	}
}
