// Package jany holds the `anyjava` sub-checks of C01 and C02: the model of Java files that no generator of
// this harness wrote (the ~140 .java fixtures of the repository, rewritten token by token) and of jgen
// projects with every body shape switched on, judged against the hand-written reference reader jref instead
// of a generator's ground truth. Only units inside the quantifier are judged (one top-level class or
// interface, no named type inside it); clauses a file leaves open are skipped and counted.
package jany

import (
	"fmt"
	"os"
	"path/filepath"
	"sort"
	"strings"

	"github.com/modernizing/coca/pkg/application/analysis/javaapp"
	"github.com/modernizing/coca/pkg/domain/core_domain"
	"github.com/modernizing/coca/pkg/infrastructure/ast/ast_java"
	"github.com/modernizing/coca/pkg/infrastructure/ast/ast_java/java_identify"
	"pgregory.net/rapid"

	"verif/internal/cli"
	"verif/internal/jgen"
	"verif/internal/jgram"
	"verif/internal/jref"
	"verif/internal/jrw"
	"verif/internal/pbt"
)

// File is one file of the analysed directory.
type File struct {
	Path  string `json:"path"`
	Text  string `json:"text"`
	Other bool   `json:"other,omitempty"` // a file the tool leaves out (test file, ignored file): never judged
}

// Case is a directory of Java files.
type Case struct {
	Source string   `json:"source"`        // fixture path relative to the repository, or "jgen"
	Ops    []string `json:"ops,omitempty"` // rewrites applied
	Files  []File   `json:"files"`
}

func repoDir() string {
	if r := os.Getenv("VERIF_REPO"); r != "" {
		return r
	}
	return "/repo"
}

var fixtureList []string

// Fixtures lists the .java files of the repository (relative paths).
func Fixtures() []string {
	if fixtureList != nil {
		return fixtureList
	}
	for _, sub := range []string{"_fixtures", "languages"} {
		_ = filepath.Walk(filepath.Join(repoDir(), sub), func(path string, fi os.FileInfo, err error) error {
			if err == nil && fi.Mode().IsRegular() && strings.HasSuffix(path, ".java") {
				rel, _ := filepath.Rel(repoDir(), path)
				fixtureList = append(fixtureList, rel)
			}
			return nil
		})
	}
	sort.Strings(fixtureList)
	if len(fixtureList) == 0 {
		panic("jany: no .java fixtures under " + repoDir())
	}
	return fixtureList
}

// conventionalFixtures: the fixtures inside the quantifier (computed once).
var convFixtures []string

func conventionalFixtures() []string {
	if convFixtures != nil {
		return convFixtures
	}
	for _, rel := range Fixtures() {
		data, err := os.ReadFile(filepath.Join(repoDir(), rel))
		if err != nil {
			continue
		}
		if jref.Parse(string(data)).Conventional() {
			convFixtures = append(convFixtures, rel)
		}
	}
	if len(convFixtures) == 0 {
		panic("jany: no conventional fixture")
	}
	return convFixtures
}

func widened() jgen.Opts {
	o := jgen.Opts{Bodies: true, MultiByte: true, Interfaces: true, MaxUnits: 3, MaxMethods: 4, Anon: true, Wide: true, RichDecl: true, Loops: true, SharedMethodNames: true, UnqualifiedForeign: true}
	o.ExoticNames, o.WildcardProjectImports, o.TwinNames, o.TwinReferrers = true, true, true, true
	o.AnonBodies, o.AssignedCreations, o.CaseTwinNames, o.ScopeEnds, o.CallLayout, o.OwnTypeVars, o.ReturnCalls, o.FieldForms, o.InterfaceBodies, o.FieldChainCalls = true, true, true, true, true, true, true, true, true, true
	o.NamesakeImports = true
	o.CallsAfterScopes = true
	return o
}

// Gen draws a case: two in five a fixture with 0-3 rewrites, one in five a jgen project, two in five a unit of
// the grammar-directed generator internal/jgram (the one of C09), about half of which lie inside the quantifier.
func Gen(t *rapid.T) Case {
	src := rapid.IntRange(0, 4).Draw(t, "source")
	if src >= 3 {
		u := jgram.Gen(t)
		return Case{Source: "jgram", Files: []File{{Path: "Unit.java", Text: u.Text}}}
	}
	if src == 2 {
		p := jgen.GenProject(t, widened())
		c := Case{Source: "jgen"}
		main := map[string]bool{}
		for _, u := range p.Units {
			main[u.Path] = u.Role == "main"
		}
		for _, f := range p.Files {
			c.Files = append(c.Files, File{Path: f.Path, Text: f.Text, Other: !main[f.Path]})
		}
		return c
	}
	list := conventionalFixtures()
	rel := list[rapid.IntRange(0, len(list)-1).Draw(t, "file")]
	data, err := os.ReadFile(filepath.Join(repoDir(), rel))
	if err != nil {
		panic(err)
	}
	text := string(data)
	c := Case{Source: rel}
	n := rapid.IntRange(0, 3).Draw(t, "nOps")
	for i := 0; i < n; i++ {
		op := rapid.SampledFrom(jrw.Ops).Draw(t, "op")
		text = jrw.Rewrite(t, op, text)
		c.Ops = append(c.Ops, op)
	}
	// a second fixture may share the directory (its model must not disturb the first one's)
	c.Files = []File{{Path: "Unit.java", Text: text}}
	if rapid.IntRange(0, 3).Draw(t, "neighbour") == 0 {
		other := list[rapid.IntRange(0, len(list)-1).Draw(t, "file2")]
		if data, err := os.ReadFile(filepath.Join(repoDir(), other)); err == nil {
			c.Files = append(c.Files, File{Path: "sub/Other.java", Text: string(data)})
			c.Source += " + " + other
		}
	}
	return c
}

func reset() {
	ast_java.VerifResetAstJava()
	java_identify.VerifResetJavaIdentify()
}

type parsed struct {
	f File
	u jref.Unit
}

// Check analyses the directory once (identifier pass, then full pass) and judges declarations (C01) or
// call sites (C02) of every conventional unit.
func Check(c Case, calls bool) pbt.Verdict {
	var units []parsed
	seen := map[string]int{}
	for _, f := range c.Files {
		if !strings.HasSuffix(f.Path, ".java") {
			continue
		}
		u := jref.Parse(f.Text)
		if u.Errors > 0 {
			if f.Other {
				continue
			}
			return pbt.Verdict{Skip: true} // a rewrite the shipped parser rejects
		}
		units = append(units, parsed{f, u})
		for _, t := range u.Types {
			seen[u.Pkg+"."+t.Name]++
		}
	}
	dir := cli.Scratch("jany-")
	defer os.RemoveAll(dir)
	proj := filepath.Join(dir, "proj")
	files := map[string]string{}
	for _, f := range c.Files {
		files[f.Path] = f.Text
	}
	cli.WriteTree(proj, files)
	reset()
	skipped := map[string]int{}
	var ident, full []core_domain.CodeDataStruct
	if p := pbt.Call(func() { app := javaapp.NewJavaIdentifierApp(); ident = app.AnalysisPath(proj) }); p != "" {
		return pbt.Fail("identifier pass panicked: %s", p)
	}
	if p := pbt.Call(func() { app := javaapp.NewJavaFullApp(); full = app.AnalysisPath(proj, ident) }); p != "" {
		return pbt.Fail("full pass panicked: %s", p)
	}
	v := pbt.Verdict{}
	judged, nfuncs, ncalls := 0, 0, 0
	for _, pu := range units {
		if !pu.u.Conventional() {
			skipped["unit.outsideQuantifier"]++
			continue
		}
		if pu.f.Other || isTestOrIgnored(pu.f.Path) {
			skipped["unit.testFile"]++
			continue
		}
		t := pu.u.Types[0]
		if seen[pu.u.Pkg+"."+t.Name] > 1 {
			skipped["unit.nameDeclaredTwiceInDirectory"]++
			continue
		}
		judged++
		nfuncs += len(t.Funcs)
		tail := func(msg string) pbt.Verdict {
			return pbt.Fail("%s\n--- %s (%s %v) ---\n%s", msg, pu.f.Path, c.Source, c.Ops, pu.f.Text)
		}
		if !calls {
			if msg := jref.JudgeDecls(ident, pu.u, "identifier", skipped); msg != "" {
				return tail(msg)
			}
			if msg := jref.JudgeDecls(full, pu.u, "full", skipped); msg != "" {
				return tail(msg)
			}
		} else {
			if msg := jref.JudgeCalls(full, pu.u, pu.f.Text, skipped); msg != "" {
				return tail(msg)
			}
			for _, f := range t.Funcs {
				ncalls += len(jref.Calls(f.Body))
			}
		}
		v.Classes = append(v.Classes, "any.kind."+t.Kind)
		if t.NestedTypes > 0 {
			v.Classes = append(v.Classes, "any.anonymousClassInside")
		}
	}
	if judged == 0 {
		return pbt.Verdict{Skip: true}
	}
	if c.Source == "jgen" || c.Source == "jgram" {
		v.Classes = append(v.Classes, "any.source."+c.Source)
	} else {
		v.Classes = append(v.Classes, "any.source.fixture")
		for _, op := range c.Ops {
			v.Classes = append(v.Classes, "any.op."+op)
		}
		if len(c.Files) > 1 {
			v.Classes = append(v.Classes, "any.twoFixturesInOneDirectory")
		}
	}
	for k := range skipped {
		v.Classes = append(v.Classes, "any.skip."+k)
	}
	sort.Strings(v.Classes)
	if calls {
		v.NonTrivial = ncalls >= 3
	} else {
		v.NonTrivial = nfuncs >= 2
	}
	v.Canon = fmt.Sprintf("%s|%v|%d", c.Source, c.Ops, len(c.Files)) + "|" + hashTexts(c.Files)
	return v
}

func hashTexts(fs []File) string {
	h := uint64(1469598103934665603)
	for _, f := range fs {
		for i := 0; i < len(f.Text); i++ {
			h = (h ^ uint64(f.Text[i])) * 1099511628211
		}
	}
	return fmt.Sprintf("%x", h)
}

// isTestOrIgnored: names the tool (rightly) leaves out; jgen projects hold such files.
func isTestOrIgnored(path string) bool {
	base := filepath.Base(path)
	return strings.HasSuffix(base, "Test.java") || strings.HasSuffix(base, "Tests.java") || strings.Contains(filepath.ToSlash(path), "/test/") || strings.HasPrefix(filepath.ToSlash(path), "test/")
}

// Rule is the text both sub-checks add to their evidence rule.
const Rule = "sub-check anyjava (two cases in five draw from the grammar-directed generator internal/jgram of C09 and judge the units inside the quantifier, about half of them; the others:) directories holding one repository .java fixture inside the quantifier (one top-level class or interface, no named type inside it; 129 of the 142 fixtures), rewritten 0-3 times token by token (re-indentation, inserted comments, consistent renaming of identifiers incl. non-ASCII and boundary names, blank lines, CR / CR LF line ends, other blanks, edges of the file), one case in four with a second fixture in a sub-directory; one case in four a jgen project with every body shape on (anonymous classes, lambdas, loops, scopes). Oracle: the reference reader internal/jref, which walks the shipped grammar's parse tree by hand (direct member functions with name, return type, constructor flag and (type, name) parameters; invocations and creations of each body in source order with the position of the callee identifier); judged clauses: exactly one entry per top-level type with its kind, per function name that no anonymous class re-declares exactly the declared functions (both passes; parameters in the full pass), no function entry whose name nothing in the type declares; for C02 the recorded calls of each function whose name is unique in the type equal the written ones in order, with positions selecting the callee identifier. Left open and skipped (counted as any.skip.*): varargs / receiver parameters / `String args[]`, this(...) / super(...) / qualified creations, method references and array creations (accepted recorded or not)."
