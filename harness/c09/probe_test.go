package c09

import (
	"fmt"
	"os"
	"strings"
	"testing"
)

// TestProbe is a hand tool: VERIF_PROBE=file[,file...] .build/c09.test -test.run TestProbe
// prints, for each file, what the shipped parser and the oracle say. With VERIF_PROBE_SPLIT
// set, every file is split at lines consisting of "====" into several units.
func TestProbe(t *testing.T) {
	list := os.Getenv("VERIF_PROBE")
	if list == "" {
		t.Skip("VERIF_PROBE not set")
	}
	for _, path := range strings.Split(list, ",") {
		data, err := os.ReadFile(path)
		if err != nil {
			t.Fatal(err)
		}
		units := []string{string(data)}
		if os.Getenv("VERIF_PROBE_SPLIT") != "" {
			units = strings.Split(string(data), "\n====\n")
		}
		for i, u := range units {
			n, first := syntaxErrors(u)
			if n > 0 {
				fmt.Printf("PROBE %s#%d: REJECTED (%d errors, first %s)\n    %s\n", path, i, n, first, strings.ReplaceAll(strings.TrimSpace(u), "\n", "\n    "))
				continue
			}
			if os.Getenv("VERIF_PROBE_PARSE_ONLY") != "" {
				fmt.Printf("PROBE %s#%d: accepted\n", path, i)
				continue
			}
			msg := judgeText(u)
			if msg == "" {
				fmt.Printf("PROBE %s#%d: accepted, all passes fine\n", path, i)
			} else {
				if len(msg) > 700 {
					msg = msg[:700]
				}
				fmt.Printf("PROBE %s#%d: accepted, VIOLATION %s\n    %s\n", path, i, msg, strings.ReplaceAll(strings.TrimSpace(u), "\n", "\n    "))
			}
		}
	}
}
