package c09

// Semantics-preserving rewrites of a Java text, driven by the shipped lexer's token stream:
// only WS tokens and IDENTIFIER tokens are touched; comments are inserted only into gaps
// that already hold white space (or at the beginning / end of the file).

import (
	"strings"
	"unicode"

	"github.com/antlr/antlr4/runtime/Go/antlr/v4"
	parser "github.com/modernizing/coca/languages/java"
	"pgregory.net/rapid"

	"verif/internal/jgram"
)

var rewriteOps = []string{"reindent", "comments", "rename", "blanklines", "crlf",
	// added by the checklist audit: more layouts of the same token sequence
	"whitespace", "edges", "cr",
	// seventh seed batch: one physical line longer than the 64 KiB a bufio.Scanner takes by default (a line
	// comment of 66-70 thousand characters put where a line ends)
	"longline"}

type tok struct {
	typ  int
	text string
}

// lexAll returns the full token sequence (hidden channel included); ok is false when the
// lexer reported errors or the tokens do not reproduce the text.
func lexAll(text string) ([]tok, bool) {
	ec := &errCounter{DefaultErrorListener: antlr.NewDefaultErrorListener()}
	lexer := parser.NewJavaLexer(antlr.NewInputStream(text))
	lexer.RemoveErrorListeners()
	lexer.AddErrorListener(ec)
	var out []tok
	var sb strings.Builder
	for _, t := range lexer.GetAllTokens() {
		out = append(out, tok{t.GetTokenType(), t.GetText()})
		sb.WriteString(t.GetText())
	}
	return out, ec.n == 0 && sb.String() == text
}

func join(toks []tok) string {
	var sb strings.Builder
	for _, t := range toks {
		sb.WriteString(t.text)
	}
	return sb.String()
}

var insertComments = []string{
	"/* c */", "//\n", "/**/", "// TODO: rewritten\n", "/* TODO */", "// FIXME\n", "/** doc\n * TODO(bob): later\n */",
	"// TODO(a.b+c@d): y\n", "//todo:::\n", "/* fixme(x)*/", "// заметка TODO 漢字\n", "/* ünï */", "//TODO\n", "/***/", "// #\n", "/*#*/",
}

func init() {
	// the boundary shapes of the unit generator (text lengths around the markers, assignee brackets, nesting)
	insertComments = append(insertComments, jgram.CommentShapes()[20:]...)
}

var renameStyles = []func(old string, k int) string{
	func(old string, k int) string { return old + "_r" },
	func(old string, k int) string { return "ünï" + old },
	func(old string, k int) string { return "Ω" + string(rune('a'+k)) },
	func(old string, k int) string { return "$" + old },
	func(old string, k int) string {
		r := []rune(old)
		return string(unicode.ToUpper(r[0])) + string(r[1:]) + "X"
	},
	func(old string, k int) string { return "変数" + string(rune('a'+k)) },
	func(old string, k int) string { return "record" + string(rune('A'+k)) },
	// boundary names: exactly a prefix the tool looks for, a single character
	func(old string, k int) string { return []string{"get", "set", "is", "of", "main", "test"}[k%6] },
	func(old string, k int) string { return []string{"$", "g", "Test", "Util", "$$", "s"}[k%6] },
}

func rewriteWith(op, text string, pick func(n int) int) string {
	toks, ok := lexAll(text)
	if !ok {
		return text
	}
	switch op {
	case "reindent":
		unit := []string{"\t", " ", "        ", "", "   \t"}[pick(5)]
		for i := range toks {
			if toks[i].typ != parser.JavaLexerWS {
				continue
			}
			j := strings.LastIndexAny(toks[i].text, "\n\r")
			if j < 0 {
				continue
			}
			old := toks[i].text[j+1:]
			width := 0
			for _, r := range old {
				if r == '\t' {
					width += 4
				} else {
					width++
				}
			}
			toks[i].text = toks[i].text[:j+1] + strings.Repeat(unit, (width+3)/4)
		}
	case "comments":
		k := 1 + pick(5)
		var gaps []int
		for i := range toks {
			if toks[i].typ == parser.JavaLexerWS {
				gaps = append(gaps, i)
			}
		}
		for n := 0; n < k; n++ {
			c := insertComments[pick(len(insertComments))]
			where := pick(len(gaps) + 2)
			switch {
			case where == len(gaps):
				// at the very beginning of the file
				toks = append([]tok{{parser.JavaLexerCOMMENT, c}}, toks...)
				for i := range gaps {
					gaps[i]++
				}
			case where == len(gaps)+1:
				// at the very end, a line comment then ends the file without newline
				prefix := "\n"
				toks = append(toks, tok{parser.JavaLexerCOMMENT, prefix + strings.TrimSuffix(c, "\n")})
			default:
				i := gaps[where]
				sep := " "
				if strings.HasSuffix(c, "\n") {
					sep = ""
				}
				toks[i].text = toks[i].text + c + sep
			}
		}
	case "rename":
		existing := map[string]bool{}
		var names []string
		for _, t := range toks {
			if t.typ == parser.JavaLexerIDENTIFIER && !existing[t.text] {
				existing[t.text] = true
				names = append(names, t.text)
			}
		}
		if len(names) == 0 {
			return text
		}
		// names of methods (declared or called): an identifier followed by "("
		var callable []string
		seenCallable := map[string]bool{}
		for i, t := range toks {
			if t.typ != parser.JavaLexerIDENTIFIER || seenCallable[t.text] {
				continue
			}
			for j := i + 1; j < len(toks); j++ {
				if toks[j].typ == parser.JavaLexerWS || toks[j].typ == parser.JavaLexerCOMMENT || toks[j].typ == parser.JavaLexerLINE_COMMENT {
					continue
				}
				if toks[j].text == "(" {
					seenCallable[t.text] = true
					callable = append(callable, t.text)
				}
				break
			}
		}
		k := 1 + pick(4)
		mapping := map[string]string{}
		for n := 0; n < k; n++ {
			old := names[pick(len(names))]
			// the boundary names (the last two styles) are drawn more often and then go to a method name
			style := pick(len(renameStyles) + 4)
			if style >= len(renameStyles)-2 {
				if style >= len(renameStyles) {
					style = len(renameStyles) - 2
				}
				if len(callable) > 0 {
					old = callable[pick(len(callable))]
				}
			}
			if _, done := mapping[old]; done {
				continue
			}
			nw := renameStyles[style](old, n)
			if existing[nw] {
				continue
			}
			existing[nw] = true
			mapping[old] = nw
		}
		for i := range toks {
			if toks[i].typ == parser.JavaLexerIDENTIFIER {
				if nw, ok := mapping[toks[i].text]; ok {
					toks[i].text = nw
				}
			}
		}
	case "blanklines":
		mode := pick(3)
		for i := range toks {
			if toks[i].typ != parser.JavaLexerWS || !strings.Contains(toks[i].text, "\n") {
				continue
			}
			switch mode {
			case 0: // add blank lines
				toks[i].text = strings.Replace(toks[i].text, "\n", "\n\n\n", 1)
			case 1: // remove blank lines
				for strings.Contains(toks[i].text, "\n\n") {
					toks[i].text = strings.ReplaceAll(toks[i].text, "\n\n", "\n")
				}
				for strings.Contains(toks[i].text, "\n\r\n") {
					toks[i].text = strings.ReplaceAll(toks[i].text, "\n\r\n", "\n")
				}
			case 2: // blank lines with trailing white space
				toks[i].text = strings.Replace(toks[i].text, "\n", "\n \t\n", 1)
			}
		}
	case "whitespace":
		// the blanks between two tokens of a line become a tab, a run of blanks, a form feed or a mix
		unit := []string{"\t", "    ", "\f", " \t \f "}[pick(4)]
		for i := range toks {
			if toks[i].typ == parser.JavaLexerWS && !strings.ContainsAny(toks[i].text, "\n\r") {
				toks[i].text = unit
			}
		}
	case "edges":
		// white space in front of the first token and after the last one; no final newline
		mode := pick(4)
		if mode == 0 || mode == 3 {
			toks = append([]tok{{parser.JavaLexerWS, []string{"\n\n", " \t\n", "\r\n\r\n"}[pick(3)]}}, toks...)
		}
		if mode == 1 || mode == 3 {
			toks = append(toks, tok{parser.JavaLexerWS, []string{"\n\n\n", "  \t", "\r\n \r\n", "\f"}[pick(4)]})
		}
		if mode == 2 {
			for len(toks) > 0 && toks[len(toks)-1].typ == parser.JavaLexerWS {
				toks = toks[:len(toks)-1]
			}
		}
	case "longline":
		var gaps []int
		for i := range toks {
			if toks[i].typ == parser.JavaLexerWS && strings.Contains(toks[i].text, "\n") {
				gaps = append(gaps, i)
			}
		}
		if len(gaps) > 0 {
			i := gaps[pick(len(gaps))]
			n := 66000 + 1000*pick(5)
			k := strings.Index(toks[i].text, "\n")
			toks[i].text = toks[i].text[:k] + " // " + strings.Repeat("long line ", n/10) + toks[i].text[k:]
		}
	case "cr":
		// line ends of old Mac files
		for i := range toks {
			if toks[i].typ == parser.JavaLexerWS {
				toks[i].text = strings.ReplaceAll(strings.ReplaceAll(toks[i].text, "\r\n", "\n"), "\n", "\r")
			}
		}
	case "crlf":
		for i := range toks {
			if toks[i].typ == parser.JavaLexerWS {
				toks[i].text = strings.ReplaceAll(strings.ReplaceAll(toks[i].text, "\r\n", "\n"), "\n", "\r\n")
			}
		}
	}
	return join(toks)
}

func rewrite(t *rapid.T, op, text string) string {
	return rewriteWith(op, text, func(n int) int {
		if n <= 1 {
			return 0
		}
		return rapid.IntRange(0, n-1).Draw(t, "rw")
	})
}

// rewriteFixed is the deterministic variant used by the sweep.
func rewriteFixed(op, text string, seed int) string {
	state := uint32(seed*2654435761 + 12345)
	return rewriteWith(op, text, func(n int) int {
		if n <= 1 {
			return 0
		}
		state = state*1664525 + 1013904223
		return int((state >> 8) % uint32(n))
	})
}
