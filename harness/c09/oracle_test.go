package c09

import (
	"encoding/json"
	"fmt"
	"os"
	"path/filepath"
	"regexp"
	"sort"
	"strings"

	"github.com/antlr/antlr4/runtime/Go/antlr/v4"
	parser "github.com/modernizing/coca/languages/java"
	"github.com/modernizing/coca/pkg/application/analysis/javaapp"
	"github.com/modernizing/coca/pkg/application/api"
	"github.com/modernizing/coca/pkg/application/bs"
	"github.com/modernizing/coca/pkg/application/refactor/base"
	"github.com/modernizing/coca/pkg/application/refactor/base/models"
	"github.com/modernizing/coca/pkg/application/refactor/unused"
	"github.com/modernizing/coca/pkg/application/todo"
	"github.com/modernizing/coca/pkg/application/todo/astitodo"
	"github.com/modernizing/coca/pkg/domain/api_domain"
	"github.com/modernizing/coca/pkg/domain/bs_domain"
	"github.com/modernizing/coca/pkg/domain/core_domain"
	"github.com/modernizing/coca/pkg/infrastructure/ast/ast_java"
	"github.com/modernizing/coca/pkg/infrastructure/ast/ast_java/ast_api_java"
	"github.com/modernizing/coca/pkg/infrastructure/ast/ast_java/java_identify"
	"github.com/modernizing/coca/pkg/infrastructure/ast/bs_java"

	"verif/internal/cli"
	"verif/internal/pbt"
)

// ---------------------------------------------------------------------------------------
// the shipped parser as validity filter

type errCounter struct {
	*antlr.DefaultErrorListener
	n     int
	first string
}

func (e *errCounter) SyntaxError(_ antlr.Recognizer, _ interface{}, line, column int, msg string, _ antlr.RecognitionException) {
	if e.n == 0 {
		e.first = fmt.Sprintf("%d:%d %s", line, column, msg)
	}
	e.n++
}

// syntaxErrors parses text with the shipped lexer and parser and returns the number of
// lexer + parser errors (and the first message).
func syntaxErrors(text string) (int, string) {
	ec := &errCounter{DefaultErrorListener: antlr.NewDefaultErrorListener()}
	lexer := parser.NewJavaLexer(antlr.NewInputStream(text))
	lexer.RemoveErrorListeners()
	lexer.AddErrorListener(ec)
	p := parser.NewJavaParser(antlr.NewCommonTokenStream(lexer, 0))
	p.RemoveErrorListeners()
	p.AddErrorListener(ec)
	p.CompilationUnit()
	return ec.n, ec.first
}

// ---------------------------------------------------------------------------------------
// the two ordinary neighbour files of the 3-file project

const (
	nbFirstName   = "A_NbAlpha.java"
	nbServiceName = "B_NbService.java"
	unitName      = "M_Unit.java"
	nbLastName    = "Z_NbOmega.java"
)

// nbService: an interface whose method carries the annotation the API scan looks up when a class of
// another file implements an imported interface (generated units do that now and then)
const nbService = `package zz.nb;

public interface NbService {
    @ServiceMethod
    String serve();
}
`

const nbFirst = `package zz.nb;

import java.util.List;

// TODO: nbalpha first
public class NbAlpha {
    private int count;

    public int ping(int n) {
        count = count + n;
        return count;
    }

    public String pong() {
        return "pong";
    }
}
`

const nbLast = `package zz.nb;

@RestController
@RequestMapping("/nb")
public class NbOmega {
    private NbAlpha alpha = new NbAlpha();

    @GetMapping("/ping")
    public int handle() {
        // FIXME nbomega last
        return alpha.ping(1);
    }

    @PostMapping("/pong")
    public String send(@RequestBody NbBody body) {
        return alpha.pong();
    }
}
`

// ---------------------------------------------------------------------------------------
// the six passes

func resetAll() {
	ast_java.VerifResetAstJava()
	java_identify.VerifResetJavaIdentify()
	ast_api_java.VerifResetAstApiJava()
	bs_java.VerifResetBsJava()
	bs.VerifResetBs()
	api.VerifResetApi()
	base.VerifResetBase()
	models.VerifResetModels()
	unused.VerifResetUnused()
}

type refactorResult struct {
	Nodes   []models.JFullIdentifier
	Fields  map[string]models.JField
	Imports []models.JImport
	Methods []models.JFullMethod
}

type results struct {
	ident    []core_domain.CodeDataStruct
	full     []core_domain.CodeDataStruct
	bsNodes  []bs_domain.BSDataStruct
	smells   []bs_domain.BadSmellModel
	apis     []api_domain.RestAPI
	refactor refactorResult
	todos    []*astitodo.TODO
}

func marshalErr(what string, v interface{}) string {
	if _, err := json.Marshal(v); err != nil {
		return fmt.Sprintf("%s: result cannot be serialised: %v", what, err)
	}
	return ""
}

// maxModelEntries: a model of the identifier or full pass that holds more entries than this when it is written
// out is reported as not serialisable instead of being handed to encoding/json. The listeners keep nested types
// in InnerStructures lists that share memory, so a model can be small in memory and astronomically large as text
// (finding full-pass-model-doubles-with-each-nested-class: 2^n type entries for n member classes of one class);
// json.Marshal of such a model ends the process with "fatal error: out of memory" - the crash the property
// excludes, but one that can be neither replayed quickly nor shrunk. An entry is a type, function, call, field,
// parameter, annotation or import (each at least some 100 bytes of JSON); an honest model of a generated unit
// (a few thousand tokens, lists of at most 130) stays below 100 000 entries.
const maxModelEntries = 2000000

// modelEntries counts the entries of a model the way encoding/json writes them - every entry of an
// InnerStructures list (of a type, of a function, of an inner function) once more in full - and stops
// counting above limit.
func modelEntries(list []core_domain.CodeDataStruct, limit int) int {
	n := 0
	var inFunctions func(fs []core_domain.CodeFunction)
	var inTypes func(ts []core_domain.CodeDataStruct)
	inCalls := func(cs []core_domain.CodeCall) {
		n += len(cs)
		for i := range cs {
			n += len(cs[i].Parameters)
		}
	}
	inFunctions = func(fs []core_domain.CodeFunction) {
		for i := range fs {
			if n++; n > limit {
				return
			}
			f := &fs[i]
			n += len(f.Parameters) + len(f.MultipleReturns) + len(f.Annotations) + len(f.Modifiers)
			inCalls(f.FunctionCalls)
			inTypes(f.InnerStructures)
			inFunctions(f.InnerFunctions)
		}
	}
	inTypes = func(ts []core_domain.CodeDataStruct) {
		for i := range ts {
			if n++; n > limit {
				return
			}
			t := &ts[i]
			n += len(t.Fields) + len(t.Implements) + len(t.MultipleExtend) + len(t.Annotations) + len(t.InOutProperties) + len(t.Imports)
			inCalls(t.FunctionCalls)
			inTypes(t.InnerStructures)
			inFunctions(t.Functions)
		}
	}
	inTypes(list)
	return n
}

func modelTooLarge(what string, list []core_domain.CodeDataStruct) string {
	if modelEntries(list, maxModelEntries) > maxModelEntries {
		return fmt.Sprintf("%s: result cannot be serialised: written out, the model holds more than %d entries (types, functions, calls, fields ...: InnerStructures lists repeated inside each other); encoding/json was not tried, it would end the process with `fatal error: out of memory`", what, maxModelEntries)
	}
	return ""
}

// runPasses runs the six passes on dir, each from fresh package state, each guarded.
// It returns the results and the first problem (panic or unserialisable result).
func runPasses(dir string) (results, string) {
	var r results
	// 1. identifier pass
	resetAll()
	if p := pbt.Call(func() {
		app := javaapp.NewJavaIdentifierApp()
		r.ident = app.AnalysisPath(dir)
	}); p != "" {
		return r, "identifier pass panicked: " + p
	}
	if m := modelTooLarge("identifier pass", r.ident); m != "" {
		return r, m
	}
	if m := marshalErr("identifier pass", r.ident); m != "" {
		return r, m
	}
	ident := r.ident
	// 2. full pass (fed with the identifier result, as `coca analysis` does)
	resetAll()
	if p := pbt.Call(func() {
		app := javaapp.NewJavaFullApp()
		r.full = app.AnalysisPath(dir, ident)
	}); p != "" {
		return r, "full pass panicked: " + p
	}
	if m := modelTooLarge("full pass", r.full); m != "" {
		return r, m
	}
	if m := marshalErr("full pass", r.full); m != "" {
		return r, m
	}
	// 3. bad-smell pass
	resetAll()
	if p := pbt.Call(func() {
		app := bs.NewBadSmellApp()
		nodes := app.AnalysisPath(dir)
		if nodes != nil {
			r.bsNodes = *nodes
		}
		r.smells = app.IdentifyBadSmell(nodes, nil)
	}); p != "" {
		return r, "bad-smell pass panicked: " + p
	}
	if m := marshalErr("bad-smell pass (nodes)", r.bsNodes); m != "" {
		return r, m
	}
	if m := marshalErr("bad-smell pass (smells)", r.smells); m != "" {
		return r, m
	}
	// 4. API scan, pipeline of cmd/api.go
	resetAll()
	full := r.full
	if p := pbt.Call(func() {
		identMap := core_domain.BuildIdentifierMap(ident)
		diMap := core_domain.BuildDIMap(ident, identMap)
		app := new(api.JavaApiApp)
		r.apis = app.AnalysisPath(dir, full, identMap, diMap)
	}); p != "" {
		return r, "API scan panicked: " + p
	}
	if m := marshalErr("API scan", r.apis); m != "" {
		return r, m
	}
	// 5. refactoring scan
	resetAll()
	if p := pbt.Call(func() {
		app := unused.NewRemoveUnusedImportApp(dir)
		r.refactor.Nodes = app.Analysis()
		for _, n := range r.refactor.Nodes {
			_ = unused.BuildErrorLines(n)
		}
		if len(r.refactor.Nodes) > 0 {
			last := r.refactor.Nodes[len(r.refactor.Nodes)-1]
			r.refactor.Fields = last.GetFields()
			r.refactor.Imports = last.GetImports()
			r.refactor.Methods = last.GetMethods()
		}
	}); p != "" {
		return r, "refactoring scan panicked: " + p
	}
	if m := marshalErr("refactoring scan", r.refactor); m != "" {
		return r, m
	}
	// 6. todo scan
	resetAll()
	if p := pbt.Call(func() {
		app := todo.NewTodoApp()
		r.todos = app.AnalysisPath(dir, []string{".java"})
	}); p != "" {
		return r, "todo scan panicked: " + p
	}
	if m := marshalErr("todo scan", r.todos); m != "" {
		return r, m
	}
	return r, ""
}

func funcNames(fs []core_domain.CodeFunction) map[string]bool {
	out := map[string]bool{}
	for _, f := range fs {
		out[f.Name] = true
	}
	return out
}

func hasStruct(list []core_domain.CodeDataStruct, pkg, name, typ string, funcs ...string) bool {
	for _, n := range list {
		if n.Package != pkg || n.NodeName != name || n.Type != typ {
			continue
		}
		names := funcNames(n.Functions)
		ok := true
		for _, f := range funcs {
			if !names[f] {
				ok = false
			}
		}
		if ok {
			return true
		}
	}
	return false
}

func brief(v interface{}) string {
	raw, _ := json.Marshal(v)
	if len(raw) > 1500 {
		return string(raw[:1500]) + "…"
	}
	return string(raw)
}

// checkNeighbours verifies that the two ordinary files of the 3-file project still have
// their usual entries in every pass's result. Only the identity of an entry is compared
// (package, type name, kind, function names / verb, uri, handler / file, line, message),
// so that value differences which are the subject of C07 do not count here.
func checkNeighbours(r results, dir string) string {
	first := filepath.Join(dir, nbFirstName)
	last := filepath.Join(dir, nbLastName)
	for _, pass := range []struct {
		name string
		list []core_domain.CodeDataStruct
	}{{"identifier pass", r.ident}, {"full pass", r.full}} {
		if !hasStruct(pass.list, "zz.nb", "NbAlpha", "Class", "ping", "pong") {
			return fmt.Sprintf("%s: the entry of the ordinary file %s (class zz.nb.NbAlpha with ping, pong) is missing from the project result: %s", pass.name, nbFirstName, brief(pass.list))
		}
		if !hasStruct(pass.list, "zz.nb", "NbService", "Interface", "serve") {
			return fmt.Sprintf("%s: the entry of the ordinary file %s (interface zz.nb.NbService with serve) is missing from the project result: %s", pass.name, nbServiceName, brief(pass.list))
		}
		if !hasStruct(pass.list, "zz.nb", "NbOmega", "Class", "handle", "send") {
			return fmt.Sprintf("%s: the entry of the ordinary file %s (class zz.nb.NbOmega with handle, send) is missing from the project result: %s", pass.name, nbLastName, brief(pass.list))
		}
	}
	for _, want := range []struct {
		file, name string
		funcs      []string
	}{{first, "NbAlpha", []string{"ping", "pong"}}, {last, "NbOmega", []string{"handle", "send"}}} {
		found := false
		for _, n := range r.bsNodes {
			if n.FilePath != want.file || n.NodeName != want.name || n.Package != "zz.nb" {
				continue
			}
			names := map[string]bool{}
			for _, f := range n.Functions {
				names[f.Name] = true
			}
			if names[want.funcs[0]] && names[want.funcs[1]] {
				found = true
			}
		}
		if !found {
			return fmt.Sprintf("bad-smell pass: the entry of the ordinary file %s (class %s with %v) is missing from the project result: %s", filepath.Base(want.file), want.name, want.funcs, brief(r.bsNodes))
		}
	}
	for _, want := range []api_domain.RestAPI{
		{HttpMethod: "GET", Uri: "/nb/ping", PackageName: "zz.nb", ClassName: "NbOmega", MethodName: "handle"},
		{HttpMethod: "POST", Uri: "/nb/pong", PackageName: "zz.nb", ClassName: "NbOmega", MethodName: "send"},
	} {
		found := false
		for _, a := range r.apis {
			if a.HttpMethod == want.HttpMethod && a.Uri == want.Uri && a.PackageName == want.PackageName && a.ClassName == want.ClassName && a.MethodName == want.MethodName {
				found = true
			}
		}
		if !found {
			return fmt.Sprintf("API scan: the entry %s %s of the ordinary controller in %s is missing from the project result: %s", want.HttpMethod, want.Uri, nbLastName, brief(r.apis))
		}
	}
	for _, want := range []models.JFullIdentifier{{Pkg: "zz.nb", Name: "NbAlpha", Type: "Class"}, {Pkg: "zz.nb", Name: "NbOmega", Type: "Class"}} {
		found := false
		for _, n := range r.refactor.Nodes {
			if n.Pkg == want.Pkg && n.Name == want.Name && n.Type == want.Type {
				found = true
			}
		}
		if !found {
			return fmt.Sprintf("refactoring scan: the entry %+v of an ordinary file is missing from the project result: %s", want, brief(r.refactor.Nodes))
		}
	}
	for _, want := range []struct {
		file string
		line int
		msg  string
	}{{first, 5, "nbalpha first"}, {last, 10, "nbomega last"}} {
		found := false
		for _, td := range r.todos {
			if td != nil && td.Filename == want.file && td.Line == want.line && strings.TrimSpace(td.Message) == want.msg {
				found = true
			}
		}
		if !found {
			return fmt.Sprintf("todo scan: the TODO of the ordinary file %s (line %d, %q) is missing from the project result: %s", filepath.Base(want.file), want.line, want.msg, brief(r.todos))
		}
	}
	return ""
}

var (
	reHex       = regexp.MustCompile(`\+?0x[0-9a-f]+\??`)
	reGoroutine = regexp.MustCompile(`goroutine \d+`)
)

// stable removes run-dependent parts (addresses, the scratch directory) from a message, so
// that the same failure gives the same text in every run (rapid only shrinks then).
func stable(msg, dir string) string {
	msg = strings.ReplaceAll(msg, dir, "<scratch>")
	msg = reHex.ReplaceAllString(msg, "0x_")
	return reGoroutine.ReplaceAllString(msg, "goroutine N")
}

// judgeText is the oracle shared by all sub-checks: text is a compilation unit the
// shipped parser accepts. It is analysed alone and between two ordinary files.
func judgeText(text string) string { return judgeTextAt(text, "", false) }

// unitTwinName: the second file with the same text, when the project holds the unit twice
const unitTwinName = "P_Unit2.java"

// judgeTextAt: rel is the place of the unit in the analysed directory ("" = M_Unit.java), twice adds a second file
// with the same text to the project.
func judgeTextAt(text, rel string, twice bool) string {
	if rel == "" {
		rel = unitName
	}
	dir := cli.Scratch("c09-")
	defer os.RemoveAll(dir)
	single := filepath.Join(dir, "single")
	project := filepath.Join(dir, "project")
	cli.WriteTree(single, map[string]string{rel: text})
	files := map[string]string{nbFirstName: nbFirst, nbServiceName: nbService, rel: text, nbLastName: nbLast}
	if twice {
		files[unitTwinName] = text
	}
	cli.WriteTree(project, files)
	if _, msg := runPasses(single); msg != "" {
		return stable("file alone: "+msg, dir)
	}
	r, msg := runPasses(project)
	if msg != "" {
		return stable("file between two ordinary files: "+msg, dir)
	}
	if msg := checkNeighbours(r, project); msg != "" {
		return stable("file between two ordinary files: "+msg, dir)
	}
	return ""
}

func sortedKeys(m map[string]int) []string {
	keys := make([]string, 0, len(m))
	for k := range m {
		keys = append(keys, k)
	}
	sort.Strings(keys)
	return keys
}
