// C09 — every pass completes without crashing on any valid Java source.
package c09

import (
	"encoding/json"
	"fmt"
	"os"
	"path/filepath"
	"sort"
	"strconv"
	"strings"
	"testing"

	"pgregory.net/rapid"

	"verif/internal/jgram"
	"verif/internal/pbt"
)

// UnitCase is a generated compilation unit; Labels are the grammar productions used.
type UnitCase struct {
	Text   string         `json:"text"`
	Labels map[string]int `json:"labels,omitempty"`
	// added by the checklist audit (zero values = the plain variant: M_Unit.java between the ordinary files, once)
	Path  string `json:"path,omitempty"`  // where the unit lives in the analysed directory
	Twice bool   `json:"twice,omitempty"` // the project holds a second file with the same text
	Cli   int    `json:"cli,omitempty"`   // sub-check cli: which spelling of the commands' options
}

// genUnit: the grammar-directed generator lives in internal/jgram (the anyjava sub-checks of C01, C02 and C06
// draw from it as well). No construct is switched off by a known finding at present.
// deepUnit (eighth seed batch): one method whose body opens 12-40 scopes inside each other - for, enhanced for,
// while, do, if / else, try-with-resources, try / catch / finally, switch group, synchronized, labelled and bare
// blocks, lambda blocks - with a parameter, a field and locals visible all the way down and a call on each at the
// innermost place.
func deepUnit(t *rapid.T) UnitCase {
	depth := rapid.SampledFrom([]int{12, 15, 16, 17, 18, 24, 31, 32, 33, 40}).Draw(t, "deepScopes")
	var open, close []string
	for k := 0; k < depth; k++ {
		v := fmt.Sprintf("v%d", k)
		switch rapid.IntRange(0, 11).Draw(t, "scopeKind") {
		case 0:
			open, close = append(open, fmt.Sprintf("for (int %s = 0; %s < 2; %s++) {", v, v, v)), append(close, "}")
		case 1:
			open, close = append(open, fmt.Sprintf("for (Sink %s : sinks) {", v)), append(close, "}")
		case 2:
			open, close = append(open, "while (flag) {"), append(close, "}")
		case 3:
			open, close = append(open, "do {"), append(close, "} while (flag);")
		case 4:
			open, close = append(open, "if (flag) {"), append(close, "}")
		case 5:
			open, close = append(open, "if (flag) { sink.accept(0); } else {"), append(close, "}")
		case 6:
			open, close = append(open, fmt.Sprintf("try (Res %s = new Res()) {", v)), append(close, "}")
		case 7:
			open, close = append(open, "try {"), append(close, fmt.Sprintf("} catch (Exception %s) { sink.accept(1); } finally { sink.accept(2); }", v))
		case 8:
			open, close = append(open, fmt.Sprintf("switch (n) { case 1: { Sink %s = sink;", v)), append(close, "} default: break; }")
		case 9:
			open, close = append(open, "synchronized (this) {"), append(close, "}")
		case 10:
			open, close = append(open, fmt.Sprintf("lbl%d: {", k)), append(close, "}")
		default:
			open, close = append(open, fmt.Sprintf("Runnable %s = () -> {", v)), append(close, "};")
		}
	}
	var b strings.Builder
	b.WriteString("package zz.deep;\n\nimport java.util.List;\n\npublic class Deep {\n    private Sink field;\n    private boolean flag;\n    private List<Sink> sinks;\n\n    public void run(Sink sink, int n) {\n        Sink local = sink;\n")
	for k, o := range open {
		b.WriteString(strings.Repeat(" ", 8+k%20) + o + "\n")
	}
	b.WriteString("sink.accept(n); local.accept(n); field.accept(n);\n")
	for k := len(close) - 1; k >= 0; k-- {
		b.WriteString(strings.Repeat(" ", 8+k%20) + close[k] + "\n")
	}
	b.WriteString("        local.accept(0);\n    }\n}\n")
	return UnitCase{Text: b.String(), Labels: map[string]int{"shape.deepNesting": 1, fmt.Sprintf("shape.deepNesting.%dscopes", depth): 1}}
}

func genUnit(t *rapid.T) UnitCase {
	if rapid.IntRange(0, 24).Draw(t, "deepNesting") == 24 {
		return deepUnit(t)
	}
	u := jgram.Gen(t)
	c := UnitCase{Labels: u.Labels, Path: u.Path, Twice: u.Twice}
	c.Cli = rapid.IntRange(0, 3).Draw(t, "cli")
	c.Text = u.Text
	return c
}

// conventional: productions of the conventional subset of DESIGN.md 3.1 (what jgen of
// C01/C02 produces). A unit is non-trivial when it uses at least one production outside.
var conventional = map[string]bool{}

func init() {
	for _, l := range strings.Fields(`
packageDeclaration qualifiedName.dotted importDeclaration.single importDeclaration.wildcard importDeclaration.static
typeDeclaration.class typeDeclaration.interface classDeclaration classDeclaration.typeParameters classDeclaration.extends
classDeclaration.implements interfaceDeclaration interfaceDeclaration.extends typeParameters typeParameter.bound typeList.several
classOrInterfaceModifier.public classOrInterfaceModifier.abstract classOrInterfaceModifier.final
modifier.accessKeyword modifier.static modifier.final modifier.abstract
memberDeclaration.method memberDeclaration.genericMethod memberDeclaration.field memberDeclaration.constructor
methodDeclaration.noBody typeTypeOrVoid.void typeTypeOrVoid.type formalParameters.empty formalParameterList formalParameter
formalParameterList.sixOrMore throws qualifiedNameList.several variableDeclarator.initializer variableDeclarators.several
interfaceMemberDeclaration.method interfaceMethodModifier.publicAbstract
classOrInterfaceType.simple classOrInterfaceType.typeArguments classOrInterfaceType.qualified typeType.primitive typeType.array
typeArguments typeArgument.type
annotation.marker annotation.singleValue annotation.pairs annotation.qualified elementValue.constant elementValue.array
blockStatement.localVariableDeclaration localVariableDeclaration.typed statement.expression statement.return statement.if
statement.ifElse statement.while statement.block statement.switch switchBlockStatementGroup switchLabel.constantExpression
switchLabel.default statement.break forControl.classic forInit.localVariableDeclaration statement.tryCatch catchClause finallyBlock
expression.assign expression.arithmetic expression.logicalOrBitwise expression.relational expression.equality
expression.dotMethodCall expression.fieldAccess expression.chainedCall expression.staticCall methodCall.identifier
primary.identifier primary.literal primary.this primary.parenthesized arguments.empty expressionList creator.class
lambdaParameters.identifier lambdaBody.expression
integerLiteral.decimal literal.string literal.bool literal.null hidden.comment
`) {
		conventional[l] = true
	}
}

func classify(labels map[string]int) pbt.Verdict {
	v := pbt.Verdict{}
	keys := sortedKeys(labels)
	var sb strings.Builder
	for _, k := range keys {
		v.Classes = append(v.Classes, k)
		if !conventional[k] {
			v.NonTrivial = true
		}
		sb.WriteString(k)
		sb.WriteByte('*')
		sb.WriteString(strconv.Itoa(labels[k]))
		sb.WriteByte(';')
	}
	v.Canon = sb.String()
	return v
}

func checkUnit(c UnitCase) pbt.Verdict {
	if n, first := syntaxErrors(c.Text); n > 0 {
		pbt.Count("generated_units_rejected_by_shipped_parser", 1)
		if os.Getenv("VERIF_C09_SHOW_REJECTS") != "" {
			fmt.Printf("REJECTED %s\n%s\n-----\n", first, c.Text)
		}
		return pbt.Verdict{Skip: true}
	}
	if os.Getenv("VERIF_C09_PARSE_ONLY") != "" { // generator tuning: acceptance rate and label distribution only
		if os.Getenv("VERIF_C09_SHOW_UNITS") != "" {
			fmt.Printf("UNIT\n%s\n-----\n", c.Text)
		}
	} else if msg := judgeTextAt(c.Text, c.Path, c.Twice); msg != "" {
		return pbt.Fail("%s\n--- unit%s ---\n%s", msg, placeNote(c), c.Text)
	}
	v := classify(c.Labels)
	for l := range c.Labels {
		if !labelKnown[l] {
			panic("c09: label " + l + " is missing from labels_test.go (regenerate it)")
		}
		pbt.Count("prod:"+l, 1)
	}
	if len(c.Text) == 0 {
		v.Classes = append(v.Classes, "unit.emptyFile")
	}
	return v
}

// placeNote says where the unit was put when that is not the plain place.
func placeNote(c UnitCase) string {
	note := ""
	if c.Path != "" {
		note += " at " + c.Path
	}
	if c.Twice {
		note += " (twice in the project)"
	}
	return note
}

// ---------------------------------------------------------------------------------------
// repository fixtures under semantics-preserving rewrites

// FixtureCase: Text is the rewritten fixture (the check needs nothing else).
type FixtureCase struct {
	Source string   `json:"source"` // path relative to the repository
	Ops    []string `json:"ops"`
	Text   string   `json:"text"`
	// OriginalAccepted: the shipped parser accepts the unchanged fixture (informational; a
	// rewrite that turns an accepted file into a rejected one is a harness bug)
	OriginalAccepted bool `json:"originalAccepted"`
}

func repoDir() string {
	if r := os.Getenv("VERIF_REPO"); r != "" {
		return r
	}
	return "/repo"
}

var fixtureList []string

func fixtures() []string {
	if fixtureList != nil {
		return fixtureList
	}
	for _, sub := range []string{"_fixtures", "languages"} {
		_ = filepath.Walk(filepath.Join(repoDir(), sub), func(path string, fi os.FileInfo, err error) error {
			if err == nil && fi.Mode().IsRegular() && strings.HasSuffix(path, ".java") {
				rel, _ := filepath.Rel(repoDir(), path)
				fixtureList = append(fixtureList, rel)
			}
			return nil
		})
	}
	sort.Strings(fixtureList)
	if len(fixtureList) == 0 {
		panic("c09: no .java fixtures found under " + repoDir())
	}
	return fixtureList
}

func readFixture(rel string) string {
	data, err := os.ReadFile(filepath.Join(repoDir(), rel))
	if err != nil {
		panic(err)
	}
	return string(data)
}

func genFixture(t *rapid.T) FixtureCase {
	list := fixtures()
	rel := list[rapid.IntRange(0, len(list)-1).Draw(t, "file")]
	text := readFixture(rel)
	c := FixtureCase{Source: rel, OriginalAccepted: fixtureAccepted(rel, text)}
	nOps := rapid.IntRange(0, 4).Draw(t, "nOps")
	for i := 0; i < nOps; i++ {
		op := rapid.SampledFrom(rewriteOps).Draw(t, "op")
		text = rewrite(t, op, text)
		c.Ops = append(c.Ops, op)
	}
	c.Text = text
	return c
}

var acceptedCache = map[string]bool{}

func fixtureAccepted(rel, text string) bool {
	if v, ok := acceptedCache[rel]; ok {
		return v
	}
	n, _ := syntaxErrors(text)
	acceptedCache[rel] = n == 0
	return n == 0
}

func checkFixture(c FixtureCase) pbt.Verdict {
	if n, first := syntaxErrors(c.Text); n > 0 {
		if c.OriginalAccepted && len(c.Ops) > 0 {
			panic(fmt.Sprintf("c09 HARNESS BUG: rewrite %v of %s is rejected by the shipped parser (%s) although the original is accepted:\n%s", c.Ops, c.Source, first, c.Text))
		}
		pbt.Count("fixture_cases_on_files_the_shipped_parser_rejects", 1)
		return pbt.Verdict{Skip: true}
	}
	if msg := judgeText(c.Text); msg != "" {
		return pbt.Fail("fixture %s rewritten by %v: %s\n--- unit ---\n%s", c.Source, c.Ops, msg, c.Text)
	}
	v := pbt.Verdict{NonTrivial: len(c.Ops) > 0, Canon: c.Text}
	v.Classes = append(v.Classes, "fixture:"+filepath.Base(filepath.Dir(c.Source)))
	seen := map[string]bool{}
	for _, op := range c.Ops {
		if !seen[op] {
			seen[op] = true
			v.Classes = append(v.Classes, "rewrite:"+op)
		}
	}
	if len(c.Ops) == 0 {
		v.Classes = append(v.Classes, "rewrite:none")
	}
	return v
}

// TestPropFixtureSweep runs every fixture once, unchanged and with one fixed rewrite (the rapid sub-check "fixtures" draws files at random and so may miss some). It is
// matched by the driver's -test.run ^TestProp and reports a failure the way pbt does.
func TestPropFixtureSweep(t *testing.T) {
	if only := os.Getenv("VERIF_ONLY"); only != "" && !strings.Contains(","+only+",", ",fixtures,") {
		t.Skip("not selected")
	}
	shard, _ := strconv.Atoi(os.Getenv("VERIF_SHARD"))
	shards, _ := strconv.Atoi(os.Getenv("VERIF_SHARDS"))
	if shards < 1 {
		shards = 1
	}
	for i, rel := range fixtures() {
		if i%shards != shard%shards {
			continue
		}
		text := readFixture(rel)
		op := rewriteOps[i%len(rewriteOps)]
		okOrig := fixtureAccepted(rel, text)
		if !okOrig {
			pbt.Count("fixtures_the_shipped_parser_rejects", 1)
		}
		cases := []FixtureCase{{Source: rel, Text: text, OriginalAccepted: okOrig}, {Source: rel, Ops: []string{op}, Text: rewriteFixed(op, text, i), OriginalAccepted: okOrig}}
		for _, c := range cases {
			raw, _ := json.Marshal(c)
			writeEnvelope(os.Getenv("VERIF_JOURNAL"), raw, "process died while executing this case")
			v := checkFixture(c)
			pbt.Count("fixture_sweep_cases", 1)
			if v.Skip {
				pbt.Count("fixture_sweep_skipped", 1)
			}
			if v.Violation != "" {
				writeEnvelope(os.Getenv("VERIF_FAIL_OUT"), raw, v.Violation)
				sweepFailed = true
				t.Fatalf("%s", v.Violation)
			}
		}
	}
}

func writeEnvelope(path string, raw []byte, msg string) {
	if path == "" {
		return
	}
	out, _ := json.Marshal(map[string]interface{}{"property": "C09", "prop": "fixtures", "msg": msg, "case": json.RawMessage(raw)})
	_ = os.WriteFile(path, out, 0644)
}

var (
	labelKnown  = map[string]bool{}
	sweepFailed bool
)

func init() {
	for _, l := range jgram.AllLabels() {
		labelKnown[l] = true
		pbt.Count("prod:"+l, 0)
	}
	labelKnown["shape.deepNesting"] = true
	for _, d := range []int{12, 15, 16, 17, 18, 24, 31, 32, 33, 40} {
		labelKnown[fmt.Sprintf("shape.deepNesting.%dscopes", d)] = true
	}
	for l := range conventional {
		if !labelKnown[l] {
			panic("c09: conventional label " + l + " is not a generator label")
		}
	}
	pbt.SetProperty("C09")
	pbt.Describe("sub-check units: compilation units from a grammar-directed generator over the productions of the shipped JavaParser.g4 (every type kind incl. nested/local/anonymous, type parameters with bounds, all member kinds, initialiser blocks, explicit constructor calls, receiver parameters, varargs, every annotation argument form incl. the `pkg.@Ann Type` form, arrays in every position, lambdas, method references, switch statements/expressions, patterns, literals of every kind incl. text blocks, non-ASCII identifiers and literals, comments of many shapes (text lengths 0-6 around the TODO/FIXME markers, markers cut short or run on, assignee brackets open, closed, nested, empty; a comment ending the file without newline), files without package, empty files, files with only a package declaration, only imports or only `;`, module and package-info units, several top-level types, imports with a single segment, interface and annotation-type members carrying the keyword modifiers of the grammar's modifier rule (native, synchronized, transient, volatile), names that are exactly or nearly a prefix the tool looks for (get, set, is, getter, get1, $, $$ ...), members at, one below and one above the thresholds of the bad-smell pass (20 methods, 8 ifs / switches, 30 lines, 3-line if condition; also as the only content of the file), units that live in the package of the ordinary files of the 3-file project, import them, reuse their names and implement the annotated interface zz.nb.NbService), class and interface types of every dotted / parameterized form in every type position (declarations of fields, parameters, local variables, resources, enhanced-for variables; extends / implements / permits lists, bounds, casts, type arguments; created names of `new`): `T`, `T<X>`, `a.b.T`, `a.b.T<X>` (first `<` after a dot), `a.b.Outer.Inner<X>`, `Outer.Inner`, `Outer.Inner<K, V>`, `A<X>.B`, `A<X>.B<Y>`, `new a.b.T<X>()`, `new a.b.T<>()`, `new Outer.Inner<X>()`, type names that are the simple name of one of the unit's own imports or the name of an enclosing class, and uses of declared variables: the generator keeps the variables visible at each point (fields, record components, parameters incl. lambda parameters, local variables, resources, enhanced-for variables, catch parameters, pattern variables, with Java's block scoping) and a simple name in an expression is, about every second time, one of them instead of a name from the pool - as receiver of a method call or explicit generic invocation (`x.m()`, `x.a().b()`, `x.<T>m()`), as target of a method reference (`x::m`), after `this.` (`this.field.m()`), as operand, argument, array, assignment target or try resource - so that each pass's symbol tables are hit with every declared-type shape above (classes receiver.declaredAs.* count the receivers by the shape of their declared type, use.of* the uses by kind of variable), structural containers nested in each other (about every eighth unit draws alternatives down to depth 13-20 instead of 9; a chain of 2-7 member types of every kind, each with a member before and a class-typed field plus a method calling through it after the inner type; a combination of 2-5 anonymous classes, lambdas, local classes and member classes of those in a drawn order, begun in a method, a field initialiser or an initialiser block, each container declaring something before and using something after the inner one, followed by a class-typed field of the enclosing class, now and then used before it is declared; classes nesting.* count anonymousInAnonymous, anonymousInLambda, lambdaInAnonymous, namedInAnonymous, namedInLambda, anonymousInLocal, namedDepth3/4/5orMore ...), long lists just past 8, 16, 32, 64 elements (9, 17, 33, 65, 130; also 8, 16, 64) wherever the tool appends to a slice or fills a table: imports (now and then the same import again, or the same simple name from two packages), top-level types, fields, declarators of one declaration, parameters with as many arguments, arguments, annotations of one member, local variables, chained calls, operands, switch groups, catch clauses and multi-catch alternatives, array elements, enum constants, type parameters / arguments, nested blocks, implemented / extended types, anonymous classes, member types, lambdas (classes many.*), several annotations in front of one type, framework units with @Component / @Repository / @Service classes that implement an imported interface (the dependency-injection map of the API scan), framework annotations written with their package (@org.springframework.web.bind.annotation.GetMapping, @org.springframework.stereotype.Component), request-mapping arguments in the array notations (method = {RequestMethod.GET}, {GET, POST}, {}, {X,}; value = {\"/a\", \"/b\"}), handler methods written the usual way (mapping annotation, parameters annotated @RequestBody / @PathVariable / @Valid @RequestBody / final @RequestBody(required = false) / the qualified form, of unit, imported and neighbour types), names that are case variants of each other (foo, Foo, FOO as variable and as type), names of the annotations the tool looks for used as class names, names ending in this / super, a 300-character name, text-block lines that look like `#` comments of the todo scan's lexer with every marker shape, an unbalanced backtick and an unterminated `/*` in a text block; rendered with LF, CRLF or CR line ends, with or without final newline, or on as few lines as possible, the tokens separated by one blank, a tab, a run of blanks, a form feed, a mix of those or blank lines, with white space in front of the first and after the last token, now and then after a comment line of 4 200 or 66 000 bytes (plain, TODO text, TODO assignee, block comment); the unit is analysed as M_Unit.java between the ordinary files or (every sixth unit) at another place of the analysed directory (a subdirectory sorted before or after the ordinary files, 13 directories deep, src/main/java/..., a directory named pkg.java, names with blanks and non-ASCII letters, `.java`, `-p.java`, `M_Unit.java.java`, and the test-file names the Java passes skip by design: src/test/java/..., *Test.java), and every eighth unit is in the project twice (a second file with the same text); valid Java syntax by construction, then filtered by the shipped lexer+parser reporting zero errors (rejections = skipped). Sub-check fixtures: every .java file under _fixtures and languages of the repository, unchanged and under token-stream rewrites (re-indentation, comment insertion at token gaps incl. the boundary shapes above, consistent identifier renaming incl. renaming a method to exactly get / set / is / $, blank-line changes, CRLF, CR-only line ends, tabs / runs of blanks / form feeds between the tokens of a line, white space added in front of the first and after the last token or the trailing white space removed); a sweep runs each file once unchanged and once with one rewrite kind. Sub-check cli: generated units (placed and doubled like in sub-check units) through `coca analysis`, `coca bs` (plain and -s type -x ...), `coca api -f`, `coca todo` on the 3-file project, the options in one of four spellings (-p DIR; --path DIR / --path=DIR with --sort --ignore --force --count --aggregate --ext; -p=DIR -s=type -x=... -c -s -r zz.nb -e=.java,.py,.go --identify=true; a relative path with trailing slash, -x \"\", -a with a prefix longer than any URI; class cli.optionSpelling0-3): exit status 0, no Go panic / fatal error in the output, reports are JSON and still hold the ordinary files. Oracle (units, fixtures): each of the six passes (identifier, full, bad-smell AnalysisPath+IdentifyBadSmell, API scan, unused-import Analysis, todo scan) from fresh package state on a directory with the file alone and on a project with the file between ordinary files (a class, an interface with an annotated method, a Spring controller): no panic, result serialisable with encoding/json, and the ordinary files keep their entries (identity only: package/type/kind/function names, verb+uri+handler, file+line+message). Non-trivial (units, cli) = at least one production outside the conventional subset of DESIGN 3.1; distinct = hash of the production multiset. Non-trivial (fixtures) = at least one rewrite applied; distinct = hash of the rewritten text. classes = productions used (counters prod:* list every production of the generator, 0 = not reached).",
		"value differences in the neighbours' entries caused by state carried from file to file are C07's subject and are not judged here; only presence/identity of the entries is",
		"constructs the shipped grammar rejects are not generated (compact record constructors, varargs record components, local enums, annotated `new @A T()`, `Outer.super::m`)",
		"the domain is the shipped grammar (the property's quantifier): keyword modifiers in front of interface members are sentences of it although javac rejects them in a later phase; sentences only the shipped grammar accepts and no Java parser does (`implements int`, `new int()`) are not generated",
		"a fatal error (stack overflow) is detected by the driver through the case journal",
		"serialisable is judged with encoding/json, except that a model of the identifier or full pass which, written out, holds more than 2 000 000 entries (types, functions, calls, fields, parameters, annotations, imports; the entries of InnerStructures lists counted wherever they are repeated) is reported as not serialisable without calling json.Marshal: Marshal of such a model ends the process with `fatal error: out of memory`, which can be neither replayed quickly nor shrunk (finding full-pass-model-doubles-with-each-nested-class: 2^n type entries for n member classes of one class, gigabytes of JSON for a file of a few hundred bytes); with the repair the models of all generated units stay below 100 000 entries (measured on 17 000 units), so the limit judges no honest model",
		"a file that begins with a byte order mark is not generated: the shipped lexer reads U+FEFF as an identifier letter and the shipped parser rejects the file",
		"where the unit is placed only decides which files the passes read (the Java passes skip test files and read *.java only); the oracle is the same at every place: no panic, serialisable results, the ordinary files keep their entries",
		"the CLI options added to the spellings (--count, --sort, --remove, --aggregate, --ext, --identify=true) do not change what is observed here (exit status, crash-free output, reports are JSON and hold the ordinary files); todo --git and analysis --identify=false are not used (they read a git history / an identify.json of an earlier run)")
	pbt.Register("units", 600, 3000, genUnit, checkUnit)
	pbt.Register("fixtures", 150, 600, genFixture, checkFixture)
	pbt.Register("cli", 20, 40, genUnit, checkUnitCLI)
}

func TestProp(t *testing.T) {
	if sweepFailed {
		t.Skip("the fixture sweep already failed")
	}
	pbt.Main(t)
}

func TestReplay(t *testing.T) { pbt.Replay(t) }
