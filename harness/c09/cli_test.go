package c09

// Sub-check cli: the same generated units through the command line (`coca analysis`, `coca bs`,
// `coca api -f`, `coca todo`), which is where the property's "exit status of the CLI commands" is
// observed: every command ends with status 0 and without a Go panic / fatal error on its output, the
// reports it writes are JSON, and the ordinary files of the project are still in them.

import (
	"encoding/json"
	"fmt"
	"os"
	"path/filepath"
	"strings"

	"verif/internal/cli"
	"verif/internal/pbt"
)

func checkUnitCLI(c UnitCase) pbt.Verdict {
	if n, _ := syntaxErrors(c.Text); n > 0 {
		pbt.Count("generated_units_rejected_by_shipped_parser", 1)
		return pbt.Verdict{Skip: true}
	}
	if msg := judgeTextCLI(c); msg != "" {
		return pbt.Fail("%s\n--- unit%s ---\n%s", msg, placeNote(c), c.Text)
	}
	v := classify(c.Labels)
	v.Classes = append(v.Classes, fmt.Sprintf("cli.optionSpelling%d", c.Cli%len(cliSpellings(""))))
	return v
}

// cliSpellings: the same five commands with the option spellings cobra accepts (-p v, -p=v, --path v, --path=v, a
// relative path, a trailing slash) and with rarely used options that do not change what is observed here (api
// --count --sort --remove --aggregate, todo --ext). The working directory is a sibling of src.
func cliSpellings(src string) [][][]string {
	return [][][]string{
		{
			{"analysis", "-p", src},
			{"bs", "-p", src},
			{"bs", "-p", src, "-s", "type", "-x", "dataClass,lazyElement"},
			{"api", "-f", "-p", src},
			{"todo", "-p", src},
		},
		{
			{"analysis", "--path", src},
			{"bs", "--path=" + src},
			{"bs", "--path", src, "--sort", "type", "--ignore", "dataClass,lazyElement"},
			{"api", "--force", "--path", src, "--count", "--sort", "--aggregate", "/nb"},
			{"todo", "--path", src, "--ext", ".java"},
		},
		{
			{"analysis", "-p=" + src, "--identify=true"},
			{"bs", "-p=" + src},
			{"bs", "-s=type", "-x=dataClass,lazyElement,longMethod,refusedBequest", "-p", src},
			{"api", "-f", "-c", "-s", "-r", "zz.nb", "-p=" + src},
			{"todo", "-e=.java,.py,.go", "-p=" + src},
		},
		{
			{"analysis", "-p", "../src/"},
			{"bs", "-p", "../src"},
			{"bs", "-p", "../src/", "-s", "type", "-x", ""},
			{"api", "-f", "-p", "../src", "-a", "/nb/ping/and/more", "-c"},
			{"todo", "-p", "../src/"},
		},
	}
}

func judgeTextCLI(c UnitCase) string {
	dir := cli.Scratch("c09cli-")
	defer os.RemoveAll(dir)
	src := filepath.Join(dir, "src")
	cwd := filepath.Join(dir, "work")
	_ = os.MkdirAll(cwd, 0755)
	rel := c.Path
	if rel == "" {
		rel = unitName
	}
	files := map[string]string{nbFirstName: nbFirst, nbServiceName: nbService, rel: c.Text, nbLastName: nbLast}
	if c.Twice {
		files[unitTwinName] = c.Text
	}
	cli.WriteTree(src, files)
	spellings := cliSpellings(src)
	for _, args := range spellings[c.Cli%len(spellings)] {
		shown := "`coca " + strings.ReplaceAll(strings.Join(args, " "), src, "DIR") + "`"
		r, err := cli.Run("coca", cwd, nil, args...)
		out := r.Stdout + r.Stderr
		switch {
		case err != nil:
			return fmt.Sprintf("%s could not be run: %v", shown, err)
		case r.TimedOut:
			return shown + " did not terminate within the time limit"
		case strings.Contains(out, "panic:") || strings.Contains(out, "fatal error:") || strings.Contains(out, "goroutine 1 ["):
			return stable(fmt.Sprintf("%s crashed (exit status %d):\n%s", shown, r.ExitCode, crashTail(out)), dir)
		case r.ExitCode != 0:
			return stable(fmt.Sprintf("%s ended with exit status %d:\n%s", shown, r.ExitCode, crashTail(out)), dir)
		}
	}
	// the reports are JSON and still hold the ordinary files
	for _, want := range []struct {
		file  string
		needs []string
	}{
		{"identify.json", []string{"NbAlpha", "NbOmega", "NbService"}},
		{"deps.json", []string{"NbAlpha", "NbOmega", "NbService"}},
		{"nodeInfos.json", []string{"NbAlpha", "NbOmega"}},
		{"bs.json", nil},
		{"apis.json", []string{"/nb/ping", "/nb/pong"}},
		{"simple-todos.json", []string{"nbalpha first", "nbomega last"}},
	} {
		raw, err := os.ReadFile(filepath.Join(cwd, "coca_reporter", want.file))
		if err != nil {
			return "the commands wrote no coca_reporter/" + want.file
		}
		var v interface{}
		if err := json.Unmarshal(raw, &v); err != nil {
			return fmt.Sprintf("coca_reporter/%s is not JSON: %v", want.file, err)
		}
		for _, n := range want.needs {
			if !strings.Contains(string(raw), n) {
				return fmt.Sprintf("coca_reporter/%s has lost the entry %q of an ordinary file of the project", want.file, n)
			}
		}
	}
	return ""
}

// crashTail keeps the part of a command's output that identifies the failure: from the panic line on,
// cut to a few frames.
func crashTail(out string) string {
	for _, marker := range []string{"panic:", "fatal error:"} {
		if i := strings.Index(out, marker); i >= 0 {
			out = out[i:]
			break
		}
	}
	lines := strings.Split(out, "\n")
	var keep []string
	for _, l := range lines {
		if strings.Contains(l, "cpu profiling") || strings.HasPrefix(l, "goroutine ") || strings.Contains(l, "App elapsed") {
			continue
		}
		keep = append(keep, l)
		if len(keep) >= 14 {
			break
		}
	}
	return strings.Join(keep, "\n")
}
