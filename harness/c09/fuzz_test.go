package c09

import (
	"testing"
	"verif/internal/pbt"
)

// FuzzJavaPasses is the byte-level target: bytes -> text; inputs the shipped parser rejects
// are skipped inside the target, every accepted text goes through the oracle of the
// property. It is seeded with the repository fixtures and a few hostile constants. It is not
// run by bin/check (native fuzzing cannot be seeded); run it by hand for long campaigns:
//
//	cd /verif/harness && GOFLAGS=-mod=mod GOPROXY=off GOSUMDB=off GOTOOLCHAIN=local \
//	  go test -modfile .build/go.mod -tags verif -run '^$' -fuzz '^FuzzJavaPasses$' -fuzztime 120s ./c09
//
// (.build/go.mod is written by `bin/check C09 build`; for a scratch worktree use
// .build/alt-*/go.mod.) A crasher is saved under c09/testdata/fuzz/FuzzJavaPasses/ and can be
// turned into a replay file {"property":"C09","prop":"units","case":{"text":...}}.
func FuzzJavaPasses(f *testing.F) {
	for _, rel := range fixtures() {
		f.Add([]byte(readFixture(rel)))
	}
	for _, s := range []string{
		"", ";", "class A { A() { this(1); } }", "class A { void m(A this) {} }",
		"class A { java.lang.@X String f; }", "@RestController @RequestMapping(P) class A { }",
		"class A { String s = \"\"\"\n #\n \"\"\"; }", "enum E { A { }, ; }", "record R<T>(T t) { }",
		"@interface A { int v() default 1; }", "interface I { default <T> T m() { return null; } }",
		"class A { Object o = int[]::new; Object p = x -> { }; }", "open module m { requires transitive a; }",
		"class Ünï { int 变量 = 'é'; } // TODO(x): y", "/**/", "//",
		"interface I { synchronized void m(); volatile int K = 1; }", "import Foo; import static Foo.bar; class A extends Foo { }", "package a;", "import a.B;", ";;",
		"class A { void get() { } void set() { } void $() { } } // TODO(a", "class A { }\r\n// TODO", "@interface A { native int v() default 1; }", "class A { { switch (x) { case null -> { } default -> { } } } }",
	} {
		f.Add([]byte(s))
	}
	f.Fuzz(func(t *testing.T, data []byte) {
		text := string(data)
		if n, _ := syntaxErrors(text); n > 0 {
			t.Skip()
		}
		if msg := judgeText(text); msg != "" {
			pbt.FuzzFail(t, "units", UnitCase{Text: text}, msg)
		}
	})
}
