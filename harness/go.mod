module verif

go 1.23

require (
	github.com/antlr/antlr4/runtime/Go/antlr/v4 v4.0.0-20221202181307-76fa05c21b12
	github.com/awalterschulze/gographviz v0.0.0-20190522210029-fa59802746ab
	github.com/modernizing/coca v0.0.0
	pgregory.net/rapid v1.3.0
)

require (
	github.com/huleTW/bad-smell-analysis v0.1.0 // indirect
	github.com/sabhiram/go-gitignore v0.0.0-20180611051255-d3107576ba94 // indirect
	github.com/yourbasic/radix v0.0.0-20180308122924-cbe1cc82e907 // indirect
	golang.org/x/exp v0.0.0-20220722155223-a9213eeb770e // indirect
)

replace github.com/modernizing/coca => /repo
