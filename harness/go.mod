module verif

go 1.23

require (
	github.com/awalterschulze/gographviz v0.0.0-20190522210029-fa59802746ab
	github.com/modernizing/coca v0.0.0
	pgregory.net/rapid v1.3.0
)

require github.com/yourbasic/radix v0.0.0-20180308122924-cbe1cc82e907 // indirect

replace github.com/modernizing/coca => /repo
