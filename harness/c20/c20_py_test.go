// C20, Python side: module generator with ground truth, oracle, wider crash-freedom generator.
package c20

import (
	"fmt"
	"os/exec"
	"sort"
	"strings"

	"github.com/antlr/antlr4/runtime/Go/antlr/v4"
	python "github.com/modernizing/coca/languages/python"
	"github.com/modernizing/coca/pkg/application/analysis/pyapp"
	"github.com/modernizing/coca/pkg/domain/core_domain"
	"github.com/modernizing/coca/pkg/infrastructure/ast/ast_python"
	"pgregory.net/rapid"

	"verif/internal/pbt"
)

// ---------------------------------------------------------------------------------------
// ground truth

type PyDec struct {
	Name string   `json:"name"`
	Args []string `json:"args,omitempty"`
}

func (d PyDec) String() string {
	if d.Args == nil {
		return "@" + d.Name
	}
	return "@" + d.Name + "(" + strings.Join(d.Args, ",") + ")"
}

type PyFunc struct {
	Name   string   `json:"name"`
	Decs   []PyDec  `json:"decs,omitempty"`
	Nested []string `json:"nested,omitempty"` // defs nested inside: tolerated as extra entries of the same container
}

type PyClass struct {
	Name    string   `json:"name"`
	Decs    []PyDec  `json:"decs,omitempty"`
	Methods []PyFunc `json:"methods,omitempty"`
}

type PyModule struct {
	Path     string    `json:"path"`
	Code     string    `json:"code"`
	Imports  []string  `json:"imports,omitempty"` // sources, one per import statement
	Classes  []PyClass `json:"classes,omitempty"`
	Funcs    []PyFunc  `json:"funcs,omitempty"`
	Features []string  `json:"features,omitempty"`
}

// ---------------------------------------------------------------------------------------
// generator

type pyDecSpec struct {
	Name int
	Args int
}

type pyFuncSpec struct {
	Name   int
	Decs   []pyDecSpec
	Params int
	Body   int
	Nested int // 0 none, 1 one nested def, 2 a nested def that has a nested def, 3 two nested defs
	Async  bool
	Doc    bool
}

type pyClassSpec struct {
	Decs    []pyDecSpec
	Bases   int
	Attr    bool
	Doc     bool
	Methods []pyFuncSpec
	Inner   int // 0 none; k > 0: an inner class (Django's `class Meta:`) written after the first k-1 methods
}

type pyImportSpec struct {
	Form int
	Mod  int
}

type pySpec struct {
	Imports    []pyImportSpec
	Classes    []pyClassSpec
	Funcs      []pyFuncSpec
	Indent     int
	Order      []int
	MainGuard  bool
	Comments   bool
	NoFinalNL  bool
	BlankLines int
	ModuleVars bool
}

var (
	pyDecNames  = []string{"staticmethod", "classmethod", "property", "app.route", "pytest.mark.slow", "cache", "dataclass", "functools.wraps"}
	pyDecArgs   = [][]string{nil, {}, {"1", "x=2"}, {"\"/items\""}, {"\"/x\"", "methods=[\"GET\"]"}, {"maxsize=None"}}
	pyMethNames = []string{"__init__", "run", "save", "load", "__str__", "area", "close", "update"}
	pyFuncNames = []string{"main", "helper", "parse_args", "Build", "make_app", "Setup", "_private", "run"}
	pyModules   = []string{"os", "os.path", "sys", "json", "collections.abc", "django.db.models", "flask", "typing"}
	pyFromNames = []string{"path", "List, Dict", "models as m", "Flask, request", "abc"}
	pyParams    = []string{"", "a", "a, b=1", "*args, **kwargs", "a: int, b: str = \"x\"", "a, *, key=None"}
	pyBodies    = []string{"pass", "return 1", "x = 1\nreturn x", "print(\"hi\")", "self_count = 0\nself_count += 1", "raise ValueError(\"no\")", "return [i for i in range(3)]"}
)

var pyDecSpecGen = rapid.Custom(func(t *rapid.T) pyDecSpec {
	return pyDecSpec{Name: rapid.IntRange(0, len(pyDecNames)-1).Draw(t, "decorator"), Args: rapid.SampledFrom([]int{0, 0, 0, 1, 2, 3, 4, 5}).Draw(t, "decoratorArgs")}
})

var pyFuncSpecGen = rapid.Custom(func(t *rapid.T) pyFuncSpec {
	f := pyFuncSpec{}
	f.Name = rapid.IntRange(0, 7).Draw(t, "defName")
	f.Decs = rapid.SliceOfN(pyDecSpecGen, 0, 2).Draw(t, "decorators")
	if rapid.IntRange(0, 1).Draw(t, "decorated") == 0 {
		f.Decs = nil
	}
	f.Params = rapid.IntRange(0, len(pyParams)-1).Draw(t, "params")
	f.Body = rapid.IntRange(0, len(pyBodies)-1).Draw(t, "body")
	f.Nested = rapid.SampledFrom([]int{0, 0, 0, 0, 1, 1, 2, 3}).Draw(t, "nestedDefs")
	f.Async = rapid.IntRange(0, 7).Draw(t, "async") == 7
	f.Doc = rapid.IntRange(0, 4).Draw(t, "docstring") == 4
	return f
})

var pyClassSpecGen = rapid.Custom(func(t *rapid.T) pyClassSpec {
	c := pyClassSpec{}
	c.Decs = rapid.SliceOfN(pyDecSpecGen, 0, 2).Draw(t, "classDecorators")
	if rapid.IntRange(0, 2).Draw(t, "classDecorated") != 0 {
		c.Decs = nil
	}
	c.Bases = rapid.IntRange(0, 3).Draw(t, "bases")
	c.Attr = rapid.IntRange(0, 3).Draw(t, "classAttribute") == 3
	c.Doc = rapid.IntRange(0, 4).Draw(t, "classDocstring") == 4
	c.Methods = rapid.SliceOfN(pyFuncSpecGen, 0, 4).Draw(t, "methods")
	if rapid.IntRange(0, 4).Draw(t, "innerClass") == 4 && !pbt.Excluded("py_nested_class") {
		c.Inner = 1 + rapid.IntRange(0, len(c.Methods)).Draw(t, "innerClassAfter")
	}
	return c
})

func drawPySpec(t *rapid.T) pySpec {
	p := pySpec{}
	p.Imports = rapid.SliceOfN(rapid.Custom(func(t *rapid.T) pyImportSpec {
		return pyImportSpec{Form: rapid.IntRange(0, 4).Draw(t, "importForm"), Mod: rapid.IntRange(0, len(pyModules)-1).Draw(t, "module")}
	}), 0, 4).Draw(t, "imports")
	p.Classes = rapid.SliceOfN(pyClassSpecGen, 0, 4).Draw(t, "classes")
	p.Funcs = rapid.SliceOfN(pyFuncSpecGen, 0, 3).Draw(t, "functions")
	p.Indent = rapid.IntRange(0, 2).Draw(t, "indent")
	if rapid.IntRange(0, 2).Draw(t, "shuffleDefinitions") == 2 {
		p.Order = rapid.SliceOfN(rapid.IntRange(0, 9), 8, 8).Draw(t, "definitionOrder")
	}
	p.MainGuard = rapid.IntRange(0, 3).Draw(t, "mainGuard") == 3
	p.Comments = rapid.IntRange(0, 3).Draw(t, "comments") == 3
	p.NoFinalNL = rapid.IntRange(0, 7).Draw(t, "noFinalNewline") == 7
	p.BlankLines = rapid.IntRange(0, 2).Draw(t, "blankLines")
	p.ModuleVars = rapid.IntRange(0, 3).Draw(t, "moduleVariables") == 3
	return p
}

type pyWriter struct {
	b    strings.Builder
	unit string
	seq  int
}

func (w *pyWriter) line(depth int, s string) {
	for _, l := range strings.Split(s, "\n") {
		w.b.WriteString(strings.Repeat(w.unit, depth) + l + "\n")
	}
}

func renderDecs(w *pyWriter, depth int, specs []pyDecSpec, feats map[string]bool) []PyDec {
	var out []PyDec
	for _, ds := range specs {
		d := PyDec{Name: pyDecNames[ds.Name%len(pyDecNames)]}
		args := pyDecArgs[ds.Args%len(pyDecArgs)]
		text := "@" + d.Name
		if args != nil {
			d.Args = append([]string{}, args...)
			text += "(" + strings.Join(args, ", ") + ")"
			feats["decorator_with_arguments"] = true
		} else {
			feats["decorator_without_arguments"] = true
		}
		w.line(depth, text)
		out = append(out, d)
	}
	return out
}

func renderPyFunc(w *pyWriter, depth int, fs pyFuncSpec, name string, method bool, feats map[string]bool) PyFunc {
	f := PyFunc{Name: name}
	f.Decs = renderDecs(w, depth, fs.Decs, feats)
	if len(f.Decs) > 0 {
		if method {
			feats["decorated_method"] = true
		} else {
			feats["decorated_function"] = true
		}
	}
	params := pyParams[fs.Params%len(pyParams)]
	if method {
		if params == "" {
			params = "self"
		} else {
			params = "self, " + params
		}
	}
	kw := "def "
	if fs.Async {
		kw = "async def "
		feats["async_def"] = true
	}
	w.line(depth, kw+name+"("+params+"):")
	if fs.Doc {
		w.line(depth+1, "\"\"\"Docstring of "+name+".\"\"\"")
	}
	nested := func(d int) string {
		w.seq++
		n := fmt.Sprintf("inner_%d", w.seq)
		w.line(d, "def "+n+"(x):")
		f.Nested = append(f.Nested, n)
		feats["nested_def"] = true
		return n
	}
	switch fs.Nested {
	case 1:
		n := nested(depth + 1)
		w.line(depth+2, "return x")
		w.line(depth+1, "value = "+n+"(1)")
	case 2:
		nested(depth + 1)
		n2 := nested(depth + 2)
		w.line(depth+3, "return x")
		w.line(depth+2, "return "+n2)
	case 3:
		nested(depth + 1)
		w.line(depth+2, "return x")
		nested(depth + 1)
		w.line(depth+2, "pass")
	}
	w.line(depth+1, pyBodies[fs.Body%len(pyBodies)])
	return f
}

func renderPy(p pySpec, prefix, path string) PyModule {
	m := PyModule{Path: path}
	feats := map[string]bool{}
	w := &pyWriter{unit: []string{"    ", "  ", "\t"}[p.Indent%3]}
	if p.Comments {
		w.line(0, "# -*- coding: utf-8 -*-\n# generated module: class Fake: def fake(): pass")
	}
	for _, is := range p.Imports {
		mod := pyModules[is.Mod%len(pyModules)]
		switch is.Form {
		case 0:
			w.line(0, "import "+mod)
		case 1:
			w.line(0, "import "+mod+" as alias"+fmt.Sprint(is.Mod))
			feats["import_as"] = true
		case 2, 3:
			w.line(0, "from "+mod+" import "+pyFromNames[(is.Mod+is.Form)%len(pyFromNames)])
			feats["from_import"] = true
		default:
			w.line(0, "from "+mod+" import (name_a, name_b)")
			feats["from_import"] = true
		}
		m.Imports = append(m.Imports, mod)
	}
	if p.ModuleVars {
		w.line(0, "VERSION = \"1.0\"\n_registry = {}")
	}
	type def struct {
		class int // index or -1
		fn    int
		key   int
	}
	var defs []def
	for i := range p.Classes {
		defs = append(defs, def{class: i, fn: -1})
	}
	for i := range p.Funcs {
		defs = append(defs, def{class: -1, fn: i})
	}
	if len(p.Order) > 0 {
		for i := range defs {
			defs[i].key = p.Order[i%len(p.Order)]
		}
		sort.SliceStable(defs, func(i, j int) bool { return defs[i].key < defs[j].key })
	}
	usedFn := map[string]bool{}
	for _, d := range defs {
		for i := 0; i < p.BlankLines; i++ {
			w.b.WriteString("\n")
		}
		if d.class >= 0 {
			cs := p.Classes[d.class]
			c := PyClass{Name: fmt.Sprintf("%sModel%d", prefix, d.class+1)}
			c.Decs = renderDecs(w, 0, cs.Decs, feats)
			if len(c.Decs) > 0 {
				feats["decorated_class"] = true
			}
			head := "class " + c.Name
			switch cs.Bases {
			case 1:
				head += "(object)"
			case 2:
				head += "(Base, Mixin)"
			case 3:
				head += "(Base, metaclass=Meta)"
			}
			w.line(0, head+":")
			empty := true
			if cs.Doc {
				w.line(1, "\"\"\"A generated class.\"\"\"")
				empty = false
			}
			if cs.Attr {
				w.line(1, "table = \"t\"\ncount = 0")
				empty = false
			}
			usedM := map[string]bool{}
			var inner *PyClass
			writeInner := func() {
				// an inner class with an attribute and a method; the outer class goes on afterwards
				ic := PyClass{Name: fmt.Sprintf("%sMeta%d", prefix, d.class+1)}
				w.line(1, "class "+ic.Name+":")
				w.line(2, "ordering = \"name\"")
				w.line(2, "def label(self):")
				w.line(3, "return self.ordering")
				ic.Methods = append(ic.Methods, PyFunc{Name: "label"})
				inner = &ic
				feats["inner_class"] = true
				empty = false
			}
			for mi, ms := range cs.Methods {
				if cs.Inner == mi+1 {
					writeInner()
				}
				name := pyMethNames[ms.Name%len(pyMethNames)]
				for usedM[name] {
					name += "_again"
				}
				usedM[name] = true
				if mi > 0 && p.BlankLines > 0 {
					w.b.WriteString("\n")
				}
				c.Methods = append(c.Methods, renderPyFunc(w, 1, ms, name, true, feats))
				empty = false
			}
			if cs.Inner > len(cs.Methods) {
				writeInner()
			}
			if empty {
				w.line(1, "pass")
			}
			if inner != nil {
				m.Classes = append(m.Classes, *inner)
			}
			m.Classes = append(m.Classes, c)
			continue
		}
		fs := p.Funcs[d.fn]
		name := pyFuncNames[fs.Name%len(pyFuncNames)] + prefix
		for usedFn[name] {
			name += "_again"
		}
		usedFn[name] = true
		m.Funcs = append(m.Funcs, renderPyFunc(w, 0, fs, name, false, feats))
	}
	if p.MainGuard {
		w.line(0, "if __name__ == \"__main__\":")
		w.line(1, "print(\"start\")")
		feats["main_guard"] = true
	}
	m.Code = w.b.String()
	if p.NoFinalNL {
		m.Code = strings.TrimRight(m.Code, "\n")
		feats["no_final_newline"] = true
	}
	for k := range feats {
		m.Features = append(m.Features, k)
	}
	sort.Strings(m.Features)
	return m
}

// ---------------------------------------------------------------------------------------
// the shipped parser as a filter

type pyErr struct {
	*antlr.DefaultErrorListener
	n     int
	first string
}

func (e *pyErr) SyntaxError(_ antlr.Recognizer, _ interface{}, line, column int, msg string, _ antlr.RecognitionException) {
	if e.n == 0 {
		e.first = fmt.Sprintf("line %d:%d %s", line, column, msg)
	}
	e.n++
}

// pythonRejects parses code with the shipped lexer and parser, starting from the lexer state of a
// fresh process, and returns the first syntax error.
func pythonRejects(code string) string {
	resetPythonLexer()
	return pythonRejectsNext(code)
}

// pythonRejectsNext does the same without resetting the lexer state first: the n-th file of a run.
func pythonRejectsNext(code string) string {
	e := &pyErr{DefaultErrorListener: antlr.NewDefaultErrorListener()}
	if p := call(func() {
		lexer := python.NewPythonLexer(antlr.NewInputStream(code))
		lexer.RemoveErrorListeners()
		lexer.AddErrorListener(e)
		parser := python.NewPythonParser(antlr.NewCommonTokenStream(lexer, antlr.TokenDefaultChannel))
		parser.RemoveErrorListeners()
		parser.AddErrorListener(e)
		parser.Root()
	}); p != "" {
		return "the parser itself panicked: " + p
	}
	return e.first
}

// ---------------------------------------------------------------------------------------
// oracle

func decStrings(list []core_domain.CodeAnnotation) []string {
	var out []string
	for _, a := range list {
		d := PyDec{Name: a.Name}
		if a.KeyValues != nil {
			d.Args = []string{}
			for _, kv := range a.KeyValues {
				d.Args = append(d.Args, kv.Value)
			}
		}
		out = append(out, d.String())
	}
	return out
}

func wantDecStrings(list []PyDec) []string {
	var out []string
	for _, d := range list {
		if d.Args != nil && len(d.Args) == 0 {
			d.Args = nil // "@d()" has no argument list in the model either
		}
		out = append(out, d.String())
	}
	return out
}

// judgeDefs: each declared definition exactly once with its decorators; extra entries only for nested defs.
func judgeDefs(where string, got []core_domain.CodeFunction, want []PyFunc) string {
	nested := map[string]bool{}
	declared := map[string]PyFunc{}
	for _, f := range want {
		declared[f.Name] = f
		for _, n := range f.Nested {
			nested[n] = true
		}
	}
	seen := map[string]int{}
	for _, g := range got {
		seen[g.Name]++
		if _, ok := declared[g.Name]; !ok {
			if !nested[g.Name] {
				return fmt.Sprintf("%s: %q is listed but not declared there", where, g.Name)
			}
			continue
		}
		if msg := sameSeq("decorators of "+where+" "+g.Name, decStrings(g.Annotations), wantDecStrings(declared[g.Name].Decs)); msg != "" {
			return msg
		}
	}
	for _, f := range want {
		if seen[f.Name] != 1 {
			return fmt.Sprintf("%s: %q is declared once and listed %d time(s)", where, f.Name, seen[f.Name])
		}
	}
	return ""
}

func judgePyClasses(ds []core_domain.CodeDataStruct, classes []PyClass) string {
	var got, want []string
	byName := map[string]core_domain.CodeDataStruct{}
	for _, d := range ds {
		got = append(got, d.NodeName)
		byName[d.NodeName] = d
	}
	for _, c := range classes {
		want = append(want, c.Name)
	}
	if msg := sameMultiset("classes", got, want); msg != "" {
		return msg
	}
	for _, c := range classes {
		d := byName[c.Name]
		if msg := sameSeq("decorators of class "+c.Name, decStrings(d.Annotations), wantDecStrings(c.Decs)); msg != "" {
			return msg
		}
		if msg := judgeDefs("methods of class "+c.Name, d.Functions, c.Methods); msg != "" {
			return msg
		}
	}
	return ""
}

func judgePyContainer(c core_domain.CodeContainer, m PyModule) string {
	var got []string
	for _, im := range c.Imports {
		got = append(got, im.Source)
	}
	if msg := sameMultiset("imports (source)", got, m.Imports); msg != "" {
		return msg
	}
	if msg := judgePyClasses(c.DataStructures, m.Classes); msg != "" {
		return msg
	}
	var fns []core_domain.CodeFunction
	for _, mem := range c.Members {
		fns = append(fns, mem.FunctionNodes...)
	}
	return judgeDefs("module-level functions", fns, m.Funcs)
}

// ---------------------------------------------------------------------------------------
// py_module

type PyCase struct {
	Module PyModule `json:"module"`
}

func genPyCase(t *rapid.T) PyCase {
	return PyCase{Module: renderPy(drawPySpec(t), "", "pkg/module.py")}
}

func pyClasses(m PyModule) (classes []string, nonTrivial bool) {
	classes = append(classes, m.Features...)
	classes = append(classes, fmt.Sprintf("classes=%d", len(m.Classes)))
	decorated := false
	for _, f := range m.Features {
		if strings.HasPrefix(f, "decorated_") {
			decorated = true
		}
	}
	if len(m.Imports) > 0 {
		classes = append(classes, "imports")
	}
	if len(m.Funcs) > 0 {
		classes = append(classes, "module_level_functions")
	}
	return classes, len(m.Classes) >= 2 && decorated
}

func runPy(code, path string) (core_domain.CodeContainer, string) {
	ast_python.VerifResetAstPython()
	resetPythonLexer()
	var res core_domain.CodeContainer
	p := call(func() { res = new(pyapp.PythonIdentApp).Analysis(code, path) })
	return res, p
}

func checkPyCase(c PyCase) pbt.Verdict {
	if why := pythonRejects(c.Module.Code); why != "" {
		pbt.Count("python_rejected_by_shipped_parser", 1)
		return pbt.Verdict{Skip: true}
	}
	res, p := runPy(c.Module.Code, c.Module.Path)
	if p != "" {
		return pbt.Fail("PythonIdentApp.Analysis panicked on a module its parser accepts: %s\n--- %s\n%s", p, c.Module.Path, c.Module.Code)
	}
	if msg := judgePyContainer(res, c.Module); msg != "" {
		return pbt.Fail("PythonIdentApp.Analysis: %s\n--- %s\n%s", msg, c.Module.Path, c.Module.Code)
	}
	if e := marshalOK(res); e != "" {
		return pbt.Fail("result cannot be marshalled: %s", e)
	}
	v := pbt.Verdict{}
	v.Classes, v.NonTrivial = pyClasses(c.Module)
	return v
}

// ---------------------------------------------------------------------------------------
// py_plain: the same modules written in the plainest style (four spaces, no comment header, no async,
// final newline). They are valid Python by construction, so they are judged without asking the shipped
// parser first: a module whose classes get lost because the parse derails violates the statement, whether
// or not a syntax error was printed on the way.

func genPyPlain(t *rapid.T) PyCase {
	spec := drawPySpec(t)
	spec.Indent, spec.Comments, spec.NoFinalNL = 0, false, false
	plainFn := func(f *pyFuncSpec) {
		f.Async = false
		if f.Nested > 1 {
			f.Nested = 1
		}
	}
	for i := range spec.Funcs {
		plainFn(&spec.Funcs[i])
	}
	for i := range spec.Classes {
		for j := range spec.Classes[i].Methods {
			plainFn(&spec.Classes[i].Methods[j])
		}
	}
	return PyCase{Module: renderPy(spec, "", "pkg/plain.py")}
}

// cpythonRejects asks python3 (when installed) whether the text is valid Python; "" = valid or unknown.
func cpythonRejects(code string) string {
	path, err := exec.LookPath("python3")
	if err != nil {
		return ""
	}
	cmd := exec.Command(path, "-c", "import ast,sys; ast.parse(sys.stdin.read())")
	cmd.Stdin = strings.NewReader(code)
	out, err := cmd.CombinedOutput()
	if _, isExit := err.(*exec.ExitError); isExit {
		return string(out)
	}
	return ""
}

func checkPyPlain(c PyCase) pbt.Verdict {
	if pbt.Excluded("py_lexer_token_queue") && pythonRejects(c.Module.Code) != "" {
		return pbt.Verdict{Skip: true}
	}
	res, p := runPy(c.Module.Code, c.Module.Path)
	msg := ""
	if p != "" {
		msg = "PythonIdentApp.Analysis panicked on a valid module: " + p
	} else if m := judgePyContainer(res, c.Module); m != "" {
		msg = "PythonIdentApp.Analysis: " + m
		if why := pythonRejects(c.Module.Code); why != "" {
			msg += "\n(the shipped parser reports: " + why + ")"
		}
	}
	if msg != "" {
		if why := cpythonRejects(c.Module.Code); why != "" {
			panic("c20 generator bug: python3 rejects a module of the plain generator: " + why + "\n" + c.Module.Code)
		}
		return pbt.Fail("%s\n--- %s\n%s", msg, c.Module.Path, c.Module.Code)
	}
	v := pbt.Verdict{}
	v.Classes, v.NonTrivial = pyClasses(c.Module)
	return v
}

// ---------------------------------------------------------------------------------------
// py_any: wider modules, crash-freedom only

var pyAnySnippets = []string{
	"class Outer:\n    class Inner:\n        pass\n\n    def after_inner(self):\n        pass\n",
	"class Holder:\n    def build(self):\n        class Local:\n            def m(self):\n                pass\n        return Local\n\n    def later(self):\n        pass\n",
	"def factory():\n    class Made:\n        def m(self):\n            pass\n    def tail():\n        pass\n    return Made\n",
	"class Deep:\n    class A:\n        class B:\n            def f(self):\n                pass\n",
	"square = lambda x: x * x\nvalues = [square(i) for i in range(3) if i]\n",
	"try:\n    import simplejson as json\nexcept ImportError:\n    import json\nfinally:\n    pass\n",
	"with open(\"f\") as fh, open(\"g\") as gh:\n    data = fh.read()\n",
	"async def fetch(session):\n    async with session.get(\"u\") as resp:\n        async for chunk in resp:\n            yield chunk\n",
	"if True:\n    def conditional():\n        pass\nelse:\n    class Alternative:\n        pass\n",
	"import os, sys\nfrom . import sibling\nfrom ..pkg import thing as other\nfrom mod import *\n",
	"def typed(a: int = 1, *args: str, key: bool = False, **kw) -> str:\n    return \"x\"\n",
	"class OneLiner: pass\ndef one_liner(): return 1\nx = 1; y = 2\n",
	"def outer():\n    def mid():\n        def inner():\n            return 1\n        return inner\n    return mid\n",
	"total = (1 +\n         2)\ncall(a,\n     b=2)\nlong = 1 + \\\n    2\n",
	"TEXT = \"\"\"\nclass NotAClass:\n    def not_a_def(self):\n        pass\n\"\"\"\n",
	"class WithProps:\n    @property\n    def x(self):\n        return 1\n\n    @x.setter\n    def x(self, v):\n        pass\n",
	"while False:\n    break\nelse:\n    pass\nfor i in range(2):\n    continue\n",
	"def gen():\n    global counter\n    counter = 1\n    yield from range(3)\n",
	"@decorator\nclass Decorated:\n    @staticmethod\n    def s():\n        @wraps(s)\n        def w():\n            pass\n        return w\n",
	"class Meta(type):\n    def __new__(mcs, name, bases, ns, **kw):\n        return super().__new__(mcs, name, bases, ns)\n",
	"print(\"py3\")\nassert True, \"msg\"\ndel total_x\n",
	"class A:\n\tdef tabbed(self):\n\t\treturn {\n\t\t\t\"k\": [1, 2],\n\t\t}\n",
}

type PyAnyCase struct {
	Code     string   `json:"code"`
	Features []string `json:"features"`
}

func genPyAny(t *rapid.T) PyAnyCase {
	base := renderPy(drawPySpec(t), "", "m.py")
	picks := rapid.SliceOfN(rapid.IntRange(0, len(pyAnySnippets)-1), 1, 4).Draw(t, "snippets")
	front := rapid.Bool().Draw(t, "snippetsFirst")
	var b strings.Builder
	c := PyAnyCase{}
	code := base.Code
	if code != "" && !strings.HasSuffix(code, "\n") {
		code += "\n"
	}
	if !front {
		b.WriteString(code)
	}
	for _, k := range picks {
		if (k <= 3) && pbt.Excluded("py_nested_class") {
			continue
		}
		b.WriteString(pyAnySnippets[k])
		c.Features = append(c.Features, fmt.Sprintf("snippet_%02d", k))
	}
	if front {
		b.WriteString(code)
	}
	c.Code = b.String()
	return c
}

func checkPyAny(c PyAnyCase) pbt.Verdict {
	if why := pythonRejects(c.Code); why != "" {
		pbt.Count("python_rejected_by_shipped_parser", 1)
		return pbt.Verdict{Skip: true}
	}
	res, p := runPy(c.Code, "any.py")
	if p != "" {
		return pbt.Fail("PythonIdentApp.Analysis panicked on a module its parser accepts: %s\n--- any.py\n%s", p, c.Code)
	}
	if e := marshalOK(res); e != "" {
		return pbt.Fail("result cannot be marshalled: %s", e)
	}
	return pbt.Verdict{Classes: c.Features, NonTrivial: len(c.Features) >= 2}
}
