// C20, Python side: module generator with ground truth, oracle, wider crash-freedom generator.
package c20

import (
	"fmt"
	"os"
	"os/exec"
	"sort"
	"strings"

	"github.com/antlr/antlr4/runtime/Go/antlr/v4"
	python "github.com/modernizing/coca/languages/python"
	"github.com/modernizing/coca/pkg/application/analysis/pyapp"
	"github.com/modernizing/coca/pkg/domain/core_domain"
	"github.com/modernizing/coca/pkg/infrastructure/ast/ast_python"
	"pgregory.net/rapid"

	"verif/internal/pbt"
)

// ---------------------------------------------------------------------------------------
// ground truth

type PyDec struct {
	Name string   `json:"name"`
	Args []string `json:"args,omitempty"`
}

func (d PyDec) String() string {
	if d.Args == nil {
		return "@" + d.Name
	}
	return "@" + d.Name + "(" + strings.Join(d.Args, ",") + ")"
}

type PyFunc struct {
	Name   string   `json:"name"`
	Decs   []PyDec  `json:"decs,omitempty"`
	Nested []string `json:"nested,omitempty"` // defs nested inside: tolerated as extra entries of the same container
}

type PyClass struct {
	Name    string   `json:"name"`
	Decs    []PyDec  `json:"decs,omitempty"`
	Methods []PyFunc `json:"methods,omitempty"`
}

type PyModule struct {
	Path     string    `json:"path"`
	Code     string    `json:"code"`
	Imports  []string  `json:"imports,omitempty"` // sources, one per import statement
	Classes  []PyClass `json:"classes,omitempty"`
	Funcs    []PyFunc  `json:"funcs,omitempty"`
	Features []string  `json:"features,omitempty"`
}

// ---------------------------------------------------------------------------------------
// generator

type pyDecSpec struct {
	Name int
	Args int
	// second round
	ArgsAlt   int  // k > 0: pyAltDecArgs[k-1] instead of the arguments drawn above
	MultiLine bool // with arguments: one argument per line, a comma after the last one
}

type pyFuncSpec struct {
	Name   int
	Decs   []pyDecSpec
	Params int
	Body   int
	Nested int // 0 none, 1 one nested def, 2 a nested def that has a nested def, 3 two nested defs
	Async  bool
	Doc    bool
	// added by the widening round (zero value = the plain variant)
	Returns      int  // 1 "-> int", 2 "-> \"Model\""
	MultiLineSig bool // the parameter list is spread over several lines
	OneLine      bool // "def f(self): return 1" (only without docstring and nested defs)
	DecComment   bool // a comment line between the decorators and the def
	DocMulti     bool // with Doc: a docstring of several lines that contains the text of a class and a def
	// second round (zero value = the plain variant)
	NameAlt       int  // k > 0: pyAltDefNames[k-1] instead of a name of the pool
	DecNested     bool // the nested defs carry a decorator of their own
	LocalImport   int  // 1 `import json`, 2 `from os import path as p` as the first statement of the body
	BodyAlt       int  // k > 0: pyAltBodies[k-1]: strings that contain #, brackets, quotes, the text of definitions
	DefComment    bool // a comment after the colon of the def line
	SpacedSig     bool // blanks inside the parentheses of the signature
	BlankAfterDec bool // an empty line between the decorators and the def
}

type pyClassSpec struct {
	Decs    []pyDecSpec
	Bases   int
	Attr    bool
	Doc     bool
	Methods []pyFuncSpec
	Inner   int // 0 none; k > 0: an inner class (Django's `class Meta:`) written after the first k-1 methods
	// added by the widening round (zero value = the plain variant)
	Property    int  // k > 0: a property with getter and setter (two defs of one name) written after the first k-1 methods
	ZeroComment bool // a comment at column 0 between the methods
	SpaceLine   bool // a line of blanks only between the methods
	DocMulti    bool // with Doc: a docstring of several lines that contains the text of a class and a def
	// second round (zero value = the plain variant)
	NameAlt      int  // k > 0: the class name is built from pyAltClassNames[k-1]
	MetaName     bool // the inner class is called Meta, in every class that has one
	InnerDec     bool // the inner class is decorated
	InnerDeep    bool // the inner class holds a class of its own, followed by a further method of the inner class
	Inner2       bool // a second inner class after the last method, followed by a further method of the outer class
	BasesAlt     int  // k > 0: pyAltBases[k-1] instead of the base list drawn above
	OneLine      bool // `class X: pass` (only for a class without anything in it)
	ClassComment bool // a comment after the colon of the class line
}

type pyImportSpec struct {
	Form int
	Mod  int
	Alt  int // second round, k > 0: 1 `from m import *`, 2 parenthesised names over several lines, 3 `from m import a as b, c as d`
}

type pySpec struct {
	Imports    []pyImportSpec
	Classes    []pyClassSpec
	Funcs      []pyFuncSpec
	Indent     int
	Order      []int
	MainGuard  bool
	Comments   bool
	NoFinalNL  bool
	BlankLines int
	ModuleVars bool
	// added by the widening round (zero value = the plain variant)
	LateImports []pyImportSpec // import statements written between / after the definitions; Form/4 = position
	CRLF        bool
	SharedClass bool // the first class is called Config whatever the prefix (modules of a project may share a class name)
	SharedFunc  bool // the first function is called Setup whatever the prefix
	// second round (zero value = the plain variant)
	TryImport   bool // try: import a / except ImportError: import b
	CondDef     int  // k > 0: the k-th definition is written inside `if True:` at module level
	StringVar   bool // module-level strings that contain the text of decorated definitions, #, brackets and quotes
	IndentVary  bool // every block chooses its own indentation width
	TrailingWS  bool // blanks at the end of some lines
	LongLine    bool // a comment line of more than 65536 bytes
	NonASCII    bool // comments and strings with letters outside ASCII
	MixedIndent bool // every level is indented by two blanks and a tab
	StartForm   int  // 1 the first line holds blanks only, 2 a #! line first
	EndForm     int  // how the text ends: 1 a comment without newline, 2 a line of blanks without newline, 3 several empty lines, 4 an indented comment, 5 a form feed line
}

var (
	pyDecNames  = []string{"staticmethod", "classmethod", "property", "app.route", "pytest.mark.slow", "cache", "dataclass", "functools.wraps"}
	pyDecArgs   = [][]string{nil, {}, {"1", "x=2"}, {"\"/items\""}, {"\"/x\"", "methods=[\"GET\"]"}, {"maxsize=None"}}
	pyMethNames = []string{"__init__", "run", "save", "load", "__str__", "area", "close", "update"}
	pyFuncNames = []string{"main", "helper", "parse_args", "Build", "make_app", "Setup", "_private", "run"}
	pyModules   = []string{"os", "os.path", "sys", "json", "collections.abc", "django.db.models", "flask", "typing"}
	pyFromNames = []string{"path", "List, Dict", "models as m", "Flask, request", "abc"}
	pyParams    = []string{"", "a", "a, b=1", "*args, **kwargs", "a: int, b: str = \"x\"", "a, *, key=None"}
	pyBodies    = []string{"pass", "return 1", "x = 1\nreturn x", "print(\"hi\")", "self_count = 0\nself_count += 1", "raise ValueError(\"no\")", "return [i for i in range(3)]",
		// compound statements: the block structure goes two levels below the def
		"if True:\n    x = 1\nelse:\n    x = 2\nreturn x", "for i in range(3):\n    if i:\n        continue\n    print(i)",
		"try:\n    x = 1\nexcept ValueError:\n    x = 2\nfinally:\n    pass", "with open(\"f\") as fh:\n    data = fh.read()\nwhile False:\n    break",
		"return f\"{1 + 2!r} and {3}\"", "key = lambda v: -v\nreturn {k: v for k, v in {}.items()}"}
	pyMultiParams = []string{"", "a,", "a,\nb=1,", "*args,\n**kwargs", "a: int,\nb: str = \"x\",", "a,\n*,\nkey=None,"}
	// second round
	// decorator arguments: a star, two stars, a call, a list and a string with commas and brackets in them, a string with blanks
	pyAltDecArgs    = [][]string{{"*extra"}, {"**opts"}, {"Depends(get_db)", "tags=[1,2]"}, {"\"a,(b)\"", "x=2"}, {"\"/a b/<int:id>\""}, {"[1,2]", "{\"k\":1}"}, {"a.b", "-1", "not_x", "None"}, {"'single, quoted'"}}
	pyAltDefNames   = []string{"from_json", "import_data", "class_name", "async_run", "is_valid", "not_found", "lambda_handler", "print_all", "exec_cmd", "x", "_", "__call__", "größe", "defrag", "very_long_name_" + strings.Repeat("z", 100), "True_", "as_dict", "with_ctx", "f2"}
	pyAltClassNames = []string{"model", "_Base", "K", "Käse", "VeryLongClassName" + strings.Repeat("Z", 100), "Classify", "Def", "Import_", "snake_case", "HTTP2Server"}
	pyAltBases      = []string{"()", "(models.Model)", "(Generic[T])", "(Base,)", "( Base , Mixin )", "(Base,\n        Mixin,\n        )", "(Base, Mixin, metaclass=abc.ABCMeta, flag=True)", "(Base \\\n        )"}
	pyAltBodies     = []string{"text = \"# not a comment ( [ {\"\nreturn text", "pattern = 'def fake(): \"class Fake:\"'\nreturn pattern", "sql = \"\"\"\n@fake\nclass FakeInString:\n    def fake_in_string(self):\n        pass\n\"\"\"\nreturn sql",
		"x = 1; y = 2; return x + y", "total = (1 +\n         2)\nreturn total", "value = 1 + \\\n    2\nreturn value", "data = {\n    \"k\": [1, 2],  # comment inside brackets: def fake():\n}\nreturn data",
		"raw = r\"\\d+\\(\"\nquote = '\\''\nreturn raw + quote", "return \"ok\" if self_check() else None", "assert True, \"class Fake: pass\"\nglobal counter\ncounter = 1",
		"yield 1\nyield 2", "print(\"def fake():\", end=\"\")"}
)

var pyDecSpecGen = rapid.Custom(func(t *rapid.T) pyDecSpec {
	d := pyDecSpec{Name: rapid.IntRange(0, len(pyDecNames)-1).Draw(t, "decorator"), Args: rapid.SampledFrom([]int{0, 0, 0, 1, 2, 3, 4, 5}).Draw(t, "decoratorArgs")}
	if rapid.IntRange(0, 5).Draw(t, "otherDecoratorArgs") == 5 {
		d.ArgsAlt = rapid.IntRange(1, len(pyAltDecArgs)).Draw(t, "decoratorArgsForm")
	}
	d.MultiLine = rapid.IntRange(0, 5).Draw(t, "decoratorArgsOverSeveralLines") == 5
	return d
})

var pyFuncSpecGen = rapid.Custom(func(t *rapid.T) pyFuncSpec {
	f := pyFuncSpec{}
	f.Name = rapid.IntRange(0, 7).Draw(t, "defName")
	f.Decs = rapid.SliceOfN(pyDecSpecGen, 0, 2).Draw(t, "decorators")
	if rapid.IntRange(0, 1).Draw(t, "decorated") == 0 {
		f.Decs = nil
	}
	f.Params = rapid.IntRange(0, len(pyParams)-1).Draw(t, "params")
	f.Body = rapid.IntRange(0, len(pyBodies)-1).Draw(t, "body")
	f.Nested = rapid.SampledFrom([]int{0, 0, 0, 0, 1, 1, 2, 3}).Draw(t, "nestedDefs")
	f.Async = rapid.IntRange(0, 7).Draw(t, "async") == 7
	f.Doc = rapid.IntRange(0, 4).Draw(t, "docstring") == 4
	if rapid.IntRange(0, 4).Draw(t, "returnAnnotation") == 4 {
		f.Returns = rapid.IntRange(1, 2).Draw(t, "returnAnnotationForm")
	}
	f.MultiLineSig = rapid.IntRange(0, 7).Draw(t, "multiLineSignature") == 7
	f.OneLine = rapid.IntRange(0, 9).Draw(t, "oneLineDef") == 9
	f.DecComment = rapid.IntRange(0, 5).Draw(t, "commentAfterDecorators") == 5
	f.DocMulti = rapid.IntRange(0, 2).Draw(t, "docstringOfSeveralLines") == 2
	if rapid.IntRange(0, 7).Draw(t, "otherDefName") == 7 {
		f.NameAlt = rapid.IntRange(1, len(pyAltDefNames)).Draw(t, "defNameForm")
	}
	f.DecNested = rapid.IntRange(0, 3).Draw(t, "decoratedNestedDef") == 3
	if rapid.IntRange(0, 7).Draw(t, "importInBody") == 7 {
		f.LocalImport = rapid.IntRange(1, 2).Draw(t, "importInBodyForm")
	}
	if rapid.IntRange(0, 5).Draw(t, "otherBody") == 5 {
		f.BodyAlt = rapid.IntRange(1, len(pyAltBodies)).Draw(t, "bodyForm")
	}
	f.DefComment = rapid.IntRange(0, 7).Draw(t, "commentAfterDefLine") == 7
	f.SpacedSig = rapid.IntRange(0, 9).Draw(t, "blanksInSignature") == 9
	f.BlankAfterDec = rapid.IntRange(0, 9).Draw(t, "emptyLineAfterDecorators") == 9
	return f
})

var pyClassSpecGen = rapid.Custom(func(t *rapid.T) pyClassSpec {
	c := pyClassSpec{}
	c.Decs = rapid.SliceOfN(pyDecSpecGen, 0, 2).Draw(t, "classDecorators")
	if rapid.IntRange(0, 2).Draw(t, "classDecorated") != 0 {
		c.Decs = nil
	}
	c.Bases = rapid.IntRange(0, 3).Draw(t, "bases")
	c.Attr = rapid.IntRange(0, 3).Draw(t, "classAttribute") == 3
	c.Doc = rapid.IntRange(0, 4).Draw(t, "classDocstring") == 4
	c.Methods = rapid.SliceOfN(pyFuncSpecGen, 0, 4).Draw(t, "methods")
	if rapid.IntRange(0, 4).Draw(t, "innerClass") == 4 && !pbt.Excluded("py_nested_class") {
		c.Inner = 1 + rapid.IntRange(0, len(c.Methods)).Draw(t, "innerClassAfter")
	}
	if rapid.IntRange(0, 4).Draw(t, "property") == 4 {
		c.Property = 1 + rapid.IntRange(0, len(c.Methods)).Draw(t, "propertyAfter")
	}
	c.ZeroComment = rapid.IntRange(0, 5).Draw(t, "commentAtColumnZero") == 5
	c.SpaceLine = rapid.IntRange(0, 5).Draw(t, "lineOfBlanks") == 5
	c.DocMulti = rapid.IntRange(0, 2).Draw(t, "classDocstringOfSeveralLines") == 2
	if rapid.IntRange(0, 5).Draw(t, "otherClassName") == 5 {
		c.NameAlt = rapid.IntRange(1, len(pyAltClassNames)).Draw(t, "classNameForm")
	}
	if c.Inner > 0 {
		c.MetaName = rapid.IntRange(0, 2).Draw(t, "innerClassCalledMeta") == 2
		c.InnerDec = rapid.IntRange(0, 3).Draw(t, "innerClassDecorated") == 3
		c.InnerDeep = rapid.IntRange(0, 3).Draw(t, "innerClassOfInnerClass") == 3
		c.Inner2 = rapid.IntRange(0, 3).Draw(t, "secondInnerClass") == 3
	}
	if rapid.IntRange(0, 5).Draw(t, "otherBases") == 5 {
		c.BasesAlt = rapid.IntRange(1, len(pyAltBases)).Draw(t, "basesForm")
	}
	c.OneLine = rapid.IntRange(0, 3).Draw(t, "oneLineClass") == 3
	c.ClassComment = rapid.IntRange(0, 7).Draw(t, "commentAfterClassLine") == 7
	return c
})

var pyImportSpecGen = rapid.Custom(func(t *rapid.T) pyImportSpec {
	is := pyImportSpec{Form: rapid.IntRange(0, 4).Draw(t, "importForm"), Mod: rapid.IntRange(0, len(pyModules)-1).Draw(t, "module")}
	if rapid.IntRange(0, 4).Draw(t, "otherImportForm") == 4 {
		is.Alt = rapid.IntRange(1, 3).Draw(t, "importFormAlt")
	}
	return is
})

func drawPySpec(t *rapid.T) pySpec {
	p := pySpec{}
	p.Imports = rapid.SliceOfN(pyImportSpecGen, 0, 4).Draw(t, "imports")
	p.Classes = rapid.SliceOfN(pyClassSpecGen, 0, 4).Draw(t, "classes")
	p.Funcs = rapid.SliceOfN(pyFuncSpecGen, 0, 3).Draw(t, "functions")
	p.Indent = rapid.IntRange(0, 2).Draw(t, "indent")
	if rapid.IntRange(0, 2).Draw(t, "shuffleDefinitions") == 2 {
		p.Order = rapid.SliceOfN(rapid.IntRange(0, 9), 8, 8).Draw(t, "definitionOrder")
	}
	p.MainGuard = rapid.IntRange(0, 3).Draw(t, "mainGuard") == 3
	p.Comments = rapid.IntRange(0, 3).Draw(t, "comments") == 3
	p.NoFinalNL = rapid.IntRange(0, 7).Draw(t, "noFinalNewline") == 7
	p.BlankLines = rapid.IntRange(0, 2).Draw(t, "blankLines")
	p.ModuleVars = rapid.IntRange(0, 3).Draw(t, "moduleVariables") == 3
	if rapid.IntRange(0, 3).Draw(t, "lateImports") == 3 {
		p.LateImports = rapid.SliceOfN(rapid.Custom(func(t *rapid.T) pyImportSpec {
			return pyImportSpec{Form: rapid.IntRange(0, 19).Draw(t, "lateImportFormAndPlace"), Mod: rapid.IntRange(0, len(pyModules)-1).Draw(t, "module")}
		}), 1, 2).Draw(t, "lateImportList")
	}
	p.CRLF = rapid.IntRange(0, 9).Draw(t, "crlf") == 9
	p.SharedClass = rapid.IntRange(0, 2).Draw(t, "sharedClassName") == 2
	p.SharedFunc = rapid.IntRange(0, 2).Draw(t, "sharedFunctionName") == 2
	// second round: every new shape behind its own draw
	if rapid.IntRange(0, 15).Draw(t, "many") == 15 {
		// past 8 / 16 / 32 elements of every list the listener appends to, and modules of several hundred lines
		p.Classes = append(p.Classes, rapid.SliceOfN(pyClassSpecGen, 1, 9).Draw(t, "moreClasses")...)
		p.Funcs = append(p.Funcs, rapid.SliceOfN(pyFuncSpecGen, 0, 12).Draw(t, "moreFunctions")...)
		p.Imports = append(p.Imports, rapid.SliceOfN(pyImportSpecGen, 0, 14).Draw(t, "moreImports")...)
		c0 := &p.Classes[0]
		c0.Methods = append(c0.Methods, rapid.SliceOfN(pyFuncSpecGen, 0, 16).Draw(t, "moreMethods")...)
		c0.Decs = append(c0.Decs, rapid.SliceOfN(pyDecSpecGen, 0, 4).Draw(t, "moreClassDecorators")...)
		if len(c0.Methods) > 0 {
			c0.Methods[0].Decs = append(c0.Methods[0].Decs, rapid.SliceOfN(pyDecSpecGen, 1, 5).Draw(t, "moreDecorators")...)
		}
	}
	p.TryImport = rapid.IntRange(0, 7).Draw(t, "tryImport") == 7
	if rapid.IntRange(0, 5).Draw(t, "conditionalDefinition") == 5 {
		p.CondDef = rapid.IntRange(1, 4).Draw(t, "conditionalDefinitionAt")
	}
	p.StringVar = rapid.IntRange(0, 5).Draw(t, "stringsThatLookLikeDefinitions") == 5
	if rapid.IntRange(0, 3).Draw(t, "otherLayout") == 3 {
		p.IndentVary = rapid.IntRange(0, 2).Draw(t, "indentationWidthPerBlock") == 2
		p.TrailingWS = rapid.IntRange(0, 2).Draw(t, "trailingBlanks") == 2
		p.LongLine = rapid.IntRange(0, 9).Draw(t, "veryLongLine") == 9
		p.NonASCII = rapid.IntRange(0, 2).Draw(t, "nonASCIIText") == 2
		p.MixedIndent = rapid.IntRange(0, 3).Draw(t, "blanksAndTabIndent") == 3
		p.StartForm = rapid.IntRange(0, 2).Draw(t, "firstLine")
		if rapid.IntRange(0, 1).Draw(t, "otherEnd") == 1 {
			p.EndForm = rapid.IntRange(1, 4).Draw(t, "lastLine")
		}
	}
	return p
}

type pyWriter struct {
	b    strings.Builder
	unit string
	seq  int
	// second round
	vary     bool     // every depth has its own width
	trailing bool     // blanks at the end of every third line
	nLines   int      //
	imports  []string // sources of the import statements written inside bodies
}

func (w *pyWriter) raw(s string) { w.b.WriteString(s) }

var pyVaryWidths = []int{0, 4, 6, 14, 17, 19, 27, 30, 32, 40}

// ind is the indentation of a block at the given depth.
func (w *pyWriter) ind(depth int) string {
	if w.vary {
		if depth < len(pyVaryWidths) {
			return strings.Repeat(" ", pyVaryWidths[depth])
		}
		return strings.Repeat(" ", pyVaryWidths[len(pyVaryWidths)-1]+3*(depth-len(pyVaryWidths)+1))
	}
	return strings.Repeat(w.unit, depth)
}

func (w *pyWriter) line(depth int, s string) {
	for _, l := range strings.Split(s, "\n") {
		w.nLines++
		tail := ""
		if w.trailing && w.nLines%3 == 0 && !strings.HasSuffix(l, "\\") {
			tail = "  \t"
		}
		w.b.WriteString(w.ind(depth) + l + tail + "\n")
	}
}

func renderDecs(w *pyWriter, depth int, specs []pyDecSpec, feats map[string]bool) []PyDec {
	var out []PyDec
	for _, ds := range specs {
		d := PyDec{Name: pyDecNames[ds.Name%len(pyDecNames)]}
		args := pyDecArgs[ds.Args%len(pyDecArgs)]
		if ds.ArgsAlt > 0 {
			args = pyAltDecArgs[(ds.ArgsAlt-1)%len(pyAltDecArgs)]
			feats["decorator_arguments_of_other_kinds"] = true
		}
		text := "@" + d.Name
		if args != nil {
			d.Args = append([]string{}, args...)
			if ds.MultiLine && len(args) > 0 {
				text += "(\n    " + strings.Join(args, ",\n    ") + ",\n)"
				feats["decorator_arguments_over_several_lines"] = true
			} else {
				text += "(" + strings.Join(args, ", ") + ")"
			}
			feats["decorator_with_arguments"] = true
		} else {
			feats["decorator_without_arguments"] = true
		}
		w.line(depth, text)
		out = append(out, d)
	}
	return out
}

const pyFakeDoc = "Summary line.\n\nclass Fake:\n    def fake(self):\n        pass\n\nEnd of the text.\n"

func renderPyFunc(w *pyWriter, depth int, fs pyFuncSpec, name string, method bool, feats map[string]bool) PyFunc {
	f := PyFunc{Name: name}
	f.Decs = renderDecs(w, depth, fs.Decs, feats)
	if len(f.Decs) > 0 {
		if method {
			feats["decorated_method"] = true
		} else {
			feats["decorated_function"] = true
		}
		if len(f.Decs) > 2 {
			feats["decorators>2"] = true
		}
		if fs.DecComment {
			w.line(depth, "# the decorated definition follows")
			feats["comment_between_decorator_and_def"] = true
		}
		if fs.BlankAfterDec {
			w.raw("\n")
			feats["empty_line_between_decorator_and_def"] = true
		}
	}
	params := pyParams[fs.Params%len(pyParams)]
	if method {
		if params == "" {
			params = "self"
		} else {
			params = "self, " + params
		}
	}
	kw := "def "
	if fs.Async {
		kw = "async def "
		feats["async_def"] = true
	}
	ret := []string{"", " -> int", " -> \"Model\""}[fs.Returns%3]
	if ret != "" {
		feats["return_annotation"] = true
	}
	oneLine := fs.OneLine && !fs.Doc && fs.Nested == 0 && fs.LocalImport == 0
	tail := ":"
	if oneLine {
		tail = ": return 1"
		feats["one_line_def"] = true
	}
	if fs.DefComment {
		tail += "  # class Fake: def fake(self): pass"
		feats["comment_after_def_or_class_line"] = true
	}
	if fs.MultiLineSig {
		// def name(
		//     self,
		//     a,
		// ):
		w.line(depth, kw+name+"(")
		if method {
			w.line(depth+2, "self,")
		}
		if mp := pyMultiParams[fs.Params%len(pyParams)]; mp != "" {
			w.line(depth+2, mp)
		}
		w.line(depth, ")"+ret+tail)
		feats["signature_over_several_lines"] = true
	} else if fs.SpacedSig {
		w.line(depth, kw+name+" ( "+strings.ReplaceAll(params, ", ", " , ")+" )"+ret+" "+tail)
		feats["blanks_inside_signature"] = true
	} else {
		w.line(depth, kw+name+"("+params+")"+ret+tail)
	}
	if oneLine {
		return f
	}
	if fs.Doc {
		if fs.DocMulti {
			w.raw(w.ind(depth+1) + "\"\"\"" + pyFakeDoc + w.ind(depth+1) + "\"\"\"\n")
			feats["docstring_with_class_and_def_text"] = true
		} else {
			w.line(depth+1, "\"\"\"Docstring of "+name+".\"\"\"")
		}
	}
	switch fs.LocalImport {
	case 1:
		w.line(depth+1, "import json")
		w.imports = append(w.imports, "json")
		feats["import_inside_a_body"] = true
	case 2:
		w.line(depth+1, "from os import path as p")
		w.imports = append(w.imports, "os")
		feats["import_inside_a_body"] = true
	}
	nested := func(d int) string {
		w.seq++
		n := fmt.Sprintf("inner_%d", w.seq)
		if fs.DecNested {
			w.line(d, "@functools.wraps(x)")
			feats["decorated_nested_def"] = true
		}
		w.line(d, "def "+n+"(x):")
		f.Nested = append(f.Nested, n)
		feats["nested_def"] = true
		return n
	}
	switch fs.Nested {
	case 1:
		n := nested(depth + 1)
		w.line(depth+2, "return x")
		w.line(depth+1, "value = "+n+"(1)")
	case 2:
		nested(depth + 1)
		n2 := nested(depth + 2)
		w.line(depth+3, "return x")
		w.line(depth+2, "return "+n2)
	case 3:
		nested(depth + 1)
		w.line(depth+2, "return x")
		nested(depth + 1)
		w.line(depth+2, "pass")
	}
	body := pyBodies[fs.Body%len(pyBodies)]
	if fs.BodyAlt > 0 {
		body = pyAltBodies[(fs.BodyAlt-1)%len(pyAltBodies)]
		feats["body_with_strings_brackets_continuations"] = true
	}
	if strings.Contains(body, "\n    ") {
		feats["compound_statement_in_body"] = true
	}
	w.line(depth+1, body)
	return f
}

func pyImportLine(is pyImportSpec, feats map[string]bool) (string, string) {
	mod := pyModules[is.Mod%len(pyModules)]
	switch is.Alt {
	case 1:
		feats["from_import_star"] = true
		return "from " + mod + " import *", mod
	case 2:
		feats["from_import_names_over_several_lines"] = true
		return "from " + mod + " import (\n    name_a,\n    name_b as b,\n)", mod
	case 3:
		feats["from_import"] = true
		return "from " + mod + " import name_a as a, name_b as b", mod
	}
	switch is.Form % 5 {
	case 0:
		return "import " + mod, mod
	case 1:
		feats["import_as"] = true
		return "import " + mod + " as alias" + fmt.Sprint(is.Mod), mod
	case 2, 3:
		feats["from_import"] = true
		return "from " + mod + " import " + pyFromNames[(is.Mod+is.Form%5)%len(pyFromNames)], mod
	}
	feats["from_import"] = true
	return "from " + mod + " import (name_a, name_b)", mod
}

func renderPy(p pySpec, prefix, path string) PyModule {
	m := PyModule{Path: path}
	feats := map[string]bool{}
	w := &pyWriter{unit: []string{"    ", "  ", "\t"}[p.Indent%3], vary: p.IndentVary, trailing: p.TrailingWS}
	if p.MixedIndent && !p.IndentVary {
		w.unit = "  \t"
		feats["indentation_by_blanks_and_tab"] = true
	}
	switch p.StartForm {
	case 1:
		w.raw("   \n")
		feats["first_line_of_blanks"] = true
	case 2:
		w.raw("#!/usr/bin/env python\n")
		feats["first_line_#!"] = true
	}
	if p.IndentVary {
		feats["indentation_width_differs_between_blocks"] = true
	}
	if p.TrailingWS {
		feats["blanks_at_line_ends"] = true
	}
	if p.Comments {
		w.line(0, "# -*- coding: utf-8 -*-\n# generated module: class Fake: def fake(): pass")
	}
	if p.NonASCII {
		w.line(0, "# Größe, 価格, naïve: class Fälschung: def fälschen(self): pass\nTITLE = \"Übergröße – 価格\"")
		feats["non_ascii_text_in_comments_and_strings"] = true
	}
	if p.LongLine {
		w.line(0, "# "+strings.Repeat("long line ", 7000))
		feats["line_longer_than_65536_bytes"] = true
	}
	for _, is := range p.Imports {
		text, mod := pyImportLine(is, feats)
		w.line(0, text)
		m.Imports = append(m.Imports, mod)
	}
	if len(p.Imports) > 8 {
		feats["imports>8"] = true
	}
	if p.TryImport {
		w.line(0, "try:")
		w.line(1, "import simplejson as json")
		w.line(0, "except ImportError:")
		w.line(1, "import json")
		m.Imports = append(m.Imports, "simplejson", "json")
		feats["imports_in_try_except"] = true
	}
	if p.ModuleVars {
		w.line(0, "VERSION = \"1.0\"\n_registry = {}")
	}
	if p.StringVar {
		w.line(0, "TEMPLATE = \"\"\"\n@fake\nclass FakeInString:\n    def fake_in_string(self):\n        pass\n\ndef fake_function():\n    import fake_module\n\"\"\"\nPATTERN = \"# not a comment ( [ {\"\nQUOTE = 'def fake(): \"x\"'")
		feats["module_level_strings_that_look_like_definitions"] = true
	}
	type def struct {
		class int // index or -1
		fn    int
		key   int
	}
	var defs []def
	for i := range p.Classes {
		defs = append(defs, def{class: i, fn: -1})
	}
	for i := range p.Funcs {
		defs = append(defs, def{class: -1, fn: i})
	}
	if len(p.Order) > 0 {
		for i := range defs {
			defs[i].key = p.Order[i%len(p.Order)]
		}
		sort.SliceStable(defs, func(i, j int) bool { return defs[i].key < defs[j].key })
	}
	// import statements between and after the definitions (module level)
	lateAt := map[int][]pyImportSpec{}
	for _, is := range p.LateImports {
		at := 1 + (is.Form/5)%4
		if at > len(defs) {
			at = len(defs)
		}
		lateAt[at] = append(lateAt[at], is)
	}
	writeLate := func(at int) {
		for _, is := range lateAt[at] {
			text, mod := pyImportLine(is, feats)
			w.line(0, text)
			m.Imports = append(m.Imports, mod)
			if at > 0 {
				feats["import_after_a_definition"] = true
			}
		}
	}
	writeLate(0)
	usedFn := map[string]bool{}
	usedCls := map[string]bool{}
	for di, d := range defs {
		for i := 0; i < p.BlankLines; i++ {
			w.b.WriteString("\n")
		}
		bd := 0 // depth of the definition
		if p.CondDef == di+1 {
			// a definition written inside an if block at module level
			w.line(0, "if True:")
			bd = 1
			feats["definition_inside_if_at_module_level"] = true
		}
		if d.class >= 0 {
			cs := p.Classes[d.class]
			c := PyClass{Name: fmt.Sprintf("%sModel%d", prefix, d.class+1)}
			if cs.NameAlt > 0 {
				alt := pyAltClassNames[(cs.NameAlt-1)%len(pyAltClassNames)]
				c.Name = fmt.Sprintf("%s%s%d", prefix, alt, d.class+1)
				if prefix == "" && len([]rune(alt)) == 1 {
					c.Name = alt // a name of one letter
				}
				for usedCls[c.Name] {
					c.Name += "_"
				}
				feats["class_name:"+pyNameClass(alt)] = true
			}
			if p.SharedClass && d.class == 0 {
				c.Name = "Config"
				feats["class_name_used_in_several_modules"] = true
			}
			usedCls[c.Name] = true
			c.Decs = renderDecs(w, bd, cs.Decs, feats)
			if len(c.Decs) > 0 {
				feats["decorated_class"] = true
			}
			if len(c.Decs) > 2 {
				feats["decorators>2"] = true
			}
			head := "class " + c.Name
			switch cs.Bases {
			case 1:
				head += "(object)"
			case 2:
				head += "(Base, Mixin)"
			case 3:
				head += "(Base, metaclass=Meta)"
			}
			if cs.BasesAlt > 0 {
				head = "class " + c.Name + pyAltBases[(cs.BasesAlt-1)%len(pyAltBases)]
				feats["other_base_list_forms"] = true
			}
			comment := ""
			if cs.ClassComment {
				comment = "  # def fake(self): class Fake:"
				feats["comment_after_def_or_class_line"] = true
			}
			nothingInside := !cs.Doc && !cs.Attr && len(cs.Methods) == 0 && cs.Inner == 0 && cs.Property == 0
			if cs.OneLine && nothingInside {
				w.line(bd, head+": pass"+comment)
				feats["one_line_class"] = true
				m.Classes = append(m.Classes, c)
				writeLate(di + 1)
				continue
			}
			w.line(bd, head+":"+comment)
			empty := true
			if cs.Doc {
				if cs.DocMulti {
					w.raw(w.ind(bd+1) + "\"\"\"" + pyFakeDoc + w.ind(bd+1) + "\"\"\"\n")
					feats["docstring_with_class_and_def_text"] = true
				} else {
					w.line(bd+1, "\"\"\"A generated class.\"\"\"")
				}
				empty = false
			}
			if cs.Attr {
				w.line(bd+1, "table = \"t\"\ncount = 0")
				empty = false
			}
			usedM := map[string]bool{}
			var inners []PyClass
			writeInner := func() {
				// an inner class with an attribute and a method; the outer class goes on afterwards
				ic := PyClass{Name: fmt.Sprintf("%sMeta%d", prefix, d.class+1)}
				if cs.MetaName {
					ic.Name = "Meta"
					feats["inner_classes_of_one_name"] = true
				}
				if cs.InnerDec {
					w.line(bd+1, "@dataclass")
					ic.Decs = []PyDec{{Name: "dataclass"}}
					feats["decorated_inner_class"] = true
					feats["decorated_class"] = true
					feats["decorator_without_arguments"] = true
				}
				w.line(bd+1, "class "+ic.Name+":")
				w.line(bd+2, "ordering = \"name\"")
				w.line(bd+2, "def label(self):")
				w.line(bd+3, "return self.ordering")
				ic.Methods = append(ic.Methods, PyFunc{Name: "label"})
				if cs.InnerDeep {
					dc := PyClass{Name: fmt.Sprintf("%sDeep%d", prefix, d.class+1), Methods: []PyFunc{{Name: "deep"}}}
					w.line(bd+2, "class "+dc.Name+":")
					w.line(bd+3, "def deep(self):")
					w.line(bd+4, "pass")
					w.line(bd+2, "def after_deep(self):")
					w.line(bd+3, "pass")
					ic.Methods = append(ic.Methods, PyFunc{Name: "after_deep"})
					inners = append(inners, dc)
					feats["inner_class_of_an_inner_class"] = true
				}
				inners = append(inners, ic)
				feats["inner_class"] = true
				empty = false
			}
			writeProperty := func() {
				// two defs of one name: the getter and the setter of a property
				w.line(bd+1, "@property")
				w.line(bd+1, "def value(self):")
				w.line(bd+2, "return self._value")
				if p.BlankLines > 0 {
					w.b.WriteString("\n")
				}
				w.line(bd+1, "@value.setter")
				w.line(bd+1, "def value(self, new):")
				w.line(bd+2, "self._value = new")
				c.Methods = append(c.Methods, PyFunc{Name: "value", Decs: []PyDec{{Name: "property"}}}, PyFunc{Name: "value", Decs: []PyDec{{Name: "value.setter"}}})
				feats["property_getter_and_setter"] = true
				feats["decorated_method"] = true
				feats["decorator_without_arguments"] = true
				empty = false
			}
			between := func(mi int) {
				if mi == 0 {
					return
				}
				if cs.ZeroComment && mi == 1 {
					w.raw("# a comment at column 0 inside the class body\n")
					feats["comment_at_column_0_in_class_body"] = true
				}
				if cs.SpaceLine && mi == 1 {
					w.raw(w.ind(bd+1) + "  \n")
					feats["line_of_blanks_in_class_body"] = true
				}
			}
			for mi, ms := range cs.Methods {
				if cs.Inner == mi+1 {
					writeInner()
				}
				if cs.Property == mi+1 {
					writeProperty()
				}
				name := pyMethNames[ms.Name%len(pyMethNames)]
				if ms.NameAlt > 0 {
					name = pyAltDefNames[(ms.NameAlt-1)%len(pyAltDefNames)]
					feats["def_name:"+pyNameClass(name)] = true
				}
				for usedM[name] {
					name += "_again"
				}
				usedM[name] = true
				if mi > 0 && p.BlankLines > 0 {
					w.b.WriteString("\n")
				}
				between(mi)
				c.Methods = append(c.Methods, renderPyFunc(w, bd+1, ms, name, true, feats))
				empty = false
			}
			if len(cs.Methods) > 8 {
				feats["methods_of_one_class>8"] = true
			}
			if cs.Inner > len(cs.Methods) {
				writeInner()
			}
			if cs.Property > len(cs.Methods) {
				writeProperty()
			}
			if cs.Inner > 0 && cs.Inner2 {
				// a second inner class, and the outer class goes on once more
				ic := PyClass{Name: fmt.Sprintf("%sAdmin%d", prefix, d.class+1), Methods: []PyFunc{{Name: "list_display"}}}
				w.line(bd+1, "class "+ic.Name+":")
				w.line(bd+2, "def list_display(self):")
				w.line(bd+3, "return []")
				w.line(bd+1, "def tail(self):")
				w.line(bd+2, "pass")
				c.Methods = append(c.Methods, PyFunc{Name: "tail"})
				inners = append(inners, ic)
				feats["two_inner_classes_in_one_class"] = true
			}
			if empty {
				w.line(bd+1, "pass")
			}
			m.Classes = append(m.Classes, inners...)
			m.Classes = append(m.Classes, c)
			writeLate(di + 1)
			continue
		}
		fs := p.Funcs[d.fn]
		name := pyFuncNames[fs.Name%len(pyFuncNames)] + prefix
		if fs.NameAlt > 0 {
			alt := pyAltDefNames[(fs.NameAlt-1)%len(pyAltDefNames)]
			name = alt + prefix
			feats["def_name:"+pyNameClass(alt)] = true
		}
		if p.SharedFunc && d.fn == 0 {
			name = "Setup"
			feats["function_name_used_in_several_modules"] = true
		}
		for usedFn[name] {
			name += "_again"
		}
		usedFn[name] = true
		m.Funcs = append(m.Funcs, renderPyFunc(w, bd, fs, name, false, feats))
		writeLate(di + 1)
	}
	if len(m.Classes) > 8 {
		feats["classes>8"] = true
	}
	if len(m.Funcs) > 8 {
		feats["module_level_functions>8"] = true
	}
	if p.MainGuard {
		w.line(0, "if __name__ == \"__main__\":")
		w.line(1, "print(\"start\")")
		feats["main_guard"] = true
	}
	m.Imports = append(m.Imports, w.imports...)
	m.Code = w.b.String()
	if n := strings.Count(m.Code, "\n"); n > 300 {
		feats["lines>300"] = true
	} else if n > 150 {
		feats["lines>150"] = true
	}
	if p.NoFinalNL {
		m.Code = strings.TrimRight(m.Code, "\n \t")
		feats["no_final_newline"] = true
	}
	switch p.EndForm {
	case 1:
		m.Code += ends(m.Code) + "# the end: class Fake: pass"
		feats["ends_with_comment_without_newline"] = true
	case 2:
		m.Code += ends(m.Code) + "    "
		feats["ends_with_blanks_without_newline"] = true
	case 3:
		m.Code += ends(m.Code) + "\n\n  \n\n"
		feats["ends_with_empty_lines"] = true
	case 4:
		m.Code += ends(m.Code) + "        # an indented comment at the end\n"
		feats["ends_with_indented_comment"] = true
	}
	if p.CRLF {
		m.Code = strings.ReplaceAll(m.Code, "\n", "\r\n")
		feats["crlf"] = true
	}
	for k := range feats {
		m.Features = append(m.Features, k)
	}
	sort.Strings(m.Features)
	return m
}

// ends gives the newline that is missing at the end of the text.
func ends(code string) string {
	if code == "" || strings.HasSuffix(code, "\n") {
		return ""
	}
	return "\n"
}

// pyNameClass says which family of the second round's names a name belongs to.
func pyNameClass(n string) string {
	switch {
	case len([]rune(n)) == 1:
		return "one_letter"
	case len(n) > 60:
		return "very_long"
	case len(n) != len([]rune(n)):
		return "non_ascii"
	case strings.HasPrefix(n, "_"):
		return "leading_underscore"
	case strings.ToLower(n) == n && !strings.Contains(n, "_"):
		return "lower_case"
	}
	return "contains_a_keyword_or_is_unusual" // from_json, class_name, Def, True_, HTTP2Server, ...
}

// ---------------------------------------------------------------------------------------
// the shipped parser as a filter

type pyErr struct {
	*antlr.DefaultErrorListener
	n     int
	first string
}

func (e *pyErr) SyntaxError(_ antlr.Recognizer, _ interface{}, line, column int, msg string, _ antlr.RecognitionException) {
	if e.n == 0 {
		e.first = fmt.Sprintf("line %d:%d %s", line, column, msg)
	}
	e.n++
}

// pythonRejects parses code with the shipped lexer and parser, starting from the lexer state of a
// fresh process, and returns the first syntax error.
func pythonRejects(code string) string {
	resetPythonLexer()
	return pythonRejectsNext(code)
}

// pythonRejectsNext does the same without resetting the lexer state first: the n-th file of a run.
func pythonRejectsNext(code string) string {
	e := &pyErr{DefaultErrorListener: antlr.NewDefaultErrorListener()}
	if p := call(func() {
		lexer := python.NewPythonLexer(antlr.NewInputStream(code))
		lexer.RemoveErrorListeners()
		lexer.AddErrorListener(e)
		parser := python.NewPythonParser(antlr.NewCommonTokenStream(lexer, antlr.TokenDefaultChannel))
		parser.RemoveErrorListeners()
		parser.AddErrorListener(e)
		parser.Root()
	}); p != "" {
		return "the parser itself panicked: " + p
	}
	return e.first
}

// ---------------------------------------------------------------------------------------
// oracle

func decStrings(list []core_domain.CodeAnnotation) []string {
	var out []string
	for _, a := range list {
		d := PyDec{Name: a.Name}
		if a.KeyValues != nil {
			d.Args = []string{}
			for _, kv := range a.KeyValues {
				d.Args = append(d.Args, kv.Value)
			}
		}
		out = append(out, d.String())
	}
	return out
}

func wantDecStrings(list []PyDec) []string {
	var out []string
	for _, d := range list {
		if d.Args != nil && len(d.Args) == 0 {
			d.Args = nil // "@d()" has no argument list in the model either
		}
		out = append(out, d.String())
	}
	return out
}

// judgeDefs: each declared definition exactly once with its decorators; extra entries only for nested defs.
// A name may be declared twice in one class (getter and setter of a property): then it is listed twice, and
// the two entries carry the decorators of the two declarations.
func judgeDefs(where string, got []core_domain.CodeFunction, want []PyFunc) string {
	nested := map[string]bool{}
	declared := map[string][][]string{}
	for _, f := range want {
		declared[f.Name] = append(declared[f.Name], wantDecStrings(f.Decs))
		for _, n := range f.Nested {
			nested[n] = true
		}
	}
	listed := map[string][][]string{}
	for _, g := range got {
		if _, ok := declared[g.Name]; !ok {
			if !nested[g.Name] {
				return fmt.Sprintf("%s: %q is listed but not declared there", where, g.Name)
			}
			continue
		}
		listed[g.Name] = append(listed[g.Name], decStrings(g.Annotations))
	}
	done := map[string]bool{}
	for _, f := range want {
		if done[f.Name] {
			continue
		}
		done[f.Name] = true
		d, l := declared[f.Name], listed[f.Name]
		if len(l) != len(d) {
			return fmt.Sprintf("%s: %q is declared %d time(s) and listed %d time(s)", where, f.Name, len(d), len(l))
		}
		if msg := pairUp(len(d), len(l), func(i, j int) string {
			return sameSeq("decorators of "+where+" "+f.Name, l[j], d[i])
		}); msg != "" {
			return msg
		}
	}
	return ""
}

// judgePyClasses: a class name may be declared in several modules of a project; the declarations of one name
// are paired one-to-one with the entries of that name.
func judgePyClasses(ds []core_domain.CodeDataStruct, classes []PyClass) string {
	var got, want []string
	byName := map[string][]core_domain.CodeDataStruct{}
	for _, d := range ds {
		got = append(got, d.NodeName)
		byName[d.NodeName] = append(byName[d.NodeName], d)
	}
	wantOf := map[string][]PyClass{}
	for _, c := range classes {
		want = append(want, c.Name)
		wantOf[c.Name] = append(wantOf[c.Name], c)
	}
	if msg := sameMultiset("classes", got, want); msg != "" {
		return msg
	}
	done := map[string]bool{}
	for _, c := range classes {
		if done[c.Name] {
			continue
		}
		done[c.Name] = true
		ws, ds := wantOf[c.Name], byName[c.Name]
		if msg := pairUp(len(ws), len(ds), func(i, j int) string {
			if msg := sameSeq("decorators of class "+ws[i].Name, decStrings(ds[j].Annotations), wantDecStrings(ws[i].Decs)); msg != "" {
				return msg
			}
			return judgeDefs("methods of class "+ws[i].Name, ds[j].Functions, ws[i].Methods)
		}); msg != "" {
			return msg
		}
	}
	return ""
}

func judgePyContainer(c core_domain.CodeContainer, m PyModule) string {
	var got []string
	for _, im := range c.Imports {
		got = append(got, im.Source)
	}
	if msg := sameMultiset("imports (source)", got, m.Imports); msg != "" {
		return msg
	}
	if msg := judgePyClasses(c.DataStructures, m.Classes); msg != "" {
		return msg
	}
	var fns []core_domain.CodeFunction
	for _, mem := range c.Members {
		fns = append(fns, mem.FunctionNodes...)
	}
	return judgeDefs("module-level functions", fns, m.Funcs)
}

// ---------------------------------------------------------------------------------------
// py_module

type PyCase struct {
	Module PyModule `json:"module"`
	// Follow: what is analysed next in the same process, without resetting anything in between:
	// 1 a small module with one class and one function, 2 an empty module, 3 the same module again,
	// 4 Variant: the same module under other names (same path).
	// Each analysis must give the model of its own module and leave the earlier result untouched.
	Follow  int       `json:"follow,omitempty"`
	Variant *PyModule `json:"variant,omitempty"`
}

var pyFollowModule = PyModule{Path: "pkg/second.py", Code: "import second_mod\n\n\nclass Second:\n    def only(self):\n        pass\n\n\ndef second_fn():\n    pass\n",
	Imports: []string{"second_mod"}, Classes: []PyClass{{Name: "Second", Methods: []PyFunc{{Name: "only"}}}}, Funcs: []PyFunc{{Name: "second_fn"}}}

func drawFollow(t *rapid.T) int {
	if rapid.IntRange(0, 2).Draw(t, "followUp") == 2 {
		return rapid.IntRange(1, 3).Draw(t, "followUpKind")
	}
	return 0
}

func genPyCase(t *rapid.T) PyCase {
	spec := drawPySpec(t)
	c := PyCase{Module: renderPy(spec, "", "pkg/module.py"), Follow: drawFollow(t)}
	if c.Follow > 0 && rapid.IntRange(0, 3).Draw(t, "followUpWithOtherNames") == 3 {
		v := renderPy(spec, "X", "pkg/module.py")
		c.Follow, c.Variant = 4, &v
	}
	return c
}

// judgeFollow analyses the follow-up module of the case in the state the first analysis left behind.
func judgeFollow(c PyCase, first core_domain.CodeContainer, app *pyapp.PythonIdentApp) string {
	if c.Follow == 0 {
		return ""
	}
	next, what := pyFollowModule, "a second module"
	switch c.Follow {
	case 2:
		next, what = PyModule{Path: "pkg/__init__.py"}, "an empty module"
	case 3:
		next, what = c.Module, "the same module again"
	case 4:
		next, what = *c.Variant, "the same module under other names"
	}
	if pythonRejectsNext(next.Code) != "" {
		// the lexer keeps state between files: the follow-up parse is outside the domain when the shipped parser rejects it there
		pbt.Count("python_follow_up_rejected_by_shipped_parser", 1)
		return ""
	}
	// bring the lexer back to the state the first analysis left behind
	resetPythonLexer()
	pythonRejectsNext(c.Module.Code)
	var res core_domain.CodeContainer
	if p := call(func() { res = app.Analysis(next.Code, next.Path) }); p != "" { // the application object of the first analysis
		return "PythonIdentApp.Analysis panicked on " + what + " analysed after the module below: " + p
	}
	if msg := judgePyContainer(res, next); msg != "" {
		return "PythonIdentApp.Analysis on " + what + ", analysed after the module below: " + msg
	}
	if msg := judgePyContainer(first, c.Module); msg != "" {
		return "PythonIdentApp.Analysis: the model of the module below changed when " + what + " was analysed afterwards: " + msg
	}
	return ""
}

func pyClasses(m PyModule) (classes []string, nonTrivial bool) {
	classes = append(classes, m.Features...)
	classes = append(classes, fmt.Sprintf("classes=%d", len(m.Classes)))
	decorated := false
	for _, f := range m.Features {
		if strings.HasPrefix(f, "decorated_") {
			decorated = true
		}
	}
	if len(m.Imports) > 0 {
		classes = append(classes, "imports")
	}
	if len(m.Funcs) > 0 {
		classes = append(classes, "module_level_functions")
	}
	return classes, len(m.Classes) >= 2 && decorated
}

func runPy(code, path string) (core_domain.CodeContainer, string) {
	return runPyWith(new(pyapp.PythonIdentApp), code, path)
}

func runPyWith(app *pyapp.PythonIdentApp, code, path string) (core_domain.CodeContainer, string) {
	ast_python.VerifResetAstPython()
	resetPythonLexer()
	var res core_domain.CodeContainer
	p := call(func() { res = app.Analysis(code, path) })
	return res, p
}

func checkPyCase(c PyCase) pbt.Verdict {
	if why := pythonRejects(c.Module.Code); why != "" {
		pbt.Count("python_rejected_by_shipped_parser", 1)
		return pbt.Verdict{Skip: true}
	}
	app := new(pyapp.PythonIdentApp) // one application object for the module and its follow-up, as in analysis.CommonAnalysis
	res, p := runPyWith(app, c.Module.Code, c.Module.Path)
	if p != "" {
		return pbt.Fail("PythonIdentApp.Analysis panicked on a module its parser accepts: %s\n--- %s\n%s", p, c.Module.Path, c.Module.Code)
	}
	if msg := judgePyContainer(res, c.Module); msg != "" {
		return pbt.Fail("PythonIdentApp.Analysis: %s\n--- %s\n%s", msg, c.Module.Path, c.Module.Code)
	}
	if e := marshalOK(res); e != "" {
		return pbt.Fail("result cannot be marshalled: %s", e)
	}
	if msg := judgeFollow(c, res, app); msg != "" {
		return pbt.Fail("%s\n--- %s\n%s", msg, c.Module.Path, c.Module.Code)
	}
	v := pbt.Verdict{}
	v.Classes, v.NonTrivial = pyClasses(c.Module)
	if c.Follow > 0 {
		v.Classes = append(v.Classes, fmt.Sprintf("follow_up=%d", c.Follow))
	}
	return v
}

// ---------------------------------------------------------------------------------------
// py_plain: the same modules written in the plainest style (four spaces, no comment header, no async,
// final newline). They are valid Python by construction, so they are judged without asking the shipped
// parser first: a module whose classes get lost because the parse derails violates the statement, whether
// or not a syntax error was printed on the way.

func genPyPlain(t *rapid.T) PyCase {
	spec := drawPySpec(t)
	spec.Indent, spec.Comments, spec.NoFinalNL = 0, false, false
	// the shapes of the second round stay: all of them are valid Python as well
	plainFn := func(f *pyFuncSpec) {
		f.Async = false
		if f.Nested > 1 {
			f.Nested = 1
		}
	}
	for i := range spec.Funcs {
		plainFn(&spec.Funcs[i])
	}
	for i := range spec.Classes {
		for j := range spec.Classes[i].Methods {
			plainFn(&spec.Classes[i].Methods[j])
		}
	}
	return PyCase{Module: renderPy(spec, "", "pkg/plain.py")}
}

// cpythonRejects asks python3 (when installed) whether the text is valid Python; "" = valid or unknown.
func cpythonRejects(code string) string {
	path, err := exec.LookPath("python3")
	if err != nil {
		return ""
	}
	cmd := exec.Command(path, "-c", "import ast,sys; ast.parse(sys.stdin.read())")
	cmd.Stdin = strings.NewReader(code)
	out, err := cmd.CombinedOutput()
	if _, isExit := err.(*exec.ExitError); isExit {
		return string(out)
	}
	return ""
}

func checkPyPlain(c PyCase) pbt.Verdict {
	if pbt.Excluded("py_lexer_token_queue") && pythonRejects(c.Module.Code) != "" {
		return pbt.Verdict{Skip: true}
	}
	if os.Getenv("C20_PYTHON3_ALL") != "" {
		// self-test of the generator: every module, not only the failing ones, is shown to python3
		if why := cpythonRejects(c.Module.Code); why != "" {
			panic("c20 generator bug: python3 rejects a module of the plain generator: " + why + "\n" + c.Module.Code)
		}
	}
	res, p := runPy(c.Module.Code, c.Module.Path)
	msg := ""
	if p != "" {
		msg = "PythonIdentApp.Analysis panicked on a valid module: " + p
	} else if m := judgePyContainer(res, c.Module); m != "" {
		msg = "PythonIdentApp.Analysis: " + m
		if why := pythonRejects(c.Module.Code); why != "" {
			msg += "\n(the shipped parser reports: " + why + ")"
		}
	}
	if msg != "" {
		if why := cpythonRejects(c.Module.Code); why != "" {
			panic("c20 generator bug: python3 rejects a module of the plain generator: " + why + "\n" + c.Module.Code)
		}
		return pbt.Fail("%s\n--- %s\n%s", msg, c.Module.Path, c.Module.Code)
	}
	v := pbt.Verdict{}
	v.Classes, v.NonTrivial = pyClasses(c.Module)
	return v
}

// ---------------------------------------------------------------------------------------
// py_any: wider modules, crash-freedom only

var pyAnySnippets = []string{
	"class Outer:\n    class Inner:\n        pass\n\n    def after_inner(self):\n        pass\n",
	"class Holder:\n    def build(self):\n        class Local:\n            def m(self):\n                pass\n        return Local\n\n    def later(self):\n        pass\n",
	"def factory():\n    class Made:\n        def m(self):\n            pass\n    def tail():\n        pass\n    return Made\n",
	"class Deep:\n    class A:\n        class B:\n            def f(self):\n                pass\n",
	"square = lambda x: x * x\nvalues = [square(i) for i in range(3) if i]\n",
	"try:\n    import simplejson as json\nexcept ImportError:\n    import json\nfinally:\n    pass\n",
	"with open(\"f\") as fh, open(\"g\") as gh:\n    data = fh.read()\n",
	"async def fetch(session):\n    async with session.get(\"u\") as resp:\n        async for chunk in resp:\n            yield chunk\n",
	"if True:\n    def conditional():\n        pass\nelse:\n    class Alternative:\n        pass\n",
	"import os, sys\nfrom . import sibling\nfrom ..pkg import thing as other\nfrom mod import *\n",
	"def typed(a: int = 1, *args: str, key: bool = False, **kw) -> str:\n    return \"x\"\n",
	"class OneLiner: pass\ndef one_liner(): return 1\nx = 1; y = 2\n",
	"def outer():\n    def mid():\n        def inner():\n            return 1\n        return inner\n    return mid\n",
	"total = (1 +\n         2)\ncall(a,\n     b=2)\nlong = 1 + \\\n    2\n",
	"TEXT = \"\"\"\nclass NotAClass:\n    def not_a_def(self):\n        pass\n\"\"\"\n",
	"class WithProps:\n    @property\n    def x(self):\n        return 1\n\n    @x.setter\n    def x(self, v):\n        pass\n",
	"while False:\n    break\nelse:\n    pass\nfor i in range(2):\n    continue\n",
	"def gen():\n    global counter\n    counter = 1\n    yield from range(3)\n",
	"@decorator\nclass Decorated:\n    @staticmethod\n    def s():\n        @wraps(s)\n        def w():\n            pass\n        return w\n",
	"class Meta(type):\n    def __new__(mcs, name, bases, ns, **kw):\n        return super().__new__(mcs, name, bases, ns)\n",
	"print(\"py3\")\nassert True, \"msg\"\ndel total_x\n",
	"class A:\n\tdef tabbed(self):\n\t\treturn {\n\t\t\t\"k\": [1, 2],\n\t\t}\n",
}

type PyAnyCase struct {
	Code     string   `json:"code"`
	Features []string `json:"features"`
}

func genPyAny(t *rapid.T) PyAnyCase {
	base := renderPy(drawPySpec(t), "", "m.py")
	picks := rapid.SliceOfN(rapid.IntRange(0, len(pyAnySnippets)-1), 1, 4).Draw(t, "snippets")
	front := rapid.Bool().Draw(t, "snippetsFirst")
	var b strings.Builder
	c := PyAnyCase{}
	code := base.Code
	if code != "" && !strings.HasSuffix(code, "\n") {
		code += "\n"
	}
	if !front {
		b.WriteString(code)
	}
	for _, k := range picks {
		if (k <= 3) && pbt.Excluded("py_nested_class") {
			continue
		}
		b.WriteString(pyAnySnippets[k])
		c.Features = append(c.Features, fmt.Sprintf("snippet_%02d", k))
	}
	if front {
		b.WriteString(code)
	}
	c.Code = b.String()
	return c
}

func checkPyAny(c PyAnyCase) pbt.Verdict {
	if why := pythonRejects(c.Code); why != "" {
		pbt.Count("python_rejected_by_shipped_parser", 1)
		return pbt.Verdict{Skip: true}
	}
	res, p := runPy(c.Code, "any.py")
	if p != "" {
		return pbt.Fail("PythonIdentApp.Analysis panicked on a module its parser accepts: %s\n--- any.py\n%s", p, c.Code)
	}
	if e := marshalOK(res); e != "" {
		return pbt.Fail("result cannot be marshalled: %s", e)
	}
	return pbt.Verdict{Classes: c.Features, NonTrivial: len(c.Features) >= 2}
}
