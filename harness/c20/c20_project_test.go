// C20: wider Go files (crash-freedom only), projects through analysis.CommonAnalysis and the plugin binaries, registration.
package c20

import (
	"bytes"
	"encoding/json"
	"fmt"
	"os"
	"path/filepath"
	"sort"
	"strings"
	"testing"
	"unicode"

	"github.com/modernizing/coca/pkg/adapter/cocafile"
	"github.com/modernizing/coca/pkg/application/analysis"
	"github.com/modernizing/coca/pkg/application/analysis/goapp"
	"github.com/modernizing/coca/pkg/application/analysis/pyapp"
	"github.com/modernizing/coca/pkg/domain/core_domain"
	"github.com/modernizing/coca/pkg/infrastructure/ast/ast_go"
	"github.com/modernizing/coca/pkg/infrastructure/ast/ast_python"
	"pgregory.net/rapid"

	"verif/internal/cli"
	"verif/internal/pbt"
)

// ---------------------------------------------------------------------------------------
// go_any: anything go/parser accepts must not crash the front-end

var goAnySnippets = []string{
	"func external(a int) int\n",
	"type Box[T any] struct {\n\tv T\n}\n\nfunc (b *Box[T]) Get() T {\n\treturn b.v\n}\n\nfunc (Box[T]) valueGeneric() {}\n",
	"func MapAll[T any, U any](xs []T, f func(T) U) []U {\n\treturn nil\n}\n",
	"func (m *Missing) Orphan() {\n\tfmt.Println(\"x\")\n}\n\nfunc (m Missing) OrphanValue() int {\n\treturn 1\n}\n",
	"type Emb struct {\n\tsync.Mutex\n\t*Other\n\tinner struct {\n\t\ta int\n\t}\n\tm  map[string][]int\n\tch chan<- int\n\tarr [4]byte\n\tpp **int\n\tfn func(...int)\n\tps []*Other\n\tsp *[]int\n\tany interface{}\n}\n",
	"func variadic(xs ...int) (err error) {\n\tgo work()\n\tfor i := range xs {\n\t\tfmt.Println(i)\n\t}\n\tif len(xs) > 0 {\n\t\treturn nil\n\t}\n\tswitch {\n\tdefault:\n\t}\n\tselect {}\n}\n",
	"func closures() {\n\tf := func(s string) {\n\t\tfmt.Println(s)\n\t}\n\tf(\"x\")\n\tfunc() {\n\t\tfmt.Println(\"now\")\n\t}()\n\tsort.Slice(nil, func(i, j int) bool {\n\t\treturn i < j\n\t})\n\tdefer func() {\n\t\trecover()\n\t}()\n}\n",
	"func chained(s *Stack) {\n\ts.mu.Lock()\n\tdefer s.mu.Unlock()\n\ta.b.c.D()\n\tgetX().Run()\n\tarr[0].Do()\n\t(*s).Pop()\n\tpkg.Fn[int](1)\n\tm[\"k\"].f.Call(x.y, z())\n}\n",
	"const (\n\tFirst = iota\n\tSecond\n)\n\nvar (\n\tgx, gy int\n\tgz     = 1\n\tgp     *sync.Mutex\n\tgq     []string\n\tgs     pkg.T\n)\n",
	"type (\n\tID      int\n\tHandler func(w http.ResponseWriter, r *http.Request)\n\tAlias   = string\n\tEmpty   interface{}\n\tAnyT    interface {\n\t\t~int | ~string\n\t}\n\tBoth interface {\n\t\tfmt.Stringer\n\t\tClose() error\n\t}\n)\n",
	"func localTypes() {\n\ttype local struct {\n\t\ta int\n\t}\n\ttype li interface {\n\t\tM()\n\t}\n\tvar v local\n\t_ = v\n}\n",
	"func labels() {\nouter:\n\tfor {\n\t\tbreak outer\n\t}\n\tgoto outer\n}\n",
	"func ifaceParam(x interface{ M() }, y struct{ a int }, z map[string]int, c chan int) {}\n",
	"type Celsius float64\n\nfunc (c Celsius) String() string {\n\treturn \"\"\n}\n",
	"func ret() *Stack {\n\treturn &Stack{list: nil}\n}\n\nfunc ret2(p *Stack) (int, error) {\n\treturn p.Len(), nil\n}\n",
	"func (_ *Missing2) blank() {}\n\nfunc _() {}\n\nfunc (r (*Paren)) paren() {}\n",
	"var _ = func() int { return 1 }()\n\nvar table = map[string]func(){\"a\": func() { fmt.Println() }}\n",
	"func Ünicode(π float64) {}\n\ntype Ärger struct {\n\tß int\n}\n",
	"func assign() {\n\ta, b := pkg.Two()\n\tx.y = z.w()\n\tvar e, f = 1, other.Make()\n\t_, _ = a, b\n\t*p = q()\n\tarr[i] = mk.New()\n}\n",
	"func returns(p Port) (Port, error) {\n\treturn p.Next(), errors.New(\"x\")\n\treturn <-ch, nil\n\treturn func() {}, nil\n\treturn p.(T), nil\n\treturn a + b.C(), nil\n}\n",
	"type Late struct{}\n\nfunc init() {}\n\nfunc init() {}\n",
}

type GoAnyCase struct {
	Path     string   `json:"path"`
	Code     string   `json:"code"`
	ViaFile  bool     `json:"viaFile"`
	Features []string `json:"features"`
}

func genGoAny(t *rapid.T) GoAnyCase {
	base := renderGo(drawGoSpec(t), "", "any.go")
	picks := rapid.SliceOfN(rapid.IntRange(0, len(goAnySnippets)-1), 1, 4).Draw(t, "snippets")
	c := GoAnyCase{Path: base.Path, ViaFile: rapid.IntRange(0, 6).Draw(t, "viaFile") == 6}
	var b strings.Builder
	b.WriteString(base.Code)
	if !strings.HasSuffix(base.Code, "\n") {
		b.WriteString("\n\n")
	}
	seen := map[int]bool{}
	for _, k := range picks {
		if seen[k] {
			continue
		}
		seen[k] = true
		if k == 0 && pbt.Excluded("go_bodyless_func") {
			continue
		}
		if (k == 3 || k == 15) && pbt.Excluded("go_receiver_not_declared") {
			continue
		}
		b.WriteString(goAnySnippets[k] + "\n")
		c.Features = append(c.Features, fmt.Sprintf("snippet_%02d", k))
	}
	c.Code = b.String()
	mustParseGo(c.Path, c.Code)
	return c
}

func checkGoAny(c GoAnyCase) pbt.Verdict {
	gc := GoCase{File: GoFile{Path: c.Path, Code: c.Code}, ViaFile: c.ViaFile}
	if msg := runGoEntryPoints(gc, func(core_domain.CodeContainer) string { return "" }); msg != "" {
		return pbt.Fail("%s\n--- %s\n%s", msg, c.Path, c.Code)
	}
	return pbt.Verdict{Classes: c.Features, NonTrivial: len(c.Features) >= 2}
}

// ---------------------------------------------------------------------------------------
// projects

type GoProject struct {
	Module string   `json:"module"` // "" = no go.mod
	Files  []GoFile `json:"files"`
	// Extra: files that declare nothing (a doc.go with the package clause only)
	Extra map[string]string `json:"extra,omitempty"`
	// CliForm: how the plugin is given the project directory (cwd is the project unless said otherwise):
	// 0 "-p .", 1 "--path .", 2 no option (the default), 3 "-p <absolute directory>", 4 "--path=./",
	// 5 "-p=.", 6 "-p proj" from the parent directory, 7 "-f -l go -p ." (options that change nothing), 8 "-p <absolute directory>/"
	CliForm int `json:"cli_form,omitempty"`
	// second round
	// ModForm: layout of the first line of go.mod (always `module example.org/proj`): 0 plain, 1 blanks at its end, 2 CRLF,
	// 3 several blanks after the keyword, 4 a tab after the keyword... the module path is what follows the keyword, trimmed
	ModForm int `json:"mod_form,omitempty"`
	// Noise: files next to the sources whose names do not end in .go (some hold Go text that declares types)
	Noise map[string]string `json:"noise,omitempty"`
	// OnlyFile: the analysis is given the path of the first file instead of the directory; the model is that file's
	OnlyFile bool `json:"only_file,omitempty"`
	// Again: another text of the same length under the path of the first file (the names of its types differ): go_seq analyses it
	// after all files with the same front-end objects
	Again *GoFile `json:"again,omitempty"`
}

var goNoise = map[string]string{
	"notes.go.txt":         "this is not Go\n",
	"old/legacy.go.bak":    "package legacy\n\ntype LegacyBak struct {\n\tname string\n}\n",
	"pkg/stack/main.gox":   "package stack\n\ntype FromGox struct{}\n",
	"README.md":            "# type ReadMe struct{}\n",
	"pkg/go":               "package stack\n\ntype NoExtension struct{}\n",
	"internal/.go.swp":     "\x00\x01binary",
	"cmd/tool-x/Makefile":  "all:\n\tgo build ./...\n",
	"scripts/gen.go.tmpl":  "package {{.Pkg}}\n\ntype {{.Name}} struct{}\n",
	"pkg/stack/UPPER.GO":   "package stack\n\ntype UpperCaseExtension struct{}\n",
	"docs/design.golang":   "type Design struct{}\n",
	"pkg/stack/stack.go~":  "package stack\n\ntype Backup struct{}\n",
	"internal/app/gofiles": "not go\n",
}

func genGoProject(t *rapid.T) GoProject {
	p := GoProject{}
	if rapid.Bool().Draw(t, "goMod") {
		p.Module = "example.org/proj"
	}
	n := rapid.IntRange(1, 3).Draw(t, "nFiles")
	for i := 0; i < n; i++ {
		prefix := string(rune('A' + i))
		spec := drawGoSpec(t)
		if spec.SharedName || spec.SharedFunc {
			spec.Dir = i // one directory per file that declares the shared name: a package declares a name once
		}
		name := strings.ToLower(prefix) + "_file.go"
		if rapid.IntRange(0, 5).Draw(t, "testFileName") == 5 {
			name = strings.ToLower(prefix) + "_file_test.go"
		}
		if rapid.IntRange(0, 5).Draw(t, "otherFileName") == 5 {
			name = strings.ToLower(prefix) + []string{".gen.go", "-File.go", ".v2.x.go", "_go.go", " file.go", "_linux_amd64.go"}[rapid.IntRange(0, 5).Draw(t, "fileNameForm")]
		}
		if spec.SharedName || spec.SharedFunc {
			spec.DirAlt = 0
		}
		p.Files = append(p.Files, renderGo(spec, prefix, name))
		if i == 0 && rapid.IntRange(0, 2).Draw(t, "sameLengthVariant") == 2 {
			spec.Variant = true
			again := renderGo(spec, prefix, name)
			p.Again = &again
		}
	}
	if rapid.IntRange(0, 3).Draw(t, "docFile") == 3 {
		// the first or a later file of the walk
		path := []string{"aaa_doc.go", "pkg/stack/doc.go"}[rapid.IntRange(0, 1).Draw(t, "docFileName")]
		p.Extra = map[string]string{path: "// Package stack is documented here.\npackage stack\n"}
	}
	if rapid.IntRange(0, 1).Draw(t, "cliOptionDrawn") == 1 {
		p.CliForm = rapid.IntRange(0, 4).Draw(t, "cliForm")
	}
	if rapid.IntRange(0, 3).Draw(t, "otherCliOption") == 3 {
		p.CliForm = rapid.IntRange(5, 8).Draw(t, "otherCliForm")
	}
	if p.Module != "" && rapid.IntRange(0, 2).Draw(t, "otherGoModLayout") == 2 {
		p.ModForm = rapid.IntRange(1, 5).Draw(t, "goModForm")
	}
	if rapid.IntRange(0, 2).Draw(t, "noiseFiles") == 2 {
		keys := make([]string, 0, len(goNoise))
		for k := range goNoise {
			keys = append(keys, k)
		}
		sort.Strings(keys)
		p.Noise = map[string]string{}
		for _, k := range rapid.SliceOfNDistinct(rapid.IntRange(0, len(keys)-1), 1, 5, func(i int) int { return i }).Draw(t, "noise") {
			p.Noise[keys[k]] = goNoise[keys[k]]
		}
	}
	p.OnlyFile = rapid.IntRange(0, 9).Draw(t, "onlyTheFirstFile") == 9
	return p
}

func (p GoProject) goMod() string {
	m := p.Module
	switch p.ModForm {
	case 1:
		return "module " + m + "  \t\n\ngo 1.18\n"
	case 2:
		return "module " + m + "\r\n\r\ngo 1.18\r\n"
	case 3:
		return "module    " + m + "\n\ngo 1.18\n"
	case 4:
		return "module \t" + m + "\n\ngo 1.18\n\nrequire (\n\tgithub.com/acme/widget v1.2.3\n\texample.org/lib/v2 v2.0.1 // indirect\n)\n"
	case 5:
		return "module " + m + "\n"
	}
	return "module " + m + "\n\ngo 1.18\n"
}

// judged: the files whose declarations the analysis must list
func (p GoProject) judged() GoProject {
	if p.OnlyFile {
		q := p
		q.Files = p.Files[:1]
		return q
	}
	return p
}

// target: the path handed to the analysis, relative to the project directory
func (p GoProject) target() string {
	if p.OnlyFile {
		return p.Files[0].Path
	}
	return "."
}

func (p GoProject) tree() map[string]string {
	files := map[string]string{}
	for path, code := range p.Noise {
		files[path] = code
	}
	if p.Module != "" {
		files["go.mod"] = p.goMod()
	}
	for _, f := range p.Files {
		files[f.Path] = f.Code
	}
	for path, code := range p.Extra {
		files[path] = code
	}
	return files
}

func (p GoProject) render() string {
	var b strings.Builder
	for _, f := range p.Files {
		b.WriteString("--- " + f.Path + "\n" + f.Code)
	}
	return b.String()
}

func exported(name string) bool { return name != "" && unicode.IsUpper(rune(name[0])) }

// judgeGoDs judges the flattened list CommonAnalysis returns: the data structures of every file plus one
// entry per exported top-level function (BuildMethodDs keeps exported functions only; the others are not judged).
func judgeGoDs(ds []core_domain.CodeDataStruct, p GoProject) string {
	// a name may be declared in several directories: the declarations of one name are paired one-to-one with the entries of that name
	wantsOf := map[string][]GoFunc{}
	var wantFn []string
	for _, f := range p.Files {
		for _, fn := range f.Funcs {
			if fn.Recv == "" && exported(fn.Name) {
				wantsOf[fn.Name] = append(wantsOf[fn.Name], fn)
				wantFn = append(wantFn, fn.Name)
			}
		}
	}
	isFn := map[string]bool{}
	gotOf := map[string][]core_domain.CodeDataStruct{}
	var gotFn []string
	for _, d := range ds {
		if _, ok := wantsOf[d.NodeName]; ok {
			isFn[d.NodeName] = true
			gotFn = append(gotFn, d.NodeName)
			gotOf[d.NodeName] = append(gotOf[d.NodeName], d)
		}
	}
	if msg := sameMultiset("exported top-level functions", gotFn, wantFn); msg != "" {
		return msg
	}
	for _, name := range sortedKeys(counts(wantFn)) {
		ws, gs := wantsOf[name], gotOf[name]
		if msg := pairUp(len(ws), len(gs), func(i, j int) string { return judgeCalls("function "+name, gs[j].FunctionCalls, ws[i]) }); msg != "" {
			return msg
		}
	}
	return judgeStructs(ds, p.Files, true, isFn)
}

func projectVerdict(p GoProject) pbt.Verdict {
	v := pbt.Verdict{}
	all := GoFile{}
	for _, f := range p.Files {
		all.Structs = append(all.Structs, f.Structs...)
		all.Ifaces = append(all.Ifaces, f.Ifaces...)
		all.Funcs = append(all.Funcs, f.Funcs...)
		all.Imports = append(all.Imports, f.Imports...)
		for _, ft := range f.Features {
			dup := false
			for _, x := range all.Features {
				dup = dup || x == ft
			}
			if !dup {
				all.Features = append(all.Features, ft)
			}
		}
	}
	v.Classes, v.NonTrivial, _ = goClasses(all)
	v.Classes = append(v.Classes, fmt.Sprintf("files=%d", len(p.Files)))
	if p.Module != "" {
		v.Classes = append(v.Classes, "go.mod")
	}
	if len(p.Extra) > 0 {
		v.Classes = append(v.Classes, "file_with_package_clause_only")
	}
	declaredIn := map[string]int{}
	if p.ModForm > 0 {
		v.Classes = append(v.Classes, fmt.Sprintf("go.mod_layout=%d", p.ModForm))
	}
	if len(p.Noise) > 0 {
		v.Classes = append(v.Classes, "files_whose_names_only_resemble_*.go")
	}
	if p.OnlyFile {
		v.Classes = append(v.Classes, "path_of_one_file_given")
	}
	if p.Again != nil {
		v.Classes = append(v.Classes, "same_path_other_text_of_same_length")
	}
	for _, f := range p.Files {
		if strings.HasSuffix(f.Path, "_test.go") {
			v.Classes = append(v.Classes, "file_named_*_test.go")
		} else if !strings.HasSuffix(f.Path, "_file.go") {
			v.Classes = append(v.Classes, "other_file_names")
		}
		for _, s := range f.Structs {
			declaredIn[s.Name]++
		}
	}
	for _, name := range sortedKeys(declaredIn) {
		if declaredIn[name] > 1 {
			v.Classes = append(v.Classes, "type_name_declared_in_several_files")
			break
		}
	}
	nSetup := 0
	for _, fn := range all.Funcs {
		if fn.Recv == "" && fn.Name == "Setup" {
			nSetup++
		}
	}
	if nSetup > 1 {
		v.Classes = append(v.Classes, "function_name_declared_in_several_files")
	}
	return v
}

func checkGoProject(p GoProject) pbt.Verdict {
	for _, f := range p.Files {
		mustParseGo(f.Path, f.Code)
	}
	dir := cli.Scratch("c20goproj")
	defer os.RemoveAll(dir)
	cli.WriteTree(dir, p.tree())
	ast_go.VerifResetAstGo()
	var ds []core_domain.CodeDataStruct
	if pn := call(func() {
		ds = analysis.CommonAnalysis(new(bytes.Buffer), filepath.Join(dir, filepath.FromSlash(p.target())), new(goapp.GoIdentApp), cocafile.GoFileFilter, true)
	}); pn != "" {
		return pbt.Fail("analysis.CommonAnalysis (Go) panicked: %s\n%s", strings.ReplaceAll(pn, dir, "<dir>"), p.render())
	}
	if msg := judgeGoDs(ds, p.judged()); msg != "" {
		return pbt.Fail("analysis.CommonAnalysis (Go): %s\n%s", msg, p.render())
	}
	// the front-end object the way CommonAnalysis sets it up (module name read from go.mod), file by file: the import
	// sources are relative to the module, which the flattened list above does not show
	ast_go.VerifResetAstGo()
	app := new(goapp.GoIdentApp)
	if pn := call(func() { app.AnalysisPackageManager(dir) }); pn != "" {
		return pbt.Fail("GoIdentApp.AnalysisPackageManager panicked: %s\n--- go.mod\n%s%s", strings.ReplaceAll(pn, dir, "<dir>"), p.goMod(), p.render())
	}
	for _, f := range p.Files {
		var res core_domain.CodeContainer
		path := filepath.Join(dir, filepath.FromSlash(f.Path))
		if pn := call(func() {
			app.SetExtensions(app.IdentAnalysis(f.Code, path))
			res = app.Analysis(f.Code, path)
		}); pn != "" {
			return pbt.Fail("GoIdentApp.Analysis after AnalysisPackageManager panicked on %s: %s\n%s", f.Path, strings.ReplaceAll(pn, dir, "<dir>"), p.render())
		}
		if msg := judgeContainer(res, f, p.Module); msg != "" {
			return pbt.Fail("GoIdentApp.Analysis after AnalysisPackageManager (go.mod: %q), %s: %s\n%s", p.goMod(), f.Path, msg, p.render())
		}
	}
	return projectVerdict(p)
}

// runPlugin runs a plugin binary in dir and decodes the report it writes.
func runPlugin(binary, report, dir string, form int, target string) ([]core_domain.CodeDataStruct, string) {
	form = form % 9
	if target != "." && (form == 2 || form == 4) {
		form = 0 // no way to name a file with the default
	}
	rel := func(prefix string) string {
		if target == "." {
			return prefix
		}
		return strings.TrimSuffix(prefix, ".") + target
	}
	cwd := dir
	args := [][]string{{"analysis", "-p", rel(".")}, {"analysis", "--path", rel("./")}, {"analysis"}, {"analysis", "-p", filepath.Join(dir, filepath.FromSlash(target))}, {"analysis", "--path=./"},
		{"analysis", "-p=" + rel("./")}, nil, {"analysis", "-f", "-l", "go", "-p", rel(".")}, {"analysis", "-p", filepath.Join(dir, filepath.FromSlash(target)) + "/"}}[form]
	if form == 8 && target != "." {
		args = []string{"analysis", "--force", "--lang=python", "--path", filepath.Join(dir, filepath.FromSlash(target))}
	}
	if form == 6 {
		// from the parent directory; the report goes to the working directory
		cwd = filepath.Dir(dir)
		args = []string{"analysis", "-p", filepath.Join(filepath.Base(dir), filepath.FromSlash(target))}
	}
	res, err := cli.Run(binary, cwd, nil, args...)
	if err != nil {
		panic("c20: cannot run " + binary + ": " + err.Error())
	}
	if res.TimedOut {
		return nil, "the analysis command did not finish within 120 s"
	}
	if res.ExitCode != 0 || strings.Contains(res.Stderr, "panic:") {
		return nil, fmt.Sprintf("the analysis command failed (exit %d)\nstderr: %s", res.ExitCode, tail(res.Stderr, 1500))
	}
	data, rerr := os.ReadFile(filepath.Join(cwd, "coca_reporter", report))
	if rerr != nil {
		return nil, fmt.Sprintf("the analysis command wrote no coca_reporter/%s: %v\nstdout: %s", report, rerr, tail(res.Stdout, 600))
	}
	var ds []core_domain.CodeDataStruct
	if uerr := json.Unmarshal(data, &ds); uerr != nil {
		return nil, fmt.Sprintf("coca_reporter/%s is not a JSON list of data structures: %v", report, uerr)
	}
	return ds, ""
}

func tail(s string, n int) string {
	if len(s) > n {
		return "…" + s[len(s)-n:]
	}
	return s
}

func checkGoCLI(p GoProject) pbt.Verdict {
	scratch := cli.Scratch("c20gocli")
	defer os.RemoveAll(scratch)
	dir := filepath.Join(scratch, "proj") // its parent is the working directory of one CLI form
	cli.WriteTree(dir, p.tree())
	ds, why := runPlugin("coca_go", "godeps.json", dir, p.CliForm, p.target())
	if why != "" {
		return pbt.Fail("analysis/golang: %s\n%s", strings.ReplaceAll(why, dir, "<dir>"), p.render())
	}
	if msg := judgeGoDs(ds, p.judged()); msg != "" {
		return pbt.Fail("analysis/golang, godeps.json: %s\n%s", msg, p.render())
	}
	v := projectVerdict(p)
	v.Classes = append(v.Classes, fmt.Sprintf("cli_form=%d", p.CliForm%9))
	return v
}

type PyProject struct {
	Modules []PyModule `json:"modules"` // in the order in which the directory walk meets them
	// CliForm: as for GoProject
	CliForm int `json:"cli_form,omitempty"`
	// Noise (second round): files next to the modules whose names do not end in .py (some hold Python text that declares classes)
	Noise map[string]string `json:"noise,omitempty"`
}

var pyNoise = map[string]string{
	"notes.py.txt":        "class InTextFile:\n    pass\n",
	"pkg/models.py.bak":   "class Backup:\n    def old(self):\n        pass\n",
	"pkg/stubs.pyi":       "class Stub:\n    def typed(self) -> int: ...\n",
	"pkg/cache.pyc":       "\x00\x01\x02not python",
	"pkg/sub/script.pyw":  "class Windowed:\n    pass\n",
	"README.md":           "# class ReadMe:\n",
	"pkg/py":              "class NoExtension:\n    pass\n",
	"pkg/sub/UPPER.PY":    "class UpperCaseExtension:\n    pass\n",
	"pkg/template.py.j2":  "class {{ name }}:\n    pass\n",
	"pkg/sub/views.py~":   "class EditorBackup:\n    pass\n",
	"requirements.python": "flask\n",
}

func genPyProject(t *rapid.T) PyProject {
	p := PyProject{}
	n := rapid.IntRange(1, 3).Draw(t, "nModules")
	for i := 0; i < n; i++ {
		prefix := string(rune('A' + i))
		path := []string{"app.py", "pkg/models.py", "pkg/sub/views.py"}[i]
		if rapid.IntRange(0, 5).Draw(t, "otherModuleName") == 5 {
			path = []string{"setup.py", "pkg/__init__.py", "tests/test_views.py"}[i]
		}
		if rapid.IntRange(0, 5).Draw(t, "unusualModuleName") == 5 {
			// a directory whose name ends in .py, names with dots, dashes, blanks and capitals
			path = []string{"vendor.py/lib.py", "pkg/models.v2.py", "pkg/sub/Test-Views 2.py"}[i]
		}
		p.Modules = append(p.Modules, renderPy(drawPySpec(t), prefix, path))
	}
	// package markers: modules that declare nothing
	if rapid.IntRange(0, 2).Draw(t, "packageMarkers") == 2 {
		form := rapid.IntRange(0, 2).Draw(t, "packageMarkerForm")
		for _, path := range []string{"pkg/__init__.py", "pkg/sub/__init__.py"} {
			taken := false
			for _, m := range p.Modules {
				taken = taken || m.Path == path
			}
			if !taken {
				p.Modules = append(p.Modules, PyModule{Path: path, Code: []string{"", "# package marker\n", "\"\"\"The package.\"\"\"\n\n__all__ = []\n"}[form], Features: []string{"module_without_definitions"}})
			}
		}
	}
	// the order of the directory walk: lexical, and none of the names makes that differ from comparing whole paths
	sort.SliceStable(p.Modules, func(i, j int) bool { return p.Modules[i].Path < p.Modules[j].Path })
	if rapid.IntRange(0, 1).Draw(t, "cliOptionDrawn") == 1 {
		p.CliForm = rapid.IntRange(0, 4).Draw(t, "cliForm")
	}
	if rapid.IntRange(0, 3).Draw(t, "otherCliOption") == 3 {
		p.CliForm = rapid.IntRange(5, 8).Draw(t, "otherCliForm")
	}
	if rapid.IntRange(0, 2).Draw(t, "noiseFiles") == 2 {
		keys := make([]string, 0, len(pyNoise))
		for k := range pyNoise {
			keys = append(keys, k)
		}
		sort.Strings(keys)
		p.Noise = map[string]string{}
		for _, k := range rapid.SliceOfNDistinct(rapid.IntRange(0, len(keys)-1), 1, 5, func(i int) int { return i }).Draw(t, "noise") {
			p.Noise[keys[k]] = pyNoise[keys[k]]
		}
	}
	return p
}

func (p PyProject) tree() map[string]string {
	files := map[string]string{}
	for path, code := range p.Noise {
		files[path] = code
	}
	for _, m := range p.Modules {
		files[m.Path] = m.Code
	}
	return files
}

func (p PyProject) render() string {
	var b strings.Builder
	for _, m := range p.Modules {
		b.WriteString("--- " + m.Path + "\n" + m.Code)
		if !strings.HasSuffix(m.Code, "\n") {
			b.WriteString("\n")
		}
	}
	return b.String()
}

// rejected parses the modules the way one run of the analysis does: in walk order, in one process,
// the lexer state of a fresh process before the first one only.
func (p PyProject) rejected() bool {
	resetPythonLexer()
	for _, m := range p.Modules {
		if pythonRejectsNext(m.Code) != "" {
			return true
		}
	}
	return false
}

// judgePyDs: classes of every module exactly once with methods and decorators; module-level functions
// whose name starts with an upper-case letter exactly once (BuildMethodDs keeps only those).
func judgePyDs(ds []core_domain.CodeDataStruct, p PyProject) string {
	var classes []PyClass
	wantFn := []string{}
	isFn := map[string]bool{}
	nestedOK := map[string]bool{}
	for _, m := range p.Modules {
		classes = append(classes, m.Classes...)
		for _, f := range m.Funcs {
			if exported(f.Name) {
				wantFn = append(wantFn, f.Name)
				isFn[f.Name] = true
			}
			for _, n := range f.Nested {
				nestedOK[n] = true
			}
		}
	}
	var classDs []core_domain.CodeDataStruct
	var gotFn []string
	for _, d := range ds {
		switch {
		case isFn[d.NodeName]:
			gotFn = append(gotFn, d.NodeName)
		case nestedOK[d.NodeName]:
		default:
			classDs = append(classDs, d)
		}
	}
	if msg := sameMultiset("module-level functions with a capitalised name", gotFn, wantFn); msg != "" {
		return msg
	}
	return judgePyClasses(classDs, classes)
}

func pyProjectVerdict(p PyProject) pbt.Verdict {
	all := PyModule{}
	for _, m := range p.Modules {
		all.Classes = append(all.Classes, m.Classes...)
		all.Funcs = append(all.Funcs, m.Funcs...)
		all.Imports = append(all.Imports, m.Imports...)
		for _, ft := range m.Features {
			dup := false
			for _, x := range all.Features {
				dup = dup || x == ft
			}
			if !dup {
				all.Features = append(all.Features, ft)
			}
		}
	}
	v := pbt.Verdict{}
	v.Classes, v.NonTrivial = pyClasses(all)
	v.Classes = append(v.Classes, fmt.Sprintf("modules=%d", len(p.Modules)))
	if len(p.Noise) > 0 {
		v.Classes = append(v.Classes, "files_whose_names_only_resemble_*.py")
	}
	declaredIn := map[string]int{}
	for _, m := range p.Modules {
		for _, c := range m.Classes {
			declaredIn[c.Name]++
		}
		if strings.HasSuffix(m.Path, "__init__.py") || strings.HasPrefix(m.Path, "tests/") || m.Path == "setup.py" {
			v.Classes = append(v.Classes, "module_named_"+filepath.Base(m.Path))
		}
		if m.Path == "vendor.py/lib.py" || m.Path == "pkg/models.v2.py" || m.Path == "pkg/sub/Test-Views 2.py" {
			v.Classes = append(v.Classes, "module_named_"+m.Path)
		}
	}
	for _, name := range sortedKeys(declaredIn) {
		if declaredIn[name] > 1 {
			v.Classes = append(v.Classes, "class_name_declared_in_several_modules")
			break
		}
	}
	return v
}

func checkPyProject(p PyProject) pbt.Verdict {
	if p.rejected() {
		pbt.Count("python_rejected_by_shipped_parser", 1)
		return pbt.Verdict{Skip: true}
	}
	dir := cli.Scratch("c20pyproj")
	defer os.RemoveAll(dir)
	cli.WriteTree(dir, p.tree())
	ast_python.VerifResetAstPython()
	resetPythonLexer()
	var ds []core_domain.CodeDataStruct
	if pn := call(func() {
		ds = analysis.CommonAnalysis(new(bytes.Buffer), dir, new(pyapp.PythonIdentApp), cocafile.PythonFileFilter, true)
	}); pn != "" {
		return pbt.Fail("analysis.CommonAnalysis (Python) panicked: %s\n%s", pn, p.render())
	}
	if msg := judgePyDs(ds, p); msg != "" {
		return pbt.Fail("analysis.CommonAnalysis (Python): %s\n%s", msg, p.render())
	}
	return pyProjectVerdict(p)
}

func checkPyCLI(p PyProject) pbt.Verdict {
	if p.rejected() {
		pbt.Count("python_rejected_by_shipped_parser", 1)
		return pbt.Verdict{Skip: true}
	}
	scratch := cli.Scratch("c20pycli")
	defer os.RemoveAll(scratch)
	dir := filepath.Join(scratch, "proj") // its parent is the working directory of one CLI form
	cli.WriteTree(dir, p.tree())
	ds, why := runPlugin("coca_py", "pydeps.json", dir, p.CliForm, ".")
	if why != "" {
		return pbt.Fail("analysis/python: %s\n%s", why, p.render())
	}
	if msg := judgePyDs(ds, p); msg != "" {
		return pbt.Fail("analysis/python, pydeps.json: %s\n%s", msg, p.render())
	}
	v := pyProjectVerdict(p)
	v.Classes = append(v.Classes, fmt.Sprintf("cli_form=%d", p.CliForm%9))
	return v
}

// ---------------------------------------------------------------------------------------

func init() {
	pbt.SetProperty("C20")
	pbt.Describe("rapid-generated sources with ground truth. Go files: package clause, 0-4 imports (plain, alias, dot, blank; single or grouped; pairs of paths with the same last element; one path under two names; paths as raw strings), 0-4 structs with 0-4 fields of ident / pointer / slice / selector / func / interface{} types (incl. `a, b T`, tags and embedded fields), type names that are a prefix or a suffix of another type name, 0-2 interfaces with 0-3 methods, 0-3 methods per struct on value / pointer / unnamed receivers (receiver names r, s, this, self, _, ...; receiver type optionally in parentheses; method names also used by free functions and by other structs), 0-3 top-level functions with named, grouped or unnamed parameters and results (init possibly twice; a declaration without body), bodies of X.F() call statements on packages, receivers, parameters and local variables assigned further up, with arguments of every expression kind except function literals, defer, assignments (:=, =, +=, two values from a call, to a field, to _), var declarations, unqualified calls and returns; declarations in usual or shuffled order (methods before their type) or in one type(...) group. Names (types, fields, parameters, methods, functions): unexported, non-ASCII letters, underscores and digits, one letter, blank, > 100 bytes, words of the model (Struct, method, Default, Type, func_). One case in twelve goes past 8 / 16 elements of every list (up to 13 structs, 6 interfaces, 12 functions, 17 methods and 18 fields of one struct, 11 parameters, 35 statements, 19 imports, 15 interface methods). Layout, in one case of four: CRLF, byte order mark, no final newline, leading blank lines, doc / trailing / block comments between tokens holding the text of declarations, struct types and bodies on one line with ;, parameters one per line, a comment line of 70 000 bytes. Files without struct (interfaces and functions only). Every text is checked with go/parser. Go projects: 1-3 such files (+ go.mod whose first line is written with trailing blanks, CRLF, several blanks or a tab after the keyword, a require block), directories pkg/stack, internal/app/svc, cmd/tool-x, api.v2, vendor/nats.go (a directory named like a Go file), pkg/x_test, Internal/Ünï; file names *_file.go, *_test.go (optionally package <p>_test), *.gen.go, *-File.go, *.v2.x.go, *_go.go, names with a blank, *_linux_amd64.go; a type name and an exported function name declared in files of several directories; a file with nothing but a package clause; files whose names only resemble *.go (notes.go.txt, legacy.go.bak, main.gox, UPPER.GO, stack.go~, gen.go.tmpl, a file called go) next to them; the analysis given the directory or the path of one file. Python modules: 0-4 imports at the top and 0-2 between or after the definitions (import a.b / as c / from x import y, z / parenthesised, also over several lines with a trailing comma / import * / names with as), imports inside bodies and in try / except at module level, 0-4 classes (bases incl. (), dotted, subscripted, keyword, trailing comma, over two lines; one-line or multi-line docstring containing the text of a class and a def, attributes, 0-4 methods, an inner class - optionally decorated, called Meta in every class, holding a class of its own, followed by a second inner class - with further methods of the outer class after it, a property with getter and setter of one name, a comment at column 0 or a line of blanks between the methods, `class X: pass`), 0-3 functions, 0-2 decorators with and without arguments on all three (arguments: keyword, list, dict, call, star, double star, strings with commas, brackets and blanks; optionally one per line; optionally a comment line or an empty line before the def), nested defs (optionally decorated), a definition inside `if True:` at module level, async def, return annotations, signatures spread over several lines or written with blanks inside the parentheses, one-line defs, bodies with if/for/try/with/while blocks, strings that contain #, brackets, quotes and the text of definitions, continuation lines, semicolons; names with leading underscore, lower case, one letter, non-ASCII letters, > 100 bytes, containing keywords (from_json, class_name, print_all, True_, Def, Import_). One case in sixteen goes past 8 / 16 / 32 elements (up to 13 classes, 20 methods, 15 functions, 18 imports, 7 decorators; modules of several hundred lines, i.e. past 64, 128 and 256 queued lexer tokens). Layout: four indentation styles (4 blanks, 2 blanks, tab, 2 blanks + tab) or a width of its own for every block, LF or CRLF, blanks at line ends, comments after def / class lines, non-ASCII text in comments and strings, a comment line of 70 000 bytes, first line of blanks or #!, text ending without newline / with a comment without newline / with a line of blanks without newline / with empty lines / with an indented comment, main guard, module-level strings that hold the text of decorated definitions; texts the shipped Python parser rejects are skipped and counted (py_module, py_project, py_cli; about 2 %, all of them texts ending in a line of blanks without newline). Python projects: 1-3 modules named app.py / pkg/models.py / pkg/sub/views.py or setup.py / pkg/__init__.py / tests/test_views.py or vendor.py/lib.py / pkg/models.v2.py / `pkg/sub/Test-Views 2.py`, optional empty package markers, a class name and a capitalised function name declared in several modules, files whose names only resemble *.py next to them. Oracles: each struct / interface / class exactly once per declaration under its own name with its fields (name, type kind, type text), method set, decorators; each top-level function once per declaration with its parameters; each import once (source, alias; after AnalysisPackageManager relative to the module of go.mod); each X.F() call statement recorded as often as written; nested defs tolerated as extra entries; declarations of one name (in several files, or getter/setter, or init, or inner classes called Meta) are paired one-to-one with the entries of that name. Entry points: CocagoParser.ProcessString / ProcessFile, GoIdentApp.Analysis / IdentAnalysis (also after AnalysisPackageManager on the project directory), PythonIdentApp.Analysis, analysis.CommonAnalysis, and the binaries of analysis/golang and analysis/python (godeps.json / pydeps.json; -p . / --path . / default / absolute path / --path=./ / -p=./ / -p proj from the parent directory / with -f -l go / absolute path with trailing slash / the path of one file). Sequences: go_seq uses one CocagoParser and one GoIdentApp for all files of a project and the first file again, then (one project in three) another text of the same length under the path of the first file with other type names, and re-reads every earlier result at the end; one py_module case in three analyses a second module / an empty module / the same module / the same module under other names and the same path afterwards with the same PythonIdentApp and without any reset, and re-reads the first result. go_any / py_any add constructs outside the modelled subset and assert crash-freedom only. Non-trivial: Go: >= 2 type declarations of which >= 2 have methods; Python: >= 2 classes and >= 1 decorated definition; *_any: >= 2 extra constructs. Distinct = hash of the case.",
		"type texts follow the model's own convention as pinned by the repository's golden files: element name without * or [], `func` for function types, interface{} / interface{} for the empty interface type (testdata/regression/coll_stack.json), TypeType Identify/Star/ArrayType/Function/empty; an embedded field has the empty name, like an unnamed parameter",
		"import sources follow BuildImport: module prefix removed, / replaced by .",
		"a deferred X.F() may be recorded once or not at all; entries for assignments, returns and unqualified calls are not judged; parameters of methods are not judged (the statement names the parameters of top-level functions); decorator arguments are compared as one text per decorator",
		"godeps.json / pydeps.json list only top-level functions with a capitalised name (BuildMethodDs); other functions are judged on the in-process entry points only; function names begin with an ASCII letter (BuildMethodDs looks at the first byte)",
		"every generated Go text passes go/parser (a rejection aborts the run as a generator bug); py_plain modules are valid Python by construction (C20_PYTHON3_ALL=1 shows every one of them to python3) and are judged without asking the shipped parser",
		"kept out because the statement leaves the expected value open: anonymous struct and non-empty interface types as field / parameter types, embedded interfaces, map / chan / variadic / array / pointer-to-slice types, function literals as arguments, call statements inside if / for / switch blocks, X.y.F() calls on fields, relative Python imports (from . import x), `import a, b`, a module name that is a string prefix but not a path prefix of an import path, go.mod whose first line is not the module line, directories called testData (skipped by the tool on purpose)")
	pbt.Register("go_file", 3000, 10000, genGoCase, checkGoCase)
	pbt.Register("go_any", 800, 3000, genGoAny, checkGoAny)
	pbt.Register("go_project", 400, 1500, genGoProject, checkGoProject)
	pbt.Register("go_seq", 400, 1500, genGoProject, checkGoSeq)
	pbt.Register("py_plain", 600, 2000, genPyPlain, checkPyPlain)
	pbt.Register("py_module", 1500, 3000, genPyCase, checkPyCase)
	pbt.Register("py_any", 500, 1500, genPyAny, checkPyAny)
	pbt.Register("py_project", 400, 800, genPyProject, checkPyProject)
	pbt.Register("go_cli", 30, 60, genGoProject, checkGoCLI)
	pbt.Register("py_cli", 30, 60, genPyProject, checkPyCLI)
}

func TestProp(t *testing.T)   { pbt.Main(t) }
func TestReplay(t *testing.T) { pbt.Replay(t) }
