// C20: wider Go files (crash-freedom only), projects through analysis.CommonAnalysis and the plugin binaries, registration.
package c20

import (
	"bytes"
	"encoding/json"
	"fmt"
	"os"
	"path/filepath"
	"sort"
	"strings"
	"testing"
	"unicode"

	"github.com/modernizing/coca/pkg/adapter/cocafile"
	"github.com/modernizing/coca/pkg/application/analysis"
	"github.com/modernizing/coca/pkg/application/analysis/goapp"
	"github.com/modernizing/coca/pkg/application/analysis/pyapp"
	"github.com/modernizing/coca/pkg/domain/core_domain"
	"github.com/modernizing/coca/pkg/infrastructure/ast/ast_go"
	"github.com/modernizing/coca/pkg/infrastructure/ast/ast_python"
	"pgregory.net/rapid"

	"verif/internal/cli"
	"verif/internal/pbt"
)

// ---------------------------------------------------------------------------------------
// go_any: anything go/parser accepts must not crash the front-end

var goAnySnippets = []string{
	"func external(a int) int\n",
	"type Box[T any] struct {\n\tv T\n}\n\nfunc (b *Box[T]) Get() T {\n\treturn b.v\n}\n\nfunc (Box[T]) valueGeneric() {}\n",
	"func MapAll[T any, U any](xs []T, f func(T) U) []U {\n\treturn nil\n}\n",
	"func (m *Missing) Orphan() {\n\tfmt.Println(\"x\")\n}\n\nfunc (m Missing) OrphanValue() int {\n\treturn 1\n}\n",
	"type Emb struct {\n\tsync.Mutex\n\t*Other\n\tinner struct {\n\t\ta int\n\t}\n\tm  map[string][]int\n\tch chan<- int\n\tarr [4]byte\n\tpp **int\n\tfn func(...int)\n\tps []*Other\n\tsp *[]int\n\tany interface{}\n}\n",
	"func variadic(xs ...int) (err error) {\n\tgo work()\n\tfor i := range xs {\n\t\tfmt.Println(i)\n\t}\n\tif len(xs) > 0 {\n\t\treturn nil\n\t}\n\tswitch {\n\tdefault:\n\t}\n\tselect {}\n}\n",
	"func closures() {\n\tf := func(s string) {\n\t\tfmt.Println(s)\n\t}\n\tf(\"x\")\n\tfunc() {\n\t\tfmt.Println(\"now\")\n\t}()\n\tsort.Slice(nil, func(i, j int) bool {\n\t\treturn i < j\n\t})\n\tdefer func() {\n\t\trecover()\n\t}()\n}\n",
	"func chained(s *Stack) {\n\ts.mu.Lock()\n\tdefer s.mu.Unlock()\n\ta.b.c.D()\n\tgetX().Run()\n\tarr[0].Do()\n\t(*s).Pop()\n\tpkg.Fn[int](1)\n\tm[\"k\"].f.Call(x.y, z())\n}\n",
	"const (\n\tFirst = iota\n\tSecond\n)\n\nvar (\n\tgx, gy int\n\tgz     = 1\n\tgp     *sync.Mutex\n\tgq     []string\n\tgs     pkg.T\n)\n",
	"type (\n\tID      int\n\tHandler func(w http.ResponseWriter, r *http.Request)\n\tAlias   = string\n\tEmpty   interface{}\n\tAnyT    interface {\n\t\t~int | ~string\n\t}\n\tBoth interface {\n\t\tfmt.Stringer\n\t\tClose() error\n\t}\n)\n",
	"func localTypes() {\n\ttype local struct {\n\t\ta int\n\t}\n\ttype li interface {\n\t\tM()\n\t}\n\tvar v local\n\t_ = v\n}\n",
	"func labels() {\nouter:\n\tfor {\n\t\tbreak outer\n\t}\n\tgoto outer\n}\n",
	"func ifaceParam(x interface{ M() }, y struct{ a int }, z map[string]int, c chan int) {}\n",
	"type Celsius float64\n\nfunc (c Celsius) String() string {\n\treturn \"\"\n}\n",
	"func ret() *Stack {\n\treturn &Stack{list: nil}\n}\n\nfunc ret2(p *Stack) (int, error) {\n\treturn p.Len(), nil\n}\n",
	"func (_ *Missing2) blank() {}\n\nfunc _() {}\n\nfunc (r (*Paren)) paren() {}\n",
	"var _ = func() int { return 1 }()\n\nvar table = map[string]func(){\"a\": func() { fmt.Println() }}\n",
	"func Ünicode(π float64) {}\n\ntype Ärger struct {\n\tß int\n}\n",
	"func assign() {\n\ta, b := pkg.Two()\n\tx.y = z.w()\n\tvar e, f = 1, other.Make()\n\t_, _ = a, b\n\t*p = q()\n\tarr[i] = mk.New()\n}\n",
	"func returns(p Port) (Port, error) {\n\treturn p.Next(), errors.New(\"x\")\n\treturn <-ch, nil\n\treturn func() {}, nil\n\treturn p.(T), nil\n\treturn a + b.C(), nil\n}\n",
	"type Late struct{}\n\nfunc init() {}\n\nfunc init() {}\n",
}

type GoAnyCase struct {
	Path     string   `json:"path"`
	Code     string   `json:"code"`
	ViaFile  bool     `json:"viaFile"`
	Features []string `json:"features"`
}

func genGoAny(t *rapid.T) GoAnyCase {
	base := renderGo(drawGoSpec(t), "", "any.go")
	picks := rapid.SliceOfN(rapid.IntRange(0, len(goAnySnippets)-1), 1, 4).Draw(t, "snippets")
	c := GoAnyCase{Path: base.Path, ViaFile: rapid.IntRange(0, 6).Draw(t, "viaFile") == 6}
	var b strings.Builder
	b.WriteString(base.Code)
	seen := map[int]bool{}
	for _, k := range picks {
		if seen[k] {
			continue
		}
		seen[k] = true
		if k == 0 && pbt.Excluded("go_bodyless_func") {
			continue
		}
		if (k == 3 || k == 15) && pbt.Excluded("go_receiver_not_declared") {
			continue
		}
		b.WriteString(goAnySnippets[k] + "\n")
		c.Features = append(c.Features, fmt.Sprintf("snippet_%02d", k))
	}
	c.Code = b.String()
	mustParseGo(c.Path, c.Code)
	return c
}

func checkGoAny(c GoAnyCase) pbt.Verdict {
	gc := GoCase{File: GoFile{Path: c.Path, Code: c.Code}, ViaFile: c.ViaFile}
	if msg := runGoEntryPoints(gc, func(core_domain.CodeContainer) string { return "" }); msg != "" {
		return pbt.Fail("%s\n--- %s\n%s", msg, c.Path, c.Code)
	}
	return pbt.Verdict{Classes: c.Features, NonTrivial: len(c.Features) >= 2}
}

// ---------------------------------------------------------------------------------------
// projects

type GoProject struct {
	Module string   `json:"module"` // "" = no go.mod
	Files  []GoFile `json:"files"`
	// Extra: files that declare nothing (a doc.go with the package clause only)
	Extra map[string]string `json:"extra,omitempty"`
	// CliForm: how the plugin is given the project directory (cwd is always the project):
	// 0 "-p .", 1 "--path .", 2 no option (the default), 3 "-p <absolute directory>", 4 "--path=./"
	CliForm int `json:"cli_form,omitempty"`
}

func genGoProject(t *rapid.T) GoProject {
	p := GoProject{}
	if rapid.Bool().Draw(t, "goMod") {
		p.Module = "example.org/proj"
	}
	n := rapid.IntRange(1, 3).Draw(t, "nFiles")
	for i := 0; i < n; i++ {
		prefix := string(rune('A' + i))
		spec := drawGoSpec(t)
		if spec.SharedName {
			spec.Dir = i // one directory per file that declares the shared name: a package declares a name once
		}
		name := strings.ToLower(prefix) + "_file.go"
		if rapid.IntRange(0, 5).Draw(t, "testFileName") == 5 {
			name = strings.ToLower(prefix) + "_file_test.go"
		}
		p.Files = append(p.Files, renderGo(spec, prefix, name))
	}
	if rapid.IntRange(0, 3).Draw(t, "docFile") == 3 {
		// the first or a later file of the walk
		path := []string{"aaa_doc.go", "pkg/stack/doc.go"}[rapid.IntRange(0, 1).Draw(t, "docFileName")]
		p.Extra = map[string]string{path: "// Package stack is documented here.\npackage stack\n"}
	}
	if rapid.IntRange(0, 1).Draw(t, "cliOptionDrawn") == 1 {
		p.CliForm = rapid.IntRange(0, 4).Draw(t, "cliForm")
	}
	return p
}

func (p GoProject) tree() map[string]string {
	files := map[string]string{}
	if p.Module != "" {
		files["go.mod"] = "module " + p.Module + "\n\ngo 1.18\n"
	}
	for _, f := range p.Files {
		files[f.Path] = f.Code
	}
	for path, code := range p.Extra {
		files[path] = code
	}
	return files
}

func (p GoProject) render() string {
	var b strings.Builder
	for _, f := range p.Files {
		b.WriteString("--- " + f.Path + "\n" + f.Code)
	}
	return b.String()
}

func exported(name string) bool { return name != "" && unicode.IsUpper(rune(name[0])) }

// judgeGoDs judges the flattened list CommonAnalysis returns: the data structures of every file plus one
// entry per exported top-level function (BuildMethodDs keeps exported functions only; the others are not judged).
func judgeGoDs(ds []core_domain.CodeDataStruct, p GoProject) string {
	fnByName := map[string]GoFunc{}
	var wantFn []string
	for _, f := range p.Files {
		for _, fn := range f.Funcs {
			if fn.Recv == "" && exported(fn.Name) {
				fnByName[fn.Name] = fn
				wantFn = append(wantFn, fn.Name)
			}
		}
	}
	isFn := map[string]bool{}
	var gotFn []string
	for _, d := range ds {
		if _, ok := fnByName[d.NodeName]; ok {
			isFn[d.NodeName] = true
			gotFn = append(gotFn, d.NodeName)
			if msg := judgeCalls("function "+d.NodeName, d.FunctionCalls, fnByName[d.NodeName]); msg != "" {
				return msg
			}
		}
	}
	if msg := sameMultiset("exported top-level functions", gotFn, wantFn); msg != "" {
		return msg
	}
	return judgeStructs(ds, p.Files, true, isFn)
}

func projectVerdict(p GoProject) pbt.Verdict {
	v := pbt.Verdict{}
	all := GoFile{}
	for _, f := range p.Files {
		all.Structs = append(all.Structs, f.Structs...)
		all.Ifaces = append(all.Ifaces, f.Ifaces...)
		all.Funcs = append(all.Funcs, f.Funcs...)
		all.Imports = append(all.Imports, f.Imports...)
		for _, ft := range f.Features {
			dup := false
			for _, x := range all.Features {
				dup = dup || x == ft
			}
			if !dup {
				all.Features = append(all.Features, ft)
			}
		}
	}
	v.Classes, v.NonTrivial, _ = goClasses(all)
	v.Classes = append(v.Classes, fmt.Sprintf("files=%d", len(p.Files)))
	if p.Module != "" {
		v.Classes = append(v.Classes, "go.mod")
	}
	if len(p.Extra) > 0 {
		v.Classes = append(v.Classes, "file_with_package_clause_only")
	}
	declaredIn := map[string]int{}
	for _, f := range p.Files {
		if strings.HasSuffix(f.Path, "_test.go") {
			v.Classes = append(v.Classes, "file_named_*_test.go")
		}
		for _, s := range f.Structs {
			declaredIn[s.Name]++
		}
	}
	for _, name := range sortedKeys(declaredIn) {
		if declaredIn[name] > 1 {
			v.Classes = append(v.Classes, "type_name_declared_in_several_files")
			break
		}
	}
	return v
}

func checkGoProject(p GoProject) pbt.Verdict {
	for _, f := range p.Files {
		mustParseGo(f.Path, f.Code)
	}
	dir := cli.Scratch("c20goproj")
	defer os.RemoveAll(dir)
	cli.WriteTree(dir, p.tree())
	ast_go.VerifResetAstGo()
	var ds []core_domain.CodeDataStruct
	if pn := call(func() {
		ds = analysis.CommonAnalysis(new(bytes.Buffer), dir, new(goapp.GoIdentApp), cocafile.GoFileFilter, true)
	}); pn != "" {
		return pbt.Fail("analysis.CommonAnalysis (Go) panicked: %s\n%s", pn, p.render())
	}
	if msg := judgeGoDs(ds, p); msg != "" {
		return pbt.Fail("analysis.CommonAnalysis (Go): %s\n%s", msg, p.render())
	}
	return projectVerdict(p)
}

// runPlugin runs a plugin binary in dir and decodes the report it writes.
func runPlugin(binary, report, dir string, form int) ([]core_domain.CodeDataStruct, string) {
	args := [][]string{{"analysis", "-p", "."}, {"analysis", "--path", "."}, {"analysis"}, {"analysis", "-p", dir}, {"analysis", "--path=./"}}[form%5]
	res, err := cli.Run(binary, dir, nil, args...)
	if err != nil {
		panic("c20: cannot run " + binary + ": " + err.Error())
	}
	if res.TimedOut {
		return nil, "the analysis command did not finish within 120 s"
	}
	if res.ExitCode != 0 || strings.Contains(res.Stderr, "panic:") {
		return nil, fmt.Sprintf("the analysis command failed (exit %d)\nstderr: %s", res.ExitCode, tail(res.Stderr, 1500))
	}
	data, rerr := os.ReadFile(filepath.Join(dir, "coca_reporter", report))
	if rerr != nil {
		return nil, fmt.Sprintf("the analysis command wrote no coca_reporter/%s: %v\nstdout: %s", report, rerr, tail(res.Stdout, 600))
	}
	var ds []core_domain.CodeDataStruct
	if uerr := json.Unmarshal(data, &ds); uerr != nil {
		return nil, fmt.Sprintf("coca_reporter/%s is not a JSON list of data structures: %v", report, uerr)
	}
	return ds, ""
}

func tail(s string, n int) string {
	if len(s) > n {
		return "…" + s[len(s)-n:]
	}
	return s
}

func checkGoCLI(p GoProject) pbt.Verdict {
	dir := cli.Scratch("c20gocli")
	defer os.RemoveAll(dir)
	cli.WriteTree(dir, p.tree())
	ds, why := runPlugin("coca_go", "godeps.json", dir, p.CliForm)
	if why != "" {
		return pbt.Fail("analysis/golang: %s\n%s", why, p.render())
	}
	if msg := judgeGoDs(ds, p); msg != "" {
		return pbt.Fail("analysis/golang, godeps.json: %s\n%s", msg, p.render())
	}
	v := projectVerdict(p)
	v.Classes = append(v.Classes, fmt.Sprintf("cli_form=%d", p.CliForm%5))
	return v
}

type PyProject struct {
	Modules []PyModule `json:"modules"` // in the order in which the directory walk meets them
	// CliForm: as for GoProject
	CliForm int `json:"cli_form,omitempty"`
}

func genPyProject(t *rapid.T) PyProject {
	p := PyProject{}
	n := rapid.IntRange(1, 3).Draw(t, "nModules")
	for i := 0; i < n; i++ {
		prefix := string(rune('A' + i))
		path := []string{"app.py", "pkg/models.py", "pkg/sub/views.py"}[i]
		if rapid.IntRange(0, 5).Draw(t, "otherModuleName") == 5 {
			path = []string{"setup.py", "pkg/__init__.py", "tests/test_views.py"}[i]
		}
		p.Modules = append(p.Modules, renderPy(drawPySpec(t), prefix, path))
	}
	// package markers: modules that declare nothing
	if rapid.IntRange(0, 2).Draw(t, "packageMarkers") == 2 {
		form := rapid.IntRange(0, 2).Draw(t, "packageMarkerForm")
		for _, path := range []string{"pkg/__init__.py", "pkg/sub/__init__.py"} {
			taken := false
			for _, m := range p.Modules {
				taken = taken || m.Path == path
			}
			if !taken {
				p.Modules = append(p.Modules, PyModule{Path: path, Code: []string{"", "# package marker\n", "\"\"\"The package.\"\"\"\n\n__all__ = []\n"}[form], Features: []string{"module_without_definitions"}})
			}
		}
	}
	// the order of the directory walk: lexical, and none of the names makes that differ from comparing whole paths
	sort.SliceStable(p.Modules, func(i, j int) bool { return p.Modules[i].Path < p.Modules[j].Path })
	if rapid.IntRange(0, 1).Draw(t, "cliOptionDrawn") == 1 {
		p.CliForm = rapid.IntRange(0, 4).Draw(t, "cliForm")
	}
	return p
}

func (p PyProject) tree() map[string]string {
	files := map[string]string{}
	for _, m := range p.Modules {
		files[m.Path] = m.Code
	}
	return files
}

func (p PyProject) render() string {
	var b strings.Builder
	for _, m := range p.Modules {
		b.WriteString("--- " + m.Path + "\n" + m.Code)
		if !strings.HasSuffix(m.Code, "\n") {
			b.WriteString("\n")
		}
	}
	return b.String()
}

// rejected parses the modules the way one run of the analysis does: in walk order, in one process,
// the lexer state of a fresh process before the first one only.
func (p PyProject) rejected() bool {
	resetPythonLexer()
	for _, m := range p.Modules {
		if pythonRejectsNext(m.Code) != "" {
			return true
		}
	}
	return false
}

// judgePyDs: classes of every module exactly once with methods and decorators; module-level functions
// whose name starts with an upper-case letter exactly once (BuildMethodDs keeps only those).
func judgePyDs(ds []core_domain.CodeDataStruct, p PyProject) string {
	var classes []PyClass
	wantFn := []string{}
	isFn := map[string]bool{}
	nestedOK := map[string]bool{}
	for _, m := range p.Modules {
		classes = append(classes, m.Classes...)
		for _, f := range m.Funcs {
			if exported(f.Name) {
				wantFn = append(wantFn, f.Name)
				isFn[f.Name] = true
			}
			for _, n := range f.Nested {
				nestedOK[n] = true
			}
		}
	}
	var classDs []core_domain.CodeDataStruct
	var gotFn []string
	for _, d := range ds {
		switch {
		case isFn[d.NodeName]:
			gotFn = append(gotFn, d.NodeName)
		case nestedOK[d.NodeName]:
		default:
			classDs = append(classDs, d)
		}
	}
	if msg := sameMultiset("module-level functions with a capitalised name", gotFn, wantFn); msg != "" {
		return msg
	}
	return judgePyClasses(classDs, classes)
}

func pyProjectVerdict(p PyProject) pbt.Verdict {
	all := PyModule{}
	for _, m := range p.Modules {
		all.Classes = append(all.Classes, m.Classes...)
		all.Funcs = append(all.Funcs, m.Funcs...)
		all.Imports = append(all.Imports, m.Imports...)
		for _, ft := range m.Features {
			dup := false
			for _, x := range all.Features {
				dup = dup || x == ft
			}
			if !dup {
				all.Features = append(all.Features, ft)
			}
		}
	}
	v := pbt.Verdict{}
	v.Classes, v.NonTrivial = pyClasses(all)
	v.Classes = append(v.Classes, fmt.Sprintf("modules=%d", len(p.Modules)))
	declaredIn := map[string]int{}
	for _, m := range p.Modules {
		for _, c := range m.Classes {
			declaredIn[c.Name]++
		}
		if strings.HasSuffix(m.Path, "__init__.py") || strings.HasPrefix(m.Path, "tests/") || m.Path == "setup.py" {
			v.Classes = append(v.Classes, "module_named_"+filepath.Base(m.Path))
		}
	}
	for _, name := range sortedKeys(declaredIn) {
		if declaredIn[name] > 1 {
			v.Classes = append(v.Classes, "class_name_declared_in_several_modules")
			break
		}
	}
	return v
}

func checkPyProject(p PyProject) pbt.Verdict {
	if p.rejected() {
		pbt.Count("python_rejected_by_shipped_parser", 1)
		return pbt.Verdict{Skip: true}
	}
	dir := cli.Scratch("c20pyproj")
	defer os.RemoveAll(dir)
	cli.WriteTree(dir, p.tree())
	ast_python.VerifResetAstPython()
	resetPythonLexer()
	var ds []core_domain.CodeDataStruct
	if pn := call(func() {
		ds = analysis.CommonAnalysis(new(bytes.Buffer), dir, new(pyapp.PythonIdentApp), cocafile.PythonFileFilter, true)
	}); pn != "" {
		return pbt.Fail("analysis.CommonAnalysis (Python) panicked: %s\n%s", pn, p.render())
	}
	if msg := judgePyDs(ds, p); msg != "" {
		return pbt.Fail("analysis.CommonAnalysis (Python): %s\n%s", msg, p.render())
	}
	return pyProjectVerdict(p)
}

func checkPyCLI(p PyProject) pbt.Verdict {
	if p.rejected() {
		pbt.Count("python_rejected_by_shipped_parser", 1)
		return pbt.Verdict{Skip: true}
	}
	dir := cli.Scratch("c20pycli")
	defer os.RemoveAll(dir)
	cli.WriteTree(dir, p.tree())
	ds, why := runPlugin("coca_py", "pydeps.json", dir, p.CliForm)
	if why != "" {
		return pbt.Fail("analysis/python: %s\n%s", why, p.render())
	}
	if msg := judgePyDs(ds, p); msg != "" {
		return pbt.Fail("analysis/python, pydeps.json: %s\n%s", msg, p.render())
	}
	v := pyProjectVerdict(p)
	v.Classes = append(v.Classes, fmt.Sprintf("cli_form=%d", p.CliForm%5))
	return v
}

// ---------------------------------------------------------------------------------------

func init() {
	pbt.SetProperty("C20")
	pbt.Describe("rapid-generated sources with ground truth. Go files: package clause, 0-4 imports (plain, alias, dot, blank; single or grouped; pairs of paths with the same last element), 1-4 structs with 0-4 fields of ident / pointer / slice / selector / func types (incl. `a, b T`, tags and embedded fields), type names that are a prefix or a suffix of another type name, 0-2 interfaces with 0-3 methods, 0-3 methods per struct on value / pointer / unnamed receivers (method names also used by free functions and by other structs), 0-3 top-level functions with named, grouped or unnamed parameters and results (init possibly twice), bodies of X.F() call statements on packages, receivers, parameters and local variables assigned further up, defer, assignments, unqualified calls, declarations and returns; declarations in usual or shuffled order (methods before their type) or in one type(...) group; every text is checked with go/parser. Go projects: 1-3 such files (+ go.mod), a type name declared in files of several directories, a file named *_test.go, a file with nothing but a package clause. Python modules: 0-4 imports at the top and 0-2 between or after the definitions (import a.b / as c / from x import y, z / parenthesised), 0-4 classes (bases, one-line or multi-line docstring containing the text of a class and a def, attributes, 0-4 methods, an inner class, a property with getter and setter of one name, a comment at column 0 or a line of blanks between the methods), 0-3 functions, decorators with and without arguments on all three (optionally a comment line before the def), nested defs, async def, return annotations, signatures spread over several lines, one-line defs, bodies with if/for/try/with/while blocks, three indentation styles, LF or CRLF, main guard; texts the shipped Python parser rejects are skipped and counted. Python projects: 1-3 modules named app.py / pkg/models.py / pkg/sub/views.py or setup.py / pkg/__init__.py / tests/test_views.py, optional empty package markers, a class name and a capitalised function name declared in several modules. Oracles: each struct / interface / class exactly once per declaration under its own name with its fields (name, type kind, type text), method set, decorators; each top-level function once per declaration with its parameters; each import once (source, alias); each X.F() call statement recorded as often as written; nested defs tolerated as extra entries; declarations of one name (in several files, or getter/setter, or init) are paired one-to-one with the entries of that name. Entry points: CocagoParser.ProcessString / ProcessFile, GoIdentApp.Analysis / IdentAnalysis, PythonIdentApp.Analysis, analysis.CommonAnalysis, and the binaries of analysis/golang and analysis/python (godeps.json / pydeps.json; -p, --path, default and absolute path). Sequences: go_seq uses one CocagoParser and one GoIdentApp for all files of a project and the first file again, and re-reads every earlier result at the end; one py_module case in three analyses a second module / an empty module / the same module afterwards without any reset and re-reads the first result. go_any / py_any add constructs outside the modelled subset and assert crash-freedom only. Non-trivial: Go: >= 2 type declarations of which >= 2 have methods; Python: >= 2 classes and >= 1 decorated definition; *_any: >= 2 extra constructs. Distinct = hash of the case.",
		"type texts follow the model's own convention as pinned by the repository's golden files: element name without * or [], `func` for function types, TypeType Identify/Star/ArrayType/Function/empty; an embedded field has the empty name, like an unnamed parameter",
		"import sources follow BuildImport: module prefix removed, / replaced by .",
		"a deferred X.F() may be recorded once or not at all; entries for assignments, returns and unqualified calls are not judged; parameters of methods are not judged (the statement names the parameters of top-level functions)",
		"godeps.json / pydeps.json list only top-level functions with a capitalised name (BuildMethodDs); other functions are judged on the in-process entry points only",
		"every generated Go text passes go/parser (a rejection aborts the run as a generator bug)")
	pbt.Register("go_file", 3000, 10000, genGoCase, checkGoCase)
	pbt.Register("go_any", 800, 3000, genGoAny, checkGoAny)
	pbt.Register("go_project", 400, 1500, genGoProject, checkGoProject)
	pbt.Register("go_seq", 400, 1500, genGoProject, checkGoSeq)
	pbt.Register("py_plain", 600, 2000, genPyPlain, checkPyPlain)
	pbt.Register("py_module", 1500, 3000, genPyCase, checkPyCase)
	pbt.Register("py_any", 500, 1500, genPyAny, checkPyAny)
	pbt.Register("py_project", 400, 800, genPyProject, checkPyProject)
	pbt.Register("go_cli", 30, 60, genGoProject, checkGoCLI)
	pbt.Register("py_cli", 30, 60, genPyProject, checkPyCLI)
}

func TestProp(t *testing.T)   { pbt.Main(t) }
func TestReplay(t *testing.T) { pbt.Replay(t) }
